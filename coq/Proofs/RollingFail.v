(* Proofs for Model/RollingFail.v: histories in which some appends hit a FAILING
   roller (C06: size accounting stays exact and the size trigger is neither early
   nor deferred after a failed roll; C17: the on-start-up trigger still requests
   at most one rotation per lifetime). *)
From Coq Require Import List NArith Arith Bool Lia.
Import ListNotations.
From L4 Require Import Common.FSRoll Model.Rolling Model.RollingFail Proofs.Rolling.

Lemma process_fail_spec : forall c s v,
  lookup (files s) Active = Some v -> writer s = Some (blen v) ->
  let fire := trigger_fire (trig c) s (blen v) in
  let s' := fst (fst (process_fail c s)) in
  snd (fst (process_fail c s)) = [EConsult (blen v) (blen v) fire]
  /\ snd (process_fail c s) = fire
  /\ files s' = files s
  /\ writer s' = (if fire then None else Some (blen v))
  /\ app s' = app s /\ fired s' = fired_after (trig c) (fired s)
  /\ consults s' = S (consults s).
Proof.
  intros c s v Hv Hw; unfold process_fail; rewrite Hw.
  unfold disk_len; rewrite Hv. cbn [fst snd files writer app fired consults].
  destruct (trigger_fire (trig c) s (blen v)); repeat split; auto.
Qed.

(* what an append with a failing roller does, from a Good state *)
Lemma append_op_fail_spec : forall c chunks s, Good s ->
  let v := content (files s) Active in
  let r := concat chunks in
  let s' := fst (fst (append_op_fail c chunks s)) in
  let ev := snd (fst (append_op_fail c chunks s)) in
  let err := snd (append_op_fail c chunks s) in
  Good s' /\ consults s' = S (consults s) /\ fired s' = fired_after (trig c) (fired s)
  /\ (forall i, lookup (files s') (Arch i) = lookup (files s) (Arch i))
  /\ if is_pre (trig c) then
       let fire := trigger_fire (trig c) s (blen v) in
       ev = EConsult (blen v) (blen v) fire :: (if fire then [] else [EWrote r])
       /\ err = fire
       /\ lookup (files s') Active = Some (if fire then v else v ++ r)
     else
       let fire := trigger_fire (trig c) s (blen (v ++ r)) in
       ev = [EWrote r; EConsult (blen (v ++ r)) (blen (v ++ r)) fire]
       /\ err = fire
       /\ lookup (files s') Active = Some (v ++ r).
Proof.
  intros c chunks s HG v r.
  destruct (get_writer_spec s HG) as (G0 & L0 & W0 & A0 & F0 & C0).
  fold v in L0, W0.
  unfold append_op_fail. destruct (is_pre (trig c)) eqn:Hpre.
  - destruct (process_fail_spec c (get_writer s) v L0 W0) as (P1 & P0 & P2 & P3 & P4 & P5 & P6).
    rewrite (trigger_fire_ext _ s (get_writer s)) in P1, P0, P3 by assumption.
    destruct (process_fail c (get_writer s)) as [[s1 ev1] fire1]; cbn [fst snd] in *.
    subst fire1. set (fire := trigger_fire (trig c) s (blen v)) in *.
    destruct fire; cbn [fst snd].
    + repeat split.
      * rewrite P4. apply G0.
      * intros len H. rewrite P3 in H. discriminate.
      * rewrite P6, C0. reflexivity.
      * rewrite P5, F0. reflexivity.
      * intros i. rewrite P2. apply A0.
      * exact P1.
      * rewrite P2. exact L0.
    + assert (G1 : Good s1).
      { split; [rewrite P4; apply G0|]. intros len H. rewrite P3 in H. injection H as <-.
        exists v. rewrite P2. auto. }
      destruct (get_writer_spec s1 G1) as (G2 & L2 & W2 & A2 & F2 & C2).
      assert (Hc : content (files s1) Active = v) by (unfold content; rewrite P2, L0; reflexivity).
      rewrite Hc in L2, W2.
      destruct (encode_flush_spec chunks _ _ L2 W2) as (E1 & E2 & E3 & E4 & E5 & E6).
      fold r in E1, E2.
      repeat split.
      * rewrite E4. apply G2.
      * intros len H. rewrite E2 in H. injection H as <-. eexists; split; [exact E1|reflexivity].
      * rewrite E6, C2, P6, C0. reflexivity.
      * rewrite E5, F2, P5, F0. reflexivity.
      * intros i. rewrite E3, A2, P2. apply A0.
      * rewrite P1. reflexivity.
      * exact E1.
  - destruct (encode_flush_spec chunks _ _ L0 W0) as (E1 & E2 & E3 & E4 & E5 & E6).
    fold r in E1, E2.
    destruct (process_fail_spec c _ _ E1 E2) as (P1 & P0 & P2 & P3 & P4 & P5 & P6).
    rewrite (trigger_fire_ext _ s (encode_flush chunks (get_writer s))) in P1, P0, P3 by congruence.
    destruct (process_fail c (encode_flush chunks (get_writer s))) as [[s2 ev2] fire2]; cbn [fst snd] in *.
    subst fire2. set (fire := trigger_fire (trig c) s (blen (v ++ r))) in *.
    repeat split.
    + rewrite P4, E4. apply G0.
    + intros len H. rewrite P3 in H. destruct fire; [discriminate|]. injection H as <-.
      exists (v ++ r). rewrite P2. auto.
    + rewrite P6, E6, C0. reflexivity.
    + rewrite P5, E5, F0. reflexivity.
    + intros i. rewrite P2, E3. apply A0.
    + rewrite P1. reflexivity.
    + rewrite P2. exact E1.
Qed.

(* what an append does when the roller rotates and THEN reports failure *)
Lemma append_op_fail_after_spec : forall c chunks s, Good s ->
  let v := content (files s) Active in
  let r := concat chunks in
  let s' := fst (fst (append_op_fail_after c chunks s)) in
  let ev := snd (fst (append_op_fail_after c chunks s)) in
  let err := snd (append_op_fail_after c chunks s) in
  Good s' /\ consults s' = S (consults s) /\ fired s' = fired_after (trig c) (fired s)
  /\ if is_pre (trig c) then
       let fire := trigger_fire (trig c) s (blen v) in
       ev = EConsult (blen v) (blen v) fire :: (if fire then [] else [EWrote r])
       /\ err = fire
       /\ (fire = true -> files s' = do_roll (roll_by c) (files (get_writer s)) /\ writer s' = None)
       /\ (fire = false -> s' = fst (append_op c chunks s))
     else
       let fire := trigger_fire (trig c) s (blen (v ++ r)) in
       ev = [EWrote r; EConsult (blen (v ++ r)) (blen (v ++ r)) fire]
       /\ err = fire
       /\ s' = fst (append_op c chunks s).
Proof.
  intros c chunks s HG v r.
  destruct (get_writer_spec s HG) as (G0 & L0 & W0 & A0 & F0 & C0).
  fold v in L0, W0.
  pose proof (append_op_spec c chunks s HG) as SP. cbv zeta in SP. fold v r in SP.
  destruct SP as (SG & SC & SF & SR).
  unfold append_op_fail_after. unfold append_op in SG, SC, SF, SR |- *. destruct (is_pre (trig c)) eqn:Hpre.
  - destruct (process_spec c (get_writer s) v L0 W0) as (P1 & P2 & P3 & P4 & P5 & P6).
    rewrite (trigger_fire_ext _ s (get_writer s)) in P1, P2, P3 by assumption.
    destruct (process c (get_writer s)) as [s1 ev1]; cbv beta iota zeta in SG, SC, SF, SR |- *; cbn [fst snd] in *.
    set (fire := trigger_fire (trig c) s (blen v)) in *.
    destruct fire.
    + rewrite P3. cbn [fst snd]. repeat split.
      * rewrite P4. apply G0.
      * intros len H. rewrite P3 in H. discriminate.
      * rewrite P6, C0. reflexivity.
      * rewrite P5, F0. reflexivity.
      * exact P1.
      * exact P2.
      * exact P3.
      * intros X; discriminate.
    + rewrite P3. cbn [fst snd]. destruct SR as (Sev & _). destruct SG as [SG1 SG2].
      repeat split; auto; try discriminate.
  - destruct (encode_flush_spec chunks _ _ L0 W0) as (E1 & E2 & E3 & E4 & E5 & E6).
    fold r in E1, E2.
    destruct (process_spec c _ _ E1 E2) as (P1 & P2 & P3 & P4 & P5 & P6).
    rewrite (trigger_fire_ext _ s (encode_flush chunks (get_writer s))) in P1, P2, P3 by congruence.
    destruct (process c (encode_flush chunks (get_writer s))) as [s2 ev2]; cbv beta iota zeta in SG, SC, SF, SR |- *; cbn [fst snd] in *.
    set (fire := trigger_fire (trig c) s (blen (v ++ r))) in *.
    destruct SR as (Sev & _). destruct SG as [SG1 SG2]. repeat split; auto.
    rewrite P3. destruct fire; reflexivity.
Qed.

Lemma xstep_good : forall c o s, Good s -> Good (fst (fst (xstep c o s))).
Proof.
  intros c [o|chunks|chunks] s HG; cbn [xstep fst].
  - apply step_good, HG.
  - apply (append_op_fail_spec c chunks s HG).
  - apply (append_op_fail_after_spec c chunks s HG).
Qed.

Lemma xstep_consult_exact : forall c o s, Good s ->
  Forall consult_exact (snd (fst (xstep c o s))).
Proof.
  intros c [o|chunks|chunks] s HG; cbn [xstep fst snd].
  - apply step_consult_exact, HG.
  - destruct (append_op_fail_spec c chunks s HG) as (_ & _ & _ & _ & H).
    destruct (is_pre (trig c)); destruct H as (-> & _).
    + destruct (trigger_fire _ _ _); repeat constructor.
    + repeat constructor.
  - destruct (append_op_fail_after_spec c chunks s HG) as (_ & _ & _ & H).
    destruct (is_pre (trig c)); destruct H as (-> & _).
    + destruct (trigger_fire _ _ _); repeat constructor.
    + repeat constructor.
Qed.

Lemma xrun_ops_cons : forall c o ops s,
  xrun_ops c (o :: ops) s =
  (fst (xrun_ops c ops (fst (fst (xstep c o s)))),
   (snd (fst (xstep c o s)), snd (xstep c o s)) :: snd (xrun_ops c ops (fst (fst (xstep c o s))))).
Proof.
  intros; cbn [xrun_ops]. destruct (xstep c o s) as [[s1 ev] err]; cbn [fst snd].
  destruct (xrun_ops c ops s1); reflexivity.
Qed.

Lemma xrun_ops_good : forall c ops s, Good s -> Good (fst (xrun_ops c ops s)).
Proof.
  intros c ops; induction ops as [|o ops IH]; intros s HG; [exact HG|].
  rewrite xrun_ops_cons; cbn [fst]. apply IH, xstep_good, HG.
Qed.

Definition xevents (l : list (list event * bool)) : list event := concat (map fst l).

Lemma xrun_ops_consult_exact : forall c ops s, Good s ->
  Forall consult_exact (xevents (snd (xrun_ops c ops s))).
Proof.
  intros c ops; induction ops as [|o ops IH]; intros s HG; [constructor|].
  rewrite xrun_ops_cons; unfold xevents; cbn [snd map concat fst]. apply Forall_app; split.
  - apply xstep_consult_exact, HG.
  - apply IH, xstep_good, HG.
Qed.

(* states reachable by histories with failing rolls *)
Definition xreach (c : config) (s : state) : Prop :=
  exists pre ops, s = fst (xrun_ops c ops (raw pre)).

Lemma xreach_good : forall c s, xreach c s -> Good s.
Proof. intros c s (pre & ops & ->). apply xrun_ops_good, raw_good. Qed.

Lemma xreach_xrun : forall c a0 pre ops, xreach c (fst (xrun c a0 pre ops)).
Proof. intros; unfold xrun. exists pre, (XOp (Restart a0) :: ops). reflexivity. Qed.

(* C06: at every consultation of every history, failed rolls included, the
   length shown is the on-disk size *)
Theorem len_is_disk_size_x : forall c a0 pre ops,
  Forall consult_exact (xevents (snd (xrun c a0 pre ops))).
Proof. intros; unfold xrun. apply xrun_ops_consult_exact, raw_good. Qed.

(* C06: one more append after any such history, size trigger: whether the roller
   then works or fails, the record is written, the policy is consulted once with
   the true size after the write and a rotation is requested iff it exceeds the
   limit; if the roller fails the call returns Err exactly then and the file
   (old content ++ record) stays in place *)
Theorem size_append_exact_x : forall limit rl s chunks,
  let c := {| trig := TSize limit; roll_by := rl |} in
  xreach c s ->
  let sz := (disk_len (files s) + blen (concat chunks))%N in
  let evs := [EWrote (concat chunks); EConsult sz sz (limit <? sz)%N] in
  snd (append_op c chunks s) = evs
  /\ snd (fst (append_op_fail c chunks s)) = evs
  /\ snd (append_op_fail c chunks s) = (limit <? sz)%N
  /\ lookup (files (fst (fst (append_op_fail c chunks s)))) Active
     = Some (content (files s) Active ++ concat chunks).
Proof.
  intros limit rl s chunks c HR sz evs.
  pose proof (xreach_good _ _ HR) as HG.
  assert (Hsz : blen (content (files s) Active ++ concat chunks) = sz).
  { unfold sz. rewrite blen_app, disk_len_content. reflexivity. }
  split.
  - destruct (append_op_spec c chunks s HG) as (_ & _ & _ & H).
    cbn [is_pre trig c] in H. destruct H as (Hev & _). rewrite Hsz in Hev. exact Hev.
  - destruct (append_op_fail_spec c chunks s HG) as (_ & _ & _ & _ & H).
    cbn [is_pre trig c] in H. destruct H as (Hev & Herr & Hact).
    rewrite Hsz in Hev, Herr. cbn [trigger_fire] in Hev, Herr. auto.
Qed.

(* C06: the same for a roller that rotates and THEN reports failure: the policy is consulted with the true size,
   a rotation is requested iff the size exceeds the limit, the call returns Err exactly then - and the appender is
   left exactly as after a successful rotation (directory rotated, writer slot empty, counters advanced) *)
Theorem size_append_fail_after_x : forall limit rl s chunks,
  let c := {| trig := TSize limit; roll_by := rl |} in
  xreach c s ->
  let sz := (disk_len (files s) + blen (concat chunks))%N in
  snd (fst (append_op_fail_after c chunks s)) = [EWrote (concat chunks); EConsult sz sz (limit <? sz)%N]
  /\ snd (append_op_fail_after c chunks s) = (limit <? sz)%N
  /\ fst (fst (append_op_fail_after c chunks s)) = fst (append_op c chunks s).
Proof.
  intros limit rl s chunks c HR sz.
  pose proof (xreach_good _ _ HR) as HG.
  assert (Hsz : blen (content (files s) Active ++ concat chunks) = sz).
  { unfold sz. rewrite blen_app, disk_len_content. reflexivity. }
  destruct (append_op_fail_after_spec c chunks s HG) as (_ & _ & _ & H).
  cbn [is_pre trig c] in H. destruct H as (Hev & Herr & Hst).
  rewrite Hsz in Hev, Herr. cbn [trigger_fire] in Hev, Herr. auto.
Qed.

(* C05: for EVERY trigger and roller - a roller that rotates and then reports failure leaves the appender in the
   state of a successful append whenever the record was written (no Err, or an Err under a post-processing trigger);
   under a pre-processing trigger that fired, the call returns Err, the rotation has happened, the writer slot is
   empty and the record - which was NOT acknowledged - is not written.  So the stream invariant over the acknowledged
   records (C05_stream_suffix_invariant) is that of the same history with working rollers. *)
Theorem fail_after_is_append_or_unacknowledged : forall c chunks s, Good s ->
  let r := append_op_fail_after c chunks s in
  (snd r = false -> fst (fst r) = fst (append_op c chunks s)) /\
  (snd r = true -> is_pre (trig c) = false -> fst (fst r) = fst (append_op c chunks s)) /\
  (snd r = true -> is_pre (trig c) = true ->
     files (fst (fst r)) = do_roll (roll_by c) (files (get_writer s)) /\ writer (fst (fst r)) = None /\
     wrote (snd (fst r)) = []).
Proof.
  intros c chunks s HG r.
  destruct (append_op_fail_after_spec c chunks s HG) as (_ & _ & _ & H). fold r in H.
  destruct (is_pre (trig c)) eqn:Hpre.
  - destruct H as (Hev & Herr & Hfire & Hno). split; [|split].
    + intros E. apply Hno. rewrite <- Herr. exact E.
    + intros _ X; discriminate.
    + intros E _. rewrite Herr in E. destruct (Hfire E) as [F1 F2]. split; [exact F1|]. split; [exact F2|].
      rewrite Hev, E. reflexivity.
  - destruct H as (Hev & Herr & Hst). split; [|split].
    + intros _. exact Hst.
    + intros _ _. exact Hst.
    + intros _ X; discriminate.
Qed.

(* ------------------------------------------------------------------ *)
(* C17 with failing rolls                                              *)

Definition xappend (o : xop) : bool :=
  match o with XOp (Append _) => true | XAppendFail _ => true | XAppendFailAfter _ => true | _ => false end.

Lemma xstep_startup : forall m rl o s,
  let c := {| trig := TStartup m; roll_by := rl |} in
  Good s -> xappend o = true ->
  let fire := negb (fired s) && (m <=? disk_len (files s))%N in
  rolls (snd (fst (xstep c o s))) = (if fire then 1 else 0)
  /\ fired (fst (fst (xstep c o s))) = true.
Proof.
  intros m rl [[chunks|a]|chunks|chunks] s c HG Hx fire; try discriminate; cbn [xstep fst snd step].
  - destruct (startup_append m rl s chunks HG) as (Hev & HF & _). fold c in Hev, HF.
    rewrite Hev. fold fire. split; [destruct fire; reflexivity|exact HF].
  - destruct (append_op_fail_spec c chunks s HG) as (_ & _ & HF & _ & H).
    cbn [is_pre trig c trigger_fire fired_after] in H, HF.
    rewrite <- disk_len_content in H. destruct H as (Hev & _). fold fire in Hev.
    rewrite Hev. split; [destruct fire; reflexivity|exact HF].
  - destruct (append_op_fail_after_spec c chunks s HG) as (_ & _ & HF & H).
    cbn [is_pre trig c trigger_fire fired_after] in H, HF.
    rewrite <- disk_len_content in H. destruct H as (Hev & _). fold fire in Hev.
    rewrite Hev. split; [destruct fire; reflexivity|exact HF].
Qed.

Lemma xrun_startup_fired : forall m rl ops s,
  let c := {| trig := TStartup m; roll_by := rl |} in
  Good s -> fired s = true -> forallb xappend ops = true ->
  rolls (xevents (snd (xrun_ops c ops s))) = 0.
Proof.
  intros m rl ops; induction ops as [|o ops IH]; intros s c HG HF Hall; [reflexivity|].
  cbn [forallb] in Hall. apply andb_true_iff in Hall. destruct Hall as (Ho & Hall).
  rewrite xrun_ops_cons. unfold xevents. cbn [snd map concat fst].
  unfold rolls. rewrite filter_app, app_length.
  destruct (xstep_startup m rl o s HG Ho) as (H1 & H2). fold c in H1, H2.
  rewrite HF in H1. cbn [negb andb] in H1. unfold rolls in H1. rewrite H1.
  apply (IH _ (xstep_good c o s HG) H2 Hall).
Qed.

(* One lifetime (build in any mode over any reachable directory, then appends,
   any of which may hit a failing roller): the trigger requests a rotation at
   most once, and only in the first append, iff the build-time file holds at
   least min_size bytes — whether or not that rotation succeeds. *)
Theorem startup_requests_once_x : forall m rl s a ops,
  let c := {| trig := TStartup m; roll_by := rl |} in
  xreach c s -> forallb xappend ops = true ->
  let s0 := fst (build a (files s) (consults s)) in
  let big := (m <=? disk_len (files s0))%N in
  let per_op := map (fun p => rolls (fst p)) (snd (xrun_ops c ops s0)) in
  per_op = match ops with [] => [] | _ :: rest => (if big then 1 else 0) :: repeat 0 (length rest) end.
Proof.
  intros m rl s a ops c HR Hall s0 big per_op.
  destruct (build_spec a (files s) (consults s)) as (G0 & F0 & _). fold s0 in G0, F0.
  destruct ops as [|o ops]; [reflexivity|].
  cbn [forallb] in Hall. apply andb_true_iff in Hall. destruct Hall as (Ho & Hall).
  subst per_op. rewrite xrun_ops_cons. cbn [snd map fst].
  destruct (xstep_startup m rl o s0 G0 Ho) as (H1 & H2). fold c in H1, H2.
  rewrite F0 in H1. cbn [negb andb] in H1. fold big in H1. rewrite H1. f_equal.
  pose proof (xstep_good c o s0 G0) as G1.
  set (s1 := fst (fst (xstep c o s0))) in *.
  clearbody s1. clear H1 Ho. clear o. revert s1 G1 H2 Hall.
  induction ops as [|o ops IH]; intros s1 G1 H2 Hall; [reflexivity|].
  cbn [forallb] in Hall. apply andb_true_iff in Hall. destruct Hall as (Ho & Hall).
  rewrite xrun_ops_cons. cbn [snd map fst length repeat].
  destruct (xstep_startup m rl o s1 G1 Ho) as (K1 & K2). fold c in K1, K2.
  rewrite H2 in K1. cbn [negb andb] in K1. rewrite K1. f_equal.
  apply IH; [apply xstep_good, G1|exact K2|exact Hall].
Qed.
