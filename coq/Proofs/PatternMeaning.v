(* C09 — the encoder's output on the pieces a well-formed pattern denotes is
   the pattern's meaning (no parser involved here; see PatternParse.v). *)
From Coq Require Import String Ascii.
From Coq Require Import List NArith Bool Lia Arith.
Import ListNotations.
From L4 Require Import Model.Pattern Proofs.PatternSpec Proofs.Pattern.
Local Open Scope N_scope.

Section AstInd.
  Variable P : ast -> Prop.
  Hypothesis Hlit : forall t, P (ALit t).
  Hypothesis Hesc : forall c st, P (AEsc c st).
  Hypothesis Hfmt : forall nm args sp, Forall (Forall P) args -> P (AFmt nm args sp).

  Fixpoint ast_ind' (a : ast) : P a :=
    match a with
    | ALit t => Hlit t
    | AEsc c st => Hesc c st
    | AFmt nm args sp =>
      Hfmt nm args sp
        ((fix outer (l : list (list ast)) : Forall (Forall P) l :=
            match l with
            | [] => Forall_nil _
            | a :: r =>
              Forall_cons a
                ((fix inner (l' : list ast) : Forall P l' :=
                    match l' with
                    | [] => Forall_nil _
                    | x :: r' => Forall_cons x (ast_ind' x) (inner r')
                    end) a)
                (outer r)
            end) args)
    end.
End AstInd.

(* ---------- characters, truncation, padding ---------- *)

Lemma nchars_app : forall a b, nchars (a ++ b) = nchars a + nchars b.
Proof.
  induction a as [|x a IH]; intros b; cbn [app nchars]; [lia|].
  destruct x; rewrite IH; lia.
Qed.

Lemma nchars_repeat : forall f k, nchars (repeat (Ch f) k) = N.of_nat k.
Proof. induction k; cbn [repeat nchars]; [reflexivity|]. rewrite IHk. lia. Qed.

Lemma nchars_padding : forall f n, nchars (padding f n) = n.
Proof. intros. unfold padding. rewrite nchars_repeat. lia. Qed.

Lemma trunc_0 : forall l, nchars (trunc 0 l) = 0.
Proof. induction l as [|x l IH]; cbn; [reflexivity|]. destruct x; cbn; exact IH. Qed.

Lemma trunc_app : forall a M b, trunc M (a ++ b) = trunc M a ++ trunc (M - nchars a) b.
Proof.
  induction a as [|x a IH]; intros M b; cbn [app trunc nchars].
  - f_equal. lia.
  - destruct x as [c|s|].
    + destruct (M =? 0) eqn:E.
      * apply N.eqb_eq in E. subst. rewrite IH. reflexivity.
      * apply N.eqb_neq in E. rewrite IH. cbn [app]. do 3 f_equal. lia.
    + rewrite IH. reflexivity.
    + rewrite IH. reflexivity.
Qed.

Lemma trunc_all : forall l M, nchars l <= M -> trunc M l = l.
Proof.
  induction l as [|x l IH]; intros M H; cbn [trunc]; [reflexivity|].
  destruct x as [c|s|]; cbn [nchars] in H.
  - destruct (M =? 0) eqn:E; [apply N.eqb_eq in E; lia|]. f_equal. apply IH. lia.
  - f_equal. apply IH. exact H.
  - f_equal. apply IH. exact H.
Qed.

Lemma nchars_trunc : forall l M, nchars (trunc M l) = N.min M (nchars l).
Proof.
  induction l as [|x l IH]; intros M; cbn [trunc nchars]; [lia|].
  destruct x as [c|s|].
  - destruct (M =? 0) eqn:E.
    + apply N.eqb_eq in E. subst. rewrite trunc_0. lia.
    + apply N.eqb_neq in E. cbn [nchars]. rewrite IH. lia.
  - cbn [nchars]. apply IH.
  - cbn [nchars]. apply IH.
Qed.

Lemma padding_0 : forall f, padding f 0 = [].
Proof. reflexivity. Qed.

Lemma trunc_nil_r : forall M l, trunc M (l ++ []) = trunc M l.
Proof. intros. rewrite app_nil_r. reflexivity. Qed.

(* the writer composition of Chunk::encode is C10's law `fit` when min <= max *)
Lemma fit_eq : forall p l,
  match p_min p, p_max p with Some m, Some M => m <= M | _, _ => True end ->
  apply_params p l = fit p l.
Proof.
  intros p l H. unfold apply_params, fit.
  destruct (p_min p) as [m|], (p_max p) as [M|]; try reflexivity.
  destruct (N.le_gt_cases (nchars l) M) as [Hn|Hn].
  - rewrite (trunc_all l M Hn).
    unfold pad_side. destruct (p_align p).
    + rewrite trunc_app, (trunc_all l M Hn). f_equal.
      apply trunc_all. rewrite nchars_padding. lia.
    + rewrite trunc_app. rewrite nchars_padding. f_equal.
      * apply trunc_all. rewrite nchars_padding. lia.
      * apply trunc_all. lia.
  - rewrite nchars_trunc.
    replace (m - nchars l) with 0 by lia.
    replace (m - N.min M (nchars l)) with 0 by lia.
    unfold pad_side. destruct (p_align p); rewrite padding_0; cbn [app];
      rewrite ?app_nil_r; reflexivity.
Qed.

(* ---------- names ---------- *)

Lemma str_eqb_eq : forall a b, str_eqb a b = true -> a = b.
Proof.
  induction a as [|x a IH]; intros [|y b]; cbn; try discriminate; [reflexivity|].
  intros H. apply andb_true_iff in H. destruct H as [H1 H2].
  apply N.eqb_eq in H1. subst. f_equal. apply IH. exact H2.
Qed.

Lemma str_eqb_refl : forall a, str_eqb a a = true.
Proof. induction a; cbn; [reflexivity|]. rewrite N.eqb_refl. exact IHa. Qed.

Lemma one_of_true : forall nm a b, one_of nm a b = true -> nm = a \/ nm = b.
Proof.
  unfold one_of. intros nm a b H. apply orb_true_iff in H.
  destruct H as [H|H]; apply str_eqb_eq in H; auto.
Qed.

(* ---------- arguments made of literals and escapes ---------- *)

Lemma date_format_plain : forall arg,
  plain arg = true -> date_format_of (map piece_of arg) = text_of_arg arg.
Proof.
  unfold date_format_of, text_of_arg, plain.
  induction arg as [|a arg IH]; cbn [map flat_map forallb]; [reflexivity|].
  intros H. apply andb_true_iff in H. destruct H as [Ha H].
  rewrite (IH H). destruct a; try discriminate; reflexivity.
Qed.

Lemma literal_pieces_plain : forall what arg,
  plain arg = true -> literal_pieces what (map piece_of arg) = inl (text_of_arg arg).
Proof.
  unfold text_of_arg, plain.
  induction arg as [|a arg IH]; cbn [map flat_map forallb literal_pieces]; [reflexivity|].
  intros H. apply andb_true_iff in H. destruct H as [Ha H].
  destruct a as [t|c st|nm args sp]; try discriminate; cbn [piece_of literal_pieces];
    rewrite (IH H); reflexivity.
Qed.

(* the whole literal argument counts (fixes c13258d / d5a5dce) *)
Lemma literal_arg_plain : forall what arg,
  plain arg = true -> is_nil arg = false ->
  literal_arg what (map piece_of arg) = inl (text_of_arg arg).
Proof.
  intros what arg Hp Hn. destruct arg as [|a arg]; [discriminate|].
  unfold literal_arg. cbn [map]. change (piece_of a :: map piece_of arg) with (map piece_of (a :: arg)).
  apply literal_pieces_plain; exact Hp.
Qed.

(* ---------- the theorem ---------- *)

Section Meaning.
  Variable ok : str -> bool.
  Variable ts : str -> tz -> str.
  Variable e : env.

  Local Notation encc := (enc_chunk ok ts e).
  Local Notation mean := (meaning ts e).

  Lemma widths_params : forall sp,
    widths_ok sp = true ->
    match p_min (params_of sp), p_max (params_of sp) with
    | Some m, Some M => m <= M
    | _, _ => True
    end.
  Proof.
    intros [c fa mn mx]. unfold widths_ok, params_of. cbn.
    destruct mn, mx; cbn; try exact (fun _ => I). intros H. apply N.leb_le. exact H.
  Qed.

  Lemma flat_map_encc : forall arg,
    Forall (fun a => sem_ok ok a = true -> encc (compile ok (piece_of a)) = mean a) arg ->
    forallb (sem_ok ok) arg = true ->
    flat_map encc (map (compile ok) (map piece_of arg)) = flat_map mean arg.
  Proof.
    induction 1 as [|a arg Ha _ IH]; cbn [map flat_map forallb]; [reflexivity|].
    intros H. apply andb_true_iff in H. destruct H as [H1 H2].
    rewrite (Ha H1), (IH H2). reflexivity.
  Qed.

  (* leaf formatters *)
  Lemma leaf_case : forall nm k sp,
    widths_ok sp = true ->
    leaf_name nm = true ->
    enc_leaf ok ts e k = chars (leaf_value e nm) ->
    encc (CLeaf k (params_of sp)) = mean (AFmt nm [] sp).
  Proof.
    intros nm k sp Hw Hl Hk. cbn [enc_chunk meaning]. rewrite Hl, Hk.
    apply fit_eq. apply widths_params. exact Hw.
  Qed.

  (* group formatters *)
  Lemma group_case : forall nm g arg sp,
    widths_ok sp = true ->
    leaf_name nm = false -> group_name nm = true ->
    (forall body, enc_group e g body = group_value e nm body) ->
    Forall (fun a => sem_ok ok a = true -> encc (compile ok (piece_of a)) = mean a) arg ->
    forallb (sem_ok ok) arg = true ->
    encc (CGroup g (map (compile ok) (map piece_of arg)) (params_of sp)) = mean (AFmt nm [arg] sp).
  Proof.
    intros nm g arg sp Hw Hl Hg Hv IH Hs. cbn [enc_chunk meaning]. rewrite Hl, Hg.
    rewrite fit_eq by (apply widths_params; exact Hw).
    f_equal. rewrite Hv. f_equal.
    change (flat_map encc (map (compile ok) (map piece_of arg)) = flat_map mean arg).
    apply flat_map_encc; assumption.
  Qed.

  Lemma date_case : forall nm args sp,
    nm = LIT "d" \/ nm = LIT "date" ->
    widths_ok sp = true ->
    date_args_ok ok args = true ->
    encc (compile_date ok (map (map piece_of) args) (params_of sp)) = mean (AFmt nm args sp).
  Proof.
    intros nm args sp Hn Hw Hd.
    assert (Hm : mean (AFmt nm args sp) = fit (params_of sp) (chars (date_value ts args))).
    { destruct Hn as [-> | ->]; reflexivity. }
    rewrite Hm. clear Hm Hn.
    unfold date_args_ok, fmt_ok in Hd.
    destruct args as [|f [|z [|x r]]].
    - (* {d} *)
      unfold compile_date. cbn [map length Nat.ltb Nat.leb]. rewrite Hd. cbn [negb nth_error].
      cbn [enc_chunk enc_leaf]. rewrite Hd.
      rewrite fit_eq by (apply widths_params; exact Hw). reflexivity.
    - (* {d(fmt)} *)
      apply andb_true_iff in Hd. destruct Hd as [Hp Hf].
      unfold compile_date. cbn [map length Nat.ltb Nat.leb].
      rewrite (date_format_plain f Hp), Hf. cbn [negb nth_error].
      cbn [enc_chunk enc_leaf]. rewrite Hf.
      rewrite fit_eq by (apply widths_params; exact Hw). reflexivity.
    - (* {d(fmt)(zone)} *)
      apply andb_true_iff in Hd. destruct Hd as [Hd Hz].
      apply andb_true_iff in Hd. destruct Hd as [Hd Hzn].
      apply andb_true_iff in Hd. destruct Hd as [Hd Hzp].
      apply andb_true_iff in Hd. destruct Hd as [Hp Hf].
      apply negb_true_iff in Hzn.
      unfold compile_date. cbn [map length Nat.ltb Nat.leb].
      rewrite (date_format_plain f Hp), Hf. cbn [negb nth_error].
      rewrite (literal_arg_plain _ z Hzp Hzn).
      unfold date_value.
      destruct (str_eqb (text_of_arg z) (LIT "utc")) eqn:Eu.
      + cbn [enc_chunk enc_leaf]. rewrite Hf.
        rewrite fit_eq by (apply widths_params; exact Hw). reflexivity.
      + cbn [orb] in Hz. rewrite Hz.
        cbn [enc_chunk enc_leaf]. rewrite Hf.
        rewrite fit_eq by (apply widths_params; exact Hw). reflexivity.
    - discriminate.
  Qed.

  Lemma mdc_case : forall nm args sp,
    nm = LIT "X" \/ nm = LIT "mdc" ->
    widths_ok sp = true ->
    mdc_args_ok args = true ->
    encc (compile_mdc (map (map piece_of) args) (params_of sp)) = mean (AFmt nm args sp).
  Proof.
    intros nm args sp Hn Hw Hd.
    assert (Hm : mean (AFmt nm args sp) = fit (params_of sp) (chars (mdc_value e args))).
    { destruct Hn as [-> | ->]; reflexivity. }
    rewrite Hm. clear Hm Hn.
    unfold mdc_args_ok in Hd.
    destruct args as [|k [|d [|x r]]]; try discriminate.
    - apply andb_true_iff in Hd. destruct Hd as [Hk Hkn]. apply negb_true_iff in Hkn.
      unfold compile_mdc. cbn [map length Nat.ltb Nat.leb].
      rewrite (literal_arg_plain _ k Hk Hkn). cbn [nth_error].
      cbn [enc_chunk enc_leaf].
      rewrite fit_eq by (apply widths_params; exact Hw). reflexivity.
    - apply andb_true_iff in Hd. destruct Hd as [Hd Hdn]. apply negb_true_iff in Hdn.
      apply andb_true_iff in Hd. destruct Hd as [Hd Hkn]. apply negb_true_iff in Hkn.
      apply andb_true_iff in Hd. destruct Hd as [Hk Hdp].
      unfold compile_mdc. cbn [map length Nat.ltb Nat.leb].
      rewrite (literal_arg_plain _ k Hk Hkn). cbn [nth_error].
      rewrite (literal_arg_plain _ d Hdp Hdn).
      cbn [enc_chunk enc_leaf].
      rewrite fit_eq by (apply widths_params; exact Hw). reflexivity.
  Qed.

  Ltac name_case H :=
    apply one_of_true in H; destruct H as [-> | ->].

  Theorem encode_pieces_is_meaning : forall a,
    sem_ok ok a = true -> encc (compile ok (piece_of a)) = mean a.
  Proof.
    induction a as [t|c st|nm args sp IH] using ast_ind'; intros Hs; try reflexivity.
    cbn [piece_of]. rewrite compile_PArg. unfold compile_arg.
    cbn [sem_ok] in Hs. apply andb_true_iff in Hs. destruct Hs as [Hw Hs].
    destruct (one_of nm (LIT "d") (LIT "date")) eqn:E1.
    { assert (Hn := one_of_true _ _ _ E1).
      assert (Hd : date_args_ok ok args = true) by (destruct Hn as [-> | ->]; exact Hs).
      apply date_case; assumption. }
    (* groups *)
    assert (Hgrp : forall g a b,
               nm = a \/ nm = b ->
               leaf_name a = false -> leaf_name b = false ->
               group_name a = true -> group_name b = true ->
               (forall body, enc_group e g body = group_value e a body) ->
               (forall body, enc_group e g body = group_value e b body) ->
               encc (group_chunk (compile ok) g (map (map piece_of) args) (params_of sp))
               = mean (AFmt nm args sp)).
    { intros g a b Hn La Lb Ga Gb Va Vb.
      assert (Hl : leaf_name nm = false) by (destruct Hn as [-> | ->]; assumption).
      assert (Hg : group_name nm = true) by (destruct Hn as [-> | ->]; assumption).
      assert (Hv : forall body, enc_group e g body = group_value e nm body)
        by (destruct Hn as [-> | ->]; assumption).
      rewrite Hl, Hg in Hs.
      destruct args as [|arg [|x r]]; try discriminate.
      inversion IH as [|? ? IHa _]; subst.
      cbn [map group_chunk]. apply group_case; assumption. }
    destruct (one_of nm (LIT "h") (LIT "highlight")) eqn:E2.
    { apply (Hgrp GHighlight _ _ (one_of_true _ _ _ E2)); try reflexivity. }
    destruct (one_of nm (LIT "D") (LIT "debug")) eqn:E3.
    { apply (Hgrp GDebug _ _ (one_of_true _ _ _ E3)); try reflexivity. }
    destruct (one_of nm (LIT "R") (LIT "release")) eqn:E4.
    { apply (Hgrp GRelease _ _ (one_of_true _ _ _ E4)); try reflexivity. }
    (* leaves *)
    assert (Hleaf : forall k a b,
               nm = a \/ nm = b ->
               leaf_name a = true -> leaf_name b = true ->
               enc_leaf ok ts e k = chars (leaf_value e a) ->
               enc_leaf ok ts e k = chars (leaf_value e b) ->
               encc (no_args (map (map piece_of) args) (params_of sp) k) = mean (AFmt nm args sp)).
    { intros k a b Hn La Lb Va Vb.
      assert (Hl : leaf_name nm = true) by (destruct Hn as [-> | ->]; assumption).
      assert (Hv : enc_leaf ok ts e k = chars (leaf_value e nm))
        by (destruct Hn as [-> | ->]; assumption).
      rewrite Hl in Hs. destruct args; [|discriminate].
      cbn [map no_args]. apply leaf_case; assumption. }
    destruct (one_of nm (LIT "l") (LIT "level")) eqn:E5.
    { apply (Hleaf KLevel _ _ (one_of_true _ _ _ E5)); reflexivity. }
    destruct (one_of nm (LIT "m") (LIT "message")) eqn:E6.
    { apply (Hleaf KMessage _ _ (one_of_true _ _ _ E6)); reflexivity. }
    destruct (one_of nm (LIT "M") (LIT "module")) eqn:E7.
    { apply (Hleaf KModule _ _ (one_of_true _ _ _ E7)); reflexivity. }
    destruct (str_eqb nm (LIT "n")) eqn:E8.
    { apply str_eqb_eq in E8.
      apply (Hleaf KNewline (LIT "n") (LIT "n") (or_introl E8)); reflexivity. }
    destruct (one_of nm (LIT "f") (LIT "file")) eqn:E9.
    { apply (Hleaf KFile _ _ (one_of_true _ _ _ E9)); reflexivity. }
    destruct (one_of nm (LIT "L") (LIT "line")) eqn:E10.
    { apply (Hleaf KLine _ _ (one_of_true _ _ _ E10)); reflexivity. }
    destruct (one_of nm (LIT "T") (LIT "thread")) eqn:E11.
    { apply (Hleaf KThread _ _ (one_of_true _ _ _ E11)); reflexivity. }
    destruct (one_of nm (LIT "I") (LIT "thread_id")) eqn:E12.
    { apply (Hleaf KThreadId _ _ (one_of_true _ _ _ E12)); reflexivity. }
    destruct (one_of nm (LIT "P") (LIT "pid")) eqn:E13.
    { apply (Hleaf KPid _ _ (one_of_true _ _ _ E13)); reflexivity. }
    destruct (one_of nm (LIT "i") (LIT "tid")) eqn:E14.
    { apply (Hleaf KSysTid _ _ (one_of_true _ _ _ E14)); reflexivity. }
    destruct (one_of nm (LIT "t") (LIT "target")) eqn:E15.
    { apply (Hleaf KTarget _ _ (one_of_true _ _ _ E15)); reflexivity. }
    destruct (one_of nm (LIT "X") (LIT "mdc")) eqn:E16.
    { assert (Hn := one_of_true _ _ _ E16).
      assert (Hd : mdc_args_ok args = true) by (destruct Hn as [-> | ->]; exact Hs).
      apply mdc_case; assumption. }
    destruct (str_eqb nm []) eqn:E17.
    { apply str_eqb_eq in E17.
      apply (Hgrp GAlign [] [] (or_introl E17)); reflexivity. }
    (* unknown name: not sem_ok *)
    exfalso.
    assert (Hl : leaf_name nm = false).
    { unfold leaf_name, is_name. rewrite E5, E6, E7, E9, E10, E11, E12, E13, E14, E15.
      unfold one_of. rewrite E8. reflexivity. }
    assert (Hg : group_name nm = false).
    { unfold group_name, is_name. rewrite E2, E3, E4, E17. reflexivity. }
    rewrite Hl, Hg in Hs. unfold is_name in Hs. rewrite E1, E16 in Hs. discriminate.
  Qed.

  Theorem encode_seq_is_meaning : forall seq,
    forallb (sem_ok ok) seq = true ->
    encode ok ts e (map (compile ok) (map piece_of seq)) = meaning_seq ts e seq.
  Proof.
    intros seq H. unfold encode, meaning_seq.
    apply flat_map_encc; [|exact H].
    apply Forall_forall. intros a _. apply encode_pieces_is_meaning.
  Qed.
End Meaning.
