(* C09 — the encoder's output on the pieces a well-formed pattern denotes is
   the pattern's meaning (no parser involved here; see PatternParse.v). *)
From Coq Require Import String Ascii.
From Coq Require Import List NArith Bool Lia Arith.
Import ListNotations.
From L4 Require Import Model.Pattern Proofs.PatternSpec Proofs.Pattern.
Local Open Scope N_scope.

Section AstInd.
  Variable P : ast -> Prop.
  Hypothesis Hlit : forall t, P (ALit t).
  Hypothesis Hesc : forall c st, P (AEsc c st).
  Hypothesis Hfmt : forall nm args sp, Forall (Forall P) args -> P (AFmt nm args sp).

  Fixpoint ast_ind' (a : ast) : P a :=
    match a with
    | ALit t => Hlit t
    | AEsc c st => Hesc c st
    | AFmt nm args sp =>
      Hfmt nm args sp
        ((fix outer (l : list (list ast)) : Forall (Forall P) l :=
            match l with
            | [] => Forall_nil _
            | a :: r =>
              Forall_cons a
                ((fix inner (l' : list ast) : Forall P l' :=
                    match l' with
                    | [] => Forall_nil _
                    | x :: r' => Forall_cons x (ast_ind' x) (inner r')
                    end) a)
                (outer r)
            end) args)
    end.
End AstInd.

(* ---------- characters, truncation, padding ---------- *)

Lemma nchars_app : forall a b, nchars (a ++ b) = nchars a + nchars b.
Proof.
  induction a as [|x a IH]; intros b; cbn [app nchars]; [lia|].
  destruct x; rewrite IH; lia.
Qed.

Lemma nchars_repeat : forall f k, nchars (repeat (Ch f) k) = N.of_nat k.
Proof. induction k; cbn [repeat nchars]; [reflexivity|]. rewrite IHk. lia. Qed.

Lemma nchars_padding : forall f n, nchars (padding f n) = n.
Proof. intros. unfold padding. rewrite nchars_repeat. lia. Qed.

Lemma trunc_0 : forall l, nchars (trunc 0 l) = 0.
Proof. induction l as [|x l IH]; cbn; [reflexivity|]. destruct x; cbn; exact IH. Qed.

Lemma trunc_app : forall a M b, trunc M (a ++ b) = trunc M a ++ trunc (M - nchars a) b.
Proof.
  induction a as [|x a IH]; intros M b; cbn [app trunc nchars].
  - f_equal. lia.
  - destruct x as [c|s|].
    + destruct (M =? 0) eqn:E.
      * apply N.eqb_eq in E. subst. rewrite IH. reflexivity.
      * apply N.eqb_neq in E. rewrite IH. cbn [app]. do 3 f_equal. lia.
    + rewrite IH. reflexivity.
    + rewrite IH. reflexivity.
Qed.

Lemma trunc_all : forall l M, nchars l <= M -> trunc M l = l.
Proof.
  induction l as [|x l IH]; intros M H; cbn [trunc]; [reflexivity|].
  destruct x as [c|s|]; cbn [nchars] in H.
  - destruct (M =? 0) eqn:E; [apply N.eqb_eq in E; lia|]. f_equal. apply IH. lia.
  - f_equal. apply IH. exact H.
  - f_equal. apply IH. exact H.
Qed.

Lemma nchars_trunc : forall l M, nchars (trunc M l) = N.min M (nchars l).
Proof.
  induction l as [|x l IH]; intros M; cbn [trunc nchars]; [lia|].
  destruct x as [c|s|].
  - destruct (M =? 0) eqn:E.
    + apply N.eqb_eq in E. subst. rewrite trunc_0. lia.
    + apply N.eqb_neq in E. cbn [nchars]. rewrite IH. lia.
  - cbn [nchars]. apply IH.
  - cbn [nchars]. apply IH.
Qed.

Lemma padding_0 : forall f, padding f 0 = [].
Proof. reflexivity. Qed.

Lemma trunc_nil_r : forall M l, trunc M (l ++ []) = trunc M l.
Proof. intros. rewrite app_nil_r. reflexivity. Qed.

(* the writer composition of Chunk::encode is C10's law `fit` when min <= max *)
Lemma fit_eq : forall p l,
  match p_min p, p_max p with Some m, Some M => m <= M | _, _ => True end ->
  apply_params p l = fit p l.
Proof.
  intros p l H. unfold apply_params, fit.
  destruct (p_min p) as [m|], (p_max p) as [M|]; try reflexivity.
  destruct (N.le_gt_cases (nchars l) M) as [Hn|Hn].
  - rewrite (trunc_all l M Hn).
    unfold pad_side. destruct (p_align p).
    + rewrite trunc_app, (trunc_all l M Hn). f_equal.
      apply trunc_all. rewrite nchars_padding. lia.
    + rewrite trunc_app. rewrite nchars_padding. f_equal.
      * apply trunc_all. rewrite nchars_padding. lia.
      * apply trunc_all. lia.
  - rewrite nchars_trunc.
    replace (m - nchars l) with 0 by lia.
    replace (m - N.min M (nchars l)) with 0 by lia.
    unfold pad_side. destruct (p_align p); rewrite padding_0; cbn [app];
      rewrite ?app_nil_r; reflexivity.
Qed.

(* ---------- names ---------- *)

Lemma str_eqb_eq : forall a b, str_eqb a b = true -> a = b.
Proof.
  induction a as [|x a IH]; intros [|y b]; cbn; try discriminate; [reflexivity|].
  intros H. apply andb_true_iff in H. destruct H as [H1 H2].
  apply N.eqb_eq in H1. subst. f_equal. apply IH. exact H2.
Qed.

Lemma str_eqb_refl : forall a, str_eqb a a = true.
Proof. induction a; cbn; [reflexivity|]. rewrite N.eqb_refl. exact IHa. Qed.

Lemma one_of_true : forall nm a b, one_of nm a b = true -> nm = a \/ nm = b.
Proof.
  unfold one_of. intros nm a b H. apply orb_true_iff in H.
  destruct H as [H|H]; apply str_eqb_eq in H; auto.
Qed.
