(* C16 — facts about the calendar model (Model/Civil.v).
   Technique: every function is periodic in the 400-year era (146097 days,
   a multiple of 7), so a boolean statement checked by vm_compute on one era
   [0, 146097) holds for every day number (lemma `era_lift`). *)
From Coq Require Import ZArith Lia List Bool.
From L4 Require Import Model.Civil.
Import ListNotations.
Local Open Scope Z_scope.

(* ---------- finite sweep + periodicity ---------- *)

Fixpoint zrange (s : Z) (n : nat) : list Z :=
  match n with O => [] | S k => s :: zrange (s + 1) k end.

Lemma zrange_in : forall n s x, s <= x < s + Z.of_nat n -> In x (zrange s n).
Proof.
  induction n as [|n IH]; intros s x H.
  - simpl in H. lia.
  - cbn [zrange]. destruct (Z.eq_dec s x) as [->|Hne]; [left; reflexivity|right].
    apply IH. lia.
Qed.

Lemma periodic_shift (p : Z) (P : Z -> bool) :
  (forall z, P (z + p) = P z) -> forall k r, P (r + k * p) = P r.
Proof.
  intros Hp.
  assert (Hpos : forall k, 0 <= k -> forall r, P (r + k * p) = P r).
  { intros k Hk. pattern k. apply natlike_ind; [| |exact Hk].
    - intros r. f_equal. lia.
    - intros x Hx IH r. replace (r + Z.succ x * p) with ((r + x * p) + p) by lia.
      rewrite Hp. apply IH. }
  intros k r. destruct (Z_le_gt_dec 0 k) as [H|H].
  - apply Hpos; exact H.
  - rewrite <- (Hpos (- k) ltac:(lia) (r + k * p)). f_equal. lia.
Qed.

Lemma era_lift (p : Z) (P : Z -> bool) :
  0 < p ->
  (forall z, P (z + p) = P z) ->
  forallb P (zrange 0 (Z.to_nat p)) = true ->
  forall z, P z = true.
Proof.
  intros Hp Hper Hall z.
  rewrite (Z.div_mod z p) by lia.
  replace (p * (z / p) + z mod p) with (z mod p + (z / p) * p) by lia.
  rewrite periodic_shift by exact Hper.
  rewrite forallb_forall in Hall. apply Hall. apply zrange_in.
  pose proof (Z.mod_pos_bound z p Hp). lia.
Qed.

(* ---------- periodicity of the model functions ---------- *)

Lemma dfc_periodic : forall y m d,
  days_from_civil (y + 400) m d = days_from_civil y m d + 146097.
Proof.
  intros y m d. unfold days_from_civil.
  destruct (m <=? 2).
  - replace (y + 400 - 1) with (y - 1 + 1 * 400) by lia.
    rewrite Z.div_add, Z.mod_add by lia. lia.
  - replace (y + 400) with (y + 1 * 400) by lia.
    rewrite Z.div_add, Z.mod_add by lia. lia.
Qed.

Lemma cfd_periodic : forall z,
  civil_from_days (z + 146097) =
  let '(y, m, d) := civil_from_days z in (y + 400, m, d).
Proof.
  intros z. unfold civil_from_days.
  replace (z + 146097 + 719468) with (z + 719468 + 1 * 146097) by lia.
  rewrite Z.div_add, Z.mod_add by lia.
  destruct (civil_of_doe ((z + 719468) mod 146097)) as [[yy m] d].
  f_equal. f_equal. lia.
Qed.

Lemma year_of_periodic : forall z, year_of (z + 146097) = year_of z + 400.
Proof.
  intros z. unfold year_of. rewrite cfd_periodic.
  destruct (civil_from_days z) as [[y m] d]. reflexivity.
Qed.

Lemma weekday_periodic : forall z, weekday_mon (z + 146097) = weekday_mon z.
Proof.
  intros z. unfold weekday_mon.
  replace (z + 146097 + 3) with (z + 3 + 20871 * 7) by lia.
  apply Z.mod_add. lia.
Qed.

Lemma ordinal0_periodic : forall z, ordinal0 (z + 146097) = ordinal0 z.
Proof.
  intros z. unfold ordinal0. rewrite year_of_periodic, dfc_periodic. lia.
Qed.

Lemma is_leap_periodic : forall y, is_leap (y + 400) = is_leap y.
Proof.
  intros y. unfold is_leap.
  replace (y + 400) with (y + 100 * 4) at 1 by lia.
  replace (y + 400) with (y + 4 * 100) at 1 by lia.
  replace (y + 400) with (y + 1 * 400) by lia.
  rewrite !Z.mod_add by lia. reflexivity.
Qed.

Lemma iso_weeks_periodic : forall y, iso_weeks_in_year (y + 400) = iso_weeks_in_year y.
Proof.
  intros y. unfold iso_weeks_in_year.
  rewrite dfc_periodic, weekday_periodic, is_leap_periodic. reflexivity.
Qed.

Lemma iso_week0_periodic : forall z, iso_week0 (z + 146097) = iso_week0 z.
Proof.
  intros z. unfold iso_week0.
  rewrite year_of_periodic, ordinal0_periodic, weekday_periodic.
  replace (year_of z + 400 - 1) with (year_of z - 1 + 400) by lia.
  rewrite !iso_weeks_periodic. reflexivity.
Qed.

(* ---------- month starts ---------- *)

(* day number of the first day of month number k, counted from January of year 0 *)
Definition month_start (k : Z) : Z := days_from_civil (k / 12) (k mod 12 + 1) 1.

Lemma month_start_periodic : forall k, month_start (k + 4800) = month_start k + 146097.
Proof.
  intros k. unfold month_start.
  replace (k + 4800) with (k + 400 * 12) by lia.
  rewrite Z.div_add, Z.mod_add by lia. apply dfc_periodic.
Qed.

Lemma month_start_step : forall k, month_start k < month_start (k + 1).
Proof.
  intros k.
  assert (H : (fun k => month_start k <? month_start (k + 1)) k = true).
  { apply (era_lift 4800); [lia| |vm_compute; reflexivity].
    intros z. replace (z + 4800 + 1) with (z + 1 + 4800) by lia.
    rewrite !month_start_periodic.
    destruct (month_start z <? month_start (z + 1)) eqn:E.
    - apply Z.ltb_lt in E. apply Z.ltb_lt. lia.
    - apply Z.ltb_ge in E. apply Z.ltb_ge. lia. }
  cbv beta in H. apply Z.ltb_lt. exact H.
Qed.

Lemma month_start_mono : forall k1 k2, k1 < k2 -> month_start k1 < month_start k2.
Proof.
  intros k1 k2 H.
  replace k2 with (k1 + 1 + (k2 - k1 - 1)) by lia.
  assert (Hd : 0 <= k2 - k1 - 1) by lia.
  generalize (k2 - k1 - 1) Hd. intros d Hd'. pattern d.
  apply natlike_ind; [| |exact Hd'].
  - rewrite Z.add_0_r. apply month_start_step.
  - intros x Hx IH. pose proof (month_start_step (k1 + 1 + x)).
    replace (k1 + 1 + Z.succ x) with (k1 + 1 + x + 1) by lia. lia.
Qed.

Lemma month_start_mono_le : forall k1 k2, k1 <= k2 -> month_start k1 <= month_start k2.
Proof.
  intros k1 k2 H. destruct (Z.eq_dec k1 k2) as [->|Hne]; [lia|].
  pose proof (month_start_mono k1 k2). lia.
Qed.

Lemma dfc_linear_day : forall y m d, days_from_civil y m d = days_from_civil y m 1 + (d - 1).
Proof. intros. unfold days_from_civil. lia. Qed.

Lemma month_start_ym : forall y m, 1 <= m <= 12 ->
  month_start (12 * y + (m - 1)) = days_from_civil y m 1.
Proof.
  intros y m H. unfold month_start.
  replace (12 * y + (m - 1)) with (m - 1 + y * 12) by lia.
  rewrite Z.div_add, Z.mod_add by lia.
  rewrite Z.div_small, Z.mod_small by lia.
  f_equal; lia.
Qed.

(* ---------- the round trip and field ranges ---------- *)

Definition civil_ok (z : Z) : bool :=
  let '(y, m, d) := civil_from_days z in
  (days_from_civil y m d =? z) && (1 <=? m) && (m <=? 12) && (1 <=? d) && (d <=? 31)
  && (z <? month_start (12 * y + m)).

Lemma civil_ok_all : forall z, civil_ok z = true.
Proof.
  apply (era_lift 146097); [lia| |vm_compute; reflexivity].
  intros z. unfold civil_ok. rewrite cfd_periodic.
  destruct (civil_from_days z) as [[y m] d].
  rewrite dfc_periodic.
  replace (12 * (y + 400) + m) with (12 * y + m + 4800) by lia.
  rewrite month_start_periodic.
  f_equal; [f_equal; [f_equal; [f_equal; [f_equal|]|]|]|]; try reflexivity.
  - destruct (days_from_civil y m d =? z) eqn:E.
    + apply Z.eqb_eq in E. apply Z.eqb_eq. lia.
    + apply Z.eqb_neq in E. apply Z.eqb_neq. lia.
  - destruct (z <? month_start (12 * y + m)) eqn:E.
    + apply Z.ltb_lt in E. apply Z.ltb_lt. lia.
    + apply Z.ltb_ge in E. apply Z.ltb_ge. lia.
Qed.

(* civil_from_days is a right inverse of days_from_civil, its month and day are in
   range, and the day lies inside the month it names *)
Lemma civil_from_days_spec : forall z y m d,
  civil_from_days z = (y, m, d) ->
  days_from_civil y m d = z /\ 1 <= m <= 12 /\ 1 <= d <= 31 /\
  month_start (12 * y + (m - 1)) <= z < month_start (12 * y + (m - 1) + 1).
Proof.
  intros z y m d E. pose proof (civil_ok_all z) as H. unfold civil_ok in H. rewrite E in H.
  repeat (apply andb_prop in H; destruct H as [H ?]).
  apply Z.eqb_eq in H. apply Z.leb_le in H0, H1, H2, H3. apply Z.ltb_lt in H4.
  repeat split; try lia.
  - rewrite month_start_ym by lia. rewrite (dfc_linear_day y m d) in H. lia.
  - replace (12 * y + (m - 1) + 1) with (12 * y + m) by lia. exact H4.
Qed.

Lemma year_of_bounds : forall z,
  days_from_civil (year_of z) 1 1 <= z < days_from_civil (year_of z + 1) 1 1.
Proof.
  intros z. unfold year_of. destruct (civil_from_days z) as [[y m] d] eqn:E. cbn [fst].
  destruct (civil_from_days_spec _ _ _ _ E) as (_ & Hm & _ & Hlo & Hhi).
  rewrite <- (month_start_ym y 1), <- (month_start_ym (y + 1) 1) by lia.
  pose proof (month_start_mono_le (12 * y + (1 - 1)) (12 * y + (m - 1)) ltac:(lia)).
  pose proof (month_start_mono_le (12 * y + (m - 1) + 1) (12 * (y + 1) + (1 - 1)) ltac:(lia)).
  lia.
Qed.

Lemma ordinal0_nonneg : forall z, 0 <= ordinal0 z.
Proof. intros z. unfold ordinal0. pose proof (year_of_bounds z). lia. Qed.

(* ---------- ISO weeks ---------- *)

(* Monday of the ISO week that contains 4 January of year y = first day of ISO year y *)
Definition iso_year_start (y : Z) : Z :=
  let j4 := days_from_civil y 1 4 in j4 - weekday_mon j4.

(* the ISO year a day belongs to *)
Definition iso_year (z : Z) : Z :=
  let y := year_of z in
  if z <? iso_year_start y then y - 1
  else if iso_year_start (y + 1) <=? z then y + 1
  else y.

Lemma iso_year_start_periodic : forall y, iso_year_start (y + 400) = iso_year_start y + 146097.
Proof.
  intros y. unfold iso_year_start. rewrite dfc_periodic, weekday_periodic. lia.
Qed.

Lemma iso_year_periodic : forall z, iso_year (z + 146097) = iso_year z + 400.
Proof.
  intros z. unfold iso_year. rewrite year_of_periodic.
  replace (year_of z + 400 + 1) with (year_of z + 1 + 400) by lia.
  rewrite !iso_year_start_periodic.
  destruct (z <? iso_year_start (year_of z)) eqn:E1.
  - apply Z.ltb_lt in E1.
    replace (z + 146097 <? iso_year_start (year_of z) + 146097) with true
      by (symmetry; apply Z.ltb_lt; lia). lia.
  - apply Z.ltb_ge in E1.
    replace (z + 146097 <? iso_year_start (year_of z) + 146097) with false
      by (symmetry; apply Z.ltb_ge; lia).
    destruct (iso_year_start (year_of z + 1) <=? z) eqn:E2.
    + apply Z.leb_le in E2.
      replace (iso_year_start (year_of z + 1) + 146097 <=? z + 146097) with true
        by (symmetry; apply Z.leb_le; lia). lia.
    + apply Z.leb_gt in E2.
      replace (iso_year_start (year_of z + 1) + 146097 <=? z + 146097) with false
        by (symmetry; apply Z.leb_gt; lia). lia.
Qed.

Definition iso_ok (z : Z) : bool :=
  let s := iso_year_start (iso_year z) in
  (z - weekday_mon z =? s + 7 * iso_week0 z) && (0 <=? iso_week0 z) && (iso_week0 z <=? 52)
  && (s <=? z) && (z <? iso_year_start (iso_year z + 1)).

Lemma iso_ok_all : forall z, iso_ok z = true.
Proof.
  apply (era_lift 146097); [lia| |vm_compute; reflexivity].
  intros z. unfold iso_ok. rewrite iso_year_periodic, iso_week0_periodic, weekday_periodic.
  replace (iso_year z + 400 + 1) with (iso_year z + 1 + 400) by lia.
  rewrite !iso_year_start_periodic.
  f_equal; [f_equal; [f_equal; [f_equal|]|]|]; try reflexivity.
  - destruct (z - weekday_mon z =? iso_year_start (iso_year z) + 7 * iso_week0 z) eqn:E.
    + apply Z.eqb_eq in E. apply Z.eqb_eq. lia.
    + apply Z.eqb_neq in E. apply Z.eqb_neq. lia.
  - destruct (iso_year_start (iso_year z) <=? z) eqn:E.
    + apply Z.leb_le in E. apply Z.leb_le. lia.
    + apply Z.leb_gt in E. apply Z.leb_gt. lia.
  - destruct (z <? iso_year_start (iso_year z + 1)) eqn:E.
    + apply Z.ltb_lt in E. apply Z.ltb_lt. lia.
    + apply Z.ltb_ge in E. apply Z.ltb_ge. lia.
Qed.

(* chrono's week0 counts whole weeks from the first Monday of the ISO year that
   contains the day *)
Lemma iso_week0_spec : forall z,
  z - weekday_mon z = iso_year_start (iso_year z) + 7 * iso_week0 z /\
  0 <= iso_week0 z <= 52 /\
  iso_year_start (iso_year z) <= z < iso_year_start (iso_year z + 1).
Proof.
  intros z. pose proof (iso_ok_all z) as H. unfold iso_ok in H.
  repeat (apply andb_prop in H; destruct H as [H ?]).
  apply Z.eqb_eq in H. apply Z.leb_le in H0, H1, H2. apply Z.ltb_lt in H3. lia.
Qed.

Lemma weekday_bounds : forall z, 0 <= weekday_mon z <= 6.
Proof. intros z. unfold weekday_mon. pose proof (Z.mod_pos_bound (z + 3) 7). lia. Qed.
