(* C16 — facts about the calendar model (Model/Civil.v).
   The round trip days_from_civil (civil_from_days z) = z, the field ranges and the
   month bounds are proved by linear arithmetic (lia over floor divisions) from one
   per-year fact: the year-of-era formula is right on the first and last day of each
   of the 400 years of an era (sweep of 400 values) and monotone in between.
   Month starts are strictly increasing (sweep of the 4800 months of an era, lifted
   by periodicity, lemma `era_lift`).  Everything about ISO weeks is derived by
   linear arithmetic from one per-year fact (an ISO year has iso_weeks_in_year whole
   weeks; sweep of 400 years, lifted by periodicity). *)
From Coq Require Import ZArith Lia List Bool.
From L4 Require Import Model.Civil.
From L4 Require Export Proofs.CivilSweep.
Import ListNotations.
Local Open Scope Z_scope.

(* ---------- periodicity lifts a checked era to all of Z ---------- *)

Lemma periodic_shift (p : Z) (P : Z -> bool) :
  (forall z, P (z + p) = P z) -> forall k r, P (r + k * p) = P r.
Proof.
  intros Hp.
  assert (Hpos : forall k, 0 <= k -> forall r, P (r + k * p) = P r).
  { intros k Hk. pattern k. apply natlike_ind; [| |exact Hk].
    - intros r. f_equal. lia.
    - intros x Hx IH r. replace (r + Z.succ x * p) with ((r + x * p) + p) by lia.
      rewrite Hp. apply IH. }
  intros k r. destruct (Z_le_gt_dec 0 k) as [H|H].
  - apply Hpos; exact H.
  - rewrite <- (Hpos (- k) ltac:(lia) (r + k * p)). f_equal. lia.
Qed.

Lemma era_lift (p : positive) (P : Z -> bool) :
  (forall z, P (z + Zpos p) = P z) ->
  chk P p 0 = true ->
  forall z, P z = true.
Proof.
  intros Hper Hall z.
  assert (Hp : 0 < Zpos p) by lia.
  rewrite (Z.div_mod z (Zpos p)) by lia.
  replace (Zpos p * (z / Zpos p) + z mod Zpos p) with (z mod Zpos p + (z / Zpos p) * Zpos p) by lia.
  rewrite periodic_shift by exact Hper.
  apply (chk_sound P p 0 Hall).
  pose proof (Z.mod_pos_bound z (Zpos p) Hp). lia.
Qed.

(* ---------- periodicity of the model functions ---------- *)

Lemma dfc_periodic : forall y m d,
  days_from_civil (y + 400) m d = days_from_civil y m d + 146097.
Proof.
  intros y m d. unfold days_from_civil.
  destruct (m <=? 2).
  - replace (y + 400 - 1) with (y - 1 + 1 * 400) by lia.
    rewrite Z.div_add, Z.mod_add by lia. lia.
  - replace (y + 400) with (y + 1 * 400) by lia.
    rewrite Z.div_add, Z.mod_add by lia. lia.
Qed.

Lemma cfd_periodic : forall z,
  civil_from_days (z + 146097) =
  let '(y, m, d) := civil_from_days z in (y + 400, m, d).
Proof.
  intros z. unfold civil_from_days.
  replace (z + 146097 + 719468) with (z + 719468 + 1 * 146097) by lia.
  rewrite Z.div_add, Z.mod_add by lia.
  destruct (civil_of_doe ((z + 719468) mod 146097)) as [[yy m] d].
  f_equal. f_equal. lia.
Qed.

Lemma year_of_periodic : forall z, year_of (z + 146097) = year_of z + 400.
Proof.
  intros z. unfold year_of. rewrite cfd_periodic.
  destruct (civil_from_days z) as [[y m] d]. reflexivity.
Qed.

Lemma weekday_periodic : forall z, weekday_mon (z + 146097) = weekday_mon z.
Proof.
  intros z. unfold weekday_mon.
  replace (z + 146097 + 3) with (z + 3 + 20871 * 7) by lia.
  apply Z.mod_add. lia.
Qed.

Lemma ordinal0_periodic : forall z, ordinal0 (z + 146097) = ordinal0 z.
Proof.
  intros z. unfold ordinal0. rewrite year_of_periodic, dfc_periodic. lia.
Qed.

Lemma is_leap_periodic : forall y, is_leap (y + 400) = is_leap y.
Proof.
  intros y. unfold is_leap.
  replace (y + 400) with (y + 100 * 4) at 1 by lia.
  replace (y + 400) with (y + 4 * 100) at 1 by lia.
  replace (y + 400) with (y + 1 * 400) by lia.
  rewrite !Z.mod_add by lia. reflexivity.
Qed.

Lemma iso_weeks_periodic : forall y, iso_weeks_in_year (y + 400) = iso_weeks_in_year y.
Proof.
  intros y. unfold iso_weeks_in_year.
  rewrite dfc_periodic, weekday_periodic, is_leap_periodic. reflexivity.
Qed.

Lemma iso_week0_periodic : forall z, iso_week0 (z + 146097) = iso_week0 z.
Proof.
  intros z. unfold iso_week0.
  rewrite year_of_periodic, ordinal0_periodic, weekday_periodic.
  replace (year_of z + 400 - 1) with (year_of z - 1 + 400) by lia.
  rewrite !iso_weeks_periodic. reflexivity.
Qed.

(* ---------- month starts ---------- *)

Lemma month_start_periodic : forall k, month_start (k + 4800) = month_start k + 146097.
Proof.
  intros k. unfold month_start.
  replace (k + 4800) with (k + 400 * 12) by lia.
  rewrite Z.div_add, Z.mod_add by lia. apply dfc_periodic.
Qed.

Lemma month_start_step : forall k, month_start k < month_start (k + 1).
Proof.
  intros k.
  assert (H : month_step_ok k = true).
  { revert k. apply (era_lift 4800); [|exact month_step_era].
    intros z. unfold month_step_ok. replace (z + 4800 + 1) with (z + 1 + 4800) by lia.
    rewrite !month_start_periodic.
    destruct (month_start z <? month_start (z + 1)) eqn:E.
    - apply Z.ltb_lt in E. apply Z.ltb_lt. lia.
    - apply Z.ltb_ge in E. apply Z.ltb_ge. lia. }
  unfold month_step_ok in H. apply Z.ltb_lt. exact H.
Qed.

Lemma month_start_mono : forall k1 k2, k1 < k2 -> month_start k1 < month_start k2.
Proof.
  intros k1 k2 H.
  replace k2 with (k1 + 1 + (k2 - k1 - 1)) by lia.
  assert (Hd : 0 <= k2 - k1 - 1) by lia.
  generalize (k2 - k1 - 1) Hd. intros d Hd'. pattern d.
  apply natlike_ind; [| |exact Hd'].
  - rewrite Z.add_0_r. apply month_start_step.
  - intros x Hx IH. pose proof (month_start_step (k1 + 1 + x)).
    replace (k1 + 1 + Z.succ x) with (k1 + 1 + x + 1) by lia. lia.
Qed.

Lemma month_start_mono_le : forall k1 k2, k1 <= k2 -> month_start k1 <= month_start k2.
Proof.
  intros k1 k2 H. destruct (Z.eq_dec k1 k2) as [->|Hne]; [lia|].
  pose proof (month_start_mono k1 k2). lia.
Qed.

Lemma dfc_linear_day : forall y m d, days_from_civil y m d = days_from_civil y m 1 + (d - 1).
Proof. intros. unfold days_from_civil. lia. Qed.

Lemma month_start_ym : forall y m, 1 <= m <= 12 ->
  month_start (12 * y + (m - 1)) = days_from_civil y m 1.
Proof.
  intros y m H. unfold month_start.
  replace (12 * y + (m - 1)) with (m - 1 + y * 12) by lia.
  rewrite Z.div_add, Z.mod_add by lia.
  rewrite Z.div_small, Z.mod_small by lia.
  f_equal; lia.
Qed.

(* ---------- the round trip and field ranges (arithmetic) ---------- *)

Lemma g_mono : forall a b, 0 <= a <= b -> b < 146097 ->
  a - a / 1460 + a / 36524 - a / 146096 <= b - b / 1460 + b / 36524 - b / 146096.
Proof. intros a b H1 H2. Z.div_mod_to_equations; lia. Qed.

Lemma yoe_mono : forall a b, 0 <= a <= b -> b < 146097 -> yoe_of a <= yoe_of b.
Proof. intros a b H1 H2. unfold yoe_of. apply Z.div_le_mono; [lia|]. apply g_mono; assumption. Qed.

Lemma ys_step : forall y, 0 <= y -> 365 <= ys (y + 1) - ys y <= 366.
Proof. intros y H. unfold ys. Z.div_mod_to_equations; lia. Qed.

Lemma ysb_lt400 : forall y, y < 400 -> ysb y = ys y.
Proof. intros y H. unfold ysb. replace (400 <=? y) with false by (symmetry; apply Z.leb_gt; lia). lia. Qed.

Lemma ysb_400 : ysb 400 = 146097.
Proof. reflexivity. Qed.

Lemma ysb_step : forall y, 0 <= y < 400 -> 365 <= ysb (y + 1) - ys y <= 366.
Proof.
  intros y H. destruct (Z.eq_dec y 399) as [->|Hne].
  - vm_compute. split; discriminate.
  - rewrite ysb_lt400 by lia. apply ys_step. lia.
Qed.

Lemma find_year : forall n : nat, (n <= 400)%nat -> forall doe, 0 <= doe < ysb (Z.of_nat n) ->
  exists Y, 0 <= Y < Z.of_nat n /\ ys Y <= doe < ysb (Y + 1).
Proof.
  induction n as [|n IH]; intros Hn doe Hd.
  - change (ysb (Z.of_nat 0)) with 0 in Hd. lia.
  - rewrite Nat2Z.inj_succ in *. unfold Z.succ in *.
    destruct (Z_lt_ge_dec doe (ys (Z.of_nat n))) as [Hlt|Hge].
    + destruct (IH ltac:(lia) doe) as (Y & HY & HB).
      * rewrite ysb_lt400 by lia. lia.
      * exists Y. split; [lia|exact HB].
    + exists (Z.of_nat n). split; [lia|]. lia.
Qed.

Lemma yoe_spec : forall doe, 0 <= doe < 146097 ->
  0 <= yoe_of doe <= 399 /\ ys (yoe_of doe) <= doe < ysb (yoe_of doe + 1).
Proof.
  intros doe Hd.
  destruct (find_year 400 ltac:(lia) doe) as (Y & HY & HB).
  { change (Z.of_nat 400) with 400. rewrite ysb_400. lia. }
  change (Z.of_nat 400) with 400 in HY.
  pose proof (chk_sound _ _ _ yoe_ends_era Y ltac:(lia)) as HE.
  unfold yoe_ends_ok in HE. apply andb_prop in HE. destruct HE as [E1 E2].
  apply Z.eqb_eq in E1, E2.
  pose proof (ysb_step Y ltac:(lia)) as Hs.
  assert (Hys0 : 0 <= ys Y) by (unfold ys; Z.div_mod_to_equations; lia).
  assert (Hle : ysb (Y + 1) <= 146097).
  { destruct (Z.eq_dec Y 399) as [->|Hne]; [vm_compute; discriminate|].
    rewrite ysb_lt400 by lia. unfold ys. Z.div_mod_to_equations; lia. }
  pose proof (yoe_mono (ys Y) doe ltac:(lia) ltac:(lia)).
  pose proof (yoe_mono doe (ysb (Y + 1) - 1) ltac:(lia) ltac:(lia)).
  assert (yoe_of doe = Y) by lia. subst Y. split; [lia|exact HB].
Qed.

(* days_from_civil in March-based coordinates *)
Lemma dfc_march : forall era yoe mp d m y,
  0 <= yoe <= 399 -> 0 <= mp <= 11 ->
  m = (if mp <? 10 then mp + 3 else mp - 9) ->
  y = (if m <=? 2 then yoe + 1 else yoe) + era * 400 ->
  days_from_civil y m d = era * 146097 + ys yoe + (153 * mp + 2) / 5 + d - 1 - 719468.
Proof.
  intros era yoe mp d m y Hy Hmp Hm Hyy. unfold days_from_civil, ys. cbv zeta.
  destruct (mp <? 10) eqn:E; [apply Z.ltb_lt in E|apply Z.ltb_ge in E]; subst m.
  - replace (mp + 3 <=? 2) with false in * by (symmetry; apply Z.leb_gt; lia).
    replace (2 <? mp + 3) with true by (symmetry; apply Z.ltb_lt; lia).
    subst y. rewrite Z.div_add, Z.mod_add by lia.
    rewrite Z.div_small, Z.mod_small by lia.
    replace (mp + 3 - 3) with mp by lia. lia.
  - replace (mp - 9 <=? 2) with true in * by (symmetry; apply Z.leb_le; lia).
    replace (2 <? mp - 9) with false by (symmetry; apply Z.ltb_ge; lia).
    subst y. replace (yoe + 1 + era * 400 - 1) with (yoe + era * 400) by lia.
    rewrite Z.div_add, Z.mod_add by lia.
    rewrite Z.div_small, Z.mod_small by lia.
    replace (mp - 9 + 9) with mp by lia. lia.
Qed.

(* the decomposition civil_from_days performs *)
Lemma civil_from_days_march : forall z y m d,
  civil_from_days z = (y, m, d) ->
  exists era yoe mp doy,
    z + 719468 = era * 146097 + ys yoe + doy /\
    0 <= yoe <= 399 /\ 0 <= doy /\ ys yoe + doy < ysb (yoe + 1) /\
    mp = (5 * doy + 2) / 153 /\ 0 <= mp <= 11 /\
    d = doy - (153 * mp + 2) / 5 + 1 /\
    m = (if mp <? 10 then mp + 3 else mp - 9) /\
    y = (if m <=? 2 then yoe + 1 else yoe) + era * 400.
Proof.
  intros z y m d E. unfold civil_from_days, civil_of_doe in E. cbv zeta in E.
  set (doe := (z + 719468) mod 146097) in *.
  set (era := (z + 719468) / 146097) in *.
  assert (Hdoe : 0 <= doe < 146097) by (subst doe; apply Z.mod_pos_bound; lia).
  fold (yoe_of doe) in E.
  destruct (yoe_spec doe Hdoe) as (Hy & Hlo & Hhi).
  set (yoe := yoe_of doe) in *.
  fold (ys yoe) in E.
  set (doy := doe - ys yoe) in *.
  assert (Edoy : doy = doe - ys yoe) by reflexivity. clearbody doy.
  pose proof (ysb_step yoe ltac:(lia)) as Hstep.
  assert (Hdoy : 0 <= doy <= 365) by lia.
  assert (Hz : z + 719468 = era * 146097 + doe)
    by (subst era doe; pose proof (Z.div_mod (z + 719468) 146097 ltac:(lia)); lia).
  clearbody era doe.
  injection E as Ey Em Ed.
  exists era, yoe, ((5 * doy + 2) / 153), doy.
  split; [lia|]. split; [lia|]. split; [lia|]. split; [lia|]. split; [reflexivity|].
  split; [Z.div_mod_to_equations; lia|].
  split; [symmetry; exact Ed|].
  split; [symmetry; exact Em|].
  rewrite <- Ey, <- Em. reflexivity.
Qed.

Lemma civil_from_days_spec : forall z y m d,
  civil_from_days z = (y, m, d) ->
  days_from_civil y m d = z /\ 1 <= m <= 12 /\ 1 <= d <= 31 /\
  month_start (12 * y + (m - 1)) <= z < month_start (12 * y + (m - 1) + 1).
Proof.
  intros z y m d E.
  destruct (civil_from_days_march z y m d E)
    as (era & yoe & mp & doy & Hz & Hy & Hdoy0 & Hhi & Hmp & Hmpr & Hd & Hm & Hyy).
  pose proof (dfc_march era yoe mp d m y Hy Hmpr Hm Hyy) as D.
  pose proof (dfc_march era yoe mp 1 m y Hy Hmpr Hm Hyy) as D1.
  pose proof (ysb_step yoe ltac:(lia)) as Hstep.
  assert (F1 : (153 * mp + 2) / 5 <= doy) by (subst mp; Z.div_mod_to_equations; lia).
  assert (F2 : doy < (153 * (mp + 1) + 2) / 5) by (subst mp; Z.div_mod_to_equations; lia).
  assert (Hm12 : 1 <= m <= 12) by (subst m; destruct (mp <? 10) eqn:E1;
    [apply Z.ltb_lt in E1|apply Z.ltb_ge in E1]; lia).
  split; [rewrite D; lia|]. split; [exact Hm12|].
  split; [subst d; Z.div_mod_to_equations; lia|].
  split; [rewrite month_start_ym by exact Hm12; rewrite D1; lia|].
  assert (Hcase : mp <= 8 \/ mp = 9 \/ mp = 10 \/ mp = 11) by lia.
  destruct Hcase as [C|[C|[C|C]]].
  - (* March .. November *)
    replace (mp <? 10) with true in Hm by (symmetry; apply Z.ltb_lt; lia).
    replace (m <=? 2) with false in Hyy by (symmetry; apply Z.leb_gt; lia).
    replace (12 * y + (m - 1) + 1) with (12 * y + ((m + 1) - 1)) by lia.
    rewrite month_start_ym by lia.
    rewrite (dfc_march era yoe (mp + 1) 1 (m + 1) y Hy ltac:(lia)).
    + lia.
    + replace (mp + 1 <? 10) with true by (symmetry; apply Z.ltb_lt; lia). lia.
    + replace (m + 1 <=? 2) with false by (symmetry; apply Z.leb_gt; lia). exact Hyy.
  - (* December -> January of the next year *)
    subst mp. rewrite C in *. cbn in Hm. subst m. cbn in Hyy.
    replace (12 * y + (12 - 1) + 1) with (12 * (y + 1) + (1 - 1)) by lia.
    rewrite month_start_ym by lia.
    rewrite (dfc_march era yoe 10 1 1 (y + 1) Hy ltac:(lia) eq_refl).
    + Z.div_mod_to_equations; lia.
    + cbn. lia.
  - (* January -> February *)
    subst mp. rewrite C in *. cbn in Hm. subst m. cbn in Hyy.
    replace (12 * y + (1 - 1) + 1) with (12 * y + (2 - 1)) by lia.
    rewrite month_start_ym by lia.
    rewrite (dfc_march era yoe 11 1 2 y Hy ltac:(lia) eq_refl).
    + Z.div_mod_to_equations; lia.
    + cbn. exact Hyy.
  - (* February -> March: the next March-based year *)
    subst mp. rewrite C in *. cbn in Hm. subst m. cbn in Hyy.
    replace (12 * y + (2 - 1) + 1) with (12 * y + (3 - 1)) by lia.
    rewrite month_start_ym by lia.
    destruct (Z.eq_dec yoe 399) as [Y9|Y9].
    + rewrite (dfc_march (era + 1) 0 0 1 3 y ltac:(lia) ltac:(lia) eq_refl).
      * subst yoe. change (ysb (399 + 1)) with 146097 in Hhi. change (ys 0) with 0. Z.div_mod_to_equations; lia.
      * cbn. lia.
    + rewrite (dfc_march era (yoe + 1) 0 1 3 y ltac:(lia) ltac:(lia) eq_refl).
      * rewrite ysb_lt400 in Hhi by lia. Z.div_mod_to_equations; lia.
      * cbn. lia.
Qed.

Lemma year_of_bounds : forall z,
  days_from_civil (year_of z) 1 1 <= z < days_from_civil (year_of z + 1) 1 1.
Proof.
  intros z. unfold year_of. destruct (civil_from_days z) as [[y m] d] eqn:E. cbn [fst].
  destruct (civil_from_days_spec _ _ _ _ E) as (_ & Hm & _ & Hlo & Hhi).
  rewrite <- (month_start_ym y 1), <- (month_start_ym (y + 1) 1) by lia.
  pose proof (month_start_mono_le (12 * y + (1 - 1)) (12 * y + (m - 1)) ltac:(lia)).
  pose proof (month_start_mono_le (12 * y + (m - 1) + 1) (12 * (y + 1) + (1 - 1)) ltac:(lia)).
  lia.
Qed.

Lemma ordinal0_nonneg : forall z, 0 <= ordinal0 z.
Proof. intros z. unfold ordinal0. pose proof (year_of_bounds z). lia. Qed.


(* ---------- years ---------- *)

Definition jan1 (y : Z) : Z := days_from_civil y 1 1.

Lemma jan1_month_start : forall y, jan1 y = month_start (12 * y).
Proof.
  intros y. unfold jan1. rewrite <- (month_start_ym y 1) by lia. f_equal. lia.
Qed.

Lemma jan1_mono : forall y1 y2, y1 < y2 -> jan1 y1 < jan1 y2.
Proof. intros. rewrite !jan1_month_start. apply month_start_mono. lia. Qed.

Lemma jan1_mono_le : forall y1 y2, y1 <= y2 -> jan1 y1 <= jan1 y2.
Proof. intros. rewrite !jan1_month_start. apply month_start_mono_le. lia. Qed.

Lemma year_of_bounds' : forall z, jan1 (year_of z) <= z < jan1 (year_of z + 1).
Proof. exact year_of_bounds. Qed.

Lemma year_of_ge : forall y z, jan1 y <= z -> y <= year_of z.
Proof.
  intros y z H. destruct (Z_le_gt_dec y (year_of z)) as [|G]; [assumption|].
  pose proof (year_of_bounds' z). pose proof (jan1_mono_le (year_of z + 1) y ltac:(lia)). lia.
Qed.

Lemma year_of_le : forall y z, z < jan1 (y + 1) -> year_of z <= y.
Proof.
  intros y z H. destruct (Z_le_gt_dec (year_of z) y) as [|G]; [assumption|].
  pose proof (year_of_bounds' z). pose proof (jan1_mono_le (y + 1) (year_of z) ltac:(lia)). lia.
Qed.

Lemma year_of_unique : forall y z, jan1 y <= z < jan1 (y + 1) -> year_of z = y.
Proof.
  intros y z H. pose proof (year_of_ge y z). pose proof (year_of_le y z). lia.
Qed.

(* ---------- ISO weeks ---------- *)

Lemma iso_year_start_periodic : forall y, iso_year_start (y + 400) = iso_year_start y + 146097.
Proof.
  intros y. unfold iso_year_start. rewrite dfc_periodic, weekday_periodic. lia.
Qed.

Lemma iso_len : forall y,
  iso_year_start (y + 1) - iso_year_start y = 7 * iso_weeks_in_year y.
Proof.
  intros y. assert (H : iso_len_ok y = true).
  { revert y. apply (era_lift 400); [|exact iso_len_era].
    intros z. unfold iso_len_ok.
    replace (z + 400 + 1) with (z + 1 + 400) by lia.
    rewrite !iso_year_start_periodic, iso_weeks_periodic.
    f_equal. lia. }
  unfold iso_len_ok in H. apply Z.eqb_eq in H. exact H.
Qed.

Lemma iso_weeks_range : forall y, 52 <= iso_weeks_in_year y <= 53.
Proof. intros y. unfold iso_weeks_in_year. destruct (_ || _); lia. Qed.

Lemma weekday_bounds : forall z, 0 <= weekday_mon z <= 6.
Proof. intros z. unfold weekday_mon. pose proof (Z.mod_pos_bound (z + 3) 7). lia. Qed.

Lemma iso_year_start_jan1 : forall y, iso_year_start y = jan1 y + 3 - (jan1 y + 6) mod 7.
Proof.
  intros y. unfold iso_year_start, jan1, weekday_mon.
  rewrite (dfc_linear_day y 1 4).
  replace (days_from_civil y 1 1 + (4 - 1) + 3) with (days_from_civil y 1 1 + 6) by lia. lia.
Qed.

(* pure arithmetic core: j/j' = 1 January of the year of z and of the next year,
   s/s' = the ISO year starts derived from them, Wp/W/Wn = whole weeks of the
   previous/this/next ISO year, a = weekday, o = ordinal0 *)
Lemma iso_arith : forall z j j' s s' W Wp Wn a o,
  j <= z < j' ->
  s = j + 3 - (j + 6) mod 7 ->
  s' = j' + 3 - (j' + 6) mod 7 ->
  s' = s + 7 * W -> 52 <= W <= 53 -> 52 <= Wp <= 53 -> 52 <= Wn <= 53 ->
  a = (z + 3) mod 7 -> o = z - j ->
  let w := (o + 1 - (a + 1) + 10) / 7 in
  let wk := if w <? 1 then Wp - 1 else if W <? w then 0 else w - 1 in
  let ys := if z <? s then s - 7 * Wp else if s' <=? z then s' else s in
  let ye := if z <? s then s else if s' <=? z then s' + 7 * Wn else s' in
  z - a = ys + 7 * wk /\ 0 <= wk <= 52 /\ ys <= z < ye.
Proof.
  intros z j j' s s' W Wp Wn a o Hz Hs Hs' HW HWr HWp HWn Ha Ho w wk ys ye.
  subst wk ys ye.
  destruct (w <? 1) eqn:E1; [apply Z.ltb_lt in E1|apply Z.ltb_ge in E1];
  (destruct (W <? w) eqn:E2; [apply Z.ltb_lt in E2|apply Z.ltb_ge in E2]);
  (destruct (z <? s) eqn:E3; [apply Z.ltb_lt in E3|apply Z.ltb_ge in E3]);
  (destruct (s' <=? z) eqn:E4; [apply Z.leb_le in E4|apply Z.leb_gt in E4]);
  subst w a o; Z.div_mod_to_equations; lia.
Qed.

(* chrono's week0 counts whole weeks from the first Monday of the ISO year that
   contains the day *)
Lemma iso_week0_spec : forall z,
  z - weekday_mon z = iso_year_start (iso_year z) + 7 * iso_week0 z /\
  0 <= iso_week0 z <= 52 /\
  iso_year_start (iso_year z) <= z < iso_year_start (iso_year z + 1).
Proof.
  intros z.
  pose proof (year_of_bounds' z) as Hb.
  pose proof (iso_len (year_of z - 1)) as L0.
  pose proof (iso_len (year_of z)) as L1.
  pose proof (iso_len (year_of z + 1)) as L2.
  replace (year_of z - 1 + 1) with (year_of z) in L0 by lia.
  assert (Ea : weekday_mon z = (z + 3) mod 7) by reflexivity.
  assert (Eo : ordinal0 z = z - jan1 (year_of z)) by (unfold ordinal0, jan1; reflexivity).
  assert (L1' : iso_year_start (year_of z + 1) =
                iso_year_start (year_of z) + 7 * iso_weeks_in_year (year_of z)) by lia.
  pose proof (iso_arith z (jan1 (year_of z)) (jan1 (year_of z + 1))
                (iso_year_start (year_of z)) (iso_year_start (year_of z + 1))
                (iso_weeks_in_year (year_of z)) (iso_weeks_in_year (year_of z - 1))
                (iso_weeks_in_year (year_of z + 1)) (weekday_mon z) (ordinal0 z)
                Hb (iso_year_start_jan1 (year_of z)) (iso_year_start_jan1 (year_of z + 1))
                L1'
                (iso_weeks_range (year_of z)) (iso_weeks_range (year_of z - 1))
                (iso_weeks_range (year_of z + 1)) Ea Eo) as A.
  cbv zeta in A.
  assert (Ew : iso_week0 z =
    if (ordinal0 z + 1 - (weekday_mon z + 1) + 10) / 7 <? 1
    then iso_weeks_in_year (year_of z - 1) - 1
    else if iso_weeks_in_year (year_of z) <? (ordinal0 z + 1 - (weekday_mon z + 1) + 10) / 7
         then 0 else (ordinal0 z + 1 - (weekday_mon z + 1) + 10) / 7 - 1) by reflexivity.
  rewrite Ew. clear Ew.
  unfold iso_year.
  destruct (z <? iso_year_start (year_of z)) eqn:E3.
  - replace (year_of z - 1 + 1) with (year_of z) by lia.
    replace (iso_year_start (year_of z - 1))
      with (iso_year_start (year_of z) - 7 * iso_weeks_in_year (year_of z - 1)) by lia.
    exact A.
  - destruct (iso_year_start (year_of z + 1) <=? z) eqn:E4.
    + replace (iso_year_start (year_of z + 1 + 1))
        with (iso_year_start (year_of z + 1) + 7 * iso_weeks_in_year (year_of z + 1)) by lia.
      exact A.
    + exact A.
Qed.

Lemma iso_year_start_monday : forall y, weekday_mon (iso_year_start y) = 0.
Proof.
  intros y. rewrite iso_year_start_jan1. unfold weekday_mon.
  Z.div_mod_to_equations. lia.
Qed.
