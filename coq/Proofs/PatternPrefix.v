(* C11 — the well-formed part of a pattern renders whatever follows it:
   fuel-independence of the parser and compositionality of parse over
   print_seq seq ++ junk. *)
From Coq Require Import String Ascii.
From Coq Require Import List NArith Bool Lia Arith.
Import ListNotations.
From L4 Require Import Model.Pattern Proofs.PatternSpec Proofs.Pattern Proofs.PatternMeaning
     Proofs.PatternParse.
Local Open Scope N_scope.

Section Ext.
  Variable al an : N -> bool.

  Definition agree (nx1 nx2 : str -> res (option piece * str)) (n : nat) : Prop :=
    forall s, (length s <= n)%nat -> nx1 s = nx2 s.

  Lemma arg_loop_ext : forall nx1 nx2 n, agree nx1 nx2 n -> good nx1 n ->
    forall k s, (length s <= n)%nat -> arg_loop nx1 k s = arg_loop nx2 k s.
  Proof.
    intros nx1 nx2 n Ha Hg. induction k as [|k IH]; intros s Hs; [reflexivity|].
    cbn [arg_loop]. destruct (consume 41 s); [reflexivity|].
    rewrite <- (Ha s Hs). specialize (Hg s Hs).
    destruct (nx1 s) as [[[p|] r]|]; try reflexivity.
    rewrite (IH r) by lia. reflexivity.
  Qed.

  Lemma args_loop_ext : forall nx1 nx2 n, agree nx1 nx2 n -> good nx1 n ->
    forall k s, (length s <= n)%nat -> args_loop nx1 k s = args_loop nx2 k s.
  Proof.
    intros nx1 nx2 n Ha Hg. induction k as [|k IH]; intros s Hs; [reflexivity|].
    cbn [args_loop]. destruct (consume 40 s) as [r|] eqn:Ec; [|reflexivity].
    apply consume_length in Ec.
    rewrite <- (arg_loop_ext nx1 nx2 n Ha Hg (S (length r)) r) by lia.
    destruct (arg_loop_ok nx1 n Hg (S (length r)) r) as (x & r' & E & L); [lia|lia|].
    rewrite E. destruct x as [a|e]; [|reflexivity].
    rewrite (IH r') by lia. reflexivity.
  Qed.

  Lemma argument_close_ext : forall nx1 nx2 n, agree nx1 nx2 n -> good nx1 n ->
    forall s, (length s <= n)%nat ->
      argument_close al an nx1 s = argument_close al an nx2 s.
  Proof.
    intros nx1 nx2 n Ha Hg s Hs. unfold argument_close, argument.
    destruct (name al an s) as [nm r1] eqn:En. apply name_length in En.
    rewrite (args_loop_ext nx1 nx2 n Ha Hg) by lia. reflexivity.
  Qed.

  Lemma next_irrel : forall d1 d2 s,
    (length s < d1)%nat -> (length s < d2)%nat -> next al an d1 s = next al an d2 s.
  Proof.
    induction d1 as [|d1 IH]; intros d2 s H1 H2; [lia|].
    destruct d2 as [|d2]; [lia|].
    rewrite !next_S. destruct s as [|c r]; [reflexivity|]. cbn [length] in H1, H2.
    destruct (c =? 123); [|reflexivity].
    destruct (consume 123 r); [reflexivity|].
    destruct d1 as [|d1']; [lia|].
    apply (argument_close_ext _ _ (length r)).
    - intros s' Hs'. apply IH; lia.
    - intros s' Hs'. apply (next_good al an d1'). lia.
    - lia.
  Qed.

  Lemma top_loop_ext : forall nx1 nx2 n, agree nx1 nx2 n -> good nx1 n ->
    forall k1 k2 s, (length s <= n)%nat -> (length s < k1)%nat -> (length s < k2)%nat ->
      top_loop nx1 k1 s = top_loop nx2 k2 s.
  Proof.
    intros nx1 nx2 n Ha Hg. induction k1 as [|k1 IH]; intros k2 s Hs H1 H2; [lia|].
    destruct k2 as [|k2]; [lia|]. cbn [top_loop].
    rewrite <- (Ha s Hs). specialize (Hg s Hs).
    destruct (nx1 s) as [[[p|] r]|]; try reflexivity.
    rewrite (IH k2 r) by lia. reflexivity.
  Qed.

  (* the parser's result does not depend on the fuel once it is enough *)
  Lemma top_loop_parse : forall d k s,
    (length s < d)%nat -> (length s < k)%nat ->
    top_loop (next al an d) k s = parse al an s.
  Proof.
    intros d k s Hd Hk. unfold parse.
    destruct d as [|d']; [lia|].
    apply (top_loop_ext _ _ (length s)); try lia.
    - intros s' Hs'. apply next_irrel; lia.
    - intros s' Hs'. apply (next_good al an d'). lia.
  Qed.
End Ext.

Section Prefix.
  Variable al an : N -> bool.
  Hypothesis Hor : oracle_ok al an.

  (* the last node of the sequence tolerates what follows *)
  Definition last_boundary (seq : list ast) (junk : str) : Prop :=
    match rev seq with a :: _ => boundary a junk | [] => True end.

  Lemma last_boundary_cons : forall a b seq junk,
    last_boundary (a :: b :: seq) junk -> last_boundary (b :: seq) junk.
  Proof.
    intros a b seq junk. unfold last_boundary. cbn [rev].
    destruct (rev seq ++ [b]) eqn:E; [destruct (rev seq); discriminate|].
    cbn [app]. exact (fun H => H).
  Qed.

  Lemma top_loop_print_junk : forall nx seq junk k,
    Forall (node_ok nx) seq ->
    forallb (wf al an true false) seq = true -> chain_ok true seq = true ->
    last_boundary seq junk ->
    top_loop nx (length seq + k) (print_seq seq ++ junk) =
      match top_loop nx k junk with
      | Ok ps => Ok (map piece_of seq ++ ps)
      | OutOfFuel => OutOfFuel
      end.
  Proof.
    intros nx seq junk k. induction seq as [|a seq IH]; intros Hn Hw Hc Hl.
    - cbn [length plus print_seq flat_map app map]. destruct (top_loop nx k junk); reflexivity.
    - inversion Hn as [|? ? Ha Hn']; subst.
      cbn [forallb] in Hw. apply andb_true_iff in Hw. destruct Hw as [Hwa Hw].
      rewrite print_seq_cons, <- app_assoc. cbn [length plus top_loop].
      assert (Hb : boundary a (print_seq seq ++ junk)).
      { destruct seq as [|b seq'].
        - exact Hl.
        - rewrite print_seq_cons, <- app_assoc. cbn [forallb] in Hw.
          apply andb_true_iff in Hw. destruct Hw as [Hwb _].
          cbn [chain_ok] in Hc. apply andb_true_iff in Hc. destruct Hc as [Hadj _].
          eapply boundary_chain; eassumption. }
      rewrite (Ha _ Hb).
      assert (Hc' : chain_ok true seq = true).
      { destruct seq as [|b seq']; [reflexivity|].
        cbn [chain_ok] in Hc. apply andb_true_iff in Hc. tauto. }
      assert (Hl' : last_boundary seq junk).
      { destruct seq as [|b seq']; [exact I|]. eapply last_boundary_cons; exact Hl. }
      rewrite (IH Hn' Hw Hc' Hl').
      destruct (top_loop nx k junk); reflexivity.
  Qed.

  Theorem parse_print_junk : forall seq junk,
    wf_seq al an true false seq = true -> last_boundary seq junk ->
    parse al an (print_seq seq ++ junk) =
      match parse al an junk with
      | Ok ps => Ok (map piece_of seq ++ ps)
      | OutOfFuel => OutOfFuel
      end.
  Proof.
    intros seq junk H Hl. unfold wf_seq in H. apply andb_true_iff in H. destruct H as [Hw Hc].
    assert (L := seq_length_le al an _ _ _ Hw).
    set (s := print_seq seq ++ junk).
    assert (Ls : length s = (length (print_seq seq) + length junk)%nat)
      by (subst s; apply app_length).
    unfold parse at 1.
    replace (S (length s)) with (length seq + (S (length s) - length seq))%nat at 2 by lia.
    subst s. rewrite top_loop_print_junk; try assumption.
    - rewrite (top_loop_parse al an) by lia. reflexivity.
    - apply Forall_forall. intros a Hin rest Hb.
      apply (next_print al an Hor); [| |exact Hb].
      + rewrite forallb_forall in Hw. apply Hw. exact Hin.
      + assert (L1 := flat_map_len_in print a seq Hin). unfold print_seq in *. lia.
  Qed.
End Prefix.
