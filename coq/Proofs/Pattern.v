(* C09 / C11 — lemmas about Model/Pattern.v against Proofs/PatternSpec.v. *)
From Coq Require Import String Ascii.
From Coq Require Import List NArith Bool Lia.
Import ListNotations.
From L4 Require Import Model.Pattern Proofs.PatternSpec.
Local Open Scope N_scope.

Lemma error_chunk_renders :
  forall ok ts e m, enc_chunk ok ts e (CError m) = chars (lit "{ERROR: " ++ m ++ lit "}").
Proof. reflexivity. Qed.
