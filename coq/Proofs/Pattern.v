(* C09 / C11 — lemmas about Model/Pattern.v: totality of the parser (fuel),
   absence of panics, visibility of errors. *)
From Coq Require Import String Ascii.
From Coq Require Import List NArith Bool Lia Arith.
Import ListNotations.
From L4 Require Import Model.Pattern Proofs.PatternSpec.
Local Open Scope N_scope.

(* ------------------------------------------------------------------ *)
(* induction principles for the nested types *)

Section PieceInd.
  Variable P : piece -> Prop.
  Hypothesis Htext : forall t, P (PText t).
  Hypothesis Herr : forall m, P (PError m).
  Hypothesis Harg : forall nm args prm, Forall (Forall P) args -> P (PArg nm args prm).

  Fixpoint piece_ind' (p : piece) : P p :=
    match p with
    | PText t => Htext t
    | PError m => Herr m
    | PArg nm args prm =>
      Harg nm args prm
        ((fix outer (l : list (list piece)) : Forall (Forall P) l :=
            match l with
            | [] => Forall_nil _
            | a :: r =>
              Forall_cons a
                ((fix inner (l' : list piece) : Forall P l' :=
                    match l' with
                    | [] => Forall_nil _
                    | x :: r' => Forall_cons x (piece_ind' x) (inner r')
                    end) a)
                (outer r)
            end) args)
    end.
End PieceInd.

Section ChunkInd.
  Variable P : chunk -> Prop.
  Hypothesis Htext : forall t, P (CText t).
  Hypothesis Hleaf : forall k p, P (CLeaf k p).
  Hypothesis Herr : forall m, P (CError m).
  Hypothesis Hpanic : P CPanic.
  Hypothesis Hgroup : forall g cs p, Forall P cs -> P (CGroup g cs p).

  Fixpoint chunk_ind' (c : chunk) : P c :=
    match c with
    | CText t => Htext t
    | CLeaf k p => Hleaf k p
    | CError m => Herr m
    | CPanic => Hpanic
    | CGroup g cs p =>
      Hgroup g cs p
        ((fix inner (l : list chunk) : Forall P l :=
            match l with
            | [] => Forall_nil _
            | x :: r => Forall_cons x (chunk_ind' x) (inner r)
            end) cs)
    end.
End ChunkInd.

(* ------------------------------------------------------------------ *)
(* the parser terminates within its fuel *)

Lemma span_length : forall p s a b, span p s = (a, b) -> (length b <= length s)%nat.
Proof.
  induction s as [|c r IH]; cbn; intros a b H.
  - inversion H; subst; cbn; lia.
  - destruct (p c).
    + destruct (span p r) as [a' b'] eqn:E. inversion H; subst.
      specialize (IH _ _ eq_refl). lia.
    + inversion H; subst; cbn; lia.
Qed.

Lemma consume_length : forall ch s r, consume ch s = Some r -> length s = S (length r).
Proof.
  intros ch [|c s] r; cbn; [discriminate|].
  destruct (c =? ch); [|discriminate]. intros H; inversion H; subst; reflexivity.
Qed.

Lemma integer_loop_length :
  forall s cur found c f r, integer_loop s cur found = (c, f, r) -> (length r <= length s)%nat.
Proof.
  induction s as [|x s IH]; cbn; intros cur found c f r H.
  - inversion H; subst; cbn; lia.
  - destruct (digit_val x).
    + apply IH in H. lia.
    + inversion H; subst; cbn; lia.
Qed.

Lemma integer_length : forall s x r, integer s = (x, r) -> (length r <= length s)%nat.
Proof.
  intros s x r. unfold integer.
  destruct (integer_loop s (Some 0) false) as [[c f] r'] eqn:E.
  apply integer_loop_length in E.
  destruct c, f; intros H; inversion H; subst; exact E.
Qed.

Lemma parameters_length : forall s x r, parameters s = (x, r) -> (length r <= length s)%nat.
Proof.
  intros s x r. unfold parameters.
  destruct s as [|c s]; [intros H; inversion H; subst; cbn; lia|].
  destruct (c =? 58); [|intros H; inversion H; subst; cbn; lia].
  set (fr := match s with
             | ch :: c2 :: _ => if (c2 =? 60) || (c2 =? 62) then (ch, tl s) else (32, s)
             | _ => (32, s)
             end).
  assert (Hfr : (length (snd fr) <= length s)%nat).
  { subst fr. destruct s as [|ch [|c2 s']]; cbn; try lia.
    destruct ((c2 =? 60) || (c2 =? 62)); cbn; lia. }
  destruct fr as [fill r1]. cbn in Hfr.
  set (ar := match r1 with
             | a :: r' => if a =? 60 then (ALeft, r') else if a =? 62 then (ARight, r') else (ALeft, r1)
             | [] => (ALeft, r1)
             end).
  assert (Har : (length (snd ar) <= length r1)%nat).
  { subst ar. destruct r1 as [|a r']; cbn; try lia.
    destruct (a =? 60); cbn; try lia. destruct (a =? 62); cbn; lia. }
  destruct ar as [al r2]. cbn in Har.
  destruct (integer r2) as [[mn|e] r3] eqn:E3; apply integer_length in E3.
  - destruct r3 as [|c3 r4].
    + intros H; inversion H; subst; cbn in *; lia.
    + destruct (c3 =? 46).
      * destruct (integer r4) as [[mx|e] r5] eqn:E5; apply integer_length in E5;
          intros H; inversion H; subst; cbn in *; lia.
      * intros H; inversion H; subst; cbn in *; lia.
  - intros H; inversion H; subst; cbn in *; lia.
Qed.

Section Fuel.
  Variable alpha alnum : N -> bool.

  Lemma name_length : forall s n r, name alpha alnum s = (n, r) -> (length r <= length s)%nat.
  Proof.
    intros [|c s] n r; cbn.
    - intros H; inversion H; subst; cbn; lia.
    - destruct (alpha c).
      + destruct (span _ s) as [a b] eqn:E. apply span_length in E.
        intros H; inversion H; subst; cbn; lia.
      + intros H; inversion H; subst; cbn; lia.
  Qed.

  (* nx makes progress on every input of length <= n *)
  Definition good (nx : str -> res (option piece * str)) (n : nat) : Prop :=
    forall s, (length s <= n)%nat ->
      match nx s with
      | Ok (Some _, r) => (length r < length s)%nat
      | Ok (None, r) => (length r <= length s)%nat
      | OutOfFuel => False
      end.

  Lemma arg_loop_ok :
    forall nx n, good nx n ->
    forall k s, (length s <= n)%nat -> (length s < k)%nat ->
      exists x r, arg_loop nx k s = Ok (x, r) /\ (length r <= length s)%nat.
  Proof.
    intros nx n Hg. induction k as [|k IH]; intros s Hn Hk; [lia|].
    cbn [arg_loop]. destruct (consume 41 s) as [r|] eqn:Ec.
    - apply consume_length in Ec. eexists _, _; split; [reflexivity|lia].
    - specialize (Hg s Hn). destruct (nx s) as [[[p|] r]|]; [| |contradiction].
      + destruct (IH r) as (x & r' & E & L); [lia|lia|].
        rewrite E. destruct x as [ps|e]; eexists _, _; (split; [reflexivity|lia]).
      + eexists _, _; split; [reflexivity|lia].
  Qed.

  Lemma args_loop_ok :
    forall nx n, good nx n ->
    forall k s, (length s <= n)%nat -> (length s < k)%nat ->
      exists x r, args_loop nx k s = Ok (x, r) /\ (length r <= length s)%nat.
  Proof.
    intros nx n Hg. induction k as [|k IH]; intros s Hn Hk; [lia|].
    cbn [args_loop]. destruct (consume 40 s) as [r|] eqn:Ec.
    - apply consume_length in Ec.
      destruct (arg_loop_ok nx n Hg (S (length r)) r) as (x & r' & E & L); [lia|lia|].
      rewrite E. destruct x as [a|e].
      + destruct (IH r') as (y & r'' & E' & L'); [lia|lia|].
        rewrite E'. destruct y; eexists _, _; (split; [reflexivity|lia]).
      + eexists _, _; split; [reflexivity|lia].
    - eexists _, _; split; [reflexivity|lia].
  Qed.

  Lemma argument_ok :
    forall nx n, good nx n ->
    forall s, (length s <= n)%nat ->
      exists p r, argument alpha alnum nx s = Ok (p, r) /\ (length r <= length s)%nat.
  Proof.
    intros nx n Hg s Hn. unfold argument.
    destruct (name alpha alnum s) as [nm r1] eqn:En. apply name_length in En.
    destruct (args_loop_ok nx n Hg (S (length r1)) r1) as (x & r2 & E & L); [lia|lia|].
    rewrite E. destruct x as [args|e].
    - destruct (parameters r2) as [[p|e] r3] eqn:Ep; apply parameters_length in Ep;
        eexists _, _; (split; [reflexivity|lia]).
    - eexists _, _; split; [reflexivity|lia].
  Qed.

  Lemma argument_close_ok :
    forall nx n, good nx n ->
    forall s, (length s <= n)%nat ->
      exists p r, argument_close alpha alnum nx s = Ok (Some p, r) /\ (length r <= length s)%nat.
  Proof.
    intros nx n Hg s Hn. unfold argument_close.
    destruct (argument_ok nx n Hg s Hn) as (p & r & E & L). rewrite E.
    destruct (consume 125 r) as [r'|] eqn:Ec.
    - apply consume_length in Ec. eexists _, _; split; [reflexivity|lia].
    - eexists _, _; split; [reflexivity|cbn; lia].
  Qed.

  Lemma next_S : forall d s,
    next alpha alnum (S d) s =
      match s with
      | [] => Ok (None, [])
      | c :: r =>
        if c =? 123 then
          match consume 123 r with
          | Some r2 => Ok (Some (PText [123]), r2)
          | None => argument_close alpha alnum (next alpha alnum d) r
          end
        else if c =? 125 then
          match consume 125 r with
          | Some r2 => Ok (Some (PText [125]), r2)
          | None => Ok (Some (PError msg_unmatched_close), r)
          end
        else if c =? 40 then
          match consume 40 r with
          | Some r2 => Ok (Some (PText [40]), r2)
          | None => Ok (Some (PError msg_unexpected_open), r)
          end
        else if c =? 41 then
          match consume 41 r with
          | Some r2 => Ok (Some (PText [41]), r2)
          | None => Ok (Some (PError msg_unexpected_rpar), r)
          end
        else if c =? 92 then
          match r with
          | c2 :: r2 =>
            if is_special c2 then Ok (Some (PText [c2]), r2)
            else Ok (Some (PError msg_unexpected_bslash), r)
          | [] => Ok (Some (PError msg_unexpected_bslash), r)
          end
        else
          let (t, r') := text_run s in Ok (Some (PText t), r')
      end.
  Proof. reflexivity. Qed.

  Lemma next_good : forall d, good (next alpha alnum (S d)) d.
  Proof.
    induction d as [|d IH]; intros s Hs.
    - destruct s; [cbn; lia|cbn in Hs; lia].
    - destruct s as [|c r]; [cbn; lia|].
      cbn in Hs. rewrite next_S.
      destruct (c =? 123) eqn:E1.
      { destruct (consume 123 r) as [r2|] eqn:Ec.
        - apply consume_length in Ec. cbn; lia.
        - destruct (argument_close_ok _ d IH r) as (p & r' & E & L); [lia|].
          rewrite E. cbn; lia. }
      destruct (c =? 125) eqn:E2.
      { destruct (consume 125 r) as [r2|] eqn:Ec; [apply consume_length in Ec|]; cbn; lia. }
      destruct (c =? 40) eqn:E3.
      { destruct (consume 40 r) as [r2|] eqn:Ec; [apply consume_length in Ec|]; cbn; lia. }
      destruct (c =? 41) eqn:E4.
      { destruct (consume 41 r) as [r2|] eqn:Ec; [apply consume_length in Ec|]; cbn; lia. }
      destruct (c =? 92) eqn:E5.
      { destruct r as [|c2 r2]; [cbn; lia|]. destruct (is_special c2); cbn; lia. }
      destruct (text_run (c :: r)) as [t r'] eqn:Et.
      unfold text_run in Et. cbn [span] in Et.
      assert (Es : is_special c = false).
      { unfold is_special. rewrite E1, E2, E3, E4, E5. reflexivity. }
      rewrite Es in Et. cbn [negb] in Et.
      destruct (span _ r) as [a b] eqn:E. apply span_length in E.
      inversion Et; subst. cbn; lia.
  Qed.

  Lemma top_loop_ok :
    forall nx n, good nx n ->
    forall k s, (length s <= n)%nat -> (length s < k)%nat -> top_loop nx k s <> OutOfFuel.
  Proof.
    intros nx n Hg. induction k as [|k IH]; intros s Hn Hk; [lia|].
    cbn [top_loop]. specialize (Hg s Hn). destruct (nx s) as [[[p|] r]|]; [| discriminate | contradiction].
    specialize (IH r). destruct (top_loop nx k r); [discriminate|].
    exfalso. apply IH; [lia|lia|reflexivity].
  Qed.

  Theorem parse_total : forall s, parse alpha alnum s <> OutOfFuel.
  Proof.
    intros s. unfold parse.
    apply (top_loop_ok _ (length s) (next_good (length s))); lia.
  Qed.
End Fuel.

(* ------------------------------------------------------------------ *)
(* a readable unfolding of From<Piece> for Chunk *)

Definition group_chunk (cmp : piece -> chunk) (g : group) (args : list (list piece)) (prm : params)
  : chunk :=
  match args with
  | [a] => CGroup g (map cmp a) prm
  | _ => CError (LIT "expected exactly one argument")
  end.

Definition compile_arg (ok : str -> bool) (nm : str) (args : list (list piece)) (prm : params)
  : chunk :=
  let cmp := compile ok in
  if one_of nm (LIT "d") (LIT "date") then compile_date ok args prm
  else if one_of nm (LIT "h") (LIT "highlight") then group_chunk cmp GHighlight args prm
  else if one_of nm (LIT "D") (LIT "debug") then group_chunk cmp GDebug args prm
  else if one_of nm (LIT "R") (LIT "release") then group_chunk cmp GRelease args prm
  else if one_of nm (LIT "l") (LIT "level") then no_args args prm KLevel
  else if one_of nm (LIT "m") (LIT "message") then no_args args prm KMessage
  else if one_of nm (LIT "M") (LIT "module") then no_args args prm KModule
  else if str_eqb nm (LIT "n") then no_args args prm KNewline
  else if one_of nm (LIT "f") (LIT "file") then no_args args prm KFile
  else if one_of nm (LIT "L") (LIT "line") then no_args args prm KLine
  else if one_of nm (LIT "T") (LIT "thread") then no_args args prm KThread
  else if one_of nm (LIT "I") (LIT "thread_id") then no_args args prm KThreadId
  else if one_of nm (LIT "P") (LIT "pid") then no_args args prm KPid
  else if one_of nm (LIT "i") (LIT "tid") then no_args args prm KSysTid
  else if one_of nm (LIT "t") (LIT "target") then no_args args prm KTarget
  else if one_of nm (LIT "X") (LIT "mdc") then compile_mdc args prm
  else if str_eqb nm [] then group_chunk cmp GAlign args prm
  else CError (LIT "unknown formatter `" ++ nm ++ LIT "`").

Lemma compile_PArg : forall ok nm args prm,
  compile ok (PArg nm args prm) = compile_arg ok nm args prm.
Proof.
  intros ok nm args prm. unfold compile_arg.
  destruct args as [|a [|b r]]; reflexivity.
Qed.

(* ------------------------------------------------------------------ *)
(* no panic: construction never yields CPanic, encoding never yields Boom *)

Section NoPanic.
  Variable strftime_ok : str -> bool.

  (* no panic marker, and every date chunk carries a validated format *)
  Fixpoint chunk_safe (c : chunk) : bool :=
    match c with
    | CPanic => false
    | CLeaf (KTime f _) _ => strftime_ok f
    | CGroup _ cs _ => forallb chunk_safe cs
    | _ => true
    end.

  Lemma no_args_safe : forall args prm k,
    (forall f z, k <> KTime f z) -> chunk_safe (no_args args prm k) = true.
  Proof.
    intros [|a r] prm k H; cbn; [|reflexivity].
    destruct k; try reflexivity. exfalso; eapply H; reflexivity.
  Qed.

  Lemma compile_date_safe : forall args prm, chunk_safe (compile_date strftime_ok args prm) = true.
  Proof.
    intros args prm. unfold compile_date.
    destruct (Nat.ltb 2 (length args)); [reflexivity|].
    set (fmt := match args with a :: _ => date_format_of a | [] => LIT "%+" end).
    destruct (strftime_ok fmt) eqn:E; cbn [negb]; [|reflexivity].
    destruct (nth_error args 1) as [arg|]; [|cbn; exact E].
    destruct (literal_arg _ arg) as [z|]; [|reflexivity].
    destruct (str_eqb z _); [exact E|]. destruct (str_eqb z _); [exact E|reflexivity].
  Qed.

  Lemma compile_mdc_safe : forall args prm, chunk_safe (compile_mdc args prm) = true.
  Proof.
    intros args prm. unfold compile_mdc.
    destruct (Nat.ltb 2 (length args)); [reflexivity|].
    destruct args as [|a r]; [reflexivity|].
    destruct (literal_arg _ a); [|reflexivity].
    destruct (nth_error (a :: r) 1) as [b|]; [|reflexivity].
    destruct (literal_arg _ b); reflexivity.
  Qed.

  Lemma group_chunk_safe : forall g args prm,
    Forall (Forall (fun p => chunk_safe (compile strftime_ok p) = true)) args ->
    chunk_safe (group_chunk (compile strftime_ok) g args prm) = true.
  Proof.
    intros g [|a [|b r]] prm H; try reflexivity.
    cbn. inversion H as [|? ? Ha _]; subst. clear H.
    induction Ha as [|x l Hx _ IH]; cbn; [reflexivity|]. rewrite Hx. exact IH.
  Qed.

  Lemma compile_safe : forall p, chunk_safe (compile strftime_ok p) = true.
  Proof.
    induction p as [t|m|nm args prm IH] using piece_ind'; try reflexivity.
    rewrite compile_PArg. unfold compile_arg.
    repeat match goal with
           | |- chunk_safe (if ?b then _ else _) = true => destruct b
           end;
      try apply compile_date_safe; try apply compile_mdc_safe;
      try (apply group_chunk_safe; exact IH);
      try (apply no_args_safe; intros; discriminate).
    reflexivity.
  Qed.

  Variable time_str : str -> tz -> str.
  Variable e : env.

  Definition no_boom (l : list item) : Prop := ~ In Boom l.

  Lemma no_boom_app : forall a b, no_boom a -> no_boom b -> no_boom (a ++ b).
  Proof. unfold no_boom; intros a b Ha Hb H. apply in_app_or in H. tauto. Qed.

  Lemma no_boom_chars : forall s, no_boom (chars s).
  Proof.
    unfold no_boom, chars; intros s H. apply in_map_iff in H.
    destruct H as (c & H & _); discriminate.
  Qed.

  Lemma no_boom_trunc : forall l M, no_boom l -> no_boom (trunc M l).
  Proof.
    unfold no_boom. induction l as [|x l IH]; intros M H; cbn; [tauto|].
    assert (Hl : ~ In Boom l) by (intro; apply H; right; assumption).
    assert (Hx : x <> Boom) by (intro; apply H; left; assumption).
    destruct x as [c|s|]; [| |congruence].
    - destruct (M =? 0); [apply IH; exact Hl|].
      intros [F|F]; [discriminate|]. eapply IH; eassumption.
    - intros [F|F]; [discriminate|]. eapply IH; eassumption.
  Qed.

  Lemma no_boom_padding : forall f n, no_boom (padding f n).
  Proof.
    unfold no_boom, padding; intros f n H. apply repeat_spec in H. discriminate.
  Qed.

  Lemma no_boom_apply_params : forall p l, no_boom l -> no_boom (apply_params p l).
  Proof.
    intros p l H. unfold apply_params, pad_side.
    destruct (p_min p), (p_max p); try assumption;
      try apply no_boom_trunc;
      destruct (p_align p); try apply no_boom_app; auto using no_boom_padding.
  Qed.

  Lemma no_boom_flat_map : forall (f : chunk -> list item) cs,
    Forall (fun c => no_boom (f c)) cs -> no_boom (flat_map f cs).
  Proof.
    induction 1; cbn; [unfold no_boom; tauto|]. apply no_boom_app; assumption.
  Qed.

  Lemma enc_chunk_no_boom : forall c,
    chunk_safe c = true -> no_boom (enc_chunk strftime_ok time_str e c).
  Proof.
    induction c as [t|k p|m| |g cs p IH] using chunk_ind'; intros Hs; cbn [enc_chunk].
    - apply no_boom_chars.
    - apply no_boom_apply_params. destruct k; cbn [enc_leaf]; try apply no_boom_chars.
      cbn in Hs. rewrite Hs. apply no_boom_chars.
    - apply no_boom_chars.
    - discriminate.
    - apply no_boom_apply_params.
      assert (Hb : no_boom (flat_map (enc_chunk strftime_ok time_str e) cs)).
      { apply no_boom_flat_map. cbn in Hs. rewrite forallb_forall in Hs.
        rewrite Forall_forall in *. intros c Hc. apply IH; [exact Hc|]. apply Hs; exact Hc. }
      destruct g; cbn; try exact Hb.
      + destruct (level_style (e_level e)); [|exact Hb].
        intros [F|F]; [discriminate|]. apply in_app_or in F. destruct F as [F|[F|[]]];
          [exact (Hb F)|discriminate].
      + destruct (e_debug e); [exact Hb|unfold no_boom; tauto].
      + destruct (e_debug e); [unfold no_boom; tauto|exact Hb].
  Qed.
End NoPanic.

Fixpoint no_cpanic (c : chunk) : bool :=
  match c with
  | CPanic => false
  | CGroup _ cs _ => forallb no_cpanic cs
  | _ => true
  end.

Lemma safe_no_cpanic : forall ok c, chunk_safe ok c = true -> no_cpanic c = true.
Proof.
  intros ok. induction c as [t|k p|m| |g cs p IH] using chunk_ind'; cbn; intros H; try reflexivity;
    try discriminate.
  rewrite forallb_forall in *. rewrite Forall_forall in IH. intros c Hc. apply IH; auto.
Qed.

(* PatternEncoder::new never panics, whatever the string *)
Theorem construct_no_panic :
  forall alpha alnum ok s,
    exists cs, construct alpha alnum ok s = Ok cs /\ forallb no_cpanic cs = true.
Proof.
  intros alpha alnum ok s. unfold construct.
  destruct (parse alpha alnum s) as [ps|] eqn:E; [|exfalso; eapply parse_total; eassumption].
  eexists; split; [reflexivity|].
  apply forallb_forall. intros c Hc. apply in_map_iff in Hc. destruct Hc as (p & <- & _).
  eapply safe_no_cpanic. apply compile_safe.
Qed.

(* Encode::encode never panics on an encoder constructed from any string *)
Theorem encode_no_panic :
  forall alpha alnum ok ts e s cs,
    construct alpha alnum ok s = Ok cs -> ~ In Boom (encode ok ts e cs).
Proof.
  intros alpha alnum ok ts e s cs. unfold construct.
  destruct (parse alpha alnum s) as [ps|]; [|discriminate].
  intros H; inversion H; subst; clear H. unfold encode.
  apply no_boom_flat_map. apply Forall_forall. intros c Hc.
  apply in_map_iff in Hc. destruct Hc as (p & <- & _).
  apply enc_chunk_no_boom. apply compile_safe.
Qed.

(* every top-level Error chunk is visible in the output as {ERROR: msg} *)
Theorem errors_visible :
  forall ok ts e cs m,
    In (CError m) cs ->
    exists pre post, encode ok ts e cs = pre ++ chars (LIT "{ERROR: " ++ m ++ [125]) ++ post.
Proof.
  intros ok ts e cs m H. apply in_split in H. destruct H as (l1 & l2 & ->).
  unfold encode. rewrite flat_map_app. cbn [flat_map enc_chunk].
  eexists _, _; reflexivity.
Qed.
