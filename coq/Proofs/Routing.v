(* C01/C02 — declarative routing spec and the proofs relating it to Model/Routing.v *)
From Coq Require Import List NArith Bool Lia Arith Permutation.
Import ListNotations.
From L4 Require Import Model.Routing.

(* ====================================================================== *)
(* 1. strings: first_cc / split_cc / add_parts                             *)
(* ====================================================================== *)

Lemma str_eqb_eq a b : str_eqb a b = true <-> a = b.
Proof.
  revert b; induction a as [|x a IH]; intros [|y b]; cbn [str_eqb]; split; intro H;
    try reflexivity; try discriminate.
  - apply andb_true_iff in H as [H1 H2]. apply N.eqb_eq in H1. apply IH in H2. congruence.
  - injection H as -> ->. rewrite N.eqb_refl. cbn. apply IH. reflexivity.
Qed.

Lemma str_eqb_refl a : str_eqb a a = true.
Proof. apply str_eqb_eq. reflexivity. Qed.

Lemma str_eqb_neq a b : str_eqb a b = false <-> a <> b.
Proof.
  split; intro H.
  - intro E. apply str_eqb_eq in E. congruence.
  - destruct (str_eqb a b) eqn:E; [|reflexivity]. apply str_eqb_eq in E. contradiction.
Qed.

Lemma first_cc_cons2 c d r :
  first_cc (c :: d :: r) =
  if N.eqb c colon && N.eqb d colon then ([], Some r)
  else let (a, o) := first_cc (d :: r) in (c :: a, o).
Proof. reflexivity. Qed.

(* first_cc really is "split at the first occurrence": it reassembles *)
Lemma first_cc_join s :
  match first_cc s with
  | (a, None) => s = a
  | (a, Some r) => s = a ++ colon :: colon :: r
  end.
Proof.
  induction s as [|c t IH]; [reflexivity|].
  destruct t as [|d r]; [reflexivity|].
  rewrite first_cc_cons2.
  destruct (N.eqb c colon && N.eqb d colon) eqn:E.
  - apply andb_true_iff in E as [E1 E2]. apply N.eqb_eq in E1, E2. subst. reflexivity.
  - destruct (first_cc (d :: r)) as [a [r'|]]; rewrite IH; reflexivity.
Qed.

Lemma first_cc_some_len s a r : first_cc s = (a, Some r) -> length s = length a + 2 + length r.
Proof.
  intro E. pose proof (first_cc_join s) as H. rewrite E in H. subst s.
  rewrite app_length. cbn [length]. lia.
Qed.

Lemma split_fuel_enough f f' s :
  length s < f -> length s < f' -> split_fuel f s = split_fuel f' s.
Proof.
  revert f' s; induction f as [|f IH]; intros [|f'] s H1 H2; try lia.
  cbn [split_fuel]. destruct (first_cc s) as [a [r|]] eqn:E; [|reflexivity].
  apply first_cc_some_len in E. f_equal. apply IH; lia.
Qed.

Lemma split_cc_eq s :
  split_cc s = match first_cc s with
               | (a, None) => [a]
               | (a, Some r) => a :: split_cc r
               end.
Proof.
  unfold split_cc at 1. cbn [split_fuel].
  destruct (first_cc s) as [a [r|]] eqn:E; [|reflexivity].
  apply first_cc_some_len in E. f_equal. apply split_fuel_enough; lia.
Qed.

Lemma add_parts_fuel_enough f f' s :
  length s < f -> length s < f' -> add_parts_fuel f s = add_parts_fuel f' s.
Proof.
  revert f' s; induction f as [|f IH]; intros [|f'] s H1 H2; try lia.
  cbn [add_parts_fuel]. destruct (first_cc s) as [a [r|]] eqn:E; [|reflexivity].
  apply first_cc_some_len in E. destruct r as [|x r]; [reflexivity|].
  f_equal. apply IH; lia.
Qed.

Lemma add_parts_eq s :
  add_parts s = match first_cc s with
                | (a, None) => [a]
                | (a, Some []) => [a]
                | (a, Some r) => a :: add_parts r
                end.
Proof.
  unfold add_parts at 1. cbn [add_parts_fuel].
  destruct (first_cc s) as [a [r|]] eqn:E; [|reflexivity].
  apply first_cc_some_len in E. destruct r as [|x r]; [reflexivity|].
  f_equal. apply add_parts_fuel_enough; lia.
Qed.

Lemma split_cc_nonempty s : split_cc s <> [].
Proof. rewrite split_cc_eq. destruct (first_cc s) as [a [r|]]; discriminate. Qed.

Lemma split_cc_nil : split_cc [] = [[]].
Proof. reflexivity. Qed.

(* a logger name is usable by `add` when it does not end in "::" (and is not
   empty): the last component of its split is not empty *)
Definition name_ok (s : str) : Prop := last (split_cc s) [] <> [].

Lemma last_cons_ne {A} (x : A) l d : l <> [] -> last (x :: l) d = last l d.
Proof. destruct l; [contradiction|reflexivity]. Qed.

Lemma str_ind_len (P : str -> Prop) :
  (forall s, (forall r, length r < length s -> P r) -> P s) -> forall s, P s.
Proof.
  intros H s. assert (G : forall n r, length r < n -> P r).
  { induction n as [|n IH]; intros r Hr; [lia|]. apply H. intros r' Hr'. apply IH. lia. }
  apply (G (S (length s))). lia.
Qed.

(* `add`'s splitter (repeated find("::")) and `find`'s splitter (split("::"))
   agree on every usable logger name *)
Lemma add_parts_split s : name_ok s -> add_parts s = split_cc s.
Proof.
  induction s as [s IH] using str_ind_len. unfold name_ok. intro H.
  rewrite add_parts_eq. rewrite split_cc_eq in H |- *.
  destruct (first_cc s) as [a [r|]] eqn:E; [|reflexivity].
  apply first_cc_some_len in E.
  rewrite last_cons_ne in H by apply split_cc_nonempty.
  destruct r as [|x r]; [exfalso; apply H; reflexivity|].
  f_equal. apply IH; [cbn [length] in *; lia|exact H].
Qed.

(* byte length of a name in terms of its components *)
Fixpoint plen (p : path) : nat :=
  match p with
  | [] => 0
  | c :: r => match r with [] => length c | _ => length c + 2 + plen r end
  end.

Lemma plen_cons c r : r <> [] -> plen (c :: r) = length c + 2 + plen r.
Proof. destruct r; [contradiction|reflexivity]. Qed.

Lemma split_cc_plen s : plen (split_cc s) = length s.
Proof.
  induction s as [s IH] using str_ind_len.
  rewrite split_cc_eq. destruct (first_cc s) as [a [r|]] eqn:E.
  - pose proof (first_cc_some_len _ _ _ E) as HL.
    rewrite plen_cons by apply split_cc_nonempty. rewrite IH; lia.
  - pose proof (first_cc_join s) as H. rewrite E in H. subst a. reflexivity.
Qed.

Fixpoint join_cc (p : path) : str :=
  match p with
  | [] => []
  | c :: r => match r with [] => c | _ => c ++ colon :: colon :: join_cc r end
  end.

Lemma join_split s : join_cc (split_cc s) = s.
Proof.
  induction s as [s IH] using str_ind_len.
  rewrite split_cc_eq. pose proof (first_cc_join s) as HJ.
  destruct (first_cc s) as [a [r|]] eqn:E.
  - pose proof (first_cc_some_len _ _ _ E) as HL.
    cbn [join_cc]. destruct (split_cc r) eqn:Er; [exfalso; eapply split_cc_nonempty; eassumption|].
    rewrite <- Er, IH by lia. symmetry. exact HJ.
  - symmetry. exact HJ.
Qed.

Lemma split_cc_inj a b : split_cc a = split_cc b -> a = b.
Proof. intro H. rewrite <- (join_split a), <- (join_split b), H. reflexivity. Qed.

(* splitting a join of colon-free components gives the components back *)
Lemma first_cc_cons_ne x s :
  N.eqb x colon = false -> s <> [] ->
  first_cc (x :: s) = let (a, o) := first_cc s in (x :: a, o).
Proof. destruct s as [|d r]; [contradiction|]. intros Hx _. rewrite first_cc_cons2, Hx. reflexivity. Qed.

Lemma first_cc_nocolon c rest :
  ~ In colon c ->
  first_cc (c ++ colon :: colon :: rest) = (c, Some rest).
Proof.
  induction c as [|x c IH]; intro H.
  - reflexivity.
  - assert (Hx : N.eqb x colon = false) by (apply N.eqb_neq; intro; apply H; left; auto).
    assert (Hc : ~ In colon c) by (intro; apply H; right; auto).
    cbn [app]. rewrite first_cc_cons_ne; [|exact Hx|destruct c; discriminate].
    rewrite IH by exact Hc. reflexivity.
Qed.

Lemma first_cc_nocolon_end c : ~ In colon c -> first_cc c = (c, None).
Proof.
  induction c as [|x c IH]; intro H; [reflexivity|].
  assert (Hx : N.eqb x colon = false) by (apply N.eqb_neq; intro; apply H; left; auto).
  assert (Hc : ~ In colon c) by (intro; apply H; right; auto).
  destruct c as [|d r]; [reflexivity|].
  rewrite first_cc_cons2, Hx. cbn [andb]. rewrite IH by exact Hc. reflexivity.
Qed.

Lemma split_join p :
  p <> [] -> (forall c, In c p -> ~ In colon c) -> split_cc (join_cc p) = p.
Proof.
  induction p as [|c r IH]; intros Hne H; [contradiction|].
  destruct r as [|d r].
  - cbn [join_cc]. rewrite split_cc_eq, first_cc_nocolon_end; [reflexivity|]. apply H; left; auto.
  - change (join_cc (c :: d :: r)) with (c ++ colon :: colon :: join_cc (d :: r)).
    rewrite split_cc_eq, first_cc_nocolon by (apply H; left; auto).
    f_equal. apply IH; [discriminate|]. intros c' Hc'. apply H. right. exact Hc'.
Qed.

(* ====================================================================== *)
(* 2. paths and the tree operations                                        *)
(* ====================================================================== *)

Fixpoint path_eqb (a b : path) : bool :=
  match a, b with
  | [], [] => true
  | x :: a', y :: b' => str_eqb x y && path_eqb a' b'
  | _, _ => false
  end.

Lemma path_eqb_eq a b : path_eqb a b = true <-> a = b.
Proof.
  revert b; induction a as [|x a IH]; intros [|y b]; cbn [path_eqb]; split; intro H;
    try reflexivity; try discriminate.
  - apply andb_true_iff in H as [H1 H2]. apply str_eqb_eq in H1. apply IH in H2. congruence.
  - injection H as -> ->. rewrite str_eqb_refl. cbn. apply IH. reflexivity.
Qed.

Lemma path_eqb_refl a : path_eqb a a = true.
Proof. apply path_eqb_eq. reflexivity. Qed.

Lemma path_eq_dec (a b : path) : {a = b} + {a <> b}.
Proof.
  destruct (path_eqb a b) eqn:E; [left; apply path_eqb_eq; exact E|].
  right. intro H. apply path_eqb_eq in H. congruence.
Qed.

(* component-wise prefix *)
Fixpoint is_prefix (q p : path) : bool :=
  match q, p with
  | [], _ => true
  | c :: q', d :: p' => str_eqb c d && is_prefix q' p'
  | _ :: _, [] => false
  end.

Lemma is_prefix_refl q : is_prefix q q = true.
Proof. induction q as [|c q IH]; [reflexivity|]. cbn [is_prefix]. rewrite str_eqb_refl, IH. reflexivity. Qed.

Lemma is_prefix_app q p : is_prefix q p = true <-> exists s, p = q ++ s.
Proof.
  revert p; induction q as [|c q IH]; intros p; cbn [is_prefix].
  - split; [intros _; exists p; reflexivity|reflexivity].
  - destruct p as [|d p]; split.
    + discriminate.
    + intros [s H]. discriminate.
    + intro H. apply andb_true_iff in H as [H1 H2]. apply str_eqb_eq in H1. subst d.
      apply IH in H2 as [s ->]. exists s. reflexivity.
    + intros [s H]. injection H as -> ->. rewrite str_eqb_refl. cbn. apply IH. exists s. reflexivity.
Qed.

Lemma is_prefix_snoc_r q p c : is_prefix q p = true -> is_prefix q (p ++ [c]) = true.
Proof.
  intro H. apply is_prefix_app in H as [s ->]. apply is_prefix_app. exists (s ++ [c]).
  rewrite app_assoc. reflexivity.
Qed.

Lemma is_prefix_snoc_inv q p c :
  is_prefix q (p ++ [c]) = true -> q = p ++ [c] \/ is_prefix q p = true.
Proof.
  intro H. apply is_prefix_app in H as [s H].
  destruct s as [|x s0].
  - left. rewrite app_nil_r in H. auto.
  - right. destruct (@exists_last _ (x :: s0)) as (s' & y & E); [discriminate|].
    rewrite E, app_assoc in H. apply app_inj_tail in H as [-> _].
    apply is_prefix_app. exists s'. reflexivity.
Qed.

Lemma is_prefix_plen_lt q p :
  is_prefix q p = true -> q <> [] -> q <> p -> plen q < plen p.
Proof.
  revert p; induction q as [|c q IH]; intros p H Hne Hqp; [contradiction|].
  destruct p as [|d p]; [discriminate|]. cbn [is_prefix] in H.
  apply andb_true_iff in H as [H1 H2]. apply str_eqb_eq in H1. subst d.
  destruct q as [|c' q].
  - destruct p as [|d p]; [contradiction|]. rewrite (plen_cons c (d :: p)) by discriminate.
    cbn [plen]. lia.
  - assert (Hp : p <> []) by (destruct p; [discriminate|discriminate]).
    rewrite (plen_cons c (c' :: q)) by discriminate. rewrite (plen_cons c p) by exact Hp.
    assert (plen (c' :: q) < plen p); [|lia].
    apply IH; [exact H2|discriminate|congruence].
Qed.

(* ---- association list of children ---- *)

Lemma get_upd f fresh part ks k :
  get (upd_kids f fresh part ks) k =
  if str_eqb part k
  then Some (match get ks part with Some c => f c | None => fresh end)
  else get ks k.
Proof.
  induction ks as [|[k' c] r IH]; cbn [upd_kids get].
  - reflexivity.
  - destruct (str_eqb k' part) eqn:E1.
    + apply str_eqb_eq in E1. subst k'. cbn [get]. destruct (str_eqb part k); reflexivity.
    + cbn [get]. destruct (str_eqb k' k) eqn:E2.
      * apply str_eqb_eq in E2. subst k'.
        assert (E3 : str_eqb part k = false).
        { apply str_eqb_neq. apply str_eqb_neq in E1. congruence. }
        rewrite E3. reflexivity.
      * exact IH.
Qed.

Definition sem (t : tree) (p : path) : N * list nat :=
  (tlvl (find_path t p), tapps (find_path t p)).

Lemma sem_nil t : sem t [] = (tlvl t, tapps t).
Proof. reflexivity. Qed.

Lemma sem_cons t d p :
  sem t (d :: p) = match get (tkids t) d with Some ch => sem ch p | None => (tlvl t, tapps t) end.
Proof. unfold sem. cbn [find_path]. destruct (get (tkids t) d); reflexivity. Qed.

Fixpoint has_node (t : tree) (p : path) : bool :=
  match p with
  | [] => true
  | c :: p' => match get (tkids t) c with Some ch => has_node ch p' | None => false end
  end.

Lemma add_eq l a kids part rest apps addv lvl :
  add (T l a kids) (part :: rest) apps addv lvl =
  T l a (upd_kids (fun c => add c (match rest with [] => [[]] | _ => rest end) apps addv lvl)
                  (fresh_chain l a rest apps addv lvl) part kids).
Proof. reflexivity. Qed.

Lemma fresh_sem pl pa q apps addv lvl p :
  sem (fresh_chain pl pa q apps addv lvl) p =
  if is_prefix q p then (lvl, apps ++ (if addv then pa else [])) else (pl, pa).
Proof.
  revert p; induction q as [|c q IH]; intros p.
  - cbn [fresh_chain is_prefix]. destruct p; [reflexivity|]. rewrite sem_cons. reflexivity.
  - cbn [fresh_chain]. destruct p as [|d p]; [reflexivity|].
    rewrite sem_cons. cbn [tkids get is_prefix tlvl tapps].
    destruct (str_eqb c d); cbn [andb]; [apply IH|reflexivity].
Qed.

Lemma fresh_nodes pl pa q apps addv lvl r :
  has_node (fresh_chain pl pa q apps addv lvl) r = true -> is_prefix r q = true.
Proof.
  revert r; induction q as [|c q IH]; intros r.
  - cbn [fresh_chain]. destruct r; [reflexivity|]. cbn. discriminate.
  - cbn [fresh_chain]. destruct r as [|d r]; [reflexivity|].
    cbn [has_node tkids get is_prefix].
    destruct (str_eqb c d) eqn:E; [|discriminate].
    apply str_eqb_eq in E. subst d. rewrite str_eqb_refl. cbn [andb]. apply IH.
Qed.

Lemma removelast_cons {A} (c : A) q : q <> [] -> removelast (c :: q) = c :: removelast q.
Proof. destruct q; [contradiction|reflexivity]. Qed.

(* effect of ConfiguredLogger::add on every lookup, when the logger's own node
   does not exist yet *)
Lemma add_sem q : forall t p apps addv lvl,
  q <> [] -> has_node t q = false ->
  sem (add t q apps addv lvl) p =
  if is_prefix q p
  then (lvl, apps ++ (if addv then tapps (find_path t (removelast q)) else []))
  else sem t p.
Proof.
  induction q as [|c q IH]; intros t p apps addv lvl Hne Hn; [contradiction|].
  destruct t as [l a kids]. rewrite add_eq.
  destruct p as [|d p]; [reflexivity|].
  rewrite !sem_cons. cbn [tkids tlvl tapps is_prefix]. rewrite get_upd.
  destruct (str_eqb c d) eqn:Ecd; cbn [andb]; [|reflexivity].
  apply str_eqb_eq in Ecd. subst d.
  cbn [has_node tkids] in Hn.
  destruct (get kids c) as [ch|] eqn:G.
  - assert (Hq : q <> []) by (intro; subst; cbn in Hn; discriminate).
    cbv beta. destruct q as [|c' q']; [contradiction|]. cbv iota.
    rewrite IH by assumption.
    rewrite (removelast_cons c (c' :: q')) by discriminate.
    change (find_path (T l a kids) (c :: removelast (c' :: q')))
      with (match get kids c with Some ch0 => find_path ch0 (removelast (c' :: q')) | None => T l a kids end).
    rewrite G. reflexivity.
  - rewrite fresh_sem. destruct (is_prefix q p); [|reflexivity].
    destruct q as [|c' q]; [reflexivity|].
    rewrite (removelast_cons c (c' :: q)) by discriminate.
    change (find_path (T l a kids) (c :: removelast (c' :: q)))
      with (match get kids c with Some ch0 => find_path ch0 (removelast (c' :: q)) | None => T l a kids end).
    rewrite G. reflexivity.
Qed.

Lemma add_nodes q : forall t r apps addv lvl,
  q <> [] -> has_node t q = false ->
  has_node (add t q apps addv lvl) r = true ->
  has_node t r = true \/ is_prefix r q = true.
Proof.
  induction q as [|c q IH]; intros t r apps addv lvl Hne Hn H; [contradiction|].
  destruct t as [l a kids]. rewrite add_eq in H.
  destruct r as [|d r]; [left; reflexivity|].
  cbn [has_node tkids] in H |- *. rewrite get_upd in H. cbn [is_prefix].
  destruct (str_eqb c d) eqn:Ecd; [|left; exact H].
  apply str_eqb_eq in Ecd. subst d. rewrite str_eqb_refl. cbn [andb].
  cbn [has_node tkids] in Hn.
  destruct (get kids c) as [ch|] eqn:G.
  - assert (Hq : q <> []) by (intro; subst; cbn in Hn; discriminate).
    cbv beta in H. destruct q as [|c' q']; [contradiction|]. cbv iota in H.
    eapply IH; eassumption.
  - right. eapply fresh_nodes; exact H.
Qed.

(* ---- max_log_level ---- *)

Definition kmax (ks : list (str * tree)) (m : N) : N :=
  fold_left (fun m kc => N.max m (let (_, c) := kc : str * tree in max_level c)) ks m.

Lemma max_level_eq l a ks : max_level (T l a ks) = kmax ks l.
Proof. reflexivity. Qed.

Lemma kmax_nil m : kmax [] m = m.
Proof. reflexivity. Qed.

Lemma kmax_cons k c ks m : kmax ((k, c) :: ks) m = kmax ks (N.max m (max_level c)).
Proof. reflexivity. Qed.

Lemma kmax_acc ks m : kmax ks m = N.max m (kmax ks 0).
Proof.
  revert m; induction ks as [|[k c] ks IH]; intros m.
  - rewrite !kmax_nil. lia.
  - rewrite !kmax_cons. rewrite (IH (N.max m _)), (IH (N.max 0 _)). lia.
Qed.

Lemma kmax_ge ks m : (m <= kmax ks m)%N.
Proof. rewrite kmax_acc. lia. Qed.

Lemma kmax_upd_some f fresh part ks m c v :
  get ks part = Some c -> max_level (f c) = N.max (max_level c) v ->
  kmax (upd_kids f fresh part ks) m = N.max (kmax ks m) v.
Proof.
  revert m; induction ks as [|[k' c'] r IH]; intros m G Hf; [discriminate|].
  cbn [upd_kids get] in *. destruct (str_eqb k' part).
  - injection G as ->. rewrite !kmax_cons, Hf.
    rewrite (kmax_acc r (N.max m (N.max _ _))), (kmax_acc r (N.max m (max_level c))). lia.
  - rewrite !kmax_cons. apply IH; assumption.
Qed.

Lemma kmax_upd_none f fresh part ks m :
  get ks part = None ->
  kmax (upd_kids f fresh part ks) m = N.max (kmax ks m) (max_level fresh).
Proof.
  revert m; induction ks as [|[k' c'] r IH]; intros m G.
  - reflexivity.
  - cbn [upd_kids get] in *. destruct (str_eqb k' part); [discriminate|].
    rewrite !kmax_cons. apply IH; assumption.
Qed.

Lemma fresh_max pl pa q apps addv lvl :
  N.max pl (max_level (fresh_chain pl pa q apps addv lvl)) = N.max pl lvl.
Proof.
  induction q as [|c q IH]; cbn [fresh_chain]; rewrite max_level_eq.
  - reflexivity.
  - rewrite kmax_cons, kmax_nil. rewrite IH. lia.
Qed.

Lemma add_max q : forall t apps addv lvl,
  q <> [] -> has_node t q = false ->
  max_level (add t q apps addv lvl) = N.max (max_level t) lvl.
Proof.
  induction q as [|c q IH]; intros t apps addv lvl Hne Hn; [contradiction|].
  destruct t as [l a kids]. rewrite add_eq, !max_level_eq.
  cbn [has_node tkids] in Hn.
  destruct (get kids c) as [ch|] eqn:G.
  - assert (Hq : q <> []) by (intro; subst; cbn in Hn; discriminate).
    destruct q as [|c' q']; [contradiction|].
    eapply kmax_upd_some; [exact G|]. cbv beta iota. apply IH; assumption.
  - rewrite kmax_upd_none by exact G.
    pose proof (fresh_max l a q apps addv lvl) as HF. pose proof (kmax_ge kids l). lia.
Qed.

Lemma get_le_kmax ks c ch m : get ks c = Some ch -> (max_level ch <= kmax ks m)%N.
Proof.
  revert m; induction ks as [|[k' c'] r IH]; intros m G; [discriminate|].
  cbn [get] in G. rewrite kmax_cons. destruct (str_eqb k' c).
  - injection G as ->. pose proof (kmax_ge r (N.max m (max_level ch))). lia.
  - apply IH; assumption.
Qed.

Lemma find_level_le_max p : forall t, (tlvl (find_path t p) <= max_level t)%N.
Proof.
  induction p as [|c p IH]; intros [l a ks]; cbn [find_path tkids tlvl].
  - rewrite max_level_eq. apply kmax_ge.
  - destruct (get ks c) as [ch|] eqn:G.
    + pose proof (IH ch). pose proof (get_le_kmax ks c ch l G). rewrite max_level_eq. lia.
    + rewrite max_level_eq. apply kmax_ge.
Qed.

(* ====================================================================== *)
(* 3. declarative spec                                                     *)
(* ====================================================================== *)

Definition lpath (lg : logger) : path := split_cc (l_name lg).

(* the configured logger whose component list is exactly q *)
Definition logger_at (ls : list logger) (q : path) : option logger :=
  List.find (fun lg => path_eqb (lpath lg) q) ls.

(* Walk up from the target's component list (given reversed: last component
   first).  The first configured logger met is the effective logger (= the one
   with the longest component-wise prefix, see eff_longest below); its level
   decides, its appenders are its own followed - if it is additive - by those
   of the next configured logger further up (implied intermediate names are
   skipped), ending at the root. *)
Fixpoint spec_level_rev (cfg : config) (rq : path) : N :=
  match rq with
  | [] => c_root_level cfg
  | _ :: rq' =>
    match logger_at (c_loggers cfg) (rev rq) with
    | Some lg => l_level lg
    | None => spec_level_rev cfg rq'
    end
  end.

Fixpoint spec_chain_rev (cfg : config) (rq : path) : list str :=
  match rq with
  | [] => c_root_apps cfg
  | _ :: rq' =>
    match logger_at (c_loggers cfg) (rev rq) with
    | Some lg => l_apps lg ++ (if l_additive lg then spec_chain_rev cfg rq' else [])
    | None => spec_chain_rev cfg rq'
    end
  end.

Definition spec_level (cfg : config) (target : str) : N := spec_level_rev cfg (rev (split_cc target)).
Definition spec_chain (cfg : config) (target : str) : list str := spec_chain_rev cfg (rev (split_cc target)).
Definition spec_deliver (cfg : config) (target : str) (L : N) : list str :=
  if N.leb L (spec_level cfg target) then spec_chain cfg target else [].

(* the effective logger, for the characterisation theorem *)
Fixpoint eff_rev (ls : list logger) (rq : path) : option logger :=
  match rq with
  | [] => None
  | _ :: rq' => match logger_at ls (rev rq) with Some lg => Some lg | None => eff_rev ls rq' end
  end.
Definition eff (cfg : config) (target : str) : option logger :=
  eff_rev (c_loggers cfg) (rev (split_cc target)).

Definition name_of (cfg : config) (i : nat) : str := nth i (c_appenders cfg) [].

Definition valid (cfg : config) : Prop :=
  NoDup (map l_name (c_loggers cfg)) /\
  (forall lg, In lg (c_loggers cfg) -> name_ok (l_name lg)) /\
  (forall a, In a (c_root_apps cfg) -> In a (c_appenders cfg)) /\
  (forall lg a, In lg (c_loggers cfg) -> In a (l_apps lg) -> In a (c_appenders cfg)).

(* ---- generic form of the walk, over any lookup function ---- *)
Section Settings.
  Context {A : Type}.
  Variable lk : path -> option (N * bool * list A).
  Variables (rl : N) (ra : list A).
  Fixpoint settings_rev (rq : path) : N * list A :=
    match rq with
    | [] => (rl, ra)
    | _ :: rq' =>
      match lk (rev rq) with
      | Some (l, addv, own) => (l, own ++ (if addv then snd (settings_rev rq') else []))
      | None => settings_rev rq'
      end
    end.
End Settings.

Lemma settings_ext {A} (lk lk' : path -> option (N * bool * list A)) rl ra rq :
  (forall r, lk r = lk' r) -> settings_rev lk rl ra rq = settings_rev lk' rl ra rq.
Proof.
  intro H. induction rq as [|c rq IH]; [reflexivity|].
  cbn [settings_rev]. rewrite <- H, IH. reflexivity.
Qed.

Lemma settings_none {A} (lk : path -> option (N * bool * list A)) rl ra rq :
  (forall r, lk r = None) -> settings_rev lk rl ra rq = (rl, ra).
Proof.
  intro H. induction rq as [|c rq IH]; [reflexivity|].
  cbn [settings_rev]. rewrite H. exact IH.
Qed.

Lemma settings_map {A B} (f : A -> B) lkA lkB rl ra rq :
  (forall r, lkB r = option_map (fun e => match e with (l, a, own) => (l, a, map f own) end) (lkA r)) ->
  settings_rev lkB rl (map f ra) rq =
  (fst (settings_rev lkA rl ra rq), map f (snd (settings_rev lkA rl ra rq))).
Proof.
  intro H. induction rq as [|c rq IH]; [reflexivity|].
  cbn [settings_rev]. rewrite H. destruct (lkA (rev (c :: rq))) as [[[l a] own]|]; cbn [option_map].
  - rewrite IH. cbn [fst snd]. rewrite map_app. destruct a; reflexivity.
  - exact IH.
Qed.

Lemma removelast_snoc {A} (l : list A) x : removelast (l ++ [x]) = l.
Proof. apply removelast_last. Qed.

(* adding one logger q whose descendants are not configured (yet) *)
Lemma settings_insert {A} (lk lk' : path -> option (N * bool * list A)) rl ra q l addv own :
  q <> [] ->
  (forall r, lk' r = if path_eqb q r then Some (l, addv, own) else lk r) ->
  (forall r, is_prefix q r = true -> q <> r -> lk r = None) ->
  forall rp,
    settings_rev lk' rl ra rp =
    if is_prefix q (rev rp)
    then (l, own ++ (if addv then snd (settings_rev lk rl ra (rev (removelast q))) else []))
    else settings_rev lk rl ra rp.
Proof.
  intros Hne Hlk Hdesc. induction rp as [|c rp IH].
  - cbn [rev settings_rev]. destruct q; [contradiction|reflexivity].
  - cbn [settings_rev]. rewrite Hlk. cbn [rev].
    destruct (path_eqb q (rev rp ++ [c])) eqn:E.
    + apply path_eqb_eq in E. rewrite <- E, is_prefix_refl.
      rewrite IH.
      assert (Hn : is_prefix q (rev rp) = false).
      { destruct (is_prefix q (rev rp)) eqn:P; [|reflexivity].
        apply is_prefix_app in P as [s P]. apply (f_equal (@length _)) in E.
        rewrite P, !app_length in E. cbn in E. lia. }
      rewrite Hn. rewrite E, removelast_snoc, rev_involutive. reflexivity.
    + assert (Hq : q <> rev rp ++ [c]) by (intro X; apply path_eqb_eq in X; congruence).
      destruct (is_prefix q (rev rp ++ [c])) eqn:P.
      * rewrite (Hdesc _ P Hq). rewrite IH.
        apply is_prefix_snoc_inv in P as [P|P]; [contradiction|]. rewrite P. reflexivity.
      * assert (Hn : is_prefix q (rev rp) = false).
        { destruct (is_prefix q (rev rp)) eqn:P'; [|reflexivity].
          apply (is_prefix_snoc_r _ _ c) in P'. congruence. }
        rewrite IH, Hn. reflexivity.
Qed.

(* ---- the spec functions are instances of the generic walk ---- *)
Definition lk_names (ls : list logger) (q : path) : option (N * bool * list str) :=
  option_map (fun lg => (l_level lg, l_additive lg, l_apps lg)) (logger_at ls q).

Lemma spec_is_settings cfg rq :
  (spec_level_rev cfg rq, spec_chain_rev cfg rq) =
  settings_rev (lk_names (c_loggers cfg)) (c_root_level cfg) (c_root_apps cfg) rq.
Proof.
  induction rq as [|c rq IH]; [reflexivity|].
  cbn [spec_level_rev spec_chain_rev settings_rev]. unfold lk_names at 1.
  destruct (logger_at (c_loggers cfg) (rev (c :: rq))) as [lg|]; cbn [option_map].
  - rewrite <- IH. reflexivity.
  - exact IH.
Qed.

(* ---- appender name resolution ---- *)
Lemma resolve_from_nth names : forall i a j,
  resolve_from i names a = Some j -> i <= j /\ nth (j - i) names [] = a.
Proof.
  induction names as [|n r IH]; intros i a j H; [discriminate|].
  cbn [resolve_from] in H. destruct (resolve_from (S i) r a) as [j'|] eqn:E.
  - injection H as ->. apply IH in E as [E1 E2]. split; [lia|].
    replace (j - i) with (S (j - S i)) by lia. exact E2.
  - destruct (str_eqb n a) eqn:En; [|discriminate]. injection H as ->.
    apply str_eqb_eq in En. split; [lia|]. rewrite Nat.sub_diag. exact En.
Qed.

Lemma resolve_from_in names : forall i a, In a names -> exists j, resolve_from i names a = Some j.
Proof.
  induction names as [|n r IH]; intros i a H; [contradiction|].
  cbn [resolve_from]. destruct (resolve_from (S i) r a) as [j'|] eqn:E; [eauto|].
  destruct H as [->|H].
  - rewrite str_eqb_refl. eauto.
  - destruct (IH (S i) a H) as [j Hj]. congruence.
Qed.

Lemma resolve_all_names names l ids :
  resolve_all names l = Some ids -> map (fun i => nth i names []) ids = l.
Proof.
  revert ids; induction l as [|a l IH]; intros ids H.
  - injection H as <-. reflexivity.
  - cbn [resolve_all] in H. destruct (resolve names a) as [i|] eqn:E; [|discriminate].
    destruct (resolve_all names l) as [is|]; [|discriminate]. injection H as <-.
    cbn [map]. rewrite (IH is eq_refl). apply resolve_from_nth in E as [_ E].
    rewrite Nat.sub_0_r in E. rewrite E. reflexivity.
Qed.

Lemma resolve_all_in names l :
  (forall a, In a l -> In a names) -> exists ids, resolve_all names l = Some ids.
Proof.
  induction l as [|a l IH]; intro H; [exists []; reflexivity|].
  cbn [resolve_all]. destruct (resolve_from_in names 0 a) as [i Hi]; [apply H; left; auto|].
  unfold resolve. rewrite Hi. destruct IH as [ids Hids]; [intros; apply H; right; auto|].
  rewrite Hids. eauto.
Qed.

(* ====================================================================== *)
(* 4. the insertion invariant                                              *)
(* ====================================================================== *)

(* lookup over resolved loggers (appender indices) *)
Definition lk_ids (names : list str) (ls : list logger) (q : path) : option (N * bool * list nat) :=
  match logger_at ls q with
  | Some lg => match resolve_all names (l_apps lg) with
               | Some ids => Some (l_level lg, l_additive lg, ids)
               | None => None
               end
  | None => None
  end.

(* later-inserted first: the head is neither equal to nor an ancestor of anything inserted before *)
Fixpoint ok_rev (l : list logger) : Prop :=
  match l with
  | [] => True
  | lg :: rest => (forall lg', In lg' rest -> is_prefix (lpath lg) (lpath lg') = false) /\ ok_rev rest
  end.

Definition Inv (names : list str) (rl : N) (ra : list nat) (done : list logger) (t : tree) : Prop :=
  (forall p, sem t p = settings_rev (lk_ids names done) rl ra (rev p)) /\
  (forall r, has_node t r = true -> r = [] \/ exists lg, In lg done /\ is_prefix r (lpath lg) = true).

Lemma logger_at_some ls q lg : logger_at ls q = Some lg -> In lg ls /\ lpath lg = q.
Proof.
  unfold logger_at. intro H. apply find_some in H as [H1 H2]. apply path_eqb_eq in H2. auto.
Qed.

Lemma build_inv names rl ra (done : list logger) :
  ok_rev done ->
  (forall lg, In lg done -> name_ok (l_name lg)) ->
  (forall lg a, In lg done -> In a (l_apps lg) -> In a names) ->
  exists t, fold_right (fun lg ot => add_logger names ot lg) (Some (T rl ra [])) done = Some t
            /\ Inv names rl ra done t
            /\ max_level t = fold_right (fun lg m => N.max m (l_level lg)) rl done.
Proof.
  induction done as [|lg rest IH]; intros Hok Hn Hr.
  - exists (T rl ra []). split; [reflexivity|]. split; [|reflexivity]. split.
    + intro p. rewrite settings_none by reflexivity. destruct p; reflexivity.
    + intros [|c r] H; [left; reflexivity|discriminate].
  - destruct Hok as [Hhead Hok].
    destruct IH as (t & Ht & [Hsem Hnodes] & Hmax);
      [exact Hok|intros; apply Hn; right; auto|intros ? ? ?; apply Hr; right; auto|].
    cbn [fold_right]. rewrite Ht. unfold add_logger.
    destruct (resolve_all_in names (l_apps lg)) as [ids Hids]; [intros a Ha; eapply Hr; [left; reflexivity|exact Ha]|].
    rewrite Hids. rewrite add_parts_split by (apply Hn; left; auto).
    fold (lpath lg). remember (lpath lg) as q eqn:Eq in *.
    assert (Hq : q <> []) by (subst q; apply split_cc_nonempty).
    assert (Hnode : has_node t q = false).
    { destruct (has_node t q) eqn:E; [|reflexivity]. apply Hnodes in E as [E|(lg' & Hin & E)].
      - contradiction.
      - rewrite (Hhead lg' Hin) in E. discriminate. }
    eexists. split; [reflexivity|]. split; [split|].
    + intro p. rewrite add_sem by assumption.
      rewrite (settings_insert (lk_ids names rest) (lk_ids names (lg :: rest)) rl ra q
                               (l_level lg) (l_additive lg) ids Hq).
      * rewrite rev_involutive. destruct (is_prefix q p); [|apply Hsem].
        pose proof (Hsem (removelast q)) as Hs. unfold sem in Hs.
        apply (f_equal snd) in Hs. cbn [snd] in Hs. rewrite Hs. reflexivity.
      * intro r. unfold lk_ids, logger_at. cbn [List.find]. rewrite <- Eq.
        destruct (path_eqb q r); [rewrite Hids|]; reflexivity.
      * intros r P _. unfold lk_ids. destruct (logger_at rest r) as [lg'|] eqn:E; [|reflexivity].
        apply logger_at_some in E as [Hin E]. subst r. rewrite (Hhead lg' Hin) in P. discriminate.
    + intros r H. apply add_nodes in H; [|assumption|assumption].
      destruct H as [H|H].
      * apply Hnodes in H as [H|(lg' & Hin & H)]; [left; exact H|right].
        exists lg'. split; [right; exact Hin|exact H].
      * right. exists lg. split; [left; reflexivity|rewrite <- Eq; exact H].
    + rewrite add_max by assumption. cbn [fold_right]. rewrite Hmax. reflexivity.
Qed.

(* ====================================================================== *)
(* 5. the sort, permutations, and the main theorems                        *)
(* ====================================================================== *)

Definition key (lg : logger) : nat := length (l_name lg).

Lemma insert_perm x l : Permutation (insert_len x l) (x :: l).
Proof.
  induction l as [|y l IH]; cbn [insert_len]; [apply Permutation_refl|].
  destruct (Nat.leb _ _); [apply Permutation_refl|].
  eapply Permutation_trans; [apply perm_skip; exact IH|apply perm_swap].
Qed.

Lemma sort_perm l : Permutation (sort_len l) l.
Proof.
  induction l as [|x l IH]; cbn [sort_len]; [apply perm_nil|].
  eapply Permutation_trans; [apply insert_perm|apply perm_skip; exact IH].
Qed.

Fixpoint asc (l : list logger) : Prop :=
  match l with [] => True | x :: r => (forall y, In y r -> key x <= key y) /\ asc r end.
Fixpoint desc (l : list logger) : Prop :=
  match l with [] => True | x :: r => (forall y, In y r -> key y <= key x) /\ desc r end.

Lemma insert_asc x l : asc l -> asc (insert_len x l).
Proof.
  induction l as [|y l IH]; intro H; cbn [insert_len].
  - split; [intros ? []|exact I].
  - destruct H as [H1 H2]. fold (key x) (key y). destruct (Nat.leb (key x) (key y)) eqn:E.
    + apply Nat.leb_le in E. split; [|split; assumption].
      intros z [<-|Hz]; [exact E|]. specialize (H1 z Hz). lia.
    + apply Nat.leb_gt in E. split; [|apply IH; exact H2].
      intros z Hz. apply (Permutation_in _ (insert_perm x l)) in Hz as [<-|Hz]; [lia|auto].
Qed.

Lemma sort_asc l : asc (sort_len l).
Proof. induction l as [|x l IH]; [exact I|]. cbn [sort_len]. apply insert_asc. exact IH. Qed.

Lemma desc_snoc l x : desc l -> (forall y, In y l -> key x <= key y) -> desc (l ++ [x]).
Proof.
  induction l as [|z l IH]; intros H1 H2; cbn [app desc].
  - split; [intros ? []|exact I].
  - destruct H1 as [H1 H1']. split.
    + intros y Hy. apply in_app_or in Hy as [Hy|[<-|[]]]; [auto|apply H2; left; auto].
    + apply IH; [exact H1'|]. intros; apply H2; right; auto.
Qed.

Lemma asc_rev l : asc l -> desc (rev l).
Proof.
  induction l as [|x l IH]; intro H; [exact I|]. destruct H as [H1 H2]. cbn [rev].
  apply desc_snoc; [apply IH; exact H2|]. intros y Hy. apply in_rev in Hy. auto.
Qed.

(* sorted by byte length + distinct names => ancestors are inserted first *)
Lemma desc_ok l : desc l -> NoDup (map l_name l) -> ok_rev l.
Proof.
  induction l as [|lg rest IH]; intros Hd Hn; [exact I|].
  destruct Hd as [Hd1 Hd2]. cbn [map] in Hn. apply NoDup_cons_iff in Hn as [Hn1 Hn2].
  split; [|apply IH; assumption].
  intros lg' Hin. destruct (is_prefix (lpath lg) (lpath lg')) eqn:P; [exfalso|reflexivity].
  destruct (path_eq_dec (lpath lg) (lpath lg')) as [E|E].
  - apply split_cc_inj in E. apply Hn1. rewrite E. apply in_map. exact Hin.
  - apply is_prefix_plen_lt in P; [|apply split_cc_nonempty|exact E].
    unfold lpath in P. rewrite !split_cc_plen in P. specialize (Hd1 lg' Hin). unfold key in Hd1. lia.
Qed.

Lemma logger_at_unique l q lg :
  NoDup (map l_name l) -> In lg l -> lpath lg = q -> logger_at l q = Some lg.
Proof.
  induction l as [|x l IH]; intros Hn Hin Hq; [contradiction|].
  cbn [map] in Hn. apply NoDup_cons_iff in Hn as [Hn1 Hn2].
  unfold logger_at. cbn [List.find]. destruct (path_eqb (lpath x) q) eqn:E.
  - apply path_eqb_eq in E. destruct Hin as [->|Hin]; [reflexivity|].
    exfalso. apply Hn1. assert (l_name x = l_name lg) as -> by (apply split_cc_inj; unfold lpath in *; congruence).
    apply in_map. exact Hin.
  - destruct Hin as [->|Hin]; [rewrite Hq, path_eqb_refl in E; discriminate|].
    apply IH; assumption.
Qed.

Lemma logger_at_perm l1 l2 q :
  NoDup (map l_name l1) -> Permutation l1 l2 -> logger_at l1 q = logger_at l2 q.
Proof.
  intros Hn Hp.
  assert (Hn2 : NoDup (map l_name l2)).
  { eapply Permutation_NoDup; [apply Permutation_map; exact Hp|exact Hn]. }
  destruct (logger_at l1 q) as [lg|] eqn:E1.
  - apply logger_at_some in E1 as [Hin Hq]. symmetry. apply logger_at_unique; [exact Hn2| |exact Hq].
    eapply Permutation_in; eassumption.
  - destruct (logger_at l2 q) as [lg|] eqn:E2; [|reflexivity].
    apply logger_at_some in E2 as [Hin Hq].
    rewrite (logger_at_unique l1 q lg Hn) in E1; [discriminate| |exact Hq].
    eapply Permutation_in; [apply Permutation_sym; exact Hp|exact Hin].
Qed.

Lemma fold_left_as_right {A B} (g : B -> A -> B) l i :
  fold_left g l i = fold_right (fun x a => g a x) i (rev l).
Proof.
  revert i; induction l as [|x l IH]; intros i; [reflexivity|].
  cbn [fold_left rev]. rewrite fold_right_app. cbn [fold_right]. apply IH.
Qed.

Definition spec_max (cfg : config) : N :=
  fold_right N.max (c_root_level cfg) (map l_level (c_loggers cfg)).

Lemma fold_max_map rl l :
  fold_right (fun lg m => N.max m (l_level lg)) rl l = fold_right N.max rl (map l_level l).
Proof. induction l as [|x l IH]; [reflexivity|]. cbn [fold_right map]. rewrite IH. lia. Qed.

Lemma fold_max_perm rl (l1 l2 : list N) :
  Permutation l1 l2 -> fold_right N.max rl l1 = fold_right N.max rl l2.
Proof.
  induction 1; cbn [fold_right]; try congruence; lia.
Qed.

(* the tree built by SharedLogger::new answers every lookup as the spec says *)
Lemma build_correct cfg :
  valid cfg ->
  exists t, build cfg = Some t
    /\ (forall target, tlvl (find t target) = spec_level cfg target
                       /\ map (name_of cfg) (tapps (find t target)) = spec_chain cfg target)
    /\ max_level t = spec_max cfg.
Proof.
  intros (Hnd & Hnames & Hroot & Happs).
  unfold build. destruct (resolve_all_in (c_appenders cfg) (c_root_apps cfg) Hroot) as [ra Hra].
  rewrite Hra, fold_left_as_right.
  set (done := rev (sort_len (c_loggers cfg))).
  assert (Hperm : Permutation done (c_loggers cfg)).
  { unfold done. eapply Permutation_trans; [apply Permutation_sym, Permutation_rev|apply sort_perm]. }
  assert (Hin : forall lg, In lg done -> In lg (c_loggers cfg)).
  { intros lg H. eapply Permutation_in; eassumption. }
  assert (Hnd' : NoDup (map l_name done)).
  { eapply Permutation_NoDup; [apply Permutation_map, Permutation_sym; exact Hperm|exact Hnd]. }
  destruct (build_inv (c_appenders cfg) (c_root_level cfg) ra done) as (t & Ht & [Hsem _] & Hmax).
  - apply desc_ok; [apply asc_rev, sort_asc|exact Hnd'].
  - intros lg H. apply Hnames, Hin, H.
  - intros lg a H Ha. eapply Happs; [apply Hin; exact H|exact Ha].
  - exists t. split; [exact Ht|]. split.
    + intro target. specialize (Hsem (split_cc target)). unfold sem in Hsem. fold (find t target) in Hsem.
      pose proof (spec_is_settings cfg (rev (split_cc target))) as Hspec.
      rewrite (settings_ext _ (lk_names done)) in Hspec.
      2:{ intro r. unfold lk_names. rewrite (logger_at_perm done (c_loggers cfg) r Hnd' Hperm). reflexivity. }
      rewrite <- (resolve_all_names _ _ _ Hra) in Hspec.
      rewrite (settings_map (fun i => nth i (c_appenders cfg) []) (lk_ids (c_appenders cfg) done)) in Hspec.
      * rewrite <- Hsem in Hspec. cbn [fst snd] in Hspec. unfold spec_level, spec_chain, name_of.
        injection Hspec as -> ->. split; reflexivity.
      * intro r. unfold lk_names, lk_ids. destruct (logger_at done r) as [lg|] eqn:E; [|reflexivity].
        apply logger_at_some in E as [E _].
        destruct (resolve_all_in (c_appenders cfg) (l_apps lg)) as [ids Hids].
        { intros a Ha. eapply Happs; [apply Hin; exact E|exact Ha]. }
        rewrite Hids. cbn [option_map]. rewrite (resolve_all_names _ _ _ Hids). reflexivity.
    + rewrite Hmax, fold_max_map. unfold spec_max. apply fold_max_perm, Permutation_map, Hperm.
Qed.

Theorem routing_correct cfg :
  valid cfg ->
  exists t, build cfg = Some t /\
            forall target L, map (name_of cfg) (deliver t target L) = spec_deliver cfg target L.
Proof.
  intro Hv. destruct (build_correct cfg Hv) as (t & Ht & Hfind & _).
  exists t. split; [exact Ht|]. intros target L.
  destruct (Hfind target) as [H1 H2].
  unfold deliver, node_log, enabled, spec_deliver. rewrite H1.
  destruct (N.leb L (spec_level cfg target)); [exact H2|reflexivity].
Qed.

Theorem enabled_iff_threshold cfg t :
  valid cfg -> build cfg = Some t ->
  forall target L, enabled_at t target L = N.leb L (spec_level cfg target).
Proof.
  intros Hv Hb target L. destruct (build_correct cfg Hv) as (t' & Ht & Hfind & _).
  assert (t' = t) by congruence. subst t'.
  unfold enabled_at, enabled. destruct (Hfind target) as [-> _]. reflexivity.
Qed.

Theorem max_level_is_max cfg t :
  valid cfg -> build cfg = Some t -> max_level t = spec_max cfg.
Proof.
  intros Hv Hb. destruct (build_correct cfg Hv) as (t' & Ht & _ & Hm). congruence.
Qed.

(* ---- the spec does not depend on declaration order ---- *)
Lemma spec_rev_perm c1 c2 rq :
  NoDup (map l_name (c_loggers c1)) ->
  Permutation (c_loggers c1) (c_loggers c2) ->
  c_root_level c1 = c_root_level c2 -> c_root_apps c1 = c_root_apps c2 ->
  spec_level_rev c1 rq = spec_level_rev c2 rq /\ spec_chain_rev c1 rq = spec_chain_rev c2 rq.
Proof.
  intros Hn Hp Hl Ha. induction rq as [|c rq [IH1 IH2]]; [auto|].
  cbn [spec_level_rev spec_chain_rev].
  rewrite (logger_at_perm _ _ (rev (c :: rq)) Hn Hp), IH1, IH2. auto.
Qed.

Lemma valid_perm c1 c2 :
  valid c1 -> Permutation (c_loggers c1) (c_loggers c2) ->
  Permutation (c_appenders c1) (c_appenders c2) -> c_root_apps c1 = c_root_apps c2 -> valid c2.
Proof.
  intros (H1 & H2 & H3 & H4) Hp Hq Hr. repeat split.
  - eapply Permutation_NoDup; [apply Permutation_map; exact Hp|exact H1].
  - intros lg H. apply H2. eapply Permutation_in; [apply Permutation_sym; exact Hp|exact H].
  - intros a H. rewrite <- Hr in H. eapply Permutation_in; [exact Hq|auto].
  - intros lg a H Ha. eapply Permutation_in; [exact Hq|]. eapply H4; [|exact Ha].
    eapply Permutation_in; [apply Permutation_sym; exact Hp|exact H].
Qed.

Theorem routing_order_independent c1 c2 :
  valid c1 ->
  Permutation (c_loggers c1) (c_loggers c2) ->
  Permutation (c_appenders c1) (c_appenders c2) ->
  c_root_level c1 = c_root_level c2 -> c_root_apps c1 = c_root_apps c2 ->
  exists t1 t2, build c1 = Some t1 /\ build c2 = Some t2 /\
    forall target L,
      map (name_of c1) (deliver t1 target L) = map (name_of c2) (deliver t2 target L)
      /\ spec_deliver c1 target L = spec_deliver c2 target L.
Proof.
  intros Hv Hp Hq Hl Ha.
  destruct (routing_correct c1 Hv) as (t1 & Hb1 & H1).
  destruct (routing_correct c2 (valid_perm c1 c2 Hv Hp Hq Ha)) as (t2 & Hb2 & H2).
  exists t1, t2. repeat split; try assumption.
  - rewrite H1, H2. unfold spec_deliver, spec_level, spec_chain.
    destruct (spec_rev_perm c1 c2 (rev (split_cc target)) (proj1 Hv) Hp Hl Ha) as [-> ->]. reflexivity.
  - unfold spec_deliver, spec_level, spec_chain.
    destruct (spec_rev_perm c1 c2 (rev (split_cc target)) (proj1 Hv) Hp Hl Ha) as [-> ->]. reflexivity.
Qed.

(* ---- the spec's effective logger is the longest component-wise prefix ---- *)
Lemma logger_at_none ls q lg : logger_at ls q = None -> In lg ls -> lpath lg <> q.
Proof.
  unfold logger_at. intros H Hin E. apply (find_none _ _ H) in Hin.
  rewrite E, path_eqb_refl in Hin. discriminate.
Qed.

Lemma eff_rev_some ls rq lg :
  eff_rev ls rq = Some lg ->
  In lg ls /\ is_prefix (lpath lg) (rev rq) = true /\
  forall lg', In lg' ls -> is_prefix (lpath lg') (rev rq) = true ->
              length (lpath lg') <= length (lpath lg).
Proof.
  induction rq as [|c rq IH]; intro H; [discriminate|].
  cbn [eff_rev] in H. destruct (logger_at ls (rev (c :: rq))) as [lg0|] eqn:E.
  - injection H as ->. apply logger_at_some in E as [Hin Hq]. split; [exact Hin|].
    rewrite Hq. split; [apply is_prefix_refl|].
    intros lg' _ P. apply is_prefix_app in P as [s P]. rewrite P, app_length. lia.
  - destruct (IH H) as (H1 & H2 & H3). split; [exact H1|]. cbn [rev]. split.
    + apply is_prefix_snoc_r. exact H2.
    + intros lg' Hin P. cbn [rev] in P. apply is_prefix_snoc_inv in P as [P|P].
      * exfalso. eapply logger_at_none; eassumption.
      * apply H3; assumption.
Qed.

Lemma eff_rev_none ls rq :
  eff_rev ls rq = None -> forall lg, In lg ls -> is_prefix (lpath lg) (rev rq) = false.
Proof.
  induction rq as [|c rq IH]; intros H lg Hin.
  - cbn [rev]. pose proof (split_cc_nonempty (l_name lg)). unfold lpath.
    destruct (split_cc (l_name lg)); [contradiction|reflexivity].
  - cbn [eff_rev] in H. destruct (logger_at ls (rev (c :: rq))) as [lg0|] eqn:E; [discriminate|].
    destruct (is_prefix (lpath lg) (rev (c :: rq))) eqn:P; [|reflexivity].
    cbn [rev] in P. apply is_prefix_snoc_inv in P as [P|P].
    + exfalso. eapply logger_at_none; eassumption.
    + rewrite (IH H lg Hin) in P. discriminate.
Qed.

Lemma spec_level_eff cfg rq :
  spec_level_rev cfg rq =
  match eff_rev (c_loggers cfg) rq with Some lg => l_level lg | None => c_root_level cfg end.
Proof.
  induction rq as [|c rq IH]; [reflexivity|]. cbn [spec_level_rev eff_rev].
  destruct (logger_at (c_loggers cfg) (rev (c :: rq))); [reflexivity|exact IH].
Qed.

Lemma spec_chain_eff cfg rq :
  spec_chain_rev cfg rq =
  match eff_rev (c_loggers cfg) rq with
  | Some lg => l_apps lg ++ (if l_additive lg
                             then spec_chain_rev cfg (rev (removelast (lpath lg))) else [])
  | None => c_root_apps cfg
  end.
Proof.
  induction rq as [|c rq IH]; [reflexivity|]. cbn [spec_chain_rev eff_rev].
  destruct (logger_at (c_loggers cfg) (rev (c :: rq))) as [lg|] eqn:E; [|exact IH].
  apply logger_at_some in E as [_ E]. rewrite E. cbn [rev]. rewrite removelast_snoc, rev_involutive.
  reflexivity.
Qed.

Theorem eff_longest cfg target :
  match eff cfg target with
  | Some lg =>
    In lg (c_loggers cfg) /\ is_prefix (lpath lg) (split_cc target) = true /\
    (forall lg', In lg' (c_loggers cfg) -> is_prefix (lpath lg') (split_cc target) = true ->
                 length (lpath lg') <= length (lpath lg))
  | None => forall lg, In lg (c_loggers cfg) -> is_prefix (lpath lg) (split_cc target) = false
  end.
Proof.
  unfold eff. destruct (eff_rev (c_loggers cfg) (rev (split_cc target))) as [lg|] eqn:E.
  - apply eff_rev_some in E. rewrite rev_involutive in E. exact E.
  - intros lg Hin. pose proof (eff_rev_none _ _ E lg Hin) as H. rewrite rev_involutive in H. exact H.
Qed.

Theorem spec_by_eff cfg target :
  spec_level cfg target =
    match eff cfg target with Some lg => l_level lg | None => c_root_level cfg end
  /\ spec_chain cfg target =
    match eff cfg target with
    | Some lg => l_apps lg ++ (if l_additive lg
                               then spec_chain_rev cfg (rev (removelast (lpath lg))) else [])
    | None => c_root_apps cfg
    end.
Proof. split; [apply spec_level_eff|apply spec_chain_eff]. Qed.

(* a name that is only implied (no logger configured at it) is transparent *)
Lemma spec_implied_transparent cfg p c :
  logger_at (c_loggers cfg) (p ++ [c]) = None ->
  spec_level_rev cfg (rev (p ++ [c])) = spec_level_rev cfg (rev p) /\
  spec_chain_rev cfg (rev (p ++ [c])) = spec_chain_rev cfg (rev p).
Proof.
  intro H. rewrite rev_unit. cbn [spec_level_rev spec_chain_rev].
  change (rev (c :: rev p)) with (rev (rev p) ++ [c]). rewrite rev_involutive, H. auto.
Qed.
