(* C05 — the record stream through rotations (proofs).
   Spec side (independent of the model's code, defined in Proofs/Rolling.v):
   the event log of a history (EWrote r / EConsult _ _ fired / ETrunc) is
   folded by `ghost` into a segmentation of the written records
       (records of the current file, closed files newest first).
   This file proves, for EVERY history (appends, restarts in either mode),
   EVERY trigger (size, on-start-up, any oracle, pre- or post-processing) and
   EVERY roller (delete, fixed window with any base / count):
     * the directory IS that segmentation cut to the retention window
       (`files_are_segments`): the active file holds exactly the records of the
       current segment, archive base+j exactly those of the j-th newest closed
       segment for j < count, no other archive exists;
     * the segmentation partitions the stream of written records in order
       (`ghost_stream`), closed segments = number of rotations;
   and concludes `stream_suffix_invariant` / `read_is_suffix`. *)
From Coq Require Import List NArith Arith Bool Lia.
Import ListNotations.
From L4 Require Import Common.FSRoll Model.Rolling Proofs.Rolling.

(* ------------------------------------------------------------------ *)
(* the retention window at byte level                                   *)

Definition in_window (r : roller) (i : nat) : bool :=
  (base r <=? i) && (i <? base r + keep r).

(* A = archive contents, newest first (possibly longer than the window) *)
Definition Arch_inv (r : roller) (A : list bytes) (f : fs) : Prop :=
  forall i, lookup f (Arch i) = if in_window r i then nth_error A (i - base r) else None.

Lemma in_window_keep0 : forall r i, keep r = 0 -> in_window r i = false.
Proof.
  intros r i H; unfold in_window; rewrite H, Nat.add_0_r.
  destruct (Nat.leb_spec (base r) i); destruct (Nat.ltb_spec i (base r)); cbn; auto; lia.
Qed.

Lemma do_roll_arch : forall r A f v,
  Arch_inv r A f -> lookup f Active = Some v -> Arch_inv r (v :: A) (do_roll r f).
Proof.
  intros r A f v HA Hv i.
  destruct r as [|b [|k]]; cbn [do_roll].
  - rewrite lookup_remove; cbn [fname_eqb]. rewrite HA, !in_window_keep0 by reflexivity. reflexivity.
  - rewrite lookup_remove; cbn [fname_eqb]. rewrite HA, !in_window_keep0 by reflexivity. reflexivity.
  - rewrite lookup_rename by discriminate.
    rewrite lookup_shift_active, Hv. cbn [fname_eqb].
    unfold in_window; cbn [base keep].
    destruct (Nat.eqb_spec b i) as [<-|Hne].
    + rewrite Nat.leb_refl. destruct (Nat.ltb_spec b (b + S k)); [|lia].
      rewrite Nat.sub_diag. reflexivity.
    + rewrite lookup_shift.
      * destruct (Nat.ltb_spec i b) as [Hlt|Hge].
        { rewrite HA. unfold in_window; cbn [base keep].
          destruct (Nat.leb_spec b i); [lia|]. reflexivity. }
        destruct (Nat.eqb_spec i b); [lia|].
        destruct (Nat.leb_spec b i); [|lia]. cbn [andb].
        destruct (Nat.leb_spec i (b + k)) as [Hle|Hgt].
        { destruct (Nat.ltb_spec i (b + S k)); [|lia].
          rewrite HA. unfold in_window; cbn [base keep].
          destruct (Nat.leb_spec b (i - 1)); [|lia].
          destruct (Nat.ltb_spec (i - 1) (b + S k)); [|lia]. cbn [andb].
          replace (i - b) with (S (i - 1 - b)) by lia. reflexivity. }
        { destruct (Nat.ltb_spec i (b + S k)); [lia|].
          rewrite HA. unfold in_window; cbn [base keep].
          destruct (Nat.ltb_spec i (b + S k)); [lia|]. rewrite andb_false_r. reflexivity. }
      * intros j Hj Hnone. rewrite HA in *. unfold in_window in *; cbn [base keep] in *.
        destruct (Nat.leb_spec b (b + j)); [|lia].
        destruct (Nat.ltb_spec (b + j) (b + S k)); [|lia]. cbn [andb] in Hnone.
        destruct (Nat.leb_spec b (b + j + 1)); [|lia].
        destruct (Nat.ltb_spec (b + j + 1) (b + S k)); cbn [andb]; [|reflexivity].
        apply nth_error_None in Hnone. apply nth_error_None. lia.
Qed.

(* ------------------------------------------------------------------ *)
(* the directory is the ghost segmentation                              *)

Definition Seg_inv (r : roller) (g : gstate) (f : fs) : Prop :=
  content f Active = concat (fst g) /\ Arch_inv r (map (@concat N) (snd g)) f.

Lemma concat_snoc_b : forall (l : list bytes) (x : bytes), concat (l ++ [x]) = concat l ++ x.
Proof. intros. apply concat_snoc. Qed.

Lemma ghost_app : forall a b g, ghost (a ++ b) g = ghost b (ghost a g).
Proof. intros; unfold ghost; apply fold_left_app. Qed.

Lemma Arch_inv_ext : forall r A f f',
  (forall i, lookup f' (Arch i) = lookup f (Arch i)) -> Arch_inv r A f -> Arch_inv r A f'.
Proof. intros r A f f' H HA i. rewrite H. apply HA. Qed.

Lemma step_seg : forall c o s g, Good s ->
  Seg_inv (roll_by c) g (files s) ->
  Seg_inv (roll_by c) (ghost (snd (step c o s)) g) (files (fst (step c o s))).
Proof.
  intros c [chunks|a] s [cur closed] HG [Hact Harch]; cbn [step fst snd] in *.
  - (* append *)
    destruct (get_writer_spec s HG) as (G0 & L0 & W0 & A0 & F0 & C0).
    destruct (encode_flush_spec chunks _ _ L0 W0) as (E1 & _ & E3 & _).
    destruct (append_op_spec c chunks s HG) as (_ & _ & _ & H).
    set (v := content (files s) Active) in *.
    set (r := concat chunks) in *.
    destruct (is_pre (trig c)).
    + destruct H as (Hev & Ha & Hr). rewrite Hev.
      destruct (trigger_fire (trig c) s (blen v)); cbn [ghost fold_left gstep fst snd].
      * split.
        { unfold content; rewrite Ha. exact (eq_sym (concat_snoc [] r)). }
        { cbn [snd map]. rewrite <- Hact.
          eapply Arch_inv_ext; [exact Hr|].
          apply do_roll_arch; [|exact L0].
          eapply Arch_inv_ext; [exact A0|exact Harch]. }
      * split.
        { unfold content; rewrite Ha. cbn [fst]. rewrite (concat_snoc_b cur r), <- Hact. reflexivity. }
        { cbn [snd]. eapply Arch_inv_ext; [exact Hr|exact Harch]. }
    + destruct H as (Hev & Ha & Hr). rewrite Hev.
      destruct (trigger_fire (trig c) s (blen (v ++ r))); cbn [ghost fold_left gstep fst snd].
      * split.
        { unfold content; rewrite Ha. reflexivity. }
        { cbn [snd map]. rewrite (concat_snoc_b cur r), <- Hact.
          eapply Arch_inv_ext; [exact Hr|].
          apply do_roll_arch; [|exact E1].
          eapply Arch_inv_ext; [|exact Harch]. intros i; rewrite E3. apply A0. }
      * split.
        { unfold content; rewrite Ha. cbn [fst]. rewrite (concat_snoc_b cur r), <- Hact. reflexivity. }
        { eapply Arch_inv_ext; [exact Hr|exact Harch]. }
  - (* restart *)
    destruct (build_spec a (files s) (consults s)) as (_ & _ & _ & Hev & Ha & Hr).
    rewrite Hev. destruct a; cbn [ghost fold_left gstep fst snd].
    + split; [unfold content at 1; rewrite Ha; exact Hact|].
      eapply Arch_inv_ext; [exact Hr|exact Harch].
    + split; [unfold content; rewrite Ha; reflexivity|].
      eapply Arch_inv_ext; [exact Hr|exact Harch].
Qed.

Lemma run_ops_seg : forall c ops s g, Good s ->
  Seg_inv (roll_by c) g (files s) ->
  Seg_inv (roll_by c) (ghost (concat (snd (run_ops c ops s))) g) (files (fst (run_ops c ops s))).
Proof.
  intros c ops; induction ops as [|o ops IH]; intros s g HG HS; [exact HS|].
  rewrite run_ops_cons; cbn [fst snd concat]. rewrite ghost_app.
  apply IH; [apply step_good, HG|apply step_seg; assumption].
Qed.

(* the stream before the first build: pre-existing content of the active file
   counts as one (already written) record *)
Definition pre_recs (pre : option bytes) : list bytes :=
  match pre with Some v => [v] | None => [] end.
Definition g0 (pre : option bytes) : gstate := (pre_recs pre, []).

Lemma raw_seg : forall r pre, Seg_inv r (g0 pre) (files (raw pre)).
Proof.
  intros r pre; split.
  - destruct pre as [v|]; cbn; [rewrite app_nil_r|]; reflexivity.
  - intros i. destruct pre; cbn; destruct (in_window r i); try reflexivity;
      destruct (i - base r); reflexivity.
Qed.

(* For every history, trigger and roller: the directory is the segmentation
   computed from the event log alone. *)
Theorem files_are_segments : forall c a0 pre ops,
  let s := fst (run c a0 pre ops) in
  let g := ghost (concat (snd (run c a0 pre ops))) (g0 pre) in
  content (files s) Active = concat (fst g)
  /\ forall i, lookup (files s) (Arch i) =
       if in_window (roll_by c) i
       then nth_error (map (@concat N) (snd g)) (i - base (roll_by c)) else None.
Proof.
  intros c a0 pre ops. unfold run.
  exact (run_ops_seg c (Restart a0 :: ops) (raw pre) (g0 pre) (raw_good pre) (raw_seg _ pre)).
Qed.

(* ------------------------------------------------------------------ *)
(* pure facts about the segmentation (no model involved)                *)

Definition all_of (g : gstate) : list bytes := concat (rev (snd g)) ++ fst g.
Definition no_trunc (evs : list event) : Prop := Forall (fun e => is_trunc e = false) evs.

Lemma ghost_stream : forall evs g, no_trunc evs ->
  all_of (ghost evs g) = all_of g ++ wrote evs.
Proof.
  induction evs as [|e evs IH]; intros [cur closed] H.
  - cbn. rewrite app_nil_r. reflexivity.
  - inversion H as [|e' l He Hl]; subst.
    change (ghost (e :: evs) (cur, closed)) with (ghost evs (gstep (cur, closed) e)).
    rewrite IH by exact Hl.
    destruct e as [r|shown disk [|]|]; cbn [gstep fst snd wrote flat_map wrote1 app]; try discriminate.
    + unfold all_of; cbn [fst snd]. rewrite <- !app_assoc. reflexivity.
    + unfold all_of; cbn [fst snd rev]. rewrite concat_snoc, app_nil_r. reflexivity.
    + reflexivity.
Qed.

Lemma ghost_closed : forall evs g,
  length (snd (ghost evs g)) = length (snd g) + rolls evs.
Proof.
  induction evs as [|e evs IH]; intros [cur closed]; [cbn; lia|].
  change (ghost (e :: evs) (cur, closed)) with (ghost evs (gstep (cur, closed) e)).
  rewrite IH. unfold rolls. destruct e as [r|shown disk [|]|]; cbn; lia.
Qed.

(* ------------------------------------------------------------------ *)
(* what a history writes                                                *)

Lemma step_events : forall c o s, Good s ->
  wrote (snd (step c o s)) = op_records o
  /\ (o <> Restart false -> no_trunc (snd (step c o s))).
Proof.
  intros c [chunks|a] s HG; cbn [step op_records].
  - destruct (append_op_spec c chunks s HG) as (_ & _ & _ & H).
    destruct (is_pre (trig c)); destruct H as (-> & _); split; try reflexivity;
      intros _; repeat constructor.
  - destruct (build_spec a (files s) (consults s)) as (_ & _ & _ & -> & _).
    destruct a; split; try reflexivity; intro H; [constructor|congruence].
Qed.

Lemma wrote_app : forall a b, wrote (a ++ b) = wrote a ++ wrote b.
Proof. intros; unfold wrote; apply flat_map_app. Qed.

Lemma run_ops_events : forall c ops s, Good s ->
  wrote (concat (snd (run_ops c ops s))) = records ops
  /\ (~ In (Restart false) ops -> no_trunc (concat (snd (run_ops c ops s)))).
Proof.
  intros c ops; induction ops as [|o ops IH]; intros s HG.
  - split; [reflexivity|intros _; constructor].
  - rewrite run_ops_cons; cbn [snd concat].
    destruct (step_events c o s HG) as (W1 & T1).
    destruct (IH _ (step_good c o s HG)) as (W2 & T2).
    split.
    + rewrite wrote_app, W1, W2. reflexivity.
    + intros Hn. apply Forall_app; split.
      * apply T1. intros ->. apply Hn. left; reflexivity.
      * apply T2. intros Hin. apply Hn. right; exact Hin.
Qed.

Lemma append_restarts_no_false : forall ops, append_restarts ops -> ~ In (Restart false) ops.
Proof. intros ops H Hin. specialize (H false Hin). discriminate. Qed.

(* every acknowledged record is written exactly once, in order, and nothing else *)
Theorem history_writes_records : forall c a0 pre ops,
  wrote (concat (snd (run c a0 pre ops))) = records ops.
Proof.
  intros; unfold run.
  destruct (run_ops_events c (Restart a0 :: ops) (raw pre) (raw_good pre)) as (W & _).
  exact W.
Qed.

(* ------------------------------------------------------------------ *)
(* list plumbing for the window                                         *)

Lemma map_nth_seq_gen : forall {A} (d : A) (l : list A) k,
  map (fun j => nth j l d) (seq 0 k) = firstn k l ++ repeat d (k - length l).
Proof.
  intros A d l; induction l as [|x l IH]; intros k.
  - rewrite firstn_nil. cbn [length app]. rewrite Nat.sub_0_r. apply map_nth_nil_seq.
  - destruct k as [|k]; [reflexivity|].
    cbn [seq map nth length Nat.sub firstn]. rewrite <- app_comm_cons. f_equal.
    rewrite <- seq_shift, map_map. cbn [nth]. apply IH.
Qed.

Lemma seq_from : forall b k, seq b k = map (fun j => b + j) (seq 0 k).
Proof.
  intros b k; revert b; induction k as [|k IH]; intros b; [reflexivity|].
  cbn [seq map]. rewrite Nat.add_0_r. f_equal.
  rewrite <- (seq_shift k 0), map_map, (IH (S b)). apply map_ext. intros; lia.
Qed.

Lemma nth_error_map_concat : forall (l : list (list bytes)) j,
  match nth_error (map (@concat N) l) j with Some v => v | None => [] end = concat (nth j l []).
Proof.
  induction l as [|x l IH]; intros [|j]; cbn; auto.
Qed.

Lemma concat_concat : forall {A} (l : list (list (list A))),
  concat (concat l) = concat (map (@concat A) l).
Proof.
  intros A l; induction l as [|x l IH]; [reflexivity|].
  cbn [concat map]. rewrite concat_app, IH. reflexivity.
Qed.

Lemma skipn_length_app : forall {A} (a b : list A), skipn (length a) (a ++ b) = b.
Proof. intros A a b; induction a; [reflexivity|assumption]. Qed.

(* ------------------------------------------------------------------ *)
(* C05 headline                                                         *)

(* For every append-mode history, every trigger and every roller there are
   record lists `lost` (whole evicted files, oldest first) and `kept` (one list
   of WHOLE records per name in read order: archives oldest -> newest, then the
   active file) with
     lost ++ kept = the acknowledged stream, in order, each record once;
     each retained file is exactly the concatenation of its records;
     no archive exists outside the window;
     nothing is lost while at most `count` rotations happened. *)
Theorem stream_suffix_invariant : forall c pre ops,
  append_restarts ops ->
  let s := fst (run c true pre ops) in
  let evs := concat (snd (run c true pre ops)) in
  let stream := pre_recs pre ++ records ops in
  let r := roll_by c in
  exists (lost kept : list (list bytes)),
    concat lost ++ concat kept = stream
    /\ map (content (files s)) (read_order r) = map (@concat N) kept
    /\ (forall i, in_window r i = false -> lookup (files s) (Arch i) = None)
    /\ length lost = rolls evs - keep r
    /\ (rolls evs <= keep r -> lost = []).
Proof.
  intros c pre ops Happ s evs stream r.
  destruct (files_are_segments c true pre ops) as (Hact & Harch).
  fold s evs r in Hact, Harch.
  destruct (run_ops_events c (Restart true :: ops) (raw pre) (raw_good pre)) as (W & T).
  fold (run c true pre ops) in W, T. fold evs in W, T.
  assert (NT : no_trunc evs).
  { apply T. intros [H|H]; [discriminate|]. apply (append_restarts_no_false ops Happ H). }
  pose proof (ghost_stream evs (g0 pre) NT) as GS.
  pose proof (ghost_closed evs (g0 pre)) as GC.
  destruct (ghost evs (g0 pre)) as [cur closed] eqn:Eg. cbn [fst snd] in *.
  unfold all_of in GS; cbn [fst snd g0 rev concat app length] in GS, GC.
  rewrite W in GS. cbn [records flat_map op_records app] in GS.
  set (k := keep r).
  exists (rev (skipn k closed)),
         (rev (map (fun j => nth j closed []) (seq 0 k)) ++ [cur]).
  split; [|split; [|split; [|split]]].
  - rewrite concat_snoc, map_nth_seq_gen, rev_app_distr, rev_repeat_id, concat_app,
      concat_repeat_nil. rewrite !app_nil_l in *. rewrite app_assoc, <- concat_app, <- rev_app_distr,
      firstn_skipn. exact GS.
  - unfold read_order. fold k. rewrite !map_app. cbn [map]. f_equal; [|rewrite Hact; reflexivity].
    rewrite !map_map, !map_rev, !map_map. f_equal.
    rewrite seq_from, map_map. apply map_ext_in. intros j Hj. apply in_seq in Hj.
    unfold content. rewrite Harch. unfold in_window. fold k.
    destruct (Nat.leb_spec (base r) (base r + j)); [|lia].
    destruct (Nat.ltb_spec (base r + j) (base r + k)); [|lia]. cbn [andb].
    replace (base r + j - base r) with j by lia. apply nth_error_map_concat.
  - intros i Hi. rewrite Harch, Hi. reflexivity.
  - rewrite rev_length, skipn_length. lia.
  - intros Hle. rewrite skipn_all2 by lia. reflexivity.
Qed.

(* byte level: reading archives oldest -> newest then the active file gives a
   suffix of the written stream that starts at a record (indeed file) boundary;
   the whole stream while at most `count` rotations happened *)
Theorem read_is_suffix : forall c pre ops,
  append_restarts ops ->
  let s := fst (run c true pre ops) in
  let evs := concat (snd (run c true pre ops)) in
  let stream := pre_recs pre ++ records ops in
  exists k, read (roll_by c) (files s) = concat (skipn k stream)
            /\ (rolls evs <= keep (roll_by c) -> k = 0).
Proof.
  intros c pre ops Happ s evs stream.
  destruct (stream_suffix_invariant c pre ops Happ) as (lost & kept & H1 & H2 & _ & _ & H5).
  fold s evs stream in H1, H2, H5.
  exists (length (concat lost)). split.
  - unfold read. rewrite H2, <- H1, skipn_length_app. symmetry. apply concat_concat.
  - intros Hle. rewrite (H5 Hle). reflexivity.
Qed.

(* restart: in append mode invisible (an absent active file is created empty),
   in truncate mode it discards exactly the active file *)
Theorem restart_preserves : forall c s a,
  reach c s ->
  let s' := fst (step c (Restart a) s) in
  reach c s'
  /\ content (files s') Active = (if a then content (files s) Active else [])
  /\ (forall i, lookup (files s') (Arch i) = lookup (files s) (Arch i))
  /\ wrote (snd (step c (Restart a) s)) = [] /\ rolls (snd (step c (Restart a) s)) = 0.
Proof.
  intros c s a HR s'. split; [apply reach_step, HR|].
  unfold s'; cbn [step].
  destruct (build_spec a (files s) (consults s)) as (_ & _ & _ & Hev & Ha & Hr).
  rewrite Hev. unfold content at 1. rewrite Ha.
  repeat split; auto; destruct a; reflexivity.
Qed.

(* ------------------------------------------------------------------ *)
(* C06, history form: the events of the i-th op of a history            *)

Lemma run_ops_nth : forall c ops s i o,
  nth_error ops i = Some o ->
  nth_error (snd (run_ops c ops s)) i
  = Some (snd (step c o (fst (run_ops c (firstn i ops) s)))).
Proof.
  intros c ops; induction ops as [|o' ops IH]; intros s i o H; [destruct i; discriminate|].
  rewrite run_ops_cons. destruct i as [|i]; cbn [nth_error snd firstn] in *.
  - injection H as <-. reflexivity.
  - rewrite run_ops_cons; cbn [fst]. apply IH, H.
Qed.

(* In every history under a size trigger, the i-th op, if it appends a record,
   writes it, consults the policy exactly once with the true size after the
   write, and rotates iff that size exceeds the limit. *)
Theorem size_rolls_exactly : forall limit rl a0 pre ops i chunks,
  nth_error ops i = Some (Append chunks) ->
  let c := {| trig := TSize limit; roll_by := rl |} in
  let before := fst (run c a0 pre (firstn i ops)) in
  let sz := (disk_len (files before) + blen (concat chunks))%N in
  nth_error (snd (run c a0 pre ops)) (S i)
  = Some [EWrote (concat chunks); EConsult sz sz (limit <? sz)%N].
Proof.
  intros limit rl a0 pre ops i chunks H c before sz. unfold run.
  rewrite (run_ops_nth c (Restart a0 :: ops) (raw pre) (S i) (Append chunks)) by exact H.
  cbn [firstn step]. f_equal.
  assert (HR : reach c before) by apply reach_run.
  destruct (rolls_iff_exceeds limit rl before chunks HR) as (Hev & _).
  exact Hev.
Qed.
