(* C16 — get_next_time against a declarative schedule.
   `spec_next u n modulate l` is the LOCAL (naive) time the property asks for, as a
   function of the local time l of `now`: n units after the start of the current
   unit, or the next multiple of n counted from the start of the enclosing period.
   It is written with floor division on seconds, month_start/jan1/iso_year_start
   and the calendar functions whose meaning Proofs/Civil.v pins down; it never
   looks at a zone.  `schedule_exact` says the model returns exactly that local
   time read under the offset in force at `now`, whenever that offset is constant
   between the local time chrono is asked to resolve and `now`. *)
From Coq Require Import ZArith NArith Lia List Bool.
From L4 Require Import Model.Civil Model.TZ Model.TimeTrig Proofs.Civil Proofs.TZ Proofs.TimeTrigBasic.
Import ListNotations.
Local Open Scope Z_scope.

(* ---------- the declarative schedule ---------- *)

Definition local (z : zone) (t : Z) : Z := t + offset_at z t.

(* index (from January of year 0) of the month that contains day z *)
Definition month_index (z : Z) : Z :=
  let '(y, m, _) := civil_from_days z in 12 * y + (m - 1).

Definition unit_secs (u : tunit) : Z :=
  match u with
  | USecond => 1 | UMinute => 60 | UHour => 3600 | UDay => 86400 | UWeek => 604800
  | UMonth => 31 * 86400 | UYear => 366 * 86400
  end.

(* local start of the unit that contains local time l *)
Definition unit_start (u : tunit) (l : Z) : Z :=
  let day := l / 86400 in
  match u with
  | USecond => l
  | UMinute => l / 60 * 60
  | UHour => l / 3600 * 3600
  | UDay => day * 86400
  | UWeek => (day - weekday_mon day) * 86400
  | UMonth => month_start (month_index day) * 86400
  | UYear => jan1 (year_of day) * 86400
  end.

Definition spec_next (u : tunit) (n : Z) (modulate : bool) (l : Z) : Z :=
  let day := l / 86400 in
  match u with
  | USecond => if modulate then l / 60 * 60 + (l mod 60 / n + 1) * n else l + n
  | UMinute => if modulate then l / 3600 * 3600 + (l mod 3600 / 60 / n + 1) * n * 60
               else l / 60 * 60 + n * 60
  | UHour => if modulate then day * 86400 + (l mod 86400 / 3600 / n + 1) * n * 3600
             else l / 3600 * 3600 + n * 3600
  | UDay => if modulate
            then (jan1 (year_of day) + ((day - jan1 (year_of day)) / n + 1) * n) * 86400
            else (day + n) * 86400
  | UWeek => let monday := day - weekday_mon day in
             let ys := iso_year_start (iso_year day) in
             if modulate then (ys + 7 * (((monday - ys) / 7 / n + 1) * n)) * 86400
             else (monday + 7 * n) * 86400
  | UMonth => let k := month_index day in
              month_start (if modulate then k / 12 * 12 + (k mod 12 / n + 1) * n else k + n) * 86400
  | UYear => let y := year_of day in
             jan1 (if modulate then (Z.quot y n + 1) * n else y + n) * 86400
  end.

(* the local time the code hands to chrono for resolution *)
Definition resolve_point (u : tunit) (n : Z) (modulate : bool) (l : Z) : Z :=
  match u with
  | UWeek => l / 86400 * 86400
  | UMonth | UYear => spec_next u n modulate l
  | _ => unit_start u l
  end.

(* interval class (outside: F-C16-degenerate-interval) *)
Definition n_ok (u : tunit) (n l : Z) : Prop :=
  1 <= n /\
  match u with
  | UYear => n < 2147483648
  | UMonth => n < 4294967296 /\ 0 <= l <= max_utc
  | _ => True
  end.

(* zone class (outside: F-C16-dst-overlap-panic / F-C16-fallback-storm): the offset in
   force at `now` is in force from the resolved local time (read under that offset)
   up to `now` *)
Definition core_hyp (z : zone) (now : Z) (u : tunit) (n : Z) (modulate : bool) : Prop :=
  let off := offset_at z now in
  let rp := resolve_point u n modulate (now + off) in
  const_on z off (rp - off) (Z.max now (rp - off)).

(* ---------- inversion of the monadic steps ---------- *)

Lemma bind_ok : forall A B (e : res A) (k : A -> res B) t,
  bind e k = Ok t -> exists a, e = Ok a /\ k a = Ok t.
Proof. intros A B e k t H. destruct e as [a|w]; [exists a; split; [reflexivity|exact H]|discriminate]. Qed.

Ltac inv_bind H a Ha :=
  apply bind_ok in H; destruct H as (a & Ha & H).

Lemma with_ymd_inv : forall z y m d h mi s time,
  with_ymd_and_hms z y m d h mi s = Ok time ->
  exists off', resolve_local z (days_from_civil y m d * 86400 + h * 3600 + mi * 60 + s) = LSingle off' /\
               time = days_from_civil y m d * 86400 + h * 3600 + mi * 60 + s - off' /\
               min_year <= y <= max_year.
Proof.
  intros z y m d h mi s time H. unfold with_ymd_and_hms in H.
  destruct ((min_year <=? y) && (y <=? max_year)) eqn:E; [|discriminate].
  apply andb_prop in E. destruct E as [E1 E2]. apply Z.leb_le in E1, E2.
  cbv zeta in H.
  destruct (resolve_local z _) as [|o|a b] eqn:R; try discriminate.
  exists o. injection H as <-. repeat split; lia.
Qed.

Lemma increment_ok : forall m n x inc, 1 <= n -> 0 <= x ->
  increment m n x = Ok inc -> inc = if m then n - x mod n else n.
Proof.
  intros m n x inc Hn Hx H. unfold increment in H. destruct m.
  - destruct (n =? 0) eqn:E; [apply Z.eqb_eq in E; lia|].
    injection H as <-. rewrite Z.rem_mod_nonneg by lia. reflexivity.
  - injection H as <-. reflexivity.
Qed.

Lemma duration_ok : forall per n s, duration per n = Ok s -> s = n * per.
Proof. intros per n s H. unfold duration in H. cbv zeta in H. destruct (_ && _); [injection H as <-; reflexivity|discriminate]. Qed.

Lemma dt_add_ok : forall a d r, dt_add a d = Ok r -> r = a + d.
Proof. intros a d r H. unfold dt_add in H. cbv zeta in H. destruct (_ && _); [injection H as <-; reflexivity|discriminate]. Qed.

Lemma chk_i32_ok : forall v r, chk_i32 v = Ok r -> r = v /\ -2147483648 <= v <= 2147483647.
Proof.
  intros v r H. unfold chk_i32 in H. destruct (_ && _) eqn:E; [|discriminate].
  apply andb_prop in E. destruct E as [E1 E2]. apply Z.leb_le in E1, E2. injection H as <-. lia.
Qed.

Lemma chk_u32_ok : forall v r, chk_u32 v = Ok r -> r = v /\ 0 <= v <= 4294967295.
Proof.
  intros v r H. unfold chk_u32 in H. destruct (_ && _) eqn:E; [|discriminate].
  apply andb_prop in E. destruct E as [E1 E2]. apply Z.leb_le in E1, E2. injection H as <-. lia.
Qed.

Lemma mod_align : forall x n, 0 < n -> x + (n - x mod n) = (x / n + 1) * n.
Proof. intros x n Hn. pose proof (Z.div_mod x n ltac:(lia)). lia. Qed.

Lemma quot_align : forall x n, 0 < n -> x + (n - Z.rem x n) = (Z.quot x n + 1) * n.
Proof. intros x n Hn. pose proof (Z.quot_rem' x n). nia. Qed.

Lemma rem_lt : forall x n, 0 < n -> Z.rem x n < n.
Proof.
  intros x n Hn. pose proof (Z.rem_bound_abs x n ltac:(lia)). lia.
Qed.

(* ---------- calendar facts used below ---------- *)

Lemma month_index_bounds : forall z,
  month_start (month_index z) <= z < month_start (month_index z + 1).
Proof.
  intros z. unfold month_index. destruct (civil_from_days z) as [[y m] d] eqn:E.
  destruct (civil_from_days_spec _ _ _ _ E) as (_ & _ & _ & H). exact H.
Qed.

Lemma jan1_1970 : jan1 1970 = 0.
Proof. vm_compute. reflexivity. Qed.

Lemma max_utc_day : max_utc / 86400 < jan1 (max_year + 1).
Proof. vm_compute. reflexivity. Qed.

Lemma year_range : forall l, 0 <= l <= max_utc -> 1970 <= year_of (l / 86400) <= max_year.
Proof.
  intros l H. split.
  - apply year_of_ge. rewrite jan1_1970. apply Z.div_pos; lia.
  - apply year_of_le. pose proof max_utc_day.
    assert (l / 86400 <= max_utc / 86400) by (apply Z.div_le_mono; lia). lia.
Qed.

(* ---------- the schedule is strictly after now, and starts a unit ---------- *)

Lemma unit_start_le : forall u l, unit_start u l <= l.
Proof.
  intros u l. unfold unit_start. cbv zeta.
  pose proof (weekday_bounds (l / 86400)).
  pose proof (month_index_bounds (l / 86400)).
  pose proof (year_of_bounds' (l / 86400)).
  destruct u; Z.div_mod_to_equations; lia.
Qed.

Lemma spec_next_after : forall u n m l, 1 <= n -> l < spec_next u n m l.
Proof.
  intros u n m l Hn. unfold spec_next. cbv zeta.
  set (day := l / 86400).
  assert (Hday : day * 86400 <= l < (day + 1) * 86400)
    by (subst day; Z.div_mod_to_equations; lia).
  destruct u.
  - destruct m; [|lia].
    pose proof (mod_align (l mod 60) n ltac:(lia)).
    pose proof (Z.mod_pos_bound (l mod 60) n ltac:(lia)).
    pose proof (Z.div_mod l 60 ltac:(lia)). lia.
  - destruct m.
    + pose proof (mod_align (l mod 3600 / 60) n ltac:(lia)).
      pose proof (Z.mod_pos_bound (l mod 3600 / 60) n ltac:(lia)).
      assert (l < l / 3600 * 3600 + (l mod 3600 / 60 + 1) * 60)
        by (Z.div_mod_to_equations; lia).
      nia.
    + assert (l < l / 60 * 60 + 60) by (Z.div_mod_to_equations; lia). nia.
  - destruct m.
    + pose proof (mod_align (l mod 86400 / 3600) n ltac:(lia)).
      pose proof (Z.mod_pos_bound (l mod 86400 / 3600) n ltac:(lia)).
      assert (l < day * 86400 + (l mod 86400 / 3600 + 1) * 3600)
        by (subst day; Z.div_mod_to_equations; lia).
      nia.
    + assert (l < l / 3600 * 3600 + 3600) by (Z.div_mod_to_equations; lia). nia.
  - destruct m; [|nia].
    pose proof (mod_align (day - jan1 (year_of day)) n ltac:(lia)).
    pose proof (Z.mod_pos_bound (day - jan1 (year_of day)) n ltac:(lia)).
    nia.
  - pose proof (weekday_bounds day).
    destruct m; [|nia].
    destruct (iso_week0_spec day) as (E & Hw & _).
    set (ys := iso_year_start (iso_year day)) in *.
    replace ((day - weekday_mon day - ys) / 7) with (iso_week0 day)
      by (rewrite E; replace (ys + 7 * iso_week0 day - ys) with (iso_week0 day * 7) by lia;
          rewrite Z.div_mul by lia; reflexivity).
    pose proof (mod_align (iso_week0 day) n ltac:(lia)).
    pose proof (Z.mod_pos_bound (iso_week0 day) n ltac:(lia)).
    nia.
  - pose proof (month_index_bounds day) as [_ Hb].
    set (k := month_index day) in *.
    assert (Hk : k + 1 <= (if m then k / 12 * 12 + (k mod 12 / n + 1) * n else k + n)).
    { destruct m; [|lia].
      pose proof (mod_align (k mod 12) n ltac:(lia)).
      pose proof (Z.mod_pos_bound (k mod 12) n ltac:(lia)).
      pose proof (Z.div_mod k 12 ltac:(lia)). lia. }
    pose proof (month_start_mono_le _ _ Hk). nia.
  - pose proof (year_of_bounds' day) as [_ Hb].
    set (y := year_of day) in *.
    assert (Hy : y + 1 <= (if m then (Z.quot y n + 1) * n else y + n)).
    { destruct m; [|lia].
      pose proof (quot_align y n ltac:(lia)). pose proof (rem_lt y n ltac:(lia)). lia. }
    pose proof (jan1_mono_le _ _ Hy). nia.
Qed.

(* ---------- field arithmetic of the truncations ---------- *)

Lemma trunc_sec : forall l,
  l / 86400 * 86400 + l mod 86400 / 3600 * 3600 + l mod 86400 mod 3600 / 60 * 60 + l mod 86400 mod 60 = l.
Proof. intros l. Z.div_mod_to_equations. lia. Qed.

Lemma trunc_min : forall l,
  l / 86400 * 86400 + l mod 86400 / 3600 * 3600 + l mod 86400 mod 3600 / 60 * 60 + 0 = l / 60 * 60.
Proof. intros l. Z.div_mod_to_equations. lia. Qed.

Lemma trunc_hour : forall l,
  l / 86400 * 86400 + l mod 86400 / 3600 * 3600 + 0 * 60 + 0 = l / 3600 * 3600.
Proof. intros l. Z.div_mod_to_equations. lia. Qed.

Lemma trunc_day : forall l, l / 86400 * 86400 + 0 * 3600 + 0 * 60 + 0 = l / 86400 * 86400.
Proof. intros l. lia. Qed.

Lemma field_sec : forall l, l mod 86400 mod 60 = l mod 60.
Proof. intros l. Z.div_mod_to_equations. lia. Qed.

Lemma field_min : forall l, l mod 86400 mod 3600 / 60 = l mod 3600 / 60.
Proof. intros l. Z.div_mod_to_equations. lia. Qed.

(* folding lemmas (kept tiny so that no large conversion is ever needed) *)
Lemma month_index_eq : forall z y mo d, civil_from_days z = (y, mo, d) -> month_index z = 12 * y + (mo - 1).
Proof. intros z y mo d E. unfold month_index. rewrite E. reflexivity. Qed.

Lemma year_of_eq : forall z y mo d, civil_from_days z = (y, mo, d) -> year_of z = y.
Proof. intros z y mo d E. unfold year_of. rewrite E. reflexivity. Qed.

Lemma month_start_fold : forall k, days_from_civil (k / 12) (k mod 12 + 1) 1 = month_start k.
Proof. reflexivity. Qed.

Lemma jan1_fold : forall y, days_from_civil y 1 1 = jan1 y.
Proof. reflexivity. Qed.

Lemma ordinal0_jan1 : forall z, ordinal0 z = z - jan1 (year_of z).
Proof. intros z. unfold ordinal0, jan1. reflexivity. Qed.

(* ---------- the main lemma, unit by unit ---------- *)

Lemma wrap_u32_small : forall v, 0 <= v < 4294967296 -> wrap_u32 v = v.
Proof. intros v H. unfold wrap_u32. apply Z.mod_small. lia. Qed.

Lemma wrap_i32_small : forall v, -2147483648 <= v < 2147483648 -> wrap_i32 v = v.
Proof. intros v H. unfold wrap_i32. rewrite Z.mod_small by lia. lia. Qed.

Section Exact.
Variables (K : Z) (z : zone) (now : Z).
Hypothesis Hsane : sane K z = true.
Let off := offset_at z now.
Let l := now + off.

(* common part of Second/Minute/Hour/Day/Week: the truncated local time resolves
   to the offset in force at now *)
Lemma resolve_trunc : forall lt o',
  lt <= l -> const_on z off (lt - off) (Z.max now (lt - off)) ->
  resolve_local z lt = LSingle o' -> o' = off.
Proof.
  intros lt o' Hle Hc Hr.
  apply (resolve_local_const K z lt off (Z.max now (lt - off)) o' Hsane); [lia|exact Hc|exact Hr].
Qed.

Lemma resolve_target : forall lt o',
  const_on z off (lt - off) (Z.max now (lt - off)) ->
  resolve_local z lt = LSingle o' -> o' = off.
Proof.
  intros lt o' Hc Hr.
  apply (resolve_local_const K z lt off (Z.max now (lt - off)) o' Hsane); [lia|exact Hc|exact Hr].
Qed.

Lemma exact_second : forall n m t, 1 <= n ->
  core_hyp z now USecond n m -> get_next_time z now USecond n m = Ok t ->
  t = spec_next USecond n m l - off.
Proof.
  intros n m t Hn Hc H. unfold core_hyp in Hc. cbv zeta in Hc. fold off in Hc. fold l in Hc.
  unfold resolve_point, unit_start in Hc. cbv zeta in Hc.
  unfold get_next_time in H. fold off in H. cbv zeta in H. fold l in H.
  destruct (civil_from_days (l / 86400)) as [[y mo] d] eqn:Ec.
  destruct (civil_from_days_spec _ _ _ _ Ec) as (Hd & _).
  inv_bind H time Ht. inv_bind H inc Hi. inv_bind H dur Hdu.
  apply with_ymd_inv in Ht. destruct Ht as (o' & Hr & -> & _).
  rewrite Hd, trunc_sec in Hr, H.
  apply (resolve_trunc l o' ltac:(lia) Hc) in Hr. subst o'.
  rewrite field_sec in Hi.
  apply increment_ok in Hi; [|lia|apply Z.mod_pos_bound; lia].
  apply duration_ok in Hdu. apply dt_add_ok in H. subst t dur inc.
  unfold spec_next. destruct m; [|lia].
  pose proof (mod_align (l mod 60) n ltac:(lia)). pose proof (Z.div_mod l 60 ltac:(lia)). lia.
Qed.

Lemma exact_minute : forall n m t, 1 <= n ->
  core_hyp z now UMinute n m -> get_next_time z now UMinute n m = Ok t ->
  t = spec_next UMinute n m l - off.
Proof.
  intros n m t Hn Hc H. unfold core_hyp in Hc. cbv zeta in Hc. fold off in Hc. fold l in Hc.
  unfold resolve_point, unit_start in Hc. cbv zeta in Hc.
  unfold get_next_time in H. fold off in H. cbv zeta in H. fold l in H.
  destruct (civil_from_days (l / 86400)) as [[y mo] d] eqn:Ec.
  destruct (civil_from_days_spec _ _ _ _ Ec) as (Hd & _).
  inv_bind H time Ht. inv_bind H inc Hi. inv_bind H dur Hdu.
  apply with_ymd_inv in Ht. destruct Ht as (o' & Hr & -> & _).
  rewrite Hd, trunc_min in Hr, H.
  assert (Hle : l / 60 * 60 <= l) by (Z.div_mod_to_equations; lia).
  apply (resolve_trunc _ o' Hle Hc) in Hr. subst o'.
  rewrite field_min in Hi.
  apply increment_ok in Hi; [|lia|Z.div_mod_to_equations; lia].
  apply duration_ok in Hdu. apply dt_add_ok in H. subst t dur inc.
  unfold spec_next. destruct m; [|lia].
  pose proof (mod_align (l mod 3600 / 60) n ltac:(lia)).
  assert (l / 60 * 60 = l / 3600 * 3600 + l mod 3600 / 60 * 60) by (Z.div_mod_to_equations; lia).
  lia.
Qed.

Lemma exact_hour : forall n m t, 1 <= n ->
  core_hyp z now UHour n m -> get_next_time z now UHour n m = Ok t ->
  t = spec_next UHour n m l - off.
Proof.
  intros n m t Hn Hc H. unfold core_hyp in Hc. cbv zeta in Hc. fold off in Hc. fold l in Hc.
  unfold resolve_point, unit_start in Hc. cbv zeta in Hc.
  unfold get_next_time in H. fold off in H. cbv zeta in H. fold l in H.
  destruct (civil_from_days (l / 86400)) as [[y mo] d] eqn:Ec.
  destruct (civil_from_days_spec _ _ _ _ Ec) as (Hd & _).
  inv_bind H time Ht. inv_bind H inc Hi. inv_bind H dur Hdu.
  apply with_ymd_inv in Ht. destruct Ht as (o' & Hr & -> & _).
  rewrite Hd, trunc_hour in Hr, H.
  assert (Hle : l / 3600 * 3600 <= l) by (Z.div_mod_to_equations; lia).
  apply (resolve_trunc _ o' Hle Hc) in Hr. subst o'.
  apply increment_ok in Hi; [|lia|Z.div_mod_to_equations; lia].
  apply duration_ok in Hdu. apply dt_add_ok in H. subst t dur inc.
  unfold spec_next. cbv zeta. destruct m; [|lia].
  pose proof (mod_align (l mod 86400 / 3600) n ltac:(lia)).
  assert (l / 3600 * 3600 = l / 86400 * 86400 + l mod 86400 / 3600 * 3600)
    by (Z.div_mod_to_equations; lia).
  lia.
Qed.

Lemma exact_day : forall n m t, 1 <= n ->
  core_hyp z now UDay n m -> get_next_time z now UDay n m = Ok t ->
  t = spec_next UDay n m l - off.
Proof.
  intros n m t Hn Hc H. unfold core_hyp in Hc. cbv zeta in Hc. fold off in Hc. fold l in Hc.
  unfold resolve_point, unit_start in Hc. cbv zeta in Hc.
  unfold get_next_time in H. fold off in H. cbv zeta in H. fold l in H.
  destruct (civil_from_days (l / 86400)) as [[y mo] d] eqn:Ec.
  destruct (civil_from_days_spec _ _ _ _ Ec) as (Hd & _).
  inv_bind H time Ht. inv_bind H inc Hi. inv_bind H dur Hdu.
  apply with_ymd_inv in Ht. destruct Ht as (o' & Hr & -> & _).
  rewrite Hd, trunc_day in Hr, H.
  assert (Hle : l / 86400 * 86400 <= l) by (Z.div_mod_to_equations; lia).
  apply (resolve_trunc _ o' Hle Hc) in Hr. subst o'.
  apply increment_ok in Hi; [|lia|apply ordinal0_nonneg].
  apply duration_ok in Hdu. apply dt_add_ok in H. subst t dur inc.
  unfold spec_next. cbv zeta. destruct m; [|lia].
  rewrite ordinal0_jan1.
  pose proof (mod_align (l / 86400 - jan1 (year_of (l / 86400))) n ltac:(lia)).
  lia.
Qed.

Lemma exact_week : forall n m t, 1 <= n ->
  core_hyp z now UWeek n m -> get_next_time z now UWeek n m = Ok t ->
  t = spec_next UWeek n m l - off.
Proof.
  intros n m t Hn Hc H. unfold core_hyp in Hc. cbv zeta in Hc. fold off in Hc. fold l in Hc.
  unfold resolve_point in Hc.
  unfold get_next_time in H. fold off in H. cbv zeta in H. fold l in H.
  destruct (civil_from_days (l / 86400)) as [[y mo] d] eqn:Ec.
  destruct (civil_from_days_spec _ _ _ _ Ec) as (Hd & _).
  inv_bind H time Ht. inv_bind H inc Hi. inv_bind H dw Hdw. inv_bind H t1 Ht1. inv_bind H dd Hdd.
  apply with_ymd_inv in Ht. destruct Ht as (o' & Hr & -> & _).
  rewrite Hd, trunc_day in Hr, Ht1.
  assert (Hle : l / 86400 * 86400 <= l) by (Z.div_mod_to_equations; lia).
  apply (resolve_trunc _ o' Hle Hc) in Hr. subst o'.
  destruct (iso_week0_spec (l / 86400)) as (E & Hw & _).
  apply increment_ok in Hi; [|lia|lia].
  apply duration_ok in Hdw, Hdd. apply dt_add_ok in Ht1, H. subst t t1 dw dd inc.
  unfold spec_next. cbv zeta. destruct m; [|lia].
  set (ys := iso_year_start (iso_year (l / 86400))) in *.
  replace ((l / 86400 - weekday_mon (l / 86400) - ys) / 7) with (iso_week0 (l / 86400))
    by (rewrite E; replace (ys + 7 * iso_week0 (l / 86400) - ys) with (iso_week0 (l / 86400) * 7) by lia;
        rewrite Z.div_mul by lia; reflexivity).
  pose proof (mod_align (iso_week0 (l / 86400)) n ltac:(lia)).
  lia.
Qed.

Lemma exact_month : forall n m t, n_ok UMonth n l ->
  core_hyp z now UMonth n m -> get_next_time z now UMonth n m = Ok t ->
  t = spec_next UMonth n m l - off.
Proof.
  intros n m t (Hn & Hn32 & Hl) Hc H. unfold core_hyp in Hc. cbv zeta in Hc. fold off in Hc. fold l in Hc.
  unfold resolve_point in Hc.
  unfold spec_next in Hc |- *. cbv zeta in Hc |- *.
  pose proof (year_range l Hl) as Hy. unfold max_year in Hy.
  unfold get_next_time in H. fold off in H. cbv zeta in H. fold l in H.
  destruct (civil_from_days (l / 86400)) as [[y mo] d] eqn:Ec.
  destruct (civil_from_days_spec _ _ _ _ Ec) as (_ & Hmo & _).
  rewrite (year_of_eq _ _ _ _ Ec) in Hy.
  rewrite (month_index_eq _ _ _ _ Ec) in Hc |- *.
  rewrite (wrap_u32_small n) in H by lia.
  rewrite (wrap_u32_small y) in H by lia.
  inv_bind H inc Hi. inv_bind H y12 Hy12. inv_bind H nm Hnm. inv_bind H nmn Hnmn.
  apply chk_u32_ok in Hy12, Hnm, Hnmn.
  destruct Hy12 as [-> _]. destruct Hnm as [-> _]. destruct Hnmn as [-> Hb].
  assert (Hinc : inc = if m then n - (mo - 1) mod n else n).
  { destruct m.
    - destruct (n =? 0) eqn:E0; [apply Z.eqb_eq in E0; lia|]. injection Hi as <-. reflexivity.
    - injection Hi as <-. reflexivity. }
  clear Hi.
  rewrite wrap_i32_small in H by (Z.div_mod_to_equations; lia).
  apply with_ymd_inv in H. destruct H as (o' & Hr & -> & _).
  rewrite month_start_fold in Hr |- *.
  assert (Ek : (if m then (12 * y + (mo - 1)) / 12 * 12 + ((12 * y + (mo - 1)) mod 12 / n + 1) * n
                else 12 * y + (mo - 1) + n) = y * 12 + (mo - 1) + inc).
  { subst inc. destruct m; [|lia].
    replace ((12 * y + (mo - 1)) / 12) with y by (Z.div_mod_to_equations; lia).
    replace ((12 * y + (mo - 1)) mod 12) with (mo - 1) by (Z.div_mod_to_equations; lia).
    pose proof (mod_align (mo - 1) n ltac:(lia)). lia. }
  rewrite Ek in Hc |- *. clear Ek.
  generalize dependent (month_start (y * 12 + (mo - 1) + inc)). intros ms Hc Hr.
  replace (ms * 86400 + 0 * 3600 + 0 * 60 + 0) with (ms * 86400) in Hr |- * by lia.
  apply (resolve_target _ o' Hc) in Hr. subst o'. reflexivity.
Qed.

Lemma exact_year : forall n m t, n_ok UYear n l ->
  core_hyp z now UYear n m -> get_next_time z now UYear n m = Ok t ->
  t = spec_next UYear n m l - off.
Proof.
  intros n m t (Hn & Hn32) Hc H. unfold core_hyp in Hc. cbv zeta in Hc. fold off in Hc. fold l in Hc.
  unfold resolve_point in Hc.
  unfold spec_next in Hc |- *. cbv zeta in Hc |- *.
  unfold get_next_time in H. fold off in H. cbv zeta in H. fold l in H.
  destruct (civil_from_days (l / 86400)) as [[y mo] d] eqn:Ec.
  rewrite (year_of_eq _ _ _ _ Ec) in Hc |- *.
  rewrite (wrap_i32_small n) in H by lia.
  inv_bind H inc Hi. inv_bind H yn Hyn.
  apply chk_i32_ok in Hyn. destruct Hyn as [-> _].
  assert (Hinc : y + inc = if m then (Z.quot y n + 1) * n else y + n).
  { destruct m.
    - destruct (n =? 0) eqn:E0; [apply Z.eqb_eq in E0; lia|].
      apply chk_i32_ok in Hi. destruct Hi as [-> _].
      pose proof (quot_align y n ltac:(lia)). lia.
    - injection Hi as <-. reflexivity. }
  clear Hi.
  apply with_ymd_inv in H. destruct H as (o' & Hr & -> & _).
  rewrite jan1_fold in Hr |- *. rewrite Hinc in Hr |- *.
  generalize dependent (jan1 (if m then (Z.quot y n + 1) * n else y + n)). intros j Hc Hr.
  replace (j * 86400 + 0 * 3600 + 0 * 60 + 0) with (j * 86400) in Hr |- * by lia.
  apply (resolve_target _ o' Hc) in Hr. subst o'. reflexivity.
Qed.

Theorem schedule_exact_core : forall u n m t, n_ok u n l ->
  core_hyp z now u n m -> get_next_time z now u n m = Ok t ->
  t = spec_next u n m l - off.
Proof.
  intros u n m t Hn Hc H. destruct u.
  - apply exact_second; [apply Hn|exact Hc|exact H].
  - apply exact_minute; [apply Hn|exact Hc|exact H].
  - apply exact_hour; [apply Hn|exact Hc|exact H].
  - apply exact_day; [apply Hn|exact Hc|exact H].
  - apply exact_week; [apply Hn|exact Hc|exact H].
  - apply exact_month; [exact Hn|exact Hc|exact H].
  - apply exact_year; [exact Hn|exact Hc|exact H].
Qed.

End Exact.

(* ---------- headline consequences ---------- *)

(* the natural reading of "the offset does not change in between": constant from
   the start of the current unit (read under the current offset) to the later of
   now and the expected boundary *)
Definition natural_hyp (z : zone) (now : Z) (u : tunit) (n : Z) (modulate : bool) : Prop :=
  let off := offset_at z now in
  let l := now + off in
  const_on z off (unit_start u l - off) (Z.max now (spec_next u n modulate l - off)).

Lemma resolve_point_bounds : forall u n m l, 1 <= n ->
  unit_start u l <= resolve_point u n m l /\
  (resolve_point u n m l <= l \/ resolve_point u n m l = spec_next u n m l).
Proof.
  intros u n m l Hn.
  pose proof (unit_start_le u l) as Hle.
  pose proof (spec_next_after u n m l Hn) as Hlt.
  destruct u.
  - unfold resolve_point. split; [lia|left; exact Hle].
  - unfold resolve_point. split; [lia|left; exact Hle].
  - unfold resolve_point. split; [lia|left; exact Hle].
  - unfold resolve_point. split; [lia|left; exact Hle].
  - unfold resolve_point, unit_start. cbv zeta.
    pose proof (weekday_bounds (l / 86400)).
    split; [lia|left; Z.div_mod_to_equations; lia].
  - unfold resolve_point. split; [lia|right; reflexivity].
  - unfold resolve_point. split; [lia|right; reflexivity].
Qed.

Lemma natural_hyp_core : forall z now u n m, 1 <= n ->
  natural_hyp z now u n m -> core_hyp z now u n m.
Proof.
  intros z now u n m Hn H. unfold natural_hyp, core_hyp in *. cbv zeta in *.
  pose proof (unit_start_le u (now + offset_at z now)) as Hle.
  pose proof (spec_next_after u n m (now + offset_at z now) Hn) as Hlt.
  pose proof (resolve_point_bounds u n m (now + offset_at z now) Hn) as [Hlo Hhi].
  intros x Hx. apply H. lia.
Qed.

Theorem next_strictly_after : forall K z now u n m t,
  sane K z = true -> n_ok u n (now + offset_at z now) -> core_hyp z now u n m ->
  get_next_time z now u n m = Ok t -> now < t.
Proof.
  intros K z now u n m t Hs Hn Hc H.
  rewrite (schedule_exact_core K z now Hs u n m t Hn Hc H).
  pose proof (spec_next_after u n m (now + offset_at z now) ltac:(destruct Hn; assumption)). lia.
Qed.

Theorem boundary_aligned : forall K z now u n m t,
  sane K z = true -> n_ok u n (now + offset_at z now) -> core_hyp z now u n m ->
  get_next_time z now u n m = Ok t ->
  offset_at z t = offset_at z now ->
  local z t = spec_next u n m (local z now).
Proof.
  intros K z now u n m t Hs Hn Hc H Ho. unfold local. rewrite Ho.
  rewrite (schedule_exact_core K z now Hs u n m t Hn Hc H). lia.
Qed.

Theorem boundary_aligned_natural : forall K z now u n m t,
  sane K z = true -> n_ok u n (now + offset_at z now) -> natural_hyp z now u n m ->
  get_next_time z now u n m = Ok t ->
  now < t /\ local z t = spec_next u n m (local z now).
Proof.
  intros K z now u n m t Hs Hn Hnat H.
  assert (H1 : 1 <= n) by (destruct Hn; assumption).
  pose proof (natural_hyp_core z now u n m H1 Hnat) as Hc.
  pose proof (schedule_exact_core K z now Hs u n m t Hn Hc H) as Et.
  split; [apply (next_strictly_after K z now u n m t Hs Hn Hc H)|].
  apply (boundary_aligned K z now u n m t Hs Hn Hc H).
  unfold natural_hyp in Hnat. cbv zeta in Hnat. apply Hnat.
  pose proof (unit_start_le u (now + offset_at z now)).
  pose proof (spec_next_after u n m (now + offset_at z now) H1). lia.
Qed.

(* ---------- the scheduled local time starts a unit ---------- *)

Lemma month_index_unique : forall k z, month_start k <= z < month_start (k + 1) -> month_index z = k.
Proof.
  intros k z H. pose proof (month_index_bounds z) as B.
  destruct (Z_lt_ge_dec (month_index z) k).
  - pose proof (month_start_mono_le (month_index z + 1) k ltac:(lia)). lia.
  - destruct (Z_lt_ge_dec k (month_index z)); [|lia].
    pose proof (month_start_mono_le (k + 1) (month_index z) ltac:(lia)). lia.
Qed.

Lemma spec_next_on_boundary : forall u n m l,
  unit_start u (spec_next u n m l) = spec_next u n m l.
Proof.
  intros u n m l. destruct u; unfold spec_next, unit_start; cbv zeta.
  - reflexivity.
  - destruct m.
    + generalize ((l mod 3600 / 60 / n + 1) * n). intros q. Z.div_mod_to_equations. lia.
    + Z.div_mod_to_equations. lia.
  - destruct m.
    + generalize ((l mod 86400 / 3600 / n + 1) * n). intros q. Z.div_mod_to_equations. lia.
    + Z.div_mod_to_equations. lia.
  - destruct m; rewrite Z.div_mul by lia; reflexivity.
  - destruct m; rewrite Z.div_mul by lia.
    + pose proof (iso_year_start_monday (iso_year (l / 86400))) as Hm.
      generalize dependent (iso_year_start (iso_year (l / 86400))). intros ys Hm.
      generalize (((l / 86400 - weekday_mon (l / 86400) - ys) / 7 / n + 1) * n). intros q.
      unfold weekday_mon in *. f_equal. Z.div_mod_to_equations. lia.
    + unfold weekday_mon. f_equal. Z.div_mod_to_equations. lia.
  - rewrite Z.div_mul by lia.
    rewrite (month_index_unique (if m then month_index (l / 86400) / 12 * 12 + (month_index (l / 86400) mod 12 / n + 1) * n
                                  else month_index (l / 86400) + n)); [reflexivity|].
    pose proof (month_start_step (if m then month_index (l / 86400) / 12 * 12 + (month_index (l / 86400) mod 12 / n + 1) * n
                                  else month_index (l / 86400) + n)). lia.
  - rewrite Z.div_mul by lia.
    rewrite (year_of_unique (if m then (Z.quot (year_of (l / 86400)) n + 1) * n else year_of (l / 86400) + n)); [reflexivity|].
    pose proof (jan1_mono (if m then (Z.quot (year_of (l / 86400)) n + 1) * n else year_of (l / 86400) + n)
                          ((if m then (Z.quot (year_of (l / 86400)) n + 1) * n else year_of (l / 86400) + n) + 1)
                          ltac:(lia)). lia.
Qed.

(* ---------- fires once, then the schedule is in the future ---------- *)

Theorem fires_once_then_future : forall K z c next now ns r nx,
  sane K z = true -> 0 <= ns ->
  n_ok (c_unit c) (c_n c) (now + offset_at z now) ->
  core_hyp z now (c_unit c) (c_n c) (c_mod c) ->
  0 <= r < Z.max (c_maxd c) 1 -> c_maxd c <= 18446744073709551615 -> r < 9223372036854775808 ->
  trigger_step z c next now ns r = Ok (true, nx) ->
  next <= now /\
  nx = spec_next (c_unit c) (c_n c) (c_mod c) (now + offset_at z now) - offset_at z now + r /\
  now < nx /\
  (forall now' ns' r', now' < nx -> 0 <= ns' -> trigger_step z c nx now' ns' r' = Ok (false, nx)).
Proof.
  intros K z c next now ns r nx Hs Hns Hn Hc Hr Hmax Hr63 H.
  destruct (trigger_fires_iff _ _ _ _ _ _ _ _ Hns H) as (Hf & Hnew & _).
  specialize (Hnew eq_refl).
  destruct (trigger_new_delay _ _ _ _ _ Hr Hmax Hr63 Hnew) as (base & Hb & -> & _ & _).
  pose proof (schedule_exact_core K z now Hs _ _ _ _ Hn Hc Hb) as Eb.
  pose proof (next_strictly_after K z now _ _ _ _ Hs Hn Hc Hb).
  split; [apply Hf; reflexivity|]. split; [lia|]. split; [lia|].
  intros now' ns' r' Hlt Hns'. apply trigger_not_due; assumption.
Qed.

(* ---------- no panic in a fixed-offset zone, interval in range ---------- *)

Definition in_range (u : tunit) (n l : Z) : Prop :=
  1 <= n /\ 0 <= l /\
  match u with
  | UYear => year_of (l / 86400) + n <= max_year
  | UMonth => l <= max_utc /\ month_index (l / 86400) + n <= 12 * max_year + 11
  | _ => l + n * unit_secs u + 2 * 86400 <= max_utc
  end.

Lemma with_ymd_fixed : forall z y m d h mi s, z_trans z = [] -> min_year <= y <= max_year ->
  with_ymd_and_hms z y m d h mi s = Ok (days_from_civil y m d * 86400 + h * 3600 + mi * 60 + s - z_init z).
Proof.
  intros z y m d h mi s Hz Hy. unfold with_ymd_and_hms.
  replace ((min_year <=? y) && (y <=? max_year)) with true
    by (symmetry; apply andb_true_intro; split; apply Z.leb_le; lia).
  cbv zeta. rewrite resolve_local_fixed by exact Hz. reflexivity.
Qed.

Lemma increment_fwd : forall m n x, 1 <= n -> 0 <= x ->
  increment m n x = Ok (if m then n - x mod n else n).
Proof.
  intros m n x Hn Hx. unfold increment. destruct m; [|reflexivity].
  replace (n =? 0) with false by (symmetry; apply Z.eqb_neq; lia).
  rewrite Z.rem_mod_nonneg by lia. reflexivity.
Qed.

Lemma inc_bounds : forall (m : bool) n x, 1 <= n -> 1 <= (if m then n - x mod n else n) <= n.
Proof. intros m n x Hn. destruct m; [|lia]. pose proof (Z.mod_pos_bound x n ltac:(lia)). lia. Qed.

Lemma duration_fwd : forall per n, - max_dur <= n * per <= max_dur -> duration per n = Ok (n * per).
Proof.
  intros per n H. unfold duration. cbv zeta.
  replace ((- max_dur <=? n * per) && (n * per <=? max_dur)) with true
    by (symmetry; apply andb_true_intro; split; apply Z.leb_le; lia).
  reflexivity.
Qed.

Lemma dt_add_fwd : forall a d, min_utc <= a + d <= max_utc -> dt_add a d = Ok (a + d).
Proof.
  intros a d H. unfold dt_add. cbv zeta.
  replace ((min_utc <=? a + d) && (a + d <=? max_utc)) with true
    by (symmetry; apply andb_true_intro; split; apply Z.leb_le; lia).
  reflexivity.
Qed.

Lemma chk_u32_fwd : forall v, 0 <= v <= 4294967295 -> chk_u32 v = Ok v.
Proof.
  intros v H. unfold chk_u32.
  replace ((0 <=? v) && (v <=? 4294967295)) with true
    by (symmetry; apply andb_true_intro; split; apply Z.leb_le; lia).
  reflexivity.
Qed.

Lemma chk_i32_fwd : forall v, -2147483648 <= v <= 2147483647 -> chk_i32 v = Ok v.
Proof.
  intros v H. unfold chk_i32.
  replace ((-2147483648 <=? v) && (v <=? 2147483647)) with true
    by (symmetry; apply andb_true_intro; split; apply Z.leb_le; lia).
  reflexivity.
Qed.

Theorem no_panic_fixed_offset : forall z now u n m,
  z_trans z = [] -> -86400 <= z_init z <= 86400 ->
  in_range u n (now + z_init z) ->
  exists t, get_next_time z now u n m = Ok t.
Proof.
  intros z now u n m Hz Hi (Hn & Hl0 & Hr).
  unfold get_next_time. rewrite (offset_at_fixed z now Hz). cbv zeta.
  set (l := now + z_init z) in *.
  assert (Hmax : match u with UYear => True | _ => l <= max_utc end).
  { destruct u; unfold unit_secs, max_utc in *; try exact I; lia. }
  destruct (civil_from_days (l / 86400)) as [[y mo] d] eqn:Ec.
  destruct (civil_from_days_spec _ _ _ _ Ec) as (Hd & Hmo & _).
  pose proof (year_of_eq _ _ _ _ Ec) as Ey.
  pose proof (month_index_eq _ _ _ _ Ec) as Ek.
  assert (Hy70 : 1970 <= y).
  { rewrite <- Ey. apply year_of_ge. rewrite jan1_1970. apply Z.div_pos; lia. }
  assert (HyM : match u with UYear => True | _ => y <= max_year end).
  { destruct u; try exact I; rewrite <- Ey; apply (year_range l); lia. }
  assert (Hday : l / 86400 * 86400 <= l < l / 86400 * 86400 + 86400)
    by (Z.div_mod_to_equations; lia).
  unfold min_year, max_year, max_utc, min_utc, max_dur in *.
  destruct u; unfold unit_secs in Hr.
  - (* second *)
    rewrite with_ymd_fixed by (unfold min_year, max_year; auto; lia). cbn [bind].
    rewrite Hd, trunc_sec. rewrite field_sec.
    rewrite increment_fwd by (try lia; apply Z.mod_pos_bound; lia). cbn [bind].
    pose proof (inc_bounds m n (l mod 60) Hn).
    rewrite duration_fwd by (unfold max_dur; lia). cbn [bind].
    rewrite dt_add_fwd by (unfold min_utc, max_utc; lia). eexists; reflexivity.
  - rewrite with_ymd_fixed by (unfold min_year, max_year; auto; lia). cbn [bind].
    rewrite Hd, trunc_min. rewrite field_min.
    assert (l / 60 * 60 <= l < l / 60 * 60 + 60) by (Z.div_mod_to_equations; lia).
    rewrite increment_fwd by (try lia; Z.div_mod_to_equations; lia). cbn [bind].
    pose proof (inc_bounds m n (l mod 3600 / 60) Hn).
    rewrite duration_fwd by (unfold max_dur; lia). cbn [bind].
    rewrite dt_add_fwd by (unfold min_utc, max_utc; lia). eexists; reflexivity.
  - rewrite with_ymd_fixed by (unfold min_year, max_year; auto; lia). cbn [bind].
    rewrite Hd, trunc_hour.
    assert (l / 3600 * 3600 <= l < l / 3600 * 3600 + 3600) by (Z.div_mod_to_equations; lia).
    rewrite increment_fwd by (try lia; Z.div_mod_to_equations; lia). cbn [bind].
    pose proof (inc_bounds m n (l mod 86400 / 3600) Hn).
    rewrite duration_fwd by (unfold max_dur; lia). cbn [bind].
    rewrite dt_add_fwd by (unfold min_utc, max_utc; lia). eexists; reflexivity.
  - rewrite with_ymd_fixed by (unfold min_year, max_year; auto; lia). cbn [bind].
    rewrite Hd, trunc_day.
    rewrite increment_fwd by (try lia; apply ordinal0_nonneg). cbn [bind].
    pose proof (inc_bounds m n (ordinal0 (l / 86400)) Hn).
    rewrite duration_fwd by (unfold max_dur; lia). cbn [bind].
    rewrite dt_add_fwd by (unfold min_utc, max_utc; lia). eexists; reflexivity.
  - rewrite with_ymd_fixed by (unfold min_year, max_year; auto; lia). cbn [bind].
    rewrite Hd, trunc_day.
    destruct (iso_week0_spec (l / 86400)) as (_ & Hw & _).
    pose proof (weekday_bounds (l / 86400)) as Hwd.
    rewrite increment_fwd by lia. cbn [bind].
    pose proof (inc_bounds m n (iso_week0 (l / 86400)) Hn).
    rewrite duration_fwd by (unfold max_dur; lia). cbn [bind].
    rewrite dt_add_fwd by (unfold min_utc, max_utc; lia). cbn [bind].
    rewrite duration_fwd by (unfold max_dur; lia). cbn [bind].
    rewrite dt_add_fwd by (unfold min_utc, max_utc; lia). eexists; reflexivity.
  - (* month *)
    destruct Hr as [_ Hr]. rewrite Ek in Hr.
    rewrite (wrap_u32_small n) by lia. rewrite (wrap_u32_small y) by lia.
    pose proof (inc_bounds m n (mo - 1) Hn) as Hib.
    assert (Einc : (if m then if n =? 0 then Panic 1 else Ok (n - (mo - 1) mod n) else Ok n)
                   = Ok (if m then n - (mo - 1) mod n else n)).
    { destruct m; [|reflexivity]. replace (n =? 0) with false by (symmetry; apply Z.eqb_neq; lia). reflexivity. }
    rewrite Einc. cbn [bind].
    rewrite chk_u32_fwd by lia. cbn [bind].
    rewrite chk_u32_fwd by lia. cbn [bind].
    rewrite chk_u32_fwd by lia. cbn [bind].
    rewrite wrap_i32_small by (Z.div_mod_to_equations; lia).
    rewrite with_ymd_fixed by (try assumption; unfold min_year, max_year; Z.div_mod_to_equations; lia).
    eexists; reflexivity.
  - (* year *)
    rewrite Ey in Hr.
    rewrite (wrap_i32_small n) by lia.
    assert (Einc : (if m then if n =? 0 then Panic 1 else chk_i32 (n - Z.rem y n) else Ok n)
                   = Ok (if m then n - y mod n else n)).
    { destruct m; [|reflexivity]. replace (n =? 0) with false by (symmetry; apply Z.eqb_neq; lia).
      rewrite Z.rem_mod_nonneg by lia. pose proof (Z.mod_pos_bound y n ltac:(lia)).
      apply chk_i32_fwd. lia. }
    rewrite Einc. cbn [bind].
    pose proof (inc_bounds m n y Hn) as Hib.
    rewrite chk_i32_fwd by lia. cbn [bind].
    rewrite with_ymd_fixed by (try assumption; unfold min_year, max_year; lia).
    eexists; reflexivity.
Qed.

(* ---------- decidable form of the zone class, fixed-offset instances ---------- *)

Definition natural_ok_b (z : zone) (now : Z) (u : tunit) (n : Z) (modulate : bool) : bool :=
  let off := offset_at z now in
  let l := now + off in
  let a := unit_start u l - off in
  (offset_at z a =? off) && no_transition_in z a (Z.max now (spec_next u n modulate l - off)).

Lemma natural_ok_b_sound : forall z now u n m,
  natural_ok_b z now u n m = true -> natural_hyp z now u n m.
Proof.
  intros z now u n m H. unfold natural_ok_b in H. cbv zeta in H.
  apply andb_prop in H. destruct H as [H1 H2]. apply Z.eqb_eq in H1.
  unfold natural_hyp. cbv zeta. rewrite <- H1 at 1.
  apply no_transition_const. exact H2.
Qed.

Lemma natural_hyp_fixed : forall z now u n m, z_trans z = [] -> natural_hyp z now u n m.
Proof.
  intros z now u n m Hz. unfold natural_hyp. cbv zeta. intros x _.
  rewrite !offset_at_fixed by exact Hz. reflexivity.
Qed.

Lemma sane_fixed : forall z, z_trans z = [] -> sane (Z.abs (z_init z)) z = true.
Proof.
  intros z Hz. unfold sane. rewrite Hz. cbn [sane_from].
  rewrite andb_true_r. apply andb_true_intro. split; apply Z.leb_le; lia.
Qed.

(* ---------- non-vacuity instances ---------- *)

(* 2024-02-29 23:59:58 UTC: leap day, two seconds before the month end *)
Lemma ex_leap_day_utc :
  get_next_time utc0 1709251198 UDay 1 false = Ok 1709251200 /\     (* 2024-03-01 00:00:00 *)
  get_next_time utc0 1709251198 UMonth 1 false = Ok 1709251200 /\
  get_next_time utc0 1709251198 UYear 1 false = Ok 1735689600 /\    (* 2025-01-01 *)
  get_next_time utc0 1709251198 UWeek 1 false = Ok 1709510400 /\    (* Monday 2024-03-04 *)
  get_next_time utc0 1709251198 UWeek 4 true = Ok 1711324800 /\     (* ISO week 13: Monday 2024-03-25 *)
  get_next_time utc0 1709251198 USecond 1 false = Ok 1709251199 /\
  get_next_time utc0 1709251198 UMinute 7 true = Ok 1709251380 /\   (* 2024-03-01 00:03:00 = hour start + 63 min *)
  sane 0 utc0 = true /\ n_ok UMonth 1 (1709251198 + offset_at utc0 1709251198) /\
  n_ok UYear 1 (1709251198 + offset_at utc0 1709251198) /\
  natural_hyp utc0 1709251198 UMonth 1 false /\
  in_range UMonth 1 (1709251198 + z_init utc0) /\ in_range UYear 1 (1709251198 + z_init utc0) /\
  in_range UDay 1 (1709251198 + z_init utc0).
Proof.
  repeat split; try (vm_compute; reflexivity); try (vm_compute; discriminate);
    try (apply natural_hyp_fixed; reflexivity).
Qed.

(* Europe/Berlin, 2025-06-15 12:00:00 CEST (a DST zone, far from its transitions) *)
Lemma ex_berlin_summer :
  sane 7200 berlin2025 = true /\
  natural_ok_b berlin2025 1749981600 UDay 1 false = true /\
  natural_ok_b berlin2025 1749981600 UHour 3 true = true /\
  natural_ok_b berlin2025 1749981600 UWeek 1 false = true /\
  natural_ok_b berlin2025 1749981600 UMonth 1 false = true /\
  get_next_time berlin2025 1749981600 UDay 1 false = Ok 1750024800 /\      (* 2025-06-16 00:00 CEST *)
  get_next_time berlin2025 1749981600 UHour 3 true = Ok 1749992400 /\      (* 15:00 CEST *)
  get_next_time berlin2025 1749981600 UWeek 1 false = Ok 1750024800 /\     (* Monday 2025-06-16 *)
  get_next_time berlin2025 1749981600 UMonth 1 false = Ok 1751320800 /\    (* 2025-07-01 00:00 CEST *)
  (* and the class predicate is false exactly where the findings live *)
  natural_ok_b berlin2025 1761516600 UDay 1 false = false /\
  natural_ok_b berlin2025 1761438600 UHour 1 false = false /\
  (* second pass through the repeated hour (02:30 CET): the offset IS constant from
     02:00 CET to 03:00 CET, yet chrono reports the truncated time as ambiguous and
     the code panics: "no panic" cannot be extended from fixed-offset zones to this class *)
  natural_ok_b berlin2025 1761442200 UHour 1 false = true /\
  get_next_time berlin2025 1761442200 UHour 1 false = Panic 3.
Proof. vm_compute. repeat split; reflexivity. Qed.
