(* C07 — what Path::extension (Model/PathExt.v) means, for every pattern text. *)
From Coq Require Import List NArith Bool Lia.
Import ListNotations.
From L4 Require Import Model.PathExt.
Local Open Scope N_scope.

Lemma bytes_eqb_eq a : forall b, bytes_eqb a b = true <-> a = b.
Proof.
  induction a as [|x a IH]; intros [|y b]; cbn [bytes_eqb]; split; intros H; try discriminate; auto.
  - apply andb_true_iff in H. destruct H as [H1 H2]. apply N.eqb_eq in H1. apply IH in H2. congruence.
  - inversion H; subst. apply andb_true_iff. split; [apply N.eqb_refl|apply IH; reflexivity].
Qed.

(* ---- splitting at the last dot ---- *)

Lemma rsplit_dot_rev_some r : forall after b a,
  rsplit_dot_rev after r = Some (b, a) ->
  exists mid, a = mid ++ after /\ ~ In 46 mid /\ rev r = b ++ 46 :: mid.
Proof.
  induction r as [|c r IH]; intros after b a H; cbn [rsplit_dot_rev] in H; [discriminate|].
  destruct (c =? 46) eqn:E.
  - inversion H; subst. apply N.eqb_eq in E. subst c. exists []. cbn [app rev]. repeat split; auto.
  - apply IH in H. destruct H as [mid [Ha [Hn Hr]]].
    exists (mid ++ [c]). split; [rewrite <- app_assoc; exact Ha|]. split.
    + intros Hin. apply in_app_or in Hin. destruct Hin as [Hin|[Hin|[]]]; [exact (Hn Hin)|].
      subst c. discriminate.
    + cbn [rev]. rewrite Hr, <- app_assoc. reflexivity.
Qed.

Lemma rsplit_dot_rev_none r : forall after, rsplit_dot_rev after r = None -> ~ In 46 r.
Proof.
  induction r as [|c r IH]; intros after H; cbn [rsplit_dot_rev] in H; [intros []|].
  destruct (c =? 46) eqn:E; [discriminate|].
  intros [Hc|Hin]; [subst c; discriminate|exact (IH _ H Hin)].
Qed.

Lemma rsplit_dot_some f b a :
  rsplit_dot f = Some (b, a) -> f = b ++ 46 :: a /\ ~ In 46 a.
Proof.
  unfold rsplit_dot. intros H. apply rsplit_dot_rev_some in H.
  destruct H as [mid [Ha [Hn Hr]]]. rewrite app_nil_r in Ha. subst mid.
  rewrite rev_involutive in Hr. split; assumption.
Qed.

Lemma rsplit_dot_none f : rsplit_dot f = None -> ~ In 46 f.
Proof.
  unfold rsplit_dot. intros H Hin. apply rsplit_dot_rev_none in H. apply H. apply in_rev in Hin. exact Hin.
Qed.

(* the split is the unique one whose second part has no dot *)
Lemma rsplit_dot_complete b a : ~ In 46 a -> rsplit_dot (b ++ 46 :: a) = Some (b, a).
Proof.
  intros Hn. destruct (rsplit_dot (b ++ 46 :: a)) as [[b' a']|] eqn:E.
  - apply rsplit_dot_some in E. destruct E as [E Hn'].
    (* two decompositions at a dot with dot-free tails coincide *)
    assert (Ht : forall (x y : bytes) u v, x ++ 46 :: u = y ++ 46 :: v -> ~ In 46 u -> ~ In 46 v -> x = y /\ u = v).
    { induction x as [|c x IHx]; intros y u v H Hu Hv.
      - destruct y as [|d y]; cbn [app] in H.
        + inversion H. auto.
        + inversion H; subst. exfalso. apply Hu. apply in_or_app. right. left. reflexivity.
      - destruct y as [|d y]; cbn [app] in H.
        + inversion H; subst. exfalso. apply Hv. apply in_or_app. right. left. reflexivity.
        + inversion H; subst. destruct (IHx _ _ _ H2 Hu Hv) as [-> ->]. auto. }
    destruct (Ht _ _ _ _ E Hn Hn') as [-> ->]. reflexivity.
  - apply rsplit_dot_none in E. exfalso. apply E. apply in_or_app. right. left. reflexivity.
Qed.

(* ---- THE MEANING of extension ---- *)

Theorem extension_some s e :
  extension s = Some e <->
  exists stem, file_name s = Some (stem ++ 46 :: e) /\ stem <> [] /\ ~ In 46 e.
Proof.
  unfold extension. split.
  - destruct (file_name s) as [f|]; [|discriminate].
    destruct (rsplit_dot f) as [[[|c b] a]|] eqn:E; try discriminate.
    intros H. inversion H; subst. apply rsplit_dot_some in E. destruct E as [-> Hn].
    exists (c :: b). repeat split; auto. discriminate.
  - intros [stem [Hf [Hs Hn]]]. rewrite Hf, (rsplit_dot_complete stem e Hn).
    destruct stem; [contradiction|reflexivity].
Qed.

(* a file name that is only a dot and an extension-like word has NO extension *)
Theorem dotfile_has_no_extension s e :
  file_name s = Some (46 :: e) -> ~ In 46 e -> extension s = None.
Proof.
  intros Hf Hn. unfold extension. rewrite Hf.
  change (46 :: e) with ([] ++ 46 :: e). rewrite (rsplit_dot_complete [] e Hn). reflexivity.
Qed.

Theorem no_dot_no_extension s f :
  file_name s = Some f -> ~ In 46 f -> extension s = None.
Proof.
  intros Hf Hn. unfold extension. rewrite Hf.
  destruct (rsplit_dot f) as [[b a]|] eqn:E; [|reflexivity].
  apply rsplit_dot_some in E. destruct E as [-> _]. exfalso. apply Hn. apply in_or_app. right. left. reflexivity.
Qed.

Theorem compressed_iff p :
  compressed p = true <->
  exists stem e, file_name p = Some (stem ++ 46 :: e) /\ stem <> [] /\ (e = ext_gz \/ e = ext_zst).
Proof.
  unfold compressed. split.
  - destruct (extension p) as [e|] eqn:E; [|discriminate].
    intros H. apply extension_some in E. destruct E as [stem [Hf [Hs _]]].
    exists stem, e. repeat split; auto.
    apply orb_true_iff in H. destruct H as [H|H]; apply bytes_eqb_eq in H; auto.
  - intros [stem [e [Hf [Hs He]]]].
    assert (Hn : ~ In 46 e).
    { destruct He as [-> | ->]; unfold ext_gz, ext_zst; cbn [In]; intros H; decompose [or] H; first [lia | contradiction]. }
    assert (E : extension p = Some e) by (apply extension_some; exists stem; auto).
    rewrite E. apply orb_true_iff. destruct He as [-> | ->]; [left|right]; apply bytes_eqb_eq; reflexivity.
Qed.

(* ---- the file name of  <anything>/<name>  is <name> ---- *)

Definition plain_name (n : bytes) : Prop := n <> [] /\ ~ In 47 n /\ n <> [46] /\ n <> [46; 46].

Lemma split_slash_no_slash n : ~ In 47 n -> forall cur, split_slash cur n = [rev cur ++ n].
Proof.
  induction n as [|c n IH]; intros Hn cur; cbn [split_slash].
  - rewrite app_nil_r. reflexivity.
  - assert (Hc : c <> 47) by (intros ->; apply Hn; left; reflexivity).
    apply N.eqb_neq in Hc. rewrite Hc. rewrite IH by (intros H; apply Hn; right; exact H).
    cbn [rev]. rewrite <- app_assoc. reflexivity.
Qed.

Lemma split_slash_nonempty cur s : split_slash cur s <> [].
Proof. revert cur. induction s as [|c s IH]; intros cur; cbn [split_slash]; [discriminate|]. destruct (c =? 47); [discriminate|apply IH]. Qed.

Lemma split_slash_app d : forall cur n,
  split_slash cur (d ++ 47 :: n) = removelast (split_slash cur d) ++ [last (split_slash cur d) []] ++ split_slash [] n.
Proof.
  induction d as [|c d IH]; intros cur n; cbn [app split_slash].
  - rewrite N.eqb_refl. reflexivity.
  - destruct (c =? 47) eqn:E.
    + rewrite IH. cbn [removelast last].
      destruct (split_slash [] d) as [|x xs] eqn:Ed.
      * exfalso. exact (split_slash_nonempty [] d Ed).
      * cbn [app]. reflexivity.
    + apply IH.
Qed.

Lemma removelast_last {A} (l : list A) d : l <> [] -> removelast l ++ [last l d] = l.
Proof. intros H. symmetry. apply app_removelast_last. exact H. Qed.

Theorem file_name_last_component d n :
  plain_name n -> file_name (d ++ 47 :: n) = Some n.
Proof.
  intros [Hne [Hns [Hd Hdd]]]. unfold file_name, components.
  rewrite split_slash_app, app_assoc, removelast_last by apply split_slash_nonempty.
  rewrite (split_slash_no_slash n Hns []). cbn [rev app].
  rewrite filter_app. cbn [filter].
  assert (E1 : (match n with [] => true | _ => false end) = false) by (destruct n; [contradiction|reflexivity]).
  assert (E2 : is_dot n = false).
  { unfold is_dot. destruct (bytes_eqb n [46]) eqn:E; [|reflexivity]. apply bytes_eqb_eq in E. contradiction. }
  rewrite E1, E2. cbn [negb andb]. rewrite rev_app_distr. cbn [rev app].
  assert (E3 : is_dotdot n = false).
  { unfold is_dotdot. destruct (bytes_eqb n [46; 46]) eqn:E; [|reflexivity]. apply bytes_eqb_eq in E. contradiction. }
  rewrite E3. reflexivity.
Qed.

Theorem file_name_bare n : plain_name n -> file_name n = Some n.
Proof.
  intros [Hne [Hns [Hd Hdd]]]. unfold file_name, components.
  rewrite (split_slash_no_slash n Hns []). cbn [rev app filter].
  assert (E1 : (match n with [] => true | _ => false end) = false) by (destruct n; [contradiction|reflexivity]).
  assert (E2 : is_dot n = false).
  { unfold is_dot. destruct (bytes_eqb n [46]) eqn:E; [|reflexivity]. apply bytes_eqb_eq in E. contradiction. }
  rewrite E1, E2. cbn [negb andb rev app].
  assert (E3 : is_dotdot n = false).
  { unfold is_dotdot. destruct (bytes_eqb n [46; 46]) eqn:E; [|reflexivity]. apply bytes_eqb_eq in E. contradiction. }
  rewrite E3. reflexivity.
Qed.

(* the patterns of the generator, and a few shapes std documents:
   'a.{}.gz'  'z/a.{}.zst'  'dotf/{}/.gz'  'dotz{}/.zst'  'nl/b.{}.gz\r\n'  'a.{}.gz/'  'a.{}.gz/.'  'x/..'  '..gz'  'a.gz/b'  'a.tar.gz'  'gz'  '.a.gz' *)
Example extension_examples :
  map compressed
      [[97; 46; 123; 125; 46; 103; 122];
       [122; 47; 97; 46; 123; 125; 46; 122; 115; 116];
       [100; 111; 116; 102; 47; 123; 125; 47; 46; 103; 122];
       [100; 111; 116; 122; 123; 125; 47; 46; 122; 115; 116];
       [110; 108; 47; 98; 46; 123; 125; 46; 103; 122; 13; 10];
       [97; 46; 123; 125; 46; 103; 122; 47];
       [97; 46; 123; 125; 46; 103; 122; 47; 46];
       [120; 47; 46; 46];
       [46; 46; 103; 122];
       [97; 46; 103; 122; 47; 98];
       [97; 46; 116; 97; 114; 46; 103; 122];
       [103; 122];
       [46; 97; 46; 103; 122]]
  = [true; true; false; false; false; true; true; false; true; false; true; false; true].
Proof. vm_compute. reflexivity. Qed.
