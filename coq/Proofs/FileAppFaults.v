(* C04 under OS errors (a full disk, EIO, short writes - ANY script of the file's answers):
   what was acknowledged stays stored, whole and in call order, whatever fails before or after;
   nothing the process accepted into the BufWriter is silently dropped except the unwritten
   rest of the one chunk whose bypass write failed. *)
From Coq Require Import List Arith NArith Bool Lia.
Import ListNotations.
From L4 Require Import Common.Sched Model.BufW Model.FileApp Proofs.FileApp.

Lemma appends_app : forall c rs1 rs2 st, appends c st (rs1 ++ rs2) = appends c (appends c st rs1) rs2.
Proof. induction rs1 as [|r rs1 IH]; intros rs2 st; cbn [appends app]; [reflexivity|apply IH]. Qed.

(* a record whose append returned Ok is on disk, whole, right behind everything the appender had taken before,
   and stays there through any later history (failing or not) *)
Theorem acknowledged_record_stays : forall c st rs1 r rs2 st1,
    append c (appends c st rs1) r = Ok st1 ->
    exists post,
      disk (appends c st (rs1 ++ r :: rs2)) =
      disk (appends c st rs1) ++ buf (appends c st rs1) ++ rec_bytes r ++ post.
Proof.
  intros c st rs1 r rs2 st1 H.
  rewrite appends_app. cbn [appends]. rewrite H. cbn [res_state].
  destruct (disk_only_grows c rs2 st1) as (p & Hp). exists p. rewrite Hp.
  apply append_flushes_whole_record in H. destruct H as [Hd _]. rewrite Hd, <- !app_assoc. reflexivity.
Qed.

(* two acknowledged records appear in call order, without overlapping *)
Theorem acknowledged_records_in_order : forall c st rs1 r1 rs2 r2 rs3 s1 s2,
    append c (appends c st rs1) r1 = Ok s1 ->
    append c (appends c st (rs1 ++ r1 :: rs2)) r2 = Ok s2 ->
    exists a b d,
      disk (appends c st (rs1 ++ r1 :: rs2 ++ r2 :: rs3)) = a ++ rec_bytes r1 ++ b ++ rec_bytes r2 ++ d.
Proof.
  intros c st rs1 r1 rs2 r2 rs3 s1 s2 H1 H2.
  replace (rs1 ++ r1 :: rs2 ++ r2 :: rs3) with ((rs1 ++ r1 :: rs2) ++ r2 :: rs3)
    by (rewrite <- app_assoc; reflexivity).
  destruct (acknowledged_record_stays c st (rs1 ++ r1 :: rs2) r2 rs3 s2 H2) as (post & Hpost).
  destruct (acknowledged_record_stays c st rs1 r1 rs2 s1 H1) as (mid & Hmid).
  rewrite Hpost, Hmid.
  exists (disk (appends c st rs1) ++ buf (appends c st rs1)), (mid ++ buf (appends c st (rs1 ++ r1 :: rs2))), post.
  rewrite <- ?app_assoc. reflexivity.
Qed.

(* ---- nothing accepted is dropped: disk ++ buffer grows by a prefix of what each call offered ---- *)

Definition keeps (d : bytes) (ok : bool) (st st' : fstate) : Prop :=
  exists p, prefix p d /\ disk st' ++ buf st' = disk st ++ buf st ++ p /\ (ok = true -> p = d).

Lemma prefix_refl' (d : bytes) : prefix d d.
Proof. exists []. apply app_nil_r. Qed.
Lemma prefix_nil' (d : bytes) : prefix [] d.
Proof. exists d. reflexivity. Qed.

Lemma flush_keeps : forall st ok st', flush_buf st = (ok, st') -> keeps [] ok st st'.
Proof.
  intros st ok st' H. apply flush_buf_spec in H. destruct H as (w & Hd & Hw & _).
  exists []. split; [apply prefix_nil'|]. split; [|reflexivity].
  rewrite Hd, app_nil_r, <- app_assoc, Hw. reflexivity.
Qed.

Lemma bw_write_all_keeps : forall c d st ok st',
    bw_write_all c d st = (ok, st') -> keeps d ok st st'.
Proof.
  intros c d st ok st' H. unfold bw_write_all in H.
  destruct (length d <? spare c st) eqn:Hfast.
  - inversion H; subst. exists d. cbn [push disk buf]. split; [apply prefix_refl'|]. split; [|reflexivity].
    rewrite <- ?app_assoc. reflexivity.
  - destruct (if spare c st <? length d then flush_buf st else (true, st)) as [ok1 st1] eqn:Hpre.
    pose proof (preflush_spec _ _ _ _ Hpre) as (w1 & Hd1 & Hw1 & Hfl & Hnofl).
    assert (T1 : disk st1 ++ buf st1 = disk st ++ buf st) by (rewrite Hd1, <- app_assoc, Hw1; reflexivity).
    destruct ok1; cbn [negb] in H.
    2:{ inversion H; subst. exists []. split; [apply prefix_nil'|]. split; [|discriminate].
        rewrite T1, app_nil_r. reflexivity. }
    destruct (c <=? length d) eqn:Hbig.
    + destruct (drain (orc st1) (disk st1) d) as [[[ok0 dk] r2] o] eqn:Hdr.
      inversion H; subst ok0 st'. clear H. cbn [disk buf].
      assert (Hcase : buf st1 = [] \/ d = []).
      { destruct (spare c st <? length d) eqn:Hsp.
        - left. apply Hfl; reflexivity.
        - destruct (Hnofl eq_refl) as [-> _].
          apply Nat.ltb_ge in Hfast. apply Nat.ltb_ge in Hsp. apply Nat.leb_le in Hbig.
          unfold spare in *.
          destruct (buf st) as [|b0 bs]; [left; reflexivity|right].
          destruct d as [|x d]; [reflexivity|]. cbn [length] in *. lia. }
      apply drain_spec in Hdr. destruct Hdr as (w2 & Hdk & Hw2 & Hr2).
      destruct Hcase as [Hb | Hd0].
      * exists w2. split; [exists r2; exact Hw2|]. split.
        -- rewrite Hdk, Hb, app_nil_r. rewrite (app_assoc (disk st) (buf st) w2), <- T1, Hb, app_nil_r. reflexivity.
        -- intros Hok. rewrite (Hr2 Hok), app_nil_r in Hw2. exact Hw2.
      * assert (Ew : w2 = []). { rewrite Hd0 in Hw2. apply app_eq_nil in Hw2. tauto. }
        subst w2. exists []. split; [apply prefix_nil'|]. split.
        -- rewrite Hdk, !app_nil_r. exact T1.
        -- intros _. symmetry. exact Hd0.
    + inversion H; subst. cbn [push disk buf]. exists d. split; [apply prefix_refl'|]. split; [|reflexivity].
      unfold push. cbn [disk buf].
      rewrite (app_assoc (disk st1) (buf st1) d), T1, <- app_assoc. reflexivity.
Qed.

Lemma act_res_keeps : forall c a st ok st',
    act_res c a st = (ok, st') -> keeps (act_bytes a) ok st st'.
Proof.
  intros c [d|] st ok st' H; cbn [act_res act_bytes] in *.
  - eapply bw_write_all_keeps. exact H.
  - apply flush_keeps. exact H.
Qed.

Lemma run_acts_keeps : forall c l st ok st',
    run_acts c l st = (ok, st') -> keeps (acts_bytes l) ok st st'.
Proof.
  induction l as [|a l IH]; intros st ok st' H; cbn [run_acts] in H.
  - inversion H; subst. exists []. unfold acts_bytes. cbn. rewrite !app_nil_r.
    split; [apply prefix_nil'|]. split; reflexivity.
  - destruct (act_res c a st) as [ok1 st1] eqn:Ha. apply act_res_keeps in Ha.
    change (acts_bytes (a :: l)) with (act_bytes a ++ acts_bytes l).
    destruct Ha as (p1 & (q1 & Hq1) & T1 & O1).
    destruct ok1.
    + specialize (O1 eq_refl). subst p1.
      destruct (IH _ _ _ H) as (p2 & (q2 & Hq2) & T2 & O2).
      exists (act_bytes a ++ p2). split; [exists q2; rewrite <- app_assoc, Hq2; reflexivity|]. split.
      * rewrite T2, (app_assoc (disk st1) (buf st1) p2), T1, <- ?app_assoc. reflexivity.
      * intros Hok. rewrite (O2 Hok). reflexivity.
    + inversion H; subst. exists p1. split; [exists (q1 ++ acts_bytes l); rewrite app_assoc, Hq1; reflexivity|].
      split; [exact T1|discriminate].
Qed.

(* one call: what the appender holds (file ++ private buffer) grows by a prefix of the record, by all of it
   when the call is acknowledged *)
Theorem append_keeps : forall c st cs,
    exists p, prefix p (rec_bytes cs) /\
      disk (res_state (append c st cs)) ++ buf (res_state (append c st cs)) = disk st ++ buf st ++ p /\
      (forall s, append c st cs = Ok s -> p = rec_bytes cs).
Proof.
  intros c st cs. rewrite append_run_acts.
  destruct (run_acts c (block_of cs) st) as [ok s] eqn:Hr.
  apply run_acts_keeps in Hr. rewrite acts_bytes_block in Hr. destruct Hr as (p & Hp & T & O).
  exists p. destruct ok; cbn [res_state]; (split; [exact Hp|]); (split; [exact T|]).
  - intros s0 _. apply O. reflexivity.
  - intros s0 E. discriminate.
Qed.

(* a whole history under any script of OS answers: file ++ buffer = what was there ++ one piece per call, each
   piece a prefix of the call's record *)
Theorem appends_keep : forall c rs st,
    exists ps, Forall2 (fun p r => prefix p (rec_bytes r)) ps rs /\
      disk (appends c st rs) ++ buf (appends c st rs) = disk st ++ buf st ++ concat ps.
Proof.
  induction rs as [|r rs IH]; intros st; cbn [appends].
  - exists []. split; [constructor|]. cbn. rewrite !app_nil_r. reflexivity.
  - destruct (append_keeps c st r) as (p & Hp & T & _).
    destruct (IH (res_state (append c st r))) as (ps & Hps & T2).
    exists (p :: ps). split; [constructor; assumption|].
    rewrite T2. set (s1 := res_state (append c st r)) in *.
    rewrite (app_assoc (disk s1) (buf s1) (concat ps)), T. cbn [concat]. rewrite <- ?app_assoc. reflexivity.
Qed.
