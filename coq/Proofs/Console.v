(* C18 — spec definitions and lemmas for the console appender model. *)
From Coq Require Import List NArith Bool Lia.
Import ListNotations.
From L4 Require Import Model.Ansi Model.Console Proofs.Ansi.
Local Open Scope N_scope.

(* ======================================================================== *)
(* Spec vocabulary (declarative; does not mention env_flag / colour_mode)    *)

(* the variable is set to something other than the one-character text 0 *)
Definition active (v : option bytes) : Prop := exists s, v = Some s /\ s <> [48].
(* the variable is set to exactly 0 *)
Definition is_zero (v : option bytes) : Prop := v = Some [48].

(* what a stream shows for a sequence of writer calls when colour is on / off *)
Definition render_ev (colour : bool) (e : ev) : bytes :=
  match e with
  | EvBytes b => b
  | EvStyle s => if colour then sgr_bytes s else []
  end.
Definition render (colour : bool) (evs : list ev) : bytes := concat (map (render_ev colour) evs).

(* the text alone *)
Definition plain (evs : list ev) : bytes :=
  concat (map (fun e => match e with EvBytes b => b | EvStyle _ => [] end) evs).

(* the recorded open finding F-C18-tty-only-colour: tty_only = true and colour mode <> Auto *)
Definition known_class (w : world) (a : appender) : bool :=
  a_tty_only a && match colour_mode (w_env w) with Auto => false | _ => true end.

(* ======================================================================== *)

Lemma bytes_eqb_eq a : forall b, bytes_eqb a b = true <-> a = b.
Proof.
  induction a as [|x a IH]; intros [|y b]; cbn; split; try congruence; try reflexivity.
  - intros H. apply andb_true_iff in H. destruct H as [H1 H2].
    apply N.eqb_eq in H1. apply IH in H2. congruence.
  - intros H. inversion H; subst. apply andb_true_iff. split; [apply N.eqb_refl|apply IH; reflexivity].
Qed.

Lemma env_flag_active v : env_flag v false = true <-> active v.
Proof.
  unfold env_flag, active. destruct v as [s|].
  - rewrite negb_true_iff. split.
    + intros H. exists s. split; [reflexivity|]. intros ->. cbn in H. discriminate.
    + intros [s' [Hs Hne]]. inversion Hs; subst s'.
      destruct (bytes_eqb s [48]) eqn:E; [|reflexivity]. apply bytes_eqb_eq in E. contradiction.
  - split; [discriminate|]. intros [s [Hs _]]. discriminate.
Qed.

Lemma env_flag_zero v : env_flag v true = false <-> is_zero v.
Proof.
  unfold env_flag, is_zero. destruct v as [s|].
  - rewrite negb_false_iff, bytes_eqb_eq. split; [intros ->; reflexivity|intros H; inversion H; reflexivity].
  - split; discriminate.
Qed.

Lemma not_true_false b : b <> true <-> b = false.
Proof. destruct b; split; congruence. Qed.

(* the three-way decision of COLOR_MODE, in words *)
Lemma colour_mode_spec e :
  (colour_mode e = Never <-> active (e_no_color e)
                             \/ (~ active (e_clicolor_force e) /\ is_zero (e_clicolor e)))
  /\ (colour_mode e = Always <-> ~ active (e_no_color e) /\ active (e_clicolor_force e))
  /\ (colour_mode e = Auto <-> ~ active (e_no_color e) /\ ~ active (e_clicolor_force e)
                               /\ ~ is_zero (e_clicolor e)).
Proof.
  unfold colour_mode.
  rewrite <- !env_flag_active, <- !env_flag_zero.
  destruct (env_flag (e_no_color e) false), (env_flag (e_clicolor_force e) false),
           (env_flag (e_clicolor e) true); cbn; intuition congruence.
Qed.

Theorem colour_precedence e tty :
  emits_escapes (writer_kind (colour_mode e) tty) = true <->
  ~ active (e_no_color e)
  /\ (active (e_clicolor_force e) \/ (~ is_zero (e_clicolor e) /\ tty = true)).
Proof.
  unfold colour_mode.
  rewrite <- !env_flag_active, <- !env_flag_zero.
  destruct (env_flag (e_no_color e) false), (env_flag (e_clicolor_force e) false),
           (env_flag (e_clicolor e) true), tty; cbn; intuition congruence.
Qed.

(* ---- what the writer shows ---- *)

Lemma write_events_render k evs :
  write_events k evs = Ok (render (emits_escapes k) evs).
Proof.
  induction evs as [|[b|s] evs IH]; cbn [write_events]; [reflexivity| |].
  - rewrite IH. reflexivity.
  - destruct k; cbn [emits_escapes is_tty] in *.
    + rewrite set_style_sgr_bytes, IH. reflexivity.
    + rewrite IH. reflexivity.
Qed.

Lemma render_false_plain evs : render false evs = plain evs.
Proof. reflexivity. Qed.

Lemma render_app c a b : render c (a ++ b) = render c a ++ render c b.
Proof. unfold render. rewrite map_app, concat_app. reflexivity. Qed.

Theorem append_spec w a lv msg :
  append w a lv msg =
  Ok (if writes w a
      then let out := render (emits_escapes (built_kind w a)) (enc_chunks (a_pattern a) lv msg) in
           match a_target a with Stdout => (out, []) | Stderr => ([], out) end
      else ([], [])).
Proof.
  unfold append. destruct (writes w a); [|reflexivity].
  rewrite write_events_render. reflexivity.
Qed.

Theorem untied_always_writes w a lv msg :
  a_tty_only a = false ->
  writes w a = true
  /\ append w a lv msg =
     Ok (let out := render (emits_escapes (built_kind w a)) (enc_chunks (a_pattern a) lv msg) in
         match a_target a with Stdout => (out, []) | Stderr => ([], out) end).
Proof.
  intros H.
  assert (Hw : writes w a = true).
  { unfold writes, do_write. rewrite H. apply orb_true_r. }
  split; [exact Hw|]. rewrite append_spec, Hw. reflexivity.
Qed.

Theorem write_decision w a :
  known_class w a = false ->
  writes w a = (if a_tty_only a then isatty w (a_target a) else true).
Proof.
  unfold known_class, writes, do_write, built_kind, writer_kind.
  destruct (a_tty_only a); cbn [andb negb].
  - destruct (colour_mode (w_env w)); [|discriminate|discriminate].
    intros _. cbn [console_writer]. destruct (isatty w (a_target a)); reflexivity.
  - intros _. apply orb_true_r.
Qed.

Definition env_of (nc cf cc : option bytes) : env3 :=
  {| e_no_color := nc; e_clicolor_force := cf; e_clicolor := cc |}.

(* F-C18-tty-only-colour: (1) NO_COLOR=1 on a terminal: silent; (2) CLICOLOR_FORCE=1 on a
   pipe: writes *)
Theorem tty_only_refuted :
  (exists w a, known_class w a = true /\ a_tty_only a = true
               /\ isatty w (a_target a) = true /\ writes w a = false)
  /\ (exists w a, known_class w a = true /\ a_tty_only a = true
               /\ isatty w (a_target a) = false /\ writes w a = true).
Proof.
  split.
  - exists {| w_env := env_of (Some [49]) None None; w_out_tty := true; w_err_tty := true |},
           {| a_target := Stdout; a_tty_only := true; a_pattern := [CMessage] |}.
    vm_compute. repeat split.
  - exists {| w_env := env_of None (Some [49]) None; w_out_tty := false; w_err_tty := false |},
           {| a_target := Stdout; a_tty_only := true; a_pattern := [CMessage] |}.
    vm_compute. repeat split.
Qed.

(* ---- highlight groups ---- *)

Lemma enc_highlight_inner cs lv msg :
  (fix go (l : list chunk) : list ev :=
     match l with
     | [] => []
     | c' :: r => enc_chunk c' lv msg ++ go r
     end) cs = enc_chunks cs lv msg.
Proof. induction cs as [|c cs IH]; [reflexivity|]. cbn [enc_chunks flat_map]. rewrite IH. reflexivity. Qed.

(* the writer calls of a highlighted group before its format spec is applied: the level's
   style request, the group's own calls, a reset (nothing at DEBUG) *)
Definition group_events (cs : list chunk) (lv : level) (msg : bytes) : list ev :=
  match highlight_style lv with
  | Some st => EvStyle st :: enc_chunks cs lv msg ++ [EvStyle style_new]
  | None => enc_chunks cs lv msg
  end.

Theorem highlight_group p cs lv msg :
  enc_chunk (CHighlight p cs) lv msg = apply_params p (group_events cs lv msg).
Proof.
  cbn [enc_chunk]. rewrite enc_highlight_inner. reflexivity.
Qed.

Theorem highlight_reset colour cs lv msg :
  render colour (enc_chunk (CHighlight no_params cs) lv msg) =
  match highlight_style lv with
  | Some st =>
    (if colour then sgr_bytes st else [])
    ++ render colour (enc_chunks cs lv msg)
    ++ (if colour then sgr_bytes style_new else [])
  | None => render colour (enc_chunks cs lv msg)
  end.
Proof.
  rewrite highlight_group. unfold group_events. cbn [apply_params no_params p_min p_max].
  destruct (highlight_style lv) as [st|]; [|reflexivity].
  change (EvStyle st :: enc_chunks cs lv msg ++ [EvStyle style_new])
    with ([EvStyle st] ++ enc_chunks cs lv msg ++ [EvStyle style_new]).
  rewrite !render_app. unfold render at 1 3. cbn [map concat render_ev]. rewrite !app_nil_r.
  reflexivity.
Qed.

(* ---- format specs keep every style request, in order ---- *)

Fixpoint styles_of (evs : list ev) : list style :=
  match evs with
  | [] => []
  | EvBytes _ :: r => styles_of r
  | EvStyle s :: r => s :: styles_of r
  end.

Lemma styles_of_app a b : styles_of (a ++ b) = styles_of a ++ styles_of b.
Proof.
  induction a as [|[x|s] a IH]; cbn [app styles_of]; [reflexivity|exact IH|].
  rewrite IH. reflexivity.
Qed.

Lemma styles_of_max_width evs : forall n, styles_of (max_width n evs) = styles_of evs.
Proof.
  induction evs as [|[b|s] evs IH]; intros n; cbn [max_width]; [reflexivity| |].
  - destruct (take_chars n b) as [k n']. cbn [styles_of]. apply IH.
  - cbn [styles_of]. rewrite IH. reflexivity.
Qed.

Theorem params_keep_styles p evs : styles_of (apply_params p evs) = styles_of evs.
Proof.
  unfold apply_params, fill_ev.
  destruct (p_min p) as [mn|], (p_max p) as [mx|], (p_right p);
    rewrite ?styles_of_max_width, ?styles_of_app; cbn [styles_of]; rewrite ?app_nil_r; reflexivity.
Qed.

(* the style requests of a highlighted group are the level's style then the inner ones then a
   reset, whatever its width / alignment spec and however long the text is *)
Theorem highlight_styles_with_spec p cs lv msg :
  styles_of (enc_chunk (CHighlight p cs) lv msg) =
  match highlight_style lv with
  | Some st => st :: styles_of (enc_chunks cs lv msg) ++ [style_new]
  | None => styles_of (enc_chunks cs lv msg)
  end.
Proof.
  rewrite highlight_group, params_keep_styles. unfold group_events.
  destruct (highlight_style lv) as [st|]; [|reflexivity].
  cbn [styles_of]. rewrite styles_of_app. reflexivity.
Qed.

Lemma max_width_snoc_style evs s : forall n,
  max_width n (evs ++ [EvStyle s]) = max_width n evs ++ [EvStyle s].
Proof.
  induction evs as [|[b|s'] evs IH]; intros n; cbn [app max_width]; [reflexivity| |].
  - destruct (take_chars n b) as [k n']. rewrite IH. reflexivity.
  - rewrite IH. reflexivity.
Qed.

(* a max-width spec (the family of seeded change C18-2): on a colour-enabled stream the group
   still opens with its style request and CLOSES with the reset, however long the text is *)
Theorem highlight_max_width_reset p mx cs lv msg st :
  p_min p = None -> p_max p = Some mx -> highlight_style lv = Some st ->
  exists body,
    render true (enc_chunk (CHighlight p cs) lv msg) = sgr_bytes st ++ body ++ sgr_bytes style_new.
Proof.
  intros Hmin Hmax Hst. rewrite highlight_group. unfold group_events, apply_params.
  rewrite Hmin, Hmax, Hst.
  change (EvStyle st :: enc_chunks cs lv msg ++ [EvStyle style_new])
    with ((EvStyle st :: enc_chunks cs lv msg) ++ [EvStyle style_new]).
  rewrite max_width_snoc_style. cbn [max_width].
  exists (render true (max_width mx (enc_chunks cs lv msg))).
  change (EvStyle st :: max_width mx (enc_chunks cs lv msg))
    with ([EvStyle st] ++ max_width mx (enc_chunks cs lv msg)).
  rewrite !render_app. unfold render at 1 3. cbn [map concat render_ev]. rewrite !app_nil_r.
  rewrite <- app_assoc. reflexivity.
Qed.

(* the closing sequence of a highlighted group is a reset from any style *)
Theorem reset_resets s0 : sgr_apply s0 (sgr_bytes style_new) = Some style_new.
Proof.
  destruct (sgr_decode_encode style_new) as [bs [H1 [_ [_ H4]]]].
  unfold sgr_bytes. rewrite H1. apply H4.
Qed.

(* every style request that reaches a colour-enabled stream is one well-formed sequence
   that sets exactly the requested style *)
Theorem style_request_ok s :
  well_formed_sgr (sgr_bytes s) = true
  /\ count27 (sgr_bytes s) = 1%nat
  /\ forall s0, sgr_apply s0 (sgr_bytes s) = Some s.
Proof.
  destruct (sgr_decode_encode s) as [bs [H1 [H2 [H3 H4]]]].
  unfold sgr_bytes. rewrite H1. auto.
Qed.
