(* C07 / C08 — proofs about Model/Window.v.
   Spec vocabulary (independent of the loop): `lookup` equations only.
     shifted_val m f j   what index j+1 holds after the shifts, from the state f before them
     roll_post           state after one roll in terms of lookups in the state before it
     window_ok           state after n rolls in terms of the rolled contents and the initial state
   Main results: do_shifts_spec (every prefix of the shift loop, by induction on the
   window size), roll_once, window_after_rolls (induction on the number of rolls). *)
From Coq Require Import List NArith Bool Lia Arith.
Import ListNotations.
From L4 Require Import Common.FSModel Model.Window.

Lemma lookup_move_file : forall s d f p,
  lookup p (move_file s d f) =
    if path_eqb p d then (match lookup s f with Some y => Some y | None => lookup d f end)
    else if path_eqb p s then None else lookup p f.
Proof.
  intros s d f p. unfold move_file. destruct (rename s d f) as [f'|] eqn:R.
  - rewrite (lookup_rename _ _ _ _ p R).
    assert (exists y, lookup s f = Some y) as [y Hy].
    { unfold rename in R. destruct (lookup s f) as [y|]; [exists y; reflexivity|discriminate]. }
    rewrite Hy. reflexivity.
  - apply rename_notfound in R. rewrite R.
    destruct (path_eqb p d) eqn:Ed.
    + apply path_eqb_eq in Ed. subst p. reflexivity.
    + destruct (path_eqb p s) eqn:Es; [|reflexivity].
      apply path_eqb_eq in Es. subst p. exact R.
Qed.

Section WindowProofs.
  Variable name : N -> path.
  Variable b : N.

  Definition nm (j : nat) : path := name (b + N.of_nat j).

  Lemma nm_succ : forall m, name (b + N.of_nat m + 1) = nm (S m).
  Proof. intro m. unfold nm. f_equal. lia. Qed.

  Fixpoint do_shifts (k m : nat) (f : fs) : fs :=
    match k, m with
    | S k', S m' => do_shifts k' m' (move_file (nm m') (nm (S m')) f)
    | _, _ => f
    end.

  Lemma exec_prefix_shifts : forall cm m k rest f, k <= m ->
    exec_prefix cm k (shift_steps name b m ++ rest) f = do_shifts k m f.
  Proof.
    induction m as [|m IH]; intros k rest f Hk.
    - assert (k = 0) by lia. subst k. destruct rest; reflexivity.
    - destruct k as [|k]; [reflexivity|].
      cbn [shift_steps app exec_prefix exec_step do_shifts]. rewrite nm_succ.
      apply IH. lia.
  Qed.

  Lemma run_steps_shifts : forall cm m rest f,
    run_steps cm None (shift_steps name b m ++ rest) f = run_steps cm None rest (do_shifts m m f).
  Proof.
    induction m as [|m IH]; intros rest f; [reflexivity|].
    cbn [shift_steps app run_steps exec_step dec_fault do_shifts]. rewrite nm_succ. apply IH.
  Qed.

  Lemma run_steps_shifts_fault : forall cm m k rest f,
    run_steps cm (Some k) (shift_steps name b m ++ rest) f =
      if k <? m then Failed (do_shifts k m f)
      else run_steps cm (Some (k - m)) rest (do_shifts m m f).
  Proof.
    induction m as [|m IH]; intros k rest f.
    - cbn [shift_steps app do_shifts]. rewrite Nat.sub_0_r.
      destruct k; reflexivity.
    - destruct k as [|k].
      + reflexivity.
      + cbn [shift_steps app run_steps exec_step dec_fault do_shifts]. rewrite nm_succ.
        rewrite IH. reflexivity.
  Qed.

  Definition shifted_val (m : nat) (f : fs) (j : nat) : option bytes :=
    match lookup (nm j) f with
    | Some y => Some y
    | None => if Nat.eqb (S j) m then lookup (nm m) f else None
    end.

  Definition inj_upto (m : nat) : Prop :=
    forall i j, i <= m -> j <= m -> nm i = nm j -> i = j.

  Lemma do_shifts_spec : forall m k f, k <= m -> inj_upto m ->
    (forall j, m - k <= j -> j < m -> lookup (nm (S j)) (do_shifts k m f) = shifted_val m f j) /\
    (0 < k -> lookup (nm (m - k)) (do_shifts k m f) = None) /\
    (forall j, j < m - k -> lookup (nm j) (do_shifts k m f) = lookup (nm j) f) /\
    (forall p, (forall j, j <= m -> p <> nm j) -> lookup p (do_shifts k m f) = lookup p f).
  Proof.
    induction m as [|m IH]; intros k f Hk Hinj.
    - assert (k = 0) by lia. subst k. cbn [do_shifts].
      repeat split; intros; try lia; reflexivity.
    - destruct k as [|k].
      { cbn [do_shifts]. repeat split; intros; try lia; reflexivity. }
      cbn [do_shifts].
      set (f1 := move_file (nm m) (nm (S m)) f).
      assert (Hinj' : inj_upto m).
      { intros i j Hi Hj E. apply Hinj; try lia. exact E. }
      destruct (IH k f1 ltac:(lia) Hinj') as (Ha & Hb & Hc & Hd).
      assert (Hneq : forall i j, i <= S m -> j <= S m -> i <> j -> nm i <> nm j).
      { intros i j Hi Hj Hne E. apply Hne. apply Hinj; assumption. }
      assert (F1top : lookup (nm (S m)) f1 =
                      match lookup (nm m) f with Some y => Some y | None => lookup (nm (S m)) f end).
      { unfold f1. rewrite lookup_move_file. rewrite path_eqb_refl. reflexivity. }
      assert (F1src : lookup (nm m) f1 = None).
      { unfold f1. rewrite lookup_move_file.
        replace (path_eqb (nm m) (nm (S m))) with false
          by (symmetry; apply path_eqb_neq; apply Hneq; lia).
        rewrite path_eqb_refl. reflexivity. }
      assert (F1other : forall p, p <> nm m -> p <> nm (S m) -> lookup p f1 = lookup p f).
      { intros p H1 H2. unfold f1. rewrite lookup_move_file.
        apply path_eqb_neq in H1. apply path_eqb_neq in H2. rewrite H1, H2. reflexivity. }
      replace (S m - S k) with (m - k) by lia.
      split; [|split; [|split]].
      + intros j Hlo Hhi. destruct (Nat.eq_dec j m) as [->|Hjm].
        * rewrite Hd.
          2:{ intros i Hi. apply Hneq; lia. }
          rewrite F1top. unfold shifted_val. rewrite Nat.eqb_refl. reflexivity.
        * rewrite Ha by lia. unfold shifted_val.
          rewrite (F1other (nm j)) by (apply Hneq; lia).
          destruct (lookup (nm j) f); [reflexivity|].
          replace (Nat.eqb (S j) (S m)) with false by (symmetry; apply Nat.eqb_neq; lia).
          destruct (Nat.eqb (S j) m); [exact F1src|reflexivity].
      + intros _. destruct k as [|k'].
        * cbn [do_shifts]. destruct m; rewrite Nat.sub_0_r; exact F1src.
        * apply Hb. lia.
      + intros j Hj. rewrite Hc by lia. apply F1other; apply Hneq; lia.
      + intros p Hp. rewrite Hd.
        * apply F1other; apply Hp; lia.
        * intros j Hj. apply Hp. lia.
  Qed.

  (* ---- the final move/compress ---- *)
  Lemma compress_spec : forall cm file d x f,
    file <> d -> lookup file f = Some x ->
    exists g, compress cm file d f = Some g /\
      forall p, lookup p g = if path_eqb p file then None
                             else if path_eqb p d then Some (arch cm x) else lookup p f.
  Proof.
    intros cm file d x f Hne Hx. destruct cm as [gz|]; cbn [compress arch].
    - rewrite Hx. eexists; split; [reflexivity|]. intro p.
      destruct (path_eqb p file) eqn:Ef.
      + apply path_eqb_eq in Ef. subst p. apply lookup_remove_eq.
      + apply path_eqb_neq in Ef. rewrite lookup_remove_neq by exact Ef.
        destruct (path_eqb p d) eqn:Ed.
        * apply path_eqb_eq in Ed. subst p. apply lookup_write_eq.
        * apply path_eqb_neq in Ed. apply lookup_write_neq. exact Ed.
    - eexists; split; [reflexivity|]. intro p. rewrite lookup_move_file. rewrite Hx.
      destruct (path_eqb p file) eqn:Ef.
      + apply path_eqb_eq in Ef. subst p.
        replace (path_eqb file d) with false by (symmetry; apply path_eqb_neq; exact Hne).
        reflexivity.
      + reflexivity.
  Qed.

  (* ---- one roll, declaratively: the state after the roll in terms of lookups
          in the state before it ---- *)
  Definition roll_post (cm : cmode) (m : nat) (file : path) (x : bytes) (f g : fs) : Prop :=
    lookup file g = None /\
    lookup (nm 0) g = Some (arch cm x) /\
    (forall j, j < m -> lookup (nm (S j)) g = shifted_val m f j) /\
    (forall p, p <> file -> (forall j, j <= m -> p <> nm j) -> lookup p g = lookup p f).

  Definition fits_u32 (c : N) : Prop := (b + c <= 4294967296)%N.

  Lemma nm_0 : nm 0 = name b.
  Proof. unfold nm. f_equal. lia. Qed.

  Lemma rotate_no_panic : forall cm fault c file f,
    (1 <= c)%N -> fits_u32 c ->
    rotate name cm fault b c file f = run_steps cm fault (steps name b c file) f.
  Proof.
    intros cm fault c file f Hc Hfit. unfold rotate, u32_max1, fits_u32 in *.
    replace (4294967296 <=? b + (c - 1))%N with false; [reflexivity|].
    symmetry. apply N.leb_gt. lia.
  Qed.

  Lemma roll_once : forall cm c file x f,
    (1 <= c)%N -> fits_u32 c ->
    inj_upto (N.to_nat (c - 1)) ->
    (forall j, j <= N.to_nat (c - 1) -> file <> nm j) ->
    lookup file f = Some x ->
    exists g, roll name cm None b c file f = Done g /\ roll_post cm (N.to_nat (c - 1)) file x f g.
  Proof.
    intros cm c file x f Hc Hfit Hinj Hfile Hx. unfold roll.
    replace (c =? 0)%N with false by (symmetry; apply N.eqb_neq; lia).
    rewrite rotate_no_panic by assumption. unfold steps.
    set (m := N.to_nat (c - 1)) in *.
    rewrite run_steps_shifts.
    destruct (do_shifts_spec m m f (le_n m) Hinj) as (Ha & Hb & Hc' & Hd).
    assert (Hx2 : lookup file (do_shifts m m f) = Some x).
    { rewrite Hd; [exact Hx|]. intros j Hj. apply Hfile. exact Hj. }
    rewrite <- nm_0.
    destruct (compress_spec cm file (nm 0) x _ (Hfile 0 ltac:(lia)) Hx2) as (g & Hg & Hlk).
    exists g. cbn [run_steps exec_step dec_fault]. rewrite Hg. split; [reflexivity|].
    unfold roll_post. split; [|split; [|split]].
    - rewrite Hlk. rewrite path_eqb_refl. reflexivity.
    - rewrite Hlk. rewrite path_eqb_refl.
      replace (path_eqb (nm 0) file) with false; [reflexivity|].
      symmetry. apply path_eqb_neq. intro E. apply (Hfile 0 ltac:(lia)). symmetry. exact E.
    - intros j Hj. rewrite Hlk.
      replace (path_eqb (nm (S j)) file) with false.
      2:{ symmetry. apply path_eqb_neq. intro E. apply (Hfile (S j) ltac:(lia)). symmetry. exact E. }
      replace (path_eqb (nm (S j)) (nm 0)) with false.
      2:{ symmetry. apply path_eqb_neq. intro E. apply Hinj in E; lia. }
      apply Ha; lia.
    - intros p Hpf Hp. rewrite Hlk.
      replace (path_eqb p file) with false by (symmetry; apply path_eqb_neq; exact Hpf).
      replace (path_eqb p (nm 0)) with false.
      2:{ symmetry. apply path_eqb_neq. apply Hp. lia. }
      apply Hd. exact Hp.
  Qed.

  (* ---- n successive rolls ---- *)
  Lemma rolls_app : forall cm c file l x f,
    rolls name cm b c file (l ++ [x]) f =
    match rolls name cm b c file l f with
    | Done g => roll name cm None b c file (write file x g)
    | o => o
    end.
  Proof.
    intros cm c file l x. induction l as [|y l IH]; intro f; cbn [app rolls].
    - destruct (roll name cm None b c file (write file x f)); reflexivity.
    - destruct (roll name cm None b c file (write file y f)); try reflexivity. apply IH.
  Qed.

  Definition window_ok (cm : cmode) (c : N) (file : path) (contents : list bytes) (f0 g : fs) : Prop :=
    (forall j, j < length contents -> j < N.to_nat c ->
               lookup (nm j) g = Some (arch cm (nth j (rev contents) []))) /\
    (forall j, length contents <= j -> j < N.to_nat c ->
               lookup (nm j) g = None \/ exists i, i <= j /\ lookup (nm j) g = lookup (nm i) f0) /\
    (contents <> [] -> lookup file g = None) /\
    (forall p, p <> file -> (forall j, j < N.to_nat c -> p <> nm j) -> lookup p g = lookup p f0).

  Theorem window_after_rolls : forall cm c file contents f0,
    (1 <= c)%N -> fits_u32 c ->
    inj_upto (N.to_nat (c - 1)) ->
    (forall j, j <= N.to_nat (c - 1) -> file <> nm j) ->
    exists g, rolls name cm b c file contents f0 = Done g /\ window_ok cm c file contents f0 g.
  Proof.
    intros cm c file contents f0 Hc Hfit Hinj Hfile.
    assert (Hm : N.to_nat c = S (N.to_nat (c - 1))) by lia.
    induction contents as [|x l IH] using rev_ind.
    - exists f0. split; [reflexivity|]. unfold window_ok. cbn [length].
      split; [intros; lia|]. split; [|split; [congruence|reflexivity]].
      intros j _ _. destruct (lookup (nm j) f0) eqn:E; [right|left; reflexivity].
      exists j. split; [lia|]. symmetry. exact E.
    - destruct IH as (g & Hg & Hw1 & Hw2 & Hw3 & Hw4).
      rewrite rolls_app, Hg.
      destruct (roll_once cm c file x (write file x g) Hc Hfit Hinj Hfile (lookup_write_eq _ _ _))
        as (g' & Hg' & Hp1 & Hp2 & Hp3 & Hp4).
      exists g'. split; [exact Hg'|]. unfold window_ok.
      rewrite app_length, rev_app_distr. cbn [length rev app].
      assert (Hback : forall j, j <= N.to_nat (c - 1) -> lookup (nm j) (write file x g) = lookup (nm j) g).
      { intros j Hj. apply lookup_write_neq. intro E. apply (Hfile j Hj). symmetry. exact E. }
      split; [|split; [|split]].
      + intros j Hj1 Hj2. destruct j as [|j]; [exact Hp2|].
        rewrite Hp3 by lia. unfold shifted_val. rewrite Hback by lia.
        rewrite Hw1 by lia. reflexivity.
      + intros j Hj1 Hj2. destruct j as [|j]; [lia|].
        rewrite Hp3 by lia. unfold shifted_val. rewrite !Hback by lia.
        destruct (lookup (nm j) g) as [y|] eqn:Ej.
        * destruct (Hw2 j ltac:(lia) ltac:(lia)) as [H|(i & Hi & H)]; [congruence|].
          right. exists i. split; [lia|]. rewrite <- H. symmetry. exact Ej.
        * destruct (Nat.eqb (S j) (N.to_nat (c - 1))) eqn:Et; [|left; reflexivity].
          apply Nat.eqb_eq in Et. rewrite <- Et.
          destruct (Hw2 (S j) ltac:(lia) ltac:(lia)) as [H|(i & Hi & H)]; [left; exact H|].
          right. exists i. split; [lia|exact H].
      + intros _. exact Hp1.
      + intros p Hpf Hp. rewrite Hp4; [| exact Hpf | intros j Hj; apply Hp; lia].
        rewrite lookup_write_neq by exact Hpf. apply Hw4; assumption.
  Qed.

  (* ---- count = 0 and the delete roller ---- *)
  Lemma remove_file_spec : forall file f x,
    lookup file f = Some x ->
    exists g, remove_file file f = Done g /\ lookup file g = None /\
              forall p, p <> file -> lookup p g = lookup p f.
  Proof.
    intros file f x Hx. unfold remove_file. rewrite Hx. eexists; split; [reflexivity|]. split.
    - apply lookup_remove_eq.
    - intros p Hp. apply lookup_remove_neq. exact Hp.
  Qed.

  Theorem count0_and_delete : forall cm fault file f x,
    lookup file f = Some x ->
    roll name cm fault b 0 file f = delete_roll file f /\
    exists g, delete_roll file f = Done g /\ lookup file g = None /\
              forall p, p <> file -> lookup p g = lookup p f.
  Proof.
    intros cm fault file f x Hx. split; [reflexivity|]. unfold delete_roll.
    apply (remove_file_spec file f x Hx).
  Qed.

  (* ---- missing archives never make a roll fail ---- *)
  Lemma run_steps_not_panicked : forall cm fault ss f, run_steps cm fault ss f <> Panicked.
  Proof.
    intros cm fault ss. revert fault. induction ss as [|s ss IH]; intros fault f; cbn [run_steps].
    - discriminate.
    - destruct fault as [[|k]|]; try discriminate;
        destruct (exec_step cm s f); try discriminate; apply IH.
  Qed.

  Theorem gaps_tolerated_plain : forall c file f,
    (1 <= c)%N -> fits_u32 c -> exists g, roll name None None b c file f = Done g.
  Proof.
    intros c file f Hc Hfit. unfold roll.
    replace (c =? 0)%N with false by (symmetry; apply N.eqb_neq; lia).
    rewrite rotate_no_panic by assumption. unfold steps. rewrite run_steps_shifts.
    cbn [run_steps exec_step compress dec_fault]. eexists. reflexivity.
  Qed.

  Theorem gaps_tolerated : forall cm c file x f,
    (1 <= c)%N -> fits_u32 c ->
    inj_upto (N.to_nat (c - 1)) ->
    (forall j, j <= N.to_nat (c - 1) -> file <> nm j) ->
    lookup file f = Some x ->
    exists g, roll name cm None b c file f = Done g.
  Proof.
    intros cm c file x f Hc Hfit Hinj Hfile Hx.
    destruct (roll_once cm c file x f Hc Hfit Hinj Hfile Hx) as (g & Hg & _).
    exists g. exact Hg.
  Qed.

  Theorem roll_panics_iff : forall cm fault c file f,
    roll name cm fault b c file f = Panicked <-> (c <> 0 /\ 4294967296 <= b + (c - 1))%N.
  Proof.
    intros cm fault c file f. unfold roll. destruct (c =? 0)%N eqn:Ec.
    - apply N.eqb_eq in Ec. split.
      + unfold remove_file. destruct (lookup file f); discriminate.
      + intros [H _]. contradiction.
    - apply N.eqb_neq in Ec. unfold rotate, u32_max1.
      destruct (4294967296 <=? b + (c - 1))%N eqn:Eo.
      + apply N.leb_le in Eo. tauto.
      + apply N.leb_gt in Eo. split.
        * intro H. exfalso. exact (run_steps_not_panicked _ _ _ _ H).
        * intros [_ H]. lia.
  Qed.

  Theorem bystanders_untouched : forall cm c file contents f0 g p,
    (1 <= c)%N -> fits_u32 c ->
    inj_upto (N.to_nat (c - 1)) ->
    (forall j, j <= N.to_nat (c - 1) -> file <> nm j) ->
    rolls name cm b c file contents f0 = Done g ->
    p <> file -> (forall j, j < N.to_nat c -> p <> nm j) ->
    lookup p g = lookup p f0.
  Proof.
    intros cm c file contents f0 g p Hc Hfit Hinj Hfile Hr Hpf Hp.
    destruct (window_after_rolls cm c file contents f0 Hc Hfit Hinj Hfile) as (g' & Hg' & _ & _ & _ & H4).
    rewrite Hr in Hg'. inversion Hg'; subst g'. apply H4; assumption.
  Qed.
End WindowProofs.

(* ---- headline statements, fully explicit (pinned in Props/C07.v) ---- *)

Definition names_injective (name : N -> path) (b c : N) : Prop :=
  forall i j, i < N.to_nat c -> j < N.to_nat c ->
              name (b + N.of_nat i)%N = name (b + N.of_nat j)%N -> i = j.

Definition file_outside (name : N -> path) (b c : N) (file : path) : Prop :=
  forall j, j < N.to_nat c -> file <> name (b + N.of_nat j)%N.

Lemma hyp_inj : forall name b c, (1 <= c)%N -> names_injective name b c ->
  inj_upto name b (N.to_nat (c - 1)).
Proof. intros name b c Hc H i j Hi Hj E. apply H; try lia. exact E. Qed.

Lemma hyp_file : forall name b c file, (1 <= c)%N -> file_outside name b c file ->
  forall j, j <= N.to_nat (c - 1) -> file <> nm name b j.
Proof. intros name b c file Hc H j Hj. apply H. lia. Qed.

Theorem window_after_rolls_x :
  forall (name : N -> path) (b c : N) (cm : cmode) (file : path) (contents : list bytes) (f0 : fs),
    (1 <= c)%N -> (b + c <= 4294967296)%N ->
    names_injective name b c -> file_outside name b c file ->
    exists g, rolls name cm b c file contents f0 = Done g /\
      (* index b+j holds the (j+1)-th most recently rolled content *)
      (forall j, j < length contents -> j < N.to_nat c ->
         lookup (name (b + N.of_nat j)%N) g = Some (arch cm (nth j (rev contents) []))) /\
      (* the remaining positions hold nothing or an archive that was there initially, not moved down *)
      (forall j, length contents <= j -> j < N.to_nat c ->
         lookup (name (b + N.of_nat j)%N) g = None \/
         exists i, i <= j /\ lookup (name (b + N.of_nat j)%N) g = lookup (name (b + N.of_nat i)%N) f0) /\
      (* the rolled file is gone *)
      (contents <> [] -> lookup file g = None) /\
      (* nothing else is created, modified or removed *)
      (forall p, p <> file -> (forall j, j < N.to_nat c -> p <> name (b + N.of_nat j)%N) ->
         lookup p g = lookup p f0).
Proof.
  intros name b c cm file contents f0 Hc Hfit Hinj Hfile.
  exact (window_after_rolls name b cm c file contents f0 Hc Hfit
           (hyp_inj name b c Hc Hinj) (hyp_file name b c file Hc Hfile)).
Qed.

Theorem roll_once_x :
  forall (name : N -> path) (b c : N) (cm : cmode) (file : path) (x : bytes) (f : fs),
    (1 <= c)%N -> (b + c <= 4294967296)%N ->
    names_injective name b c -> file_outside name b c file ->
    lookup file f = Some x ->
    exists g, roll name cm None b c file f = Done g /\
      lookup file g = None /\
      lookup (name b) g = Some (arch cm x) /\
      (forall j, S j < N.to_nat c ->
         lookup (name (b + N.of_nat (S j))%N) g =
           match lookup (name (b + N.of_nat j)%N) f with
           | Some y => Some y                       (* shifted up *)
           | None => if Nat.eqb (S (S j)) (N.to_nat c)
                     then lookup (name (b + N.of_nat (S j))%N) f   (* top index keeps its file *)
                     else None                                      (* the gap moves up *)
           end) /\
      (forall p, p <> file -> (forall j, j < N.to_nat c -> p <> name (b + N.of_nat j)%N) ->
         lookup p g = lookup p f).
Proof.
  intros name b c cm file x f Hc Hfit Hinj Hfile Hx.
  destruct (roll_once name b cm c file x f Hc Hfit (hyp_inj name b c Hc Hinj)
              (hyp_file name b c file Hc Hfile) Hx) as (g & Hg & H1 & H2 & H3 & H4).
  exists g. split; [exact Hg|]. split; [exact H1|]. split; [rewrite <- nm_0; exact H2|]. split.
  - intros j Hj. fold (nm name b (S j)). rewrite H3 by lia. unfold shifted_val, nm.
    destruct (lookup (name (b + N.of_nat j)%N) f); [reflexivity|].
    replace (Nat.eqb (S (S j)) (N.to_nat c)) with (Nat.eqb (S j) (N.to_nat (c - 1))).
    + destruct (Nat.eqb (S j) (N.to_nat (c - 1))) eqn:E; [|reflexivity].
      apply Nat.eqb_eq in E. rewrite <- E. reflexivity.
    + destruct (Nat.eqb (S j) (N.to_nat (c - 1))) eqn:E; symmetry.
      * apply Nat.eqb_eq in E. apply Nat.eqb_eq. lia.
      * apply Nat.eqb_neq in E. apply Nat.eqb_neq. lia.
  - intros p Hpf Hp. apply H4; [exact Hpf|]. intros j Hj. apply Hp. lia.
Qed.

Theorem bystanders_untouched_x :
  forall (name : N -> path) (b c : N) (cm : cmode) (file : path) (contents : list bytes) (f0 g : fs) (p : path),
    (1 <= c)%N -> (b + c <= 4294967296)%N ->
    names_injective name b c -> file_outside name b c file ->
    rolls name cm b c file contents f0 = Done g ->
    p <> file -> (forall j, j < N.to_nat c -> p <> name (b + N.of_nat j)%N) ->
    lookup p g = lookup p f0.
Proof.
  intros name b c cm file contents f0 g p Hc Hfit Hinj Hfile Hr Hpf Hp.
  exact (bystanders_untouched name b cm c file contents f0 g p Hc Hfit
           (hyp_inj name b c Hc Hinj) (hyp_file name b c file Hc Hfile) Hr Hpf Hp).
Qed.

Theorem gaps_tolerated_x :
  forall (name : N -> path) (b c : N) (cm : cmode) (file : path) (x : bytes) (f : fs),
    (1 <= c)%N -> (b + c <= 4294967296)%N ->
    names_injective name b c -> file_outside name b c file ->
    lookup file f = Some x ->
    exists g, roll name cm None b c file f = Done g.
Proof.
  intros name b c cm file x f Hc Hfit Hinj Hfile Hx.
  exact (gaps_tolerated name b cm c file x f Hc Hfit
           (hyp_inj name b c Hc Hinj) (hyp_file name b c file Hc Hfile) Hx).
Qed.
