(* Background rotation (Model/RollingBg.v): for EVERY schedule of the rotation
   thread against the appender's file-system calls, the store — with the
   rotation in flight and a pending spawn completed — equals the synchronous
   roller's store after the foreground calls made so far.  At quiescent points
   (no rotation in flight) the directory therefore equals the synchronous
   model's (Model/Rolling.v), to which all C05 theorems apply. *)
From Coq Require Import List NArith Bool Arith Lia.
Import ListNotations.
From L4 Require Import Common.FSRoll Model.Rolling Model.RollingBg Proofs.Rolling.

Definition feq (f g : store) : Prop := forall n, f n = g n.

Lemma feq_refl : forall f, feq f f.
Proof. intros f n; reflexivity. Qed.
Lemma feq_sym : forall f g, feq f g -> feq g f.
Proof. intros f g H n; symmetry; apply H. Qed.
Lemma feq_trans : forall f g h, feq f g -> feq g h -> feq f h.
Proof. intros f g h H1 H2 n; rewrite H1; apply H2. Qed.

Lemma bname_eqb_spec : forall a b, reflect (a = b) (bname_eqb a b).
Proof.
  intros [|i|i] [|j|j]; cbn; try (constructor; congruence).
  - destruct (Nat.eqb_spec i j); constructor; congruence.
  - destruct (Nat.eqb_spec i j); constructor; congruence.
Qed.

Lemma bname_eqb_refl : forall a, bname_eqb a a = true.
Proof. intros a; destruct (bname_eqb_spec a a); congruence. Qed.

Lemma bname_eqb_neq : forall a b, a <> b -> bname_eqb a b = false.
Proof. intros a b H; destruct (bname_eqb_spec a b); congruence. Qed.

Lemma upd_same : forall n v f, upd n v f n = v.
Proof. intros; unfold upd; rewrite bname_eqb_refl; reflexivity. Qed.

Lemma upd_other : forall n v f m, n <> m -> upd n v f m = f m.
Proof. intros; unfold upd; rewrite bname_eqb_neq by assumption; reflexivity. Qed.

Lemma upd_feq : forall n v f g, feq f g -> feq (upd n v f) (upd n v g).
Proof. intros n v f g H m; unfold upd; destruct (bname_eqb n m); [reflexivity|apply H]. Qed.

Lemma ren_feq : forall s d f g, feq f g -> feq (ren s d f) (ren s d g).
Proof.
  intros s d f g H; unfold ren; rewrite (H s).
  destruct (g s); [|exact H]. apply upd_feq, upd_feq, H.
Qed.

Lemma exec1_feq : forall st f g, feq f g -> feq (exec1 st f) (exec1 st g).
Proof. intros [s d] f g H; apply ren_feq, H. Qed.

Lemma exec_feq : forall l f g, feq f g -> feq (exec l f) (exec l g).
Proof.
  induction l as [|st l IH]; intros f g H; cbn [exec fold_left]; [exact H|].
  apply IH, exec1_feq, H.
Qed.

Lemma exec_app : forall l1 l2 f, exec (l1 ++ l2) f = exec l2 (exec l1 f).
Proof. intros; unfold exec; apply fold_left_app. Qed.

Lemma exec_cons : forall st l f, exec (st :: l) f = exec l (exec1 st f).
Proof. reflexivity. Qed.

(* ---- which names a step mentions ---- *)
Definition mentions (st : bstep) (n : bname) : bool :=
  match st with SRen s d => bname_eqb s n || bname_eqb d n end.

Definition avoids (n : bname) (l : list bstep) : Prop := Forall (fun st => mentions st n = false) l.

Lemma ren_other : forall s d f n, s <> n -> d <> n -> ren s d f n = f n.
Proof.
  intros s d f n Hs Hd; unfold ren. destruct (f s); [|reflexivity].
  rewrite upd_other by assumption. apply upd_other; assumption.
Qed.

Lemma mentions_false : forall s d n, mentions (SRen s d) n = false -> s <> n /\ d <> n.
Proof.
  intros s d n H; cbn in H. apply orb_false_iff in H; destruct H as [H1 H2].
  split; intros ->; rewrite bname_eqb_refl in *; discriminate.
Qed.

Lemma exec1_other : forall st f n, mentions st n = false -> exec1 st f n = f n.
Proof. intros [s d] f n H; apply mentions_false in H; destruct H; apply ren_other; assumption. Qed.

Lemma exec_other : forall l f n, avoids n l -> exec l f n = f n.
Proof.
  induction l as [|st l IH]; intros f n H; [reflexivity|].
  inversion H as [|? ? H1 H2]; subst. rewrite exec_cons, IH by assumption.
  apply exec1_other; assumption.
Qed.

Lemma ren_upd_commute : forall s d n v f, s <> n -> d <> n ->
  feq (ren s d (upd n v f)) (upd n v (ren s d f)).
Proof.
  intros s d n v f Hs Hd m; unfold ren.
  rewrite (upd_other n v f s) by congruence.
  destruct (f s) as [w|]; [|reflexivity].
  unfold upd.
  destruct (bname_eqb_spec d m) as [->|Hdm].
  - rewrite bname_eqb_neq by congruence. reflexivity.
  - destruct (bname_eqb_spec s m) as [->|Hsm].
    + rewrite bname_eqb_neq by congruence. reflexivity.
    + reflexivity.
Qed.

Lemma exec1_upd_commute : forall st n v f, mentions st n = false ->
  feq (exec1 st (upd n v f)) (upd n v (exec1 st f)).
Proof. intros [s d] n v f H; apply mentions_false in H; destruct H; apply ren_upd_commute; assumption. Qed.

Lemma exec_upd_commute : forall l n v f, avoids n l ->
  feq (exec l (upd n v f)) (upd n v (exec l f)).
Proof.
  induction l as [|st l IH]; intros n v f H; [apply feq_refl|].
  inversion H as [|? ? H1 H2]; subst. rewrite !exec_cons.
  eapply feq_trans; [apply exec_feq, exec1_upd_commute; assumption|].
  apply IH; assumption.
Qed.

(* ---- shape of the rotation thread's steps ---- *)
Definition is_arch (n : bname) : bool := match n with BArch _ => true | _ => false end.
Definition arch_only (st : bstep) : Prop := match st with SRen s d => is_arch s = true /\ is_arch d = true end.

Lemma shift_steps_arch : forall b k, Forall arch_only (shift_steps b k).
Proof. intros b k; induction k as [|k IH]; cbn; constructor; [split; reflexivity|exact IH]. Qed.

Lemma arch_only_avoids : forall l n, Forall arch_only l -> is_arch n = false -> avoids n l.
Proof.
  intros l n H Hn; unfold avoids. eapply Forall_impl; [|exact H].
  intros [s d] [Hs Hd]; unfold mentions. apply orb_false_iff; split; apply bname_eqb_neq; intros ->; congruence.
Qed.

Lemma avoids_app : forall n l1 l2, avoids n l1 -> avoids n l2 -> avoids n (l1 ++ l2).
Proof. intros; apply Forall_app; split; assumption. Qed.

(* ---- appender file operations commute with steps that avoid the active file ---- *)
Lemma open_f_feq : forall t f g, feq f g -> feq (open_f t f) (open_f t g).
Proof.
  intros t f g H; unfold open_f. destruct t; [apply upd_feq, H|].
  rewrite (H BActive). destruct (g BActive); [exact H|apply upd_feq, H].
Qed.
Lemma write_f_feq : forall ch f g, feq f g -> feq (write_f ch f) (write_f ch g).
Proof. intros ch f g H; unfold write_f; rewrite (H BActive); apply upd_feq, H. Qed.
Lemma remove_f_feq : forall f g, feq f g -> feq (remove_f f) (remove_f g).
Proof. intros f g H; apply upd_feq, H. Qed.

Lemma sync1_feq : forall b k m f g, feq f g -> feq (sync1 b k m f) (sync1 b k m g).
Proof.
  intros b k [t|ch| |t|t] f g H; cbn [sync1].
  - apply open_f_feq, H.
  - apply write_f_feq, H.
  - apply remove_f_feq, H.
  - unfold sync_roll. apply ren_feq, exec_feq, H.
  - exact H.
Qed.

Lemma sync_exec_feq : forall b k p f g, feq f g -> feq (sync_exec b k p f) (sync_exec b k p g).
Proof.
  intros b k p; induction p as [|m p IH]; intros f g H; [exact H|].
  cbn [sync_exec fold_left]. apply IH, sync1_feq, H.
Qed.

Lemma sync_exec_app : forall b k p q f, sync_exec b k (p ++ q) f = sync_exec b k q (sync_exec b k p f).
Proof. intros; unfold sync_exec; apply fold_left_app. Qed.

Lemma exec_open_commute : forall l t f, avoids BActive l ->
  feq (exec l (open_f t f)) (open_f t (exec l f)).
Proof.
  intros l t f H; unfold open_f. destruct t; [apply exec_upd_commute, H|].
  rewrite (exec_other l f BActive H).
  destruct (f BActive); [apply feq_refl|apply exec_upd_commute, H].
Qed.
Lemma exec_write_commute : forall l ch f, avoids BActive l ->
  feq (exec l (write_f ch f)) (write_f ch (exec l f)).
Proof. intros l ch f H; unfold write_f; rewrite (exec_other l f BActive H); apply exec_upd_commute, H. Qed.
Lemma exec_remove_commute : forall l f, avoids BActive l ->
  feq (exec l (remove_f f)) (remove_f (exec l f)).
Proof. intros l f H; apply exec_upd_commute, H. Qed.

(* ---- well-formed foreground programs: a spawn directly follows its rename ---- *)
Fixpoint wf (p : list fgm) : Prop :=
  match p with
  | [] => True
  | MRename t :: q =>
    match q with
    | MSpawn t' :: r => t = t' /\ wf r
    | _ => False
    end
  | MSpawn _ :: _ => False
  | _ :: q => wf q
  end.

(* the rest of a program in mid-run may start with the spawn of a rename already done *)
Definition wfs (p : list fgm) : Prop :=
  match p with MSpawn _ :: r => wf r | _ => wf p end.

Lemma wf_wfs : forall p, wf p -> wfs p.
Proof. intros [|[t|ch| |t|t] p] H; cbn in *; try exact H; contradiction. Qed.

Lemma wf_no_spawn_head : forall t p, wf (MSpawn t :: p) -> False.
Proof. intros t p H; exact H. Qed.

Lemma wf_app_n : forall n p q, length p <= n -> wf p -> wf q -> wf (p ++ q).
Proof.
  induction n as [|n IH]; intros p q Hl Hp Hq.
  - destruct p; [exact Hq|cbn in Hl; lia].
  - destruct p as [|m p]; [exact Hq|]. simpl length in Hl.
    destruct m as [t|ch| |t|t]; cbn [app wf] in *.
    + apply (IH p q); [lia|assumption|assumption].
    + apply (IH p q); [lia|assumption|assumption].
    + apply (IH p q); [lia|assumption|assumption].
    + destruct p as [|m' r]; [contradiction|].
      destruct m' as [t'|ch'| |t'|t']; try contradiction.
      destruct Hp as [-> Hr]. cbn [app]. split; [reflexivity|].
      apply (IH r q); [simpl length in Hl; lia|assumption|assumption].
    + contradiction.
Qed.

Lemma wf_app : forall p q, wf p -> wf q -> wf (p ++ q).
Proof. intros p q; apply (wf_app_n (length p)); apply Nat.le_refl. Qed.

(* ---- the abstraction: finish what is in flight, then what is about to be spawned ---- *)
Definition norm (b k : nat) (rest : list fgm) (s : bst) : store :=
  let f1 := exec (infl s) (bfiles s) in
  match rest with
  | MSpawn t :: _ => exec (rotate_steps b k (BTemp t)) f1
  | _ => f1
  end.

(* invariant on (rest of the program, state) *)
Definition Inv (b : nat) (rest : list fgm) (s : bst) : Prop :=
  (infl s = [] \/
   exists t l, infl s = l ++ [SRen (BTemp t) (BArch b)] /\ Forall arch_only l /\ bfiles s (BTemp t) <> None
               /\ (forall t' r, rest = MSpawn t' :: r -> t' <> t))
  /\ (forall t' r, rest = MSpawn t' :: r -> bfiles s (BTemp t') <> None).

Lemma infl_avoids : forall b rest s n, Inv b rest s ->
  (n = BActive \/ exists t', n = BTemp t' /\ bfiles s (BTemp t') = None) -> avoids n (infl s).
Proof.
  intros b rest s n [[H|(t & l & Hl & Ha & Ht & _)] _] Hn.
  - rewrite H; constructor.
  - rewrite Hl. apply avoids_app.
    + apply arch_only_avoids; [exact Ha|]. destruct Hn as [->|(t' & -> & _)]; reflexivity.
    + constructor; [|constructor]. unfold mentions. apply orb_false_iff; split; apply bname_eqb_neq.
      * destruct Hn as [->|(t' & -> & Hn)]; [discriminate|]. intros E; injection E as ->. contradiction.
      * destruct Hn as [->|(t' & -> & _)]; discriminate.
Qed.

Lemma is_some_false : forall {A} (o : option A), is_some o = false -> o = None.
Proof. intros A [a|] H; [discriminate|reflexivity]. Qed.
Lemma is_some_true : forall {A} (o : option A), is_some o = true -> exists a, o = Some a.
Proof. intros A [a|] H; [eauto|discriminate]. Qed.

(* the heart: doing the rename now and the rotation of the temp file later equals
   the synchronous roll, whatever rotation is still in flight *)
Lemma rename_then_rotate : forall b k t (l : list bstep) f v,
  avoids BActive l -> avoids (BTemp t) l ->
  f BActive = Some v -> f (BTemp t) = None ->
  feq (exec (rotate_steps b k (BTemp t)) (exec l (ren BActive (BTemp t) f)))
      (sync_roll b k (exec l f)).
Proof.
  intros b k t l f v HA HT HfA HfT.
  set (g := exec l f).
  assert (HgA : g BActive = Some v) by (unfold g; rewrite exec_other; assumption).
  assert (HgT : g (BTemp t) = None) by (unfold g; rewrite exec_other; assumption).
  set (sh := shift_steps b k).
  assert (HshA : avoids BActive sh) by (apply arch_only_avoids; [apply shift_steps_arch|reflexivity]).
  assert (HshT : avoids (BTemp t) sh) by (apply arch_only_avoids; [apply shift_steps_arch|reflexivity]).
  set (g' := exec sh g).
  assert (Hg'A : g' BActive = Some v) by (unfold g'; rewrite exec_other; assumption).
  assert (Hg'T : g' (BTemp t) = None) by (unfold g'; rewrite exec_other; assumption).
  (* left side, step by step *)
  assert (E1 : feq (exec l (ren BActive (BTemp t) f)) (upd (BTemp t) (Some v) (upd BActive None g))).
  { unfold ren; rewrite HfA.
    eapply feq_trans; [apply exec_upd_commute; exact HT|].
    apply upd_feq. apply exec_upd_commute; exact HA. }
  assert (E2 : feq (exec sh (exec l (ren BActive (BTemp t) f))) (upd (BTemp t) (Some v) (upd BActive None g'))).
  { eapply feq_trans; [apply exec_feq; exact E1|].
    eapply feq_trans; [apply exec_upd_commute; exact HshT|].
    apply upd_feq. apply exec_upd_commute; exact HshA. }
  unfold rotate_steps. rewrite exec_app. fold sh. cbn [exec fold_left exec1].
  eapply feq_trans; [apply ren_feq; exact E2|].
  unfold sync_roll. fold sh. fold g. fold g'.
  intros n. unfold ren. rewrite upd_same, Hg'A.
  unfold upd.
  destruct (bname_eqb_spec (BArch b) n) as [_|Hbn]; [reflexivity|].
  destruct (bname_eqb_spec (BTemp t) n) as [E|Htn].
  - subst n. cbn [bname_eqb]. symmetry; exact Hg'T.
  - reflexivity.
Qed.

(* ---- one scheduling decision ---- *)
Lemma sched_step_sound : forall b k who rest s rest' s',
  wfs rest -> Inv b rest s -> sched_step b k who (rest, s) = (rest', s') -> bad s' = false ->
  wfs rest' /\ Inv b rest' s' /\ bad s = false /\
  exists done, rest = done ++ rest' /\ feq (norm b k rest' s') (sync_exec b k done (norm b k rest s)).
Proof.
  intros b k who rest s rest' s' Hwf HI Hstep Hbad.
  destruct who; cbn [sched_step] in Hstep.
  2:{ (* the rotation thread moves *)
    injection Hstep as <- <-.
    unfold bg_step in *. destruct (infl s) as [|st r] eqn:Einfl.
    - split; [exact Hwf|]. split; [exact HI|]. split; [exact Hbad|].
      exists []. split; [reflexivity|apply feq_refl].
    - cbn [bad] in Hbad. split; [exact Hwf|].
      destruct HI as [[H0|(t & l & Hl & Ha & Ht & Hne)] Hp]; [rewrite H0 in Einfl; discriminate|].
      rewrite Einfl in Hl.
      split; [|split; [exact Hbad|]].
      + split.
        * destruct l as [|st' l'].
          -- cbn in Hl. injection Hl as E1 E2; subst st r. left. reflexivity.
          -- cbn in Hl. injection Hl as E1 E2; subst st r. right. exists t, l'. cbn [infl bfiles].
             inversion Ha as [|? ? Ha1 Ha2]; subst.
             split; [reflexivity|]. split; [exact Ha2|]. split; [|exact Hne].
             rewrite exec1_other; [exact Ht|].
             destruct st' as [s0 d0]; destruct Ha1 as [A1 A2]; unfold mentions.
             apply orb_false_iff; split; apply bname_eqb_neq; intros ->; discriminate.
        * intros t' r0 Er. cbn [bfiles]. specialize (Hp t' r0 Er). specialize (Hne t' r0 Er).
          rewrite exec1_other; [exact Hp|].
          destruct l as [|st' l']; cbn in Hl; injection Hl as E1 E2; subst st r.
          -- unfold mentions. apply orb_false_iff; split; apply bname_eqb_neq; [|discriminate].
             intros E; injection E as ->. congruence.
          -- inversion Ha as [|? ? Ha1 _]; subst. destruct st' as [s0 d0]; destruct Ha1 as [A1 A2]; unfold mentions.
             apply orb_false_iff; split; apply bname_eqb_neq; intros ->; discriminate.
      + exists []. split; [reflexivity|]. cbn [sync_exec fold_left].
        unfold norm; cbn [infl bfiles]. rewrite Einfl, exec_cons. apply feq_refl. }
  (* the foreground moves *)
  destruct rest as [|m r].
  { injection Hstep as <- <-. split; [exact Hwf|]. split; [exact HI|]. split; [exact Hbad|].
    exists []. split; [reflexivity|apply feq_refl]. }
  assert (HavA : avoids BActive (infl s)) by (eapply infl_avoids; [exact HI|left; reflexivity]).
  destruct m as [t|ch| |t|t]; cbn [fg_step] in Hstep.
  - (* MOpen *)
    injection Hstep as <- <-. cbn [bad] in Hbad. cbn [wfs wf] in Hwf.
    split; [apply wf_wfs, Hwf|]. split; [|split; [exact Hbad|]].
    + destruct HI as [HI1 _]. split.
      * destruct HI1 as [H0|(t0 & l & Hl & Ha & Ht & _)]; [left; exact H0|].
        right. exists t0, l. cbn [infl bfiles]. split; [exact Hl|]. split; [exact Ha|]. split.
        -- unfold open_f. destruct t; [rewrite upd_other by discriminate; exact Ht|].
           destruct (bfiles s BActive); [exact Ht|rewrite upd_other by discriminate; exact Ht].
        -- intros t' r0 Er; subst r. exfalso; exact (wf_no_spawn_head _ _ Hwf).
      * intros t' r0 Er; subst r. exfalso; exact (wf_no_spawn_head _ _ Hwf).
    + exists [MOpen t]. split; [reflexivity|]. cbn [sync_exec fold_left sync1].
      assert (En : norm b k r {| bfiles := open_f t (bfiles s); infl := infl s; bad := bad s |}
                   = exec (infl s) (open_f t (bfiles s))).
      { unfold norm; cbn [infl bfiles]. destruct r as [|[ | | | |t'] r0]; try reflexivity.
        exfalso; exact (wf_no_spawn_head _ _ Hwf). }
      rewrite En. unfold norm. apply exec_open_commute, HavA.
  - (* MWrite *)
    injection Hstep as <- <-. cbn [bad] in Hbad. cbn [wfs wf] in Hwf.
    split; [apply wf_wfs, Hwf|]. split; [|split; [exact Hbad|]].
    + destruct HI as [HI1 _]. split.
      * destruct HI1 as [H0|(t0 & l & Hl & Ha & Ht & _)]; [left; exact H0|].
        right. exists t0, l. cbn [infl bfiles]. split; [exact Hl|]. split; [exact Ha|]. split.
        -- unfold write_f. rewrite upd_other by discriminate; exact Ht.
        -- intros t' r0 Er; subst r. exfalso; exact (wf_no_spawn_head _ _ Hwf).
      * intros t' r0 Er; subst r. exfalso; exact (wf_no_spawn_head _ _ Hwf).
    + exists [MWrite ch]. split; [reflexivity|]. cbn [sync_exec fold_left sync1].
      assert (En : norm b k r {| bfiles := write_f ch (bfiles s); infl := infl s; bad := bad s |}
                   = exec (infl s) (write_f ch (bfiles s))).
      { unfold norm; cbn [infl bfiles]. destruct r as [|[ | | | |t'] r0]; try reflexivity.
        exfalso; exact (wf_no_spawn_head _ _ Hwf). }
      rewrite En. unfold norm. apply exec_write_commute, HavA.
  - (* MRemove *)
    injection Hstep as <- <-. cbn [bad] in Hbad. cbn [wfs wf] in Hwf.
    split; [apply wf_wfs, Hwf|]. split; [|split; [exact Hbad|]].
    + destruct HI as [HI1 _]. split.
      * destruct HI1 as [H0|(t0 & l & Hl & Ha & Ht & _)]; [left; exact H0|].
        right. exists t0, l. cbn [infl bfiles]. split; [exact Hl|]. split; [exact Ha|]. split.
        -- unfold remove_f. rewrite upd_other by discriminate; exact Ht.
        -- intros t' r0 Er; subst r. exfalso; exact (wf_no_spawn_head _ _ Hwf).
      * intros t' r0 Er; subst r. exfalso; exact (wf_no_spawn_head _ _ Hwf).
    + exists [MRemove]. split; [reflexivity|]. cbn [sync_exec fold_left sync1].
      assert (En : norm b k r {| bfiles := remove_f (bfiles s); infl := infl s; bad := bad s |}
                   = exec (infl s) (remove_f (bfiles s))).
      { unfold norm; cbn [infl bfiles]. destruct r as [|[ | | | |t'] r0]; try reflexivity.
        exfalso; exact (wf_no_spawn_head _ _ Hwf). }
      rewrite En. unfold norm. apply exec_remove_commute, HavA.
  - (* MRename t *)
    injection Hstep as <- <-. cbn [bad] in Hbad.
    apply orb_false_iff in Hbad; destruct Hbad as [Hbad HA].
    apply orb_false_iff in Hbad; destruct Hbad as [Hbad HT].
    apply is_some_false in HT. apply negb_false_iff in HA. apply is_some_true in HA; destruct HA as [v HA].
    cbn [wfs wf] in Hwf. destruct r as [|m' r2]; [contradiction|].
    destruct m' as [t'|ch'| |t'|t']; try contradiction. destruct Hwf as [<- Hwf2].
    assert (HavT : avoids (BTemp t) (infl s)).
    { eapply infl_avoids; [exact HI|right; exists t; split; [reflexivity|exact HT]]. }
    split; [exact Hwf2|]. split; [|split; [exact Hbad|]].
    + destruct HI as [HI1 _]. split.
      * destruct HI1 as [H0|(t0 & l & Hl & Ha & Ht & _)]; [left; exact H0|].
        assert (Hne : t <> t0) by (intros ->; congruence).
        right. exists t0, l. cbn [infl bfiles]. split; [exact Hl|]. split; [exact Ha|]. split.
        -- rewrite ren_other; [exact Ht|discriminate|congruence].
        -- intros t' r0 Er; injection Er as -> _. exact Hne.
      * intros t' r0 Er; injection Er as -> _. cbn [bfiles].
        unfold ren; rewrite HA, upd_same. discriminate.
    + exists [MRename t]. split; [reflexivity|]. cbn [sync_exec fold_left sync1].
      unfold norm; cbn [infl bfiles].
      eapply rename_then_rotate; eassumption.
  - (* MSpawn t *)
    cbn [wfs] in Hwf.
    destruct (infl s) as [|st0 r0] eqn:Einfl.
    + injection Hstep as <- <-. cbn [bad] in Hbad.
      split; [apply wf_wfs, Hwf|]. split; [|split; [exact Hbad|]].
      * destruct HI as [_ Hp]. split.
        -- right. exists t, (shift_steps b k). cbn [infl bfiles].
           split; [reflexivity|]. split; [apply shift_steps_arch|]. split; [exact (Hp t r eq_refl)|].
           intros t' r1 Er; subst r. exfalso; exact (wf_no_spawn_head _ _ Hwf).
        -- intros t' r1 Er; subst r. exfalso; exact (wf_no_spawn_head _ _ Hwf).
      * exists [MSpawn t]. split; [reflexivity|]. cbn [sync_exec fold_left sync1].
        unfold norm; cbn [infl bfiles]. rewrite Einfl. cbn [exec fold_left].
        destruct r as [|[ | | | |t'] r1]; try apply feq_refl.
        exfalso; exact (wf_no_spawn_head _ _ Hwf).
    + (* blocked: a rotation is still in flight *)
      injection Hstep as <- <-. split; [exact Hwf|]. split; [exact HI|]. split; [exact Hbad|].
      exists []. split; [reflexivity|apply feq_refl].
Qed.

(* ---- every schedule ---- *)
Theorem bg_refines_sync : forall b k sch prog s rest s',
  wfs prog -> Inv b prog s -> run_bg b k sch prog s = (rest, s') -> bad s' = false ->
  wfs rest /\ Inv b rest s' /\
  exists done, prog = done ++ rest /\ feq (norm b k rest s') (sync_exec b k done (norm b k prog s)).
Proof.
  intros b k sch; induction sch as [|who sch IH] using rev_ind; intros prog s rest s' Hwf HI Hrun Hbad.
  - cbn in Hrun. injection Hrun as <- <-. split; [exact Hwf|]. split; [exact HI|].
    exists []. split; [reflexivity|apply feq_refl].
  - unfold run_bg in Hrun. rewrite fold_left_app in Hrun. cbn [fold_left] in Hrun.
    fold (run_bg b k sch prog s) in Hrun.
    destruct (run_bg b k sch prog s) as [r1 s1] eqn:E1.
    assert (Hb1 : bad s1 = false).
    { destruct (bad s1) eqn:B; [|reflexivity]. exfalso.
      destruct who; cbn [sched_step] in Hrun.
      - destruct r1 as [|m r]; [injection Hrun as _ <-; congruence|].
        destruct (fg_step b k m s1) as [s2|] eqn:F; [|injection Hrun as _ <-; congruence].
        injection Hrun as _ <-. destruct m; cbn [fg_step] in F.
        + injection F as <-. cbn in Hbad. congruence.
        + injection F as <-. cbn in Hbad. congruence.
        + injection F as <-. cbn in Hbad. congruence.
        + injection F as <-. cbn [bad] in Hbad. rewrite B in Hbad. discriminate.
        + destruct (infl s1); [injection F as <-; cbn in Hbad; congruence|discriminate].
      - injection Hrun as _ <-. unfold bg_step in Hbad. destruct (infl s1); cbn in Hbad; congruence. }
    destruct (IH prog s r1 s1 Hwf HI E1 Hb1) as (W1 & I1 & d1 & Ed1 & F1).
    destruct (sched_step_sound b k who r1 s1 rest s' W1 I1 Hrun Hbad) as (W2 & I2 & _ & d2 & Ed2 & F2).
    split; [exact W2|]. split; [exact I2|].
    exists (d1 ++ d2). split; [rewrite Ed1, Ed2, app_assoc; reflexivity|].
    rewrite sync_exec_app. eapply feq_trans; [exact F2|]. apply sync_exec_feq, F1.
Qed.


(* at a quiescent point the directory IS the synchronous roller's *)
Theorem bg_quiescent : forall b k sch prog f s',
  wf prog -> run_bg b k sch prog (bg_init f) = ([], s') -> infl s' = [] -> bad s' = false ->
  feq (bfiles s') (sync_exec b k prog f).
Proof.
  intros b k sch prog f s' Hwf Hrun Hq Hbad.
  assert (HI : Inv b prog (bg_init f)).
  { split; [left; reflexivity|]. intros t r E; subst prog. exfalso; exact (wf_no_spawn_head _ _ Hwf). }
  destruct (bg_refines_sync b k sch prog (bg_init f) [] s' (wf_wfs _ Hwf) HI Hrun Hbad) as (_ & _ & d & Ed & F).
  rewrite app_nil_r in Ed; subst d.
  assert (N1 : norm b k [] s' = bfiles s') by (unfold norm; rewrite Hq; reflexivity).
  assert (N2 : norm b k prog (bg_init f) = f).
  { unfold norm; cbn [infl bfiles bg_init exec fold_left]. destruct prog as [|[ | | | |t] r]; try reflexivity.
    exfalso; exact (wf_no_spawn_head _ _ Hwf). }
  rewrite N1, N2 in F. exact F.
Qed.

(* ---- the appender model's file-system calls are a sync program ---- *)
Lemma to_store_write : forall f n v,
  feq (to_store (write n v f))
      (upd (match n with Active => BActive | Arch i => BArch i end) (Some v) (to_store f)).
Proof.
  intros f n v m. unfold upd.
  destruct n as [|i]; destruct m as [|j|j]; cbn [to_store bname_eqb]; rewrite ?lookup_write; cbn [fname_eqb]; reflexivity.
Qed.

Lemma to_store_remove : forall f n,
  feq (to_store (remove n f))
      (upd (match n with Active => BActive | Arch i => BArch i end) None (to_store f)).
Proof.
  intros f n m. unfold upd.
  destruct n as [|i]; destruct m as [|j|j]; cbn [to_store bname_eqb]; rewrite ?lookup_remove; cbn [fname_eqb]; reflexivity.
Qed.

Definition bn (n : fname) : bname := match n with Active => BActive | Arch i => BArch i end.

Lemma to_store_bn : forall f n, to_store f (bn n) = lookup f n.
Proof. intros f [|i]; reflexivity. Qed.

Lemma to_store_rename : forall f s d,
  feq (to_store (rename s d f)) (ren (bn s) (bn d) (to_store f)).
Proof.
  intros f s d. unfold rename, ren. rewrite to_store_bn.
  destruct (lookup f s) as [v|]; [|apply feq_refl].
  eapply feq_trans; [apply to_store_write|]. fold (bn d). apply upd_feq.
  eapply feq_trans; [apply to_store_remove|]. apply feq_refl.
Qed.

Lemma to_store_shift : forall k b f,
  feq (to_store (shift b k f)) (exec (shift_steps b k) (to_store f)).
Proof.
  induction k as [|k IH]; intros b f; [apply feq_refl|].
  cbn [shift shift_steps]. rewrite exec_cons. cbn [exec1].
  eapply feq_trans; [apply IH|]. apply exec_feq.
  apply (to_store_rename f (Arch (b + k)) (Arch (b + k + 1))).
Qed.

Lemma do_roll_sync : forall r f t,
  feq (to_store (do_roll r f)) (sync_exec (fst (bk_of r)) (snd (bk_of r)) (roll_ops r t) (to_store f)).
Proof.
  intros [|b [|k]] f t; cbn [do_roll roll_ops bk_of fst snd sync_exec fold_left sync1].
  - apply (to_store_remove f Active).
  - apply (to_store_remove f Active).
  - unfold sync_roll. eapply feq_trans; [apply (to_store_rename _ Active (Arch b))|].
    apply ren_feq, to_store_shift.
Qed.

Lemma get_writer_sync : forall b k s,
  feq (to_store (files (get_writer s))) (sync_exec b k (gw_ops s) (to_store (files s)))
  /\ is_some (writer (get_writer s)) = true.
Proof.
  intros b k s; unfold get_writer, gw_ops. destruct (writer s) as [len|] eqn:E.
  - rewrite E. split; [apply feq_refl|reflexivity].
  - cbn [files writer is_some sync_exec fold_left sync1]. split; [|reflexivity].
    destruct (app s); cbn [negb open_f].
    + change (to_store (files s) BActive) with (lookup (files s) Active).
      destruct (lookup (files s) Active); [apply feq_refl|apply (to_store_write _ Active)].
    + apply (to_store_write _ Active).
Qed.

Lemma encode_flush_sync : forall b k chunks s,
  is_some (writer s) = true ->
  feq (to_store (files (encode_flush chunks s))) (sync_exec b k (map MWrite chunks) (to_store (files s)))
  /\ is_some (writer (encode_flush chunks s)) = true
  /\ app (encode_flush chunks s) = app s.
Proof.
  intros b k chunks; induction chunks as [|ch chunks IH]; intros s Hw.
  - cbn. split; [apply feq_refl|split; [exact Hw|reflexivity]].
  - cbn [encode_flush fold_left map sync_exec sync1].
    change (fold_left write_chunk chunks (write_chunk s ch)) with (encode_flush chunks (write_chunk s ch)).
    change (fold_left (fun g m => sync1 b k m g) (map MWrite chunks) (write_f ch (to_store (files s))))
      with (sync_exec b k (map MWrite chunks) (write_f ch (to_store (files s)))).
    destruct (writer s) as [len|] eqn:E; [|discriminate].
    assert (W : is_some (writer (write_chunk s ch)) = true) by (unfold write_chunk; rewrite E; reflexivity).
    destruct (IH _ W) as (A & B & C).
    split; [|split; [exact B|rewrite C; unfold write_chunk; rewrite E; reflexivity]].
    eapply feq_trans; [exact A|]. apply sync_exec_feq.
    unfold write_chunk; rewrite E; cbn [files]. unfold write_f.
    change (to_store (files s) BActive) with (lookup (files s) Active).
    apply (to_store_write _ Active).
Qed.

Lemma process_sync : forall c s t,
  is_some (writer s) = true ->
  let s' := fst (process c s) in
  feq (to_store (files s'))
      (sync_exec (fst (bk_of (roll_by c))) (snd (bk_of (roll_by c)))
                 (if rolled s' then roll_ops (roll_by c) t else []) (to_store (files s)))
  /\ app s' = app s.
Proof.
  intros c s t Hw; unfold process. destruct (writer s) as [len|] eqn:E; [|discriminate].
  destruct (trigger_fire (trig c) s len); cbn [fst files writer app rolled is_some negb].
  - split; [apply do_roll_sync|reflexivity].
  - rewrite ?E. cbn. split; [apply feq_refl|reflexivity].
Qed.

Lemma step_prog_sync : forall c o s t,
  feq (to_store (files (fst (step c o s))))
      (sync_exec (fst (bk_of (roll_by c))) (snd (bk_of (roll_by c))) (step_prog c o s t) (to_store (files s))).
Proof.
  intros c o s t. set (b := fst (bk_of (roll_by c))). set (k := snd (bk_of (roll_by c))).
  destruct o as [chunks|a]; cbn [step step_prog].
  - unfold append_op, append_prog.
    destruct (get_writer_sync b k s) as [G1 G2].
    destruct (is_pre (trig c)).
    + destruct (process c (get_writer s)) as [s1 ev] eqn:EP.
      pose proof (process_sync c (get_writer s) t G2) as [P1 _]. rewrite EP in P1. cbn [fst] in P1.
      rewrite ?EP. cbn [fst].
      destruct (get_writer_sync b k s1) as [G3 G4].
      destruct (encode_flush_sync b k chunks (get_writer s1) G4) as (F1 & _ & _).
      rewrite !sync_exec_app.
      eapply feq_trans; [exact F1|]. apply sync_exec_feq.
      eapply feq_trans; [exact G3|]. apply sync_exec_feq.
      eapply feq_trans; [exact P1|]. apply sync_exec_feq. exact G1.
    + destruct (encode_flush_sync b k chunks (get_writer s) G2) as (F1 & F2 & _).
      destruct (process c (encode_flush chunks (get_writer s))) as [s2 ev] eqn:EP.
      pose proof (process_sync c (encode_flush chunks (get_writer s)) t F2) as [P1 _]. rewrite EP in P1. cbn [fst] in P1.
      cbn [fst]. rewrite !sync_exec_app.
      eapply feq_trans; [exact P1|]. apply sync_exec_feq.
      eapply feq_trans; [exact F1|]. apply sync_exec_feq. exact G1.
  - unfold build. cbn [fst files].
    destruct (get_writer_sync b k {| files := files s; writer := None; app := a; fired := false; consults := consults s |}) as [G1 _].
    exact G1.
Qed.

Lemma prog_of_sync : forall c ops s ts i,
  feq (to_store (files (fst (run_ops c ops s))))
      (sync_exec (fst (bk_of (roll_by c))) (snd (bk_of (roll_by c))) (prog_of c ops s ts i) (to_store (files s))).
Proof.
  intros c ops; induction ops as [|o ops IH]; intros s ts i; [apply feq_refl|].
  cbn [prog_of]. rewrite run_ops_cons, sync_exec_app. cbn [fst].
  eapply feq_trans; [apply (IH _ ts (S i))|]. apply sync_exec_feq, step_prog_sync.
Qed.

(* the derived programs are well-formed *)
Lemma wf_map_write : forall chunks, wf (map MWrite chunks).
Proof. induction chunks; cbn; auto. Qed.
Lemma wf_gw_ops : forall s, wf (gw_ops s).
Proof. intros s; unfold gw_ops; destruct (writer s); cbn; auto. Qed.
Lemma wf_roll_ops : forall r t, wf (roll_ops r t).
Proof. intros [|b [|k]] t; cbn; auto. Qed.
Lemma wf_if_roll : forall (x : bool) r t, wf (if x then roll_ops r t else []).
Proof. intros [|] r t; [apply wf_roll_ops|exact I]. Qed.

Lemma wf_step_prog : forall c o s t, wf (step_prog c o s t).
Proof.
  intros c [chunks|a] s t; cbn [step_prog]; [|cbn; auto].
  unfold append_prog. destruct (is_pre (trig c)).
  - repeat apply wf_app; auto using wf_gw_ops, wf_map_write, wf_if_roll.
  - repeat apply wf_app; auto using wf_gw_ops, wf_map_write, wf_if_roll.
Qed.

Lemma wf_prog_of : forall c ops s ts i, wf (prog_of c ops s ts i).
Proof.
  intros c ops; induction ops as [|o ops IH]; intros s ts i; [exact I|].
  cbn [prog_of]. apply wf_app; [apply wf_step_prog|apply IH].
Qed.

(* ---- the theorem for appender histories ---- *)
Theorem bg_history_quiescent : forall c a0 pre ops ts sch s',
  let b := fst (bk_of (roll_by c)) in
  let k := snd (bk_of (roll_by c)) in
  let prog := prog_of c (Restart a0 :: ops) (raw pre) ts 0 in
  run_bg b k sch prog (bg_init (to_store (init_fs pre))) = ([], s') ->
  infl s' = [] -> bad s' = false ->
  feq (bfiles s') (to_store (files (fst (run c a0 pre ops)))).
Proof.
  intros c a0 pre ops ts sch s' b k prog Hrun Hq Hbad.
  eapply feq_trans.
  - eapply bg_quiescent; [apply wf_prog_of|exact Hrun|exact Hq|exact Hbad].
  - apply feq_sym. unfold run. apply (prog_of_sync c (Restart a0 :: ops) (raw pre) ts 0).
Qed.

(* at ANY moment of ANY schedule: finishing the rotation in flight (and the
   pending spawn) yields the synchronous directory after the calls made so far *)
Theorem bg_history_anytime : forall c a0 pre ops ts sch rest s',
  let b := fst (bk_of (roll_by c)) in
  let k := snd (bk_of (roll_by c)) in
  let prog := prog_of c (Restart a0 :: ops) (raw pre) ts 0 in
  run_bg b k sch prog (bg_init (to_store (init_fs pre))) = (rest, s') -> bad s' = false ->
  exists done, prog = done ++ rest
    /\ feq (norm b k rest s') (sync_exec b k done (to_store (init_fs pre))).
Proof.
  intros c a0 pre ops ts sch rest s' b k prog Hrun Hbad.
  assert (Hwf : wf prog) by apply wf_prog_of.
  assert (HI : Inv b prog (bg_init (to_store (init_fs pre)))).
  { split; [left; reflexivity|]. intros t r E. rewrite E in Hwf. exfalso; exact (wf_no_spawn_head _ _ Hwf). }
  destruct (bg_refines_sync b k sch prog _ rest s' (wf_wfs _ Hwf) HI Hrun Hbad) as (_ & _ & d & Ed & F).
  exists d. split; [exact Ed|].
  assert (N2 : norm b k prog (bg_init (to_store (init_fs pre))) = to_store (init_fs pre)).
  { unfold norm; cbn [infl bfiles bg_init exec fold_left]. destruct prog as [|[ | | | |t] r]; try reflexivity.
    exfalso; exact (wf_no_spawn_head _ _ Hwf). }
  rewrite N2 in F. exact F.
Qed.
