(* C15 (part B) — specification vocabulary and lemmas for Model/Reloader.v. *)
From Coq Require Import List NArith Bool Arith Lia.
Import ListNotations.
From L4 Require Import Common.Str Model.Reloader.

Section ReloaderProofs.
  Variable cfg : Type.
  Variable parse : text -> option (cfg * option N).

  Notation rstate := (rstate cfg).
  Notation loop := (loop cfg).
  Notation poll := (poll cfg parse).
  Notation run := (run cfg parse).
  Notation run_once := (run_once cfg parse).

  (* ---------------- declarative vocabulary ---------------- *)

  (* what the logger observes of the reloader: active config + number of set_config calls *)
  Definition untouched (l l' : loop) : Prop :=
    r_active (l_st l') = r_active (l_st l) /\ r_nset (l_st l') = r_nset (l_st l).

  (* the loop goes on exactly as before *)
  Definition same_pace (l l' : loop) : Prop :=
    l_running l' = l_running l /\ l_rate l' = l_rate l.

  (* a poll on which the code must call set_config: new mtime, new text, parsable *)
  Definition changed (l : loop) (m : N) (t : text) : Prop :=
    r_mtime (l_st l) <> Some m /\ t <> r_text (l_st l).

  (* a file state that is unreadable or unparsable *)
  Definition bad (f : file) : Prop :=
    match f with
    | Missing => True
    | Unreadable _ => True
    | File _ t => parse t = None
    end.

  (* ---------------- one poll ---------------- *)

  Lemma poll_not_running l f : l_running l = false -> poll l f = l.
  Proof. intros H. unfold Reloader.poll. now rewrite H. Qed.

  Lemma poll_applies l m t c r :
    l_running l = true -> changed l m t -> parse t = Some (c, r) ->
    let l' := poll l (File m t) in
    r_active (l_st l') = c /\ r_nset (l_st l') = S (r_nset (l_st l)) /\
    r_text (l_st l') = t /\
    (r_mtime (l_st l) <> None -> r_mtime (l_st l') = Some m) /\
    match r with
    | Some x => l_running l' = true /\ l_rate l' = x
    | None => l_running l' = false
    end.
  Proof.
    intros Hrun [Hm Ht] Hp. unfold Reloader.poll, Reloader.run_once, Reloader.read_phase. rewrite Hrun.
    destruct (r_mtime (l_st l)) as [last|] eqn:Em; cbn [stat read].
    - destruct (N.eqb_spec last m) as [->|Hne]; [congruence|].
      cbn [r_text r_mtime r_active r_nset].
      destruct (str_eqb_spec t (r_text (l_st l))) as [He|_]; [congruence|].
      rewrite Hp. destruct r as [x|]; cbn; repeat split; auto.
    - destruct (str_eqb_spec t (r_text (l_st l))) as [He|_]; [congruence|].
      rewrite Hp. destruct r as [x|]; cbn; repeat split; auto; congruence.
  Qed.

  Lemma poll_same_mtime l m t :
    r_mtime (l_st l) = Some m -> poll l (File m t) = l.
  Proof.
    intros Hm. unfold Reloader.poll, Reloader.run_once. destruct (l_running l) eqn:Hr; [|reflexivity].
    rewrite Hm. cbn [stat]. rewrite N.eqb_refl. destruct l; cbn in *; now subst.
  Qed.

  Lemma poll_same_text l m t :
    t = r_text (l_st l) ->
    untouched l (poll l (File m t)) /\ same_pace l (poll l (File m t)) /\
    r_text (l_st (poll l (File m t))) = r_text (l_st l).
  Proof.
    intros Ht. unfold Reloader.poll, Reloader.run_once, Reloader.read_phase, untouched, same_pace.
    destruct (l_running l) eqn:Hr; [|rewrite Hr; auto].
    destruct (r_mtime (l_st l)) as [last|] eqn:Em; cbn [stat read].
    - destruct (N.eqb_spec last m) as [->|Hne]; cbn; [auto|].
      subst t. rewrite str_eqb_refl. cbn. auto.
    - subst t. rewrite str_eqb_refl. cbn. auto.
  Qed.

  Lemma poll_untouched l m t :
    r_mtime (l_st l) = Some m \/ t = r_text (l_st l) ->
    untouched l (poll l (File m t)) /\ same_pace l (poll l (File m t)).
  Proof.
    intros [Hm|Ht].
    - rewrite (poll_same_mtime l m t Hm). unfold untouched, same_pace. auto.
    - destruct (poll_same_text l m t Ht) as (A & B & _). auto.
  Qed.

  Lemma poll_bad l f :
    bad f -> untouched l (poll l f) /\ same_pace l (poll l f).
  Proof.
    intros Hb. unfold Reloader.poll, Reloader.run_once, Reloader.read_phase, untouched, same_pace.
    destruct (l_running l) eqn:Hr; [|rewrite Hr; auto].
    destruct f as [|m|m t]; cbn [stat read].
    - destruct (r_mtime (l_st l)); cbn; auto.
    - destruct (r_mtime (l_st l)) as [last|]; cbn; auto.
      destruct (N.eqb last m); cbn; auto.
    - cbn in Hb.
      destruct (r_mtime (l_st l)) as [last|]; cbn [r_text r_mtime r_active r_nset].
      + destruct (N.eqb last m); cbn; auto.
        destruct (str_eqb t (r_text (l_st l))); cbn; auto.
        rewrite Hb. cbn. auto.
      + destruct (str_eqb t (r_text (l_st l))); cbn; auto.
        rewrite Hb. cbn. auto.
  Qed.

  (* the loop ends on a poll iff that poll applied a configuration without refresh_rate *)
  Lemma poll_stops_iff l f :
    l_running l = true ->
    (l_running (poll l f) = false <->
     exists m t c, f = File m t /\ changed l m t /\ parse t = Some (c, None)).
  Proof.
    intros Hr. split.
    - unfold Reloader.poll, Reloader.run_once, Reloader.read_phase, changed. rewrite Hr.
      destruct f as [|m|m t]; cbn [stat read].
      + destruct (r_mtime (l_st l)); cbn; congruence.
      + destruct (r_mtime (l_st l)) as [last|]; cbn; [|congruence].
        destruct (N.eqb last m); cbn; congruence.
      + destruct (r_mtime (l_st l)) as [last|] eqn:Em; cbn [r_text r_mtime r_active r_nset].
        * destruct (N.eqb_spec last m) as [->|Hne]; cbn; [congruence|].
          destruct (str_eqb_spec t (r_text (l_st l))) as [He|Hne']; cbn; [congruence|].
          destruct (parse t) as [[c [x|]]|] eqn:Hp; cbn; try congruence.
          intros _. exists m, t, c. repeat split; auto. congruence.
        * destruct (str_eqb_spec t (r_text (l_st l))) as [He|Hne']; cbn; [congruence|].
          destruct (parse t) as [[c [x|]]|] eqn:Hp; cbn; try congruence.
          intros _. exists m, t, c. repeat split; auto. congruence.
    - intros (m & t & c & -> & Hc & Hp).
      pose proof (poll_applies l m t c None Hr Hc Hp) as H. cbn in H. tauto.
  Qed.

  (* ---------------- arbitrary histories ---------------- *)

  Lemma run_app l h1 h2 : run l (h1 ++ h2) = run (run l h1) h2.
  Proof. unfold Reloader.run. apply fold_left_app. Qed.

  Lemma run_snoc l h f : run l (h ++ [f]) = poll (run l h) f.
  Proof. rewrite run_app. reflexivity. Qed.

  (* once the thread has ended nothing ever changes again *)
  Lemma run_stopped l h : l_running l = false -> run l h = l.
  Proof.
    revert l; induction h as [|f h IH]; intros l Hr; [reflexivity|].
    change (run (poll l f) h = l). rewrite (poll_not_running l f Hr). apply IH; exact Hr.
  Qed.

  (* every poll either leaves the logger alone or installs the polled file's parse *)
  Lemma poll_cases l f :
    (untouched l (poll l f)) \/
    (exists m t c r, f = File m t /\ parse t = Some (c, r) /\
                     r_active (l_st (poll l f)) = c /\ r_nset (l_st (poll l f)) = S (r_nset (l_st l))).
  Proof.
    destruct (l_running l) eqn:Hr; [|left; rewrite poll_not_running by auto; split; auto].
    destruct f as [|m|m t].
    - left. apply poll_bad. exact I.
    - left. apply poll_bad. exact I.
    - destruct (parse t) as [[c r]|] eqn:Hp.
      + destruct (r_mtime (l_st l)) as [last|] eqn:Em.
        * destruct (N.eq_dec last m) as [->|Hne].
          { left. apply poll_untouched. left. exact Em. }
          destruct (str_eqb_spec t (r_text (l_st l))) as [He|Hne'].
          { left. apply poll_untouched. right. exact He. }
          right. exists m, t, c, r.
          assert (Hc : changed l m t) by (split; congruence).
          pose proof (poll_applies l m t c r Hr Hc Hp) as H. cbn in H. tauto.
        * destruct (str_eqb_spec t (r_text (l_st l))) as [He|Hne'].
          { left. apply poll_untouched. right. exact He. }
          right. exists m, t, c, r.
          assert (Hc : changed l m t) by (split; congruence).
          pose proof (poll_applies l m t c r Hr Hc Hp) as H. cbn in H. tauto.
      + left. apply poll_bad. exact Hp.
  Qed.

  (* the active configuration is always the initial one or the parse of some
     version of the file that was polled: never a default / empty / partial one *)
  Lemma active_from_history l0 h :
    r_active (l_st (run l0 h)) = r_active (l_st l0) \/
    exists m t r, In (File m t) h /\ parse t = Some (r_active (l_st (run l0 h)), r).
  Proof.
    induction h as [|f h IH] using rev_ind; [left; reflexivity|].
    rewrite run_snoc.
    destruct (poll_cases (run l0 h) f) as [[Ha _]|(m & t & c & r & -> & Hp & Ha & _)].
    - rewrite Ha. destruct IH as [IH|(m & t & r & Hin & Hp)]; [left; exact IH|].
      right. exists m, t, r. split; [apply in_or_app; left; exact Hin|exact Hp].
    - right. exists m, t, r. split; [apply in_or_app; right; left; reflexivity|].
      rewrite Ha. exact Hp.
  Qed.

  (* coherence: whenever the remembered text parses, the active config is its parse
     and (while running) the polling rate is its rate *)
  Definition coherent (l : loop) : Prop :=
    forall c r, parse (r_text (l_st l)) = Some (c, r) ->
                r_active (l_st l) = c /\
                match r with Some x => l_running l = true -> l_rate l = x | None => l_running l = false end.

  Lemma poll_coherent l f : coherent l -> coherent (poll l f).
  Proof.
    intros Hc. destruct (l_running l) eqn:Hr; [|rewrite poll_not_running by auto; exact Hc].
    destruct f as [|m|m t].
    - unfold Reloader.poll, Reloader.run_once, Reloader.read_phase. rewrite Hr. cbn [stat read].
      destruct (r_mtime (l_st l)); cbn; intros c r Hp; destruct (Hc c r Hp) as [A B]; (split; [exact A|]);
        destruct r; auto; congruence.
    - unfold Reloader.poll, Reloader.run_once, Reloader.read_phase. rewrite Hr. cbn [stat read].
      destruct (r_mtime (l_st l)) as [last|]; cbn.
      + destruct (N.eqb last m); cbn; intros c r Hp; destruct (Hc c r Hp) as [A B]; (split; [exact A|]);
          destruct r; auto; congruence.
      + intros c r Hp; destruct (Hc c r Hp) as [A B]; (split; [exact A|]); destruct r; auto; congruence.
    - destruct (r_mtime (l_st l)) as [last|] eqn:Em.
      + destruct (N.eq_dec last m) as [->|Hne]; [rewrite poll_same_mtime by exact Em; exact Hc|].
        destruct (str_eqb_spec t (r_text (l_st l))) as [He|Hne'].
        { destruct (poll_same_text l m t He) as ([A _] & [B1 B2] & C).
          intros c r. rewrite C. intros Hp. destruct (Hc c r Hp) as [X Y]. rewrite A, B1, B2. auto. }
        destruct (parse t) as [[c r]|] eqn:Hp.
        * assert (Hch : changed l m t) by (split; congruence).
          pose proof (poll_applies l m t c r Hr Hch Hp) as H. cbn in H.
          destruct H as (A & _ & C & _ & D).
          intros c' r'. rewrite C, Hp. intros E. inversion E; subst c' r'. split; [exact A|].
          destruct r; [tauto|exact D].
        * unfold Reloader.poll, Reloader.run_once, Reloader.read_phase. rewrite Hr, Em. cbn [stat read].
          destruct (N.eqb_spec last m); [congruence|]. cbn [r_text r_mtime r_active r_nset].
          destruct (str_eqb_spec t (r_text (l_st l))); [congruence|]. rewrite Hp. unfold coherent. cbn.
          intros c r. rewrite Hp. congruence.
      + destruct (str_eqb_spec t (r_text (l_st l))) as [He|Hne'].
        { destruct (poll_same_text l m t He) as ([A _] & [B1 B2] & C).
          intros c r. rewrite C. intros Hp. destruct (Hc c r Hp) as [X Y]. rewrite A, B1, B2. auto. }
        destruct (parse t) as [[c r]|] eqn:Hp.
        * assert (Hch : changed l m t) by (split; congruence).
          pose proof (poll_applies l m t c r Hr Hch Hp) as H. cbn in H.
          destruct H as (A & _ & C & _ & D).
          intros c' r'. rewrite C, Hp. intros E. inversion E; subst c' r'. split; [exact A|].
          destruct r; [tauto|exact D].
        * unfold Reloader.poll, Reloader.run_once, Reloader.read_phase. rewrite Hr, Em. cbn [stat read].
          destruct (str_eqb_spec t (r_text (l_st l))); [congruence|]. rewrite Hp. unfold coherent. cbn.
          intros c r. rewrite Hp. congruence.
  Qed.

  Lemma run_coherent l h : coherent l -> coherent (run l h).
  Proof.
    revert l; induction h as [|f h IH]; intros l Hc; [exact Hc|].
    change (coherent (run (poll l f) h)). apply IH. apply poll_coherent. exact Hc.
  Qed.

  (* ---------------- end-to-end: the reloader follows the file ---------------- *)

  (* declarative meaning of a history: the configuration and rate of the last
     parsable version of the file *)
  Definition good_step (ar : cfg * N) (f : file) : cfg * N :=
    match f with
    | File _ t =>
        match parse t with
        | Some (c, Some r) => (c, r)
        | Some (c, None) => (c, snd ar)
        | None => ar
        end
    | _ => ar
    end.
  Definition last_good (ar : cfg * N) (h : list file) : cfg * N := fold_left good_step h ar.

  (* a version without refresh_rate ends the polling *)
  Definition stops (f : file) : bool :=
    match f with
    | File _ t => match parse t with Some (_, None) => true | _ => false end
    | _ => false
    end.
  Fixpoint upto_stop (h : list file) : list file :=
    match h with
    | [] => []
    | f :: r => if stops f then [f] else f :: upto_stop r
    end.

  (* the only assumption on the file system: two consecutive observations with
     the same mtime show the same content (an edit changes the mtime) *)
  Fixpoint honest (pm : N) (pt : option text) (h : list file) : Prop :=
    match h with
    | [] => True
    | Missing :: r => honest pm pt r
    | Unreadable m :: r => (m = pm -> pt = None) /\ honest m None r
    | File m t :: r => (m = pm -> pt = Some t) /\ honest m (Some t) r
    end.

  (* invariant linking the loop state to the last stat-able observation (pm, pt) *)
  Definition tracks (l : loop) (pm : N) (pt : option text) : Prop :=
    l_running l = true /\ r_mtime (l_st l) = Some pm /\
    (forall t, pt = Some t -> r_text (l_st l) = t) /\
    (forall c, parse (r_text (l_st l)) <> Some (c, None)) /\
    coherent l.

  Lemma mk_tracks l pm pt :
    l_running l = true -> r_mtime (l_st l) = Some pm ->
    (forall t, pt = Some t -> r_text (l_st l) = t) ->
    (forall c, parse (r_text (l_st l)) <> Some (c, None)) ->
    coherent l -> tracks l pm pt.
  Proof. intros; unfold tracks; repeat (split; [assumption|]); assumption. Qed.

  (* what a poll of a changed-mtime file does to the remembered mtime/text *)
  Lemma poll_remembers l pm f m :
    l_running l = true -> r_mtime (l_st l) = Some pm -> stat f = Some m ->
    r_mtime (l_st (poll l f)) = Some m /\
    r_text (l_st (poll l f)) = (match f with
                                | File _ t => if N.eqb pm m then r_text (l_st l) else t
                                | _ => r_text (l_st l)
                                end).
  Proof.
    intros Hr Hm Hs. unfold Reloader.poll, Reloader.run_once, Reloader.read_phase. rewrite Hr, Hm, Hs.
    destruct (N.eqb_spec pm m) as [->|Hne].
    - cbn. destruct f; auto.
    - destruct f as [|m'|m' t]; cbn in Hs; try discriminate; cbn [read r_text r_mtime r_active r_nset].
      + cbn. auto.
      + destruct (str_eqb_spec t (r_text (l_st l))) as [->|Hne']; cbn; auto.
        destruct (parse t) as [[c [x|]]|]; cbn; auto.
  Qed.

  Lemma follows_gen h : forall l pm pt,
    tracks l pm pt -> honest pm pt h ->
    (r_active (l_st (run l h)), l_rate (run l h))
      = last_good (r_active (l_st l), l_rate l) (upto_stop h)
    /\ l_running (run l h) = negb (existsb stops h).
  Proof.
    induction h as [|f h IH]; intros l pm pt Htr Hh; [destruct Htr as [Hr _]; cbn; rewrite Hr; auto|].
    destruct Htr as (Hr & Hm & Ht & Hns & Hc).
    cbn [upto_stop existsb Reloader.run fold_left].
    change (fold_left poll h (poll l f)) with (run (poll l f) h).
    destruct f as [|m|m t].
    - (* Missing *)
      cbn [stops orb].
      destruct (poll_bad l Missing I) as ([A _] & [B1 B2]).
      assert (E : l_st (poll l Missing) = l_st l).
      { unfold Reloader.poll, Reloader.run_once. rewrite Hr, Hm. reflexivity. }
      assert (Htr' : tracks (poll l Missing) pm pt).
      { apply mk_tracks; [rewrite B1; exact Hr|rewrite E; exact Hm|rewrite E; exact Ht
                          |rewrite E; exact Hns|apply poll_coherent; exact Hc]. }
      destruct (IH _ _ _ Htr' Hh) as [X Y]. rewrite X, Y, A, B2. split; reflexivity.
    - (* Unreadable m *)
      cbn [stops orb]. destruct Hh as [Hsame Hh].
      destruct (poll_bad l (Unreadable m) I) as ([A _] & [B1 B2]).
      destruct (poll_remembers l pm (Unreadable m) m Hr Hm eq_refl) as [E1 E2].
      assert (Htr' : tracks (poll l (Unreadable m)) m None).
      { apply mk_tracks; [rewrite B1; exact Hr|exact E1|congruence|rewrite E2; exact Hns
                          |apply poll_coherent; exact Hc]. }
      destruct (IH _ _ _ Htr' Hh) as [X Y]. rewrite X, Y, A, B2. split; reflexivity.
    - (* File m t *)
      destruct Hh as [Hsame Hh].
      destruct (poll_remembers l pm (File m t) m Hr Hm eq_refl) as [E1 E2].
      assert (Hsametext : (m = pm \/ t = r_text (l_st l)) ->
                (r_active (l_st (run (poll l (File m t)) h)), l_rate (run (poll l (File m t)) h)) =
                last_good (r_active (l_st l), l_rate l)
                  (if stops (File m t) then [File m t] else File m t :: upto_stop h) /\
                l_running (run (poll l (File m t)) h) = negb (stops (File m t) || existsb stops h)).
      { intros Hor.
        assert (Et : t = r_text (l_st l)).
        { destruct Hor as [->|E]; [|exact E]. symmetry. apply Ht. apply Hsame. reflexivity. }
        assert (Hu : untouched l (poll l (File m t)) /\ same_pace l (poll l (File m t))).
        { apply poll_untouched. right. exact Et. }
        destruct Hu as ([A _] & [B1 B2]).
        assert (Hst : stops (File m t) = false).
        { cbn. rewrite <- Et in Hns. destruct (parse t) as [[c [x|]]|] eqn:Hp; auto.
          exfalso. exact (Hns c eq_refl). }
        rewrite Hst. cbn [orb].
        assert (Etext : r_text (l_st (poll l (File m t))) = t).
        { rewrite E2. destruct (N.eqb pm m); congruence. }
        assert (Htr' : tracks (poll l (File m t)) m (Some t)).
        { apply mk_tracks; [rewrite B1; exact Hr|exact E1| |rewrite Etext, Et; exact Hns
                            |apply poll_coherent; exact Hc].
          intros t' X. inversion X; subst t'. exact Etext. }
        destruct (IH _ _ _ Htr' Hh) as [X Y]. rewrite X, Y, A, B2. split; [|reflexivity].
        cbn [fold_left last_good]. unfold last_good. f_equal.
        unfold good_step. cbn [snd].
        destruct (parse t) as [[c [x|]]|] eqn:Hp; auto.
        * destruct (Hc c (Some x)) as [P Q]; [rewrite <- Et; exact Hp|]. rewrite P, (Q Hr). reflexivity.
        * cbn in Hst. rewrite Hp in Hst. discriminate. }
      destruct (N.eq_dec m pm) as [Heq|Hne]; [apply Hsametext; left; exact Heq|].
      destruct (str_eqb_spec t (r_text (l_st l))) as [He|Hne']; [apply Hsametext; right; exact He|].
      clear Hsametext.
      assert (Etext : r_text (l_st (poll l (File m t))) = t).
      { rewrite E2. destruct (N.eqb_spec pm m); congruence. }
      assert (Hch : changed l m t) by (split; congruence).
      destruct (parse t) as [[c r]|] eqn:Hp.
      + pose proof (poll_applies l m t c r Hr Hch Hp) as H. cbn in H.
        destruct H as (A & _ & _ & _ & E).
        destruct r as [x|].
        * destruct E as [E3 E4].
          assert (Hst : stops (File m t) = false) by (cbn; rewrite Hp; reflexivity).
          rewrite Hst. cbn [orb].
          assert (Htr' : tracks (poll l (File m t)) m (Some t)).
          { apply mk_tracks; [exact E3|exact E1| | |apply poll_coherent; exact Hc].
            - intros t' X; inversion X; subst t'; exact Etext.
            - rewrite Etext, Hp. congruence. }
          destruct (IH _ _ _ Htr' Hh) as [X Y]. rewrite X, Y, A, E4. split; [|reflexivity].
          cbn [fold_left last_good]. unfold last_good. f_equal.
          unfold good_step. rewrite Hp. reflexivity.
        * assert (Hst : stops (File m t) = true) by (cbn; rewrite Hp; reflexivity).
          rewrite Hst. cbn [orb negb].
          rewrite (run_stopped _ h E). split; [|exact E].
          unfold last_good. cbn [fold_left good_step]. rewrite Hp. cbn [snd]. rewrite A. f_equal.
          unfold Reloader.poll, Reloader.run_once, Reloader.read_phase. rewrite Hr, Hm. cbn [stat read].
          destruct (N.eqb_spec pm m); [congruence|]. cbn [r_text r_mtime r_active r_nset].
          destruct (str_eqb_spec t (r_text (l_st l))); [congruence|]. rewrite Hp. reflexivity.
      + assert (Hb : bad (File m t)) by exact Hp.
        destruct (poll_bad l (File m t) Hb) as ([A _] & [B1 B2]).
        assert (Hst : stops (File m t) = false) by (cbn; rewrite Hp; reflexivity).
        rewrite Hst. cbn [orb].
        assert (Htr' : tracks (poll l (File m t)) m (Some t)).
        { apply mk_tracks; [rewrite B1; exact Hr|exact E1| | |apply poll_coherent; exact Hc].
          - intros t' X; inversion X; subst t'; exact Etext.
          - rewrite Etext, Hp. congruence. }
        destruct (IH _ _ _ Htr' Hh) as [X Y]. rewrite X, Y, A, B2. split; [|reflexivity].
        cbn [fold_left last_good]. unfold last_good. f_equal.
        unfold good_step. rewrite Hp. reflexivity.
  Qed.

  Definition init_loop (m0 : N) (t0 : text) (a0 : cfg) (rate0 : N) (n0 : nat) : loop :=
    {| l_st := {| r_mtime := Some m0; r_text := t0; r_active := a0; r_nset := n0 |};
       l_rate := rate0; l_running := true |}.

  Lemma init_tracks m0 t0 a0 rate0 n0 :
    parse t0 = Some (a0, Some rate0) -> tracks (init_loop m0 t0 a0 rate0 n0) m0 (Some t0).
  Proof.
    intros Hp. unfold tracks, init_loop. cbn. repeat split; auto.
    - intros t E. inversion E; auto.
    - intros c. rewrite Hp. congruence.
    - unfold coherent in *. cbn in *. rewrite Hp in H. inversion H; auto.
    - unfold coherent in *. cbn in *. destruct r; auto.
      + intros _. congruence.
      + congruence.
  Qed.

  Lemma follows_history m0 t0 a0 rate0 n0 h :
    parse t0 = Some (a0, Some rate0) -> honest m0 (Some t0) h ->
    let l := run (init_loop m0 t0 a0 rate0 n0) h in
    (r_active (l_st l), l_rate l) = last_good (a0, rate0) (upto_stop h)
    /\ l_running l = negb (existsb stops h).
  Proof.
    intros Hp Hh. exact (follows_gen h _ _ _ (init_tracks m0 t0 a0 rate0 n0 Hp) Hh).
  Qed.
  (* ---------------- the thread as a whole: init_file, and what it sleeps ---------------- *)

  (* the k-th sleep is the rate the loop holds after k polls, as long as it runs; a stopped thread never sleeps again *)
  Lemma sleeps_spec h : forall l k,
    nth_error (sleeps cfg parse l h) k =
    if Nat.leb k (length h) && l_running (run l (firstn k h)) then Some (l_rate (run l (firstn k h))) else None.
  Proof.
    induction h as [|f h IH]; intros l k.
    - cbn [sleeps length]. destruct (l_running l) eqn:Hr.
      + destruct k as [|k]; cbn [nth_error firstn]; [change (run l []) with l; rewrite Hr; reflexivity|].
        destruct k; reflexivity.
      + rewrite firstn_nil. change (run l []) with l. rewrite Hr, andb_false_r. destruct k; reflexivity.
    - cbn [sleeps]. destruct (l_running l) eqn:Hr.
      + destruct k as [|k].
        * cbn [nth_error firstn]. change (run l []) with l. rewrite Hr. reflexivity.
        * cbn [nth_error firstn length]. change (run l (f :: firstn k h)) with (run (poll l f) (firstn k h)).
          rewrite IH. reflexivity.
      + rewrite (run_stopped l _ Hr), Hr, andb_false_r. destruct k; reflexivity.
  Qed.

  Lemma sleeps_length l h : (length (sleeps cfg parse l h) <= S (length h))%nat.
  Proof.
    revert l; induction h as [|f h IH]; intros l; cbn [sleeps]; destruct (l_running l); simpl length; try lia.
    specialize (IH (poll l f)). lia.
  Qed.

  (* init_file starts the refresh thread exactly for a readable, parsable document WITH a refresh rate, and the
     thread starts from that document: its text, its mtime, its configuration, its rate *)
  Lemma init_file_spec f :
    match init_file cfg parse f with
    | None => read f = None \/ exists t, read f = Some t /\ parse t = None
    | Some (c, None) => exists t, read f = Some t /\ parse t = Some (c, None)
    | Some (c, Some l) =>
        exists t rate, read f = Some t /\ parse t = Some (c, Some rate) /\
          l_rate l = rate /\ l_running l = true /\ r_text (l_st l) = t /\ r_mtime (l_st l) = stat f /\
          r_active (l_st l) = c /\ r_nset (l_st l) = 0%nat
    end.
  Proof.
    unfold Reloader.init_file. destruct (read f) as [t|]; [|left; reflexivity].
    destruct (parse t) as [[c [rate|]]|] eqn:Hp.
    - exists t, rate. cbn. repeat split; auto.
    - exists t. auto.
    - right. exists t. auto.
  Qed.

  Lemma honest_firstn h : forall pm pt k, honest pm pt h -> honest pm pt (firstn k h).
  Proof.
    induction h as [|f h IH]; intros pm pt k Hh; destruct k; cbn [firstn honest]; auto.
    destruct f; cbn [honest] in Hh |- *.
    - apply IH; exact Hh.
    - destruct Hh as [A B]. split; [exact A|]. apply IH; exact B.
    - destruct Hh as [A B]. split; [exact A|]. apply IH; exact B.
  Qed.

  (* end to end: init_file on version (m0, t0), then the polls of an honest history: the k-th interval slept is
     the refresh rate of the last good version among the first k observations (up to the one that stops the thread) *)
  Lemma thread_sleeps_last_good_rate m0 t0 a0 rate0 h l :
    init_file cfg parse (File m0 t0) = Some (a0, Some l) -> l_rate l = rate0 -> honest m0 (Some t0) h ->
    forall k, (k <= length h)%nat ->
      nth_error (sleeps cfg parse l h) k =
      if existsb stops (firstn k h) then None
      else Some (snd (last_good (a0, rate0) (upto_stop (firstn k h)))).
  Proof.
    intros Hi Hrate Hh k Hk.
    pose proof (init_file_spec (File m0 t0)) as S0. rewrite Hi in S0.
    destruct S0 as (t & rate & Hrd & Hp & Hr & Hrun & Ht & Hm & Ha & Hn).
    assert (Et : t = t0) by (cbn in Hrd; congruence). subst t. cbn in Hm.
    assert (El : l = init_loop m0 t0 a0 rate0 0).
    { destruct l as [[mt tx ac ns] lr lrun]. cbn in *. subst. reflexivity. }
    rewrite sleeps_spec.
    assert (Hle : Nat.leb k (length h) = true) by (apply Nat.leb_le; exact Hk).
    rewrite Hle. cbn [andb].
    assert (Hh' : honest m0 (Some t0) (firstn k h)) by (apply honest_firstn; exact Hh).
    assert (Hp0 : parse t0 = Some (a0, Some rate0)) by congruence.
    destruct (follows_history m0 t0 a0 rate0 0 (firstn k h) Hp0 Hh') as [X Y].
    rewrite El. cbv zeta in X, Y. rewrite Y.
    destruct (existsb stops (firstn k h)); cbn [negb]; [reflexivity|].
    rewrite <- X. reflexivity.
  Qed.
End ReloaderProofs.
