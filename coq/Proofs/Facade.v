(* C02 — level gating: enabled(), delivery and the facade's global max agree,
   after any history of reconfigurations. *)
From Coq Require Import List NArith Bool Lia.
Import ListNotations.
From L4 Require Import Model.Routing Model.Facade Proofs.Routing Proofs.RoutingExtra.

(* ---- enabled() = threshold of the effective logger = "would be delivered" ---- *)
Theorem enabled_is_eff_threshold cfg t :
  valid cfg -> build cfg = Some t ->
  forall T L,
    enabled_at t T L =
    N.leb L (match eff cfg T with Some lg => l_level lg | None => c_root_level cfg end).
Proof.
  intros Hv Hb T L. rewrite (enabled_iff_threshold cfg t Hv Hb).
  destruct (spec_by_eff cfg T) as [-> _]. reflexivity.
Qed.

(* Log::log delivers the node's chain iff Log::enabled says yes: the two never disagree *)
Theorem deliver_iff_enabled t T L :
  deliver t T L = if enabled_at t T L then tapps (find t T) else [].
Proof. reflexivity. Qed.

Theorem enabled_agrees_with_delivery cfg t :
  valid cfg -> build cfg = Some t ->
  forall T L,
    map (name_of cfg) (deliver t T L) = if enabled_at t T L then spec_chain cfg T else [].
Proof.
  intros Hv Hb T L. destruct (routing_correct cfg Hv) as (t' & Ht & H).
  assert (t' = t) by congruence. subst t'.
  rewrite H, (enabled_iff_threshold cfg t Hv Hb). reflexivity.
Qed.

(* ---- the declarative maximum ---- *)
Lemma fold_max_ge rl l : (rl <= fold_right N.max rl l)%N.
Proof. induction l as [|x l IH]; cbn [fold_right]; lia. Qed.

Lemma fold_max_in rl l x : In x l -> (x <= fold_right N.max rl l)%N.
Proof.
  induction l as [|y l IH]; intros []; cbn [fold_right]; [subst; lia|].
  specialize (IH H). lia.
Qed.

Lemma fold_max_attained rl l : fold_right N.max rl l = rl \/ In (fold_right N.max rl l) l.
Proof.
  induction l as [|y l IH]; [left; reflexivity|]. cbn [fold_right].
  destruct (N.max_spec y (fold_right N.max rl l)) as [[_ ->]|[_ ->]].
  - destruct IH as [IH|IH]; [left; exact IH|right; right; exact IH].
  - right; left; reflexivity.
Qed.

(* spec_max really is the most verbose level among the root and all loggers *)
Theorem spec_max_is_maximum cfg :
  (c_root_level cfg <= spec_max cfg)%N /\
  (forall lg, In lg (c_loggers cfg) -> (l_level lg <= spec_max cfg)%N) /\
  (spec_max cfg = c_root_level cfg \/ exists lg, In lg (c_loggers cfg) /\ spec_max cfg = l_level lg).
Proof.
  unfold spec_max. split; [apply fold_max_ge|]. split.
  - intros lg Hin. apply fold_max_in. apply in_map. exact Hin.
  - destruct (fold_max_attained (c_root_level cfg) (map l_level (c_loggers cfg))) as [H|H]; [left; exact H|].
    right. apply in_map_iff in H as (lg & E & Hin). exists lg. split; [exact Hin|]. symmetry. exact E.
Qed.

(* every threshold the configuration can apply is below the maximum *)
Lemma spec_level_le_max cfg t T :
  valid cfg -> build cfg = Some t -> (spec_level cfg T <= spec_max cfg)%N.
Proof.
  intros Hv Hb. destruct (build_correct cfg Hv) as (t' & Ht & Hfind & Hm).
  assert (t' = t) by congruence. subst t'.
  destruct (Hfind T) as [<- _]. rewrite <- Hm. unfold find. apply find_level_le_max.
Qed.

(* ---- histories ---- *)
Lemma step_none cs : fold_left step cs None = None.
Proof. induction cs as [|c cs IH]; [reflexivity|exact IH]. Qed.

Lemma last_default {A} (l : list A) d d' : l <> [] -> last l d = last l d'.
Proof.
  induction l as [|x l IH]; intro H; [contradiction|].
  destruct l as [|y l]; [reflexivity|].
  change (last (y :: l) d = last (y :: l) d'). apply IH. discriminate.
Qed.

Lemma last_cons_def {A} (c : A) cs c0 : last (c :: cs) c0 = last cs c.
Proof.
  destruct cs as [|c1 cs]; [reflexivity|].
  change (last (c1 :: cs) c0 = last (c1 :: cs) c). apply last_default. discriminate.
Qed.

(* only the last configuration of a history matters, and it is fully installed *)
Lemma run_history_last c0 cs :
  valid c0 -> Forall valid cs ->
  exists t, build (last cs c0) = Some t /\
            run_history c0 cs = Some {| gmax := max_level t; cur := t |}.
Proof.
  unfold run_history. revert c0. induction cs as [|c cs IH]; intros c0 Hv Hcs.
  - destruct (routing_correct c0 Hv) as (t & Ht & _). exists t. split; [exact Ht|].
    cbn [fold_left]. unfold init. rewrite Ht. reflexivity.
  - inversion Hcs as [|? ? Hc Hcs']; subst.
    destruct (IH c Hc Hcs') as (t & Ht & Hr).
    exists t. split.
    + rewrite last_cons_def. exact Ht.
    + cbn [fold_left]. destruct (routing_correct c0 Hv) as (t0 & Ht0 & _).
      unfold init at 1. rewrite Ht0. cbn [step]. unfold set_config.
      unfold init in Hr. exact Hr.
Qed.

Theorem facade_never_drops_admitted c0 cs :
  valid c0 -> Forall valid cs ->
  let cfg := last cs c0 in
  exists st, run_history c0 cs = Some st /\
    facade_max st = spec_max cfg /\
    forall T L, (L <= 5)%N ->
      map (name_of cfg) (macro_log st T L) = spec_deliver cfg T L /\
      logger_enabled st T L = N.leb L (spec_level cfg T) /\
      macro_enabled st T L = N.leb L (spec_level cfg T).
Proof.
  intros Hv Hcs cfg. destruct (run_history_last c0 cs Hv Hcs) as (t & Ht & Hr). fold cfg in Ht.
  assert (Hvc : valid cfg).
  { unfold cfg. clear -Hv Hcs. revert c0 Hv. induction Hcs as [|c cs Hc Hcs IH]; intros c0 Hv; [exact Hv|].
    rewrite last_cons_def. apply (IH c Hc). }
  eexists. split; [exact Hr|]. cbn [facade_max gmax].
  split; [apply (max_level_is_max cfg t Hvc Ht)|].
  intros T L HL.
  unfold macro_log, macro_enabled, logger_enabled, static_max. cbn [gmax cur].
  rewrite (max_level_is_max cfg t Hvc Ht), (enabled_iff_threshold cfg t Hvc Ht).
  destruct (routing_correct cfg Hvc) as (t' & Ht' & H). assert (t' = t) by congruence. subst t'.
  pose proof (spec_level_le_max cfg t T Hvc Ht) as Hle.
  assert (E5 : N.leb L 5 = true) by (apply N.leb_le; exact HL). rewrite E5. cbn [andb].
  destruct (N.leb L (spec_level cfg T)) eqn:E.
  - apply N.leb_le in E. assert (Eg : N.leb L (spec_max cfg) = true) by (apply N.leb_le; lia).
    rewrite Eg. cbn [andb]. rewrite H. unfold spec_deliver.
    assert (E' : N.leb L (spec_level cfg T) = true) by (apply N.leb_le; exact E). rewrite E'. auto.
  - rewrite andb_false_r. split; [|auto].
    destruct (N.leb L (spec_max cfg)); [|unfold spec_deliver; rewrite E; reflexivity].
    rewrite H. reflexivity.
Qed.

(* the global filter alone never removes a record the configuration admits *)
Corollary global_filter_transparent c0 cs :
  valid c0 -> Forall valid cs ->
  exists st, run_history c0 cs = Some st /\
    forall T L, (L <= 5)%N -> macro_log st T L = deliver (cur st) T L.
Proof.
  intros Hv Hcs. destruct (run_history_last c0 cs Hv Hcs) as (t & Ht & Hr).
  eexists. split; [exact Hr|]. intros T L HL. unfold macro_log, static_max. cbn [gmax cur].
  assert (E5 : N.leb L 5 = true) by (apply N.leb_le; exact HL). rewrite E5. cbn [andb].
  destruct (N.leb L (max_level t)) eqn:E; [reflexivity|].
  apply N.leb_gt in E. unfold deliver, node_log, enabled.
  pose proof (find_level_le_max (split_cc T) t) as Hle. fold (find t T) in Hle.
  destruct (N.leb L (tlvl (find t T))) eqn:E2; [|reflexivity]. apply N.leb_le in E2. lia.
Qed.

(* ---- inside set_config ---- *)
Lemma set_config_points_fin st cfg :
  set_config st cfg = option_map snd (set_config_points st cfg).
Proof. unfold set_config, set_config_points. destruct (build cfg); reflexivity. Qed.

Lemma run_history_snoc c0 cs c :
  run_history c0 (cs ++ [c]) = step (run_history c0 cs) c.
Proof. unfold run_history. rewrite fold_left_app. reflexivity. Qed.

(* a record logged from the Drop of an appender of the PREVIOUS configuration,
   during the set_config that installs c, is handled exactly as c prescribes *)
Theorem drop_probe_sees_new_config c0 cs c :
  valid c0 -> Forall valid cs -> valid c ->
  exists st, run_history c0 cs = Some st /\
    forall T L, (L <= 5)%N ->
      option_map (map (name_of c)) (drop_probe st c T L) = Some (spec_deliver c T L).
Proof.
  intros Hv Hcs Hc.
  destruct (run_history_last c0 cs Hv Hcs) as (t0 & _ & Hr0).
  eexists. split; [exact Hr0|]. intros T L HL.
  assert (Hcs' : Forall valid (cs ++ [c])).
  { apply Forall_app. split; [exact Hcs|constructor; [exact Hc|constructor]]. }
  destruct (facade_never_drops_admitted c0 (cs ++ [c]) Hv Hcs') as (st & Hr & _ & H).
  rewrite last_last in H. rewrite run_history_snoc, Hr0 in Hr. cbn [step] in Hr.
  rewrite set_config_points_fin in Hr. unfold drop_probe.
  destruct (set_config_points _ c) as [[mid fin]|]; [|discriminate].
  cbn [option_map snd] in Hr. injection Hr as ->. cbn [option_map].
  destruct (H T L HL) as [-> _]. reflexivity.
Qed.

(* post-build root_mut().set_level keeps a configuration valid *)
Lemma root_set_level_valid cfg l : valid cfg -> valid (root_set_level cfg l).
Proof. intros (H1 & H2 & H3 & H4). repeat split; assumption. Qed.

Theorem root_set_level_spec cfg l :
  valid cfg ->
  valid (root_set_level cfg l) /\
  spec_max (root_set_level cfg l) = fold_right N.max l (map l_level (c_loggers cfg)).
Proof. intro H. split; [apply root_set_level_valid; exact H|reflexivity]. Qed.
