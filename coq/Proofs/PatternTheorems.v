(* C09 / C11 — the headline statements assembled from PatternParse,
   PatternMeaning, PatternPrefix, and the witnesses of the open findings. *)
From Coq Require Import String Ascii.
From Coq Require Import List NArith Bool Lia Arith.
Import ListNotations.
From L4 Require Import Model.Pattern Proofs.PatternSpec Proofs.Pattern Proofs.PatternMeaning
     Proofs.PatternParse Proofs.PatternPrefix.
Local Open Scope N_scope.

(* ASCII instance of the Unicode oracles, for the witnesses *)
Definition a_alpha (c : N) : bool :=
  ((65 <=? c) && (c <=? 90)) || ((97 <=? c) && (c <=? 122)).
Definition a_alnum (c : N) : bool := a_alpha c || is_digit c.

Lemma a_oracle_ok : oracle_ok a_alpha a_alnum.
Proof. repeat split; reflexivity. Qed.

Section Main.
  Variable al an : N -> bool.
  Hypothesis Hor : oracle_ok al an.
  Variable ok : str -> bool.
  Variable ts : str -> tz -> str.
  Variable e : env.

  (* C09: PatternEncoder::new(print ast) then encode = the meaning of the ast *)
  Theorem encode_is_meaning : forall seq,
    wf_seq al an true false seq = true ->
    forallb (sem_ok ok) seq = true ->
    exists cs, construct al an ok (print_seq seq) = Ok cs
               /\ encode ok ts e cs = meaning_seq ts e seq.
  Proof.
    intros seq Hw Hs. unfold construct.
    rewrite (parse_print_roundtrip al an Hor seq Hw).
    eexists; split; [reflexivity|]. apply encode_seq_is_meaning. exact Hs.
  Qed.

  (* C11: the well-formed part renders whatever follows it *)
  Theorem prefix_renders : forall seq junk cj,
    wf_seq al an true false seq = true ->
    forallb (sem_ok ok) seq = true ->
    last_boundary seq junk ->
    construct al an ok junk = Ok cj ->
    exists cs, construct al an ok (print_seq seq ++ junk) = Ok cs
               /\ encode ok ts e cs = meaning_seq ts e seq ++ encode ok ts e cj.
  Proof.
    intros seq junk cj Hw Hs Hl Hj. unfold construct in *.
    rewrite (parse_print_junk al an Hor seq junk Hw Hl).
    destruct (parse al an junk) as [ps|]; [|discriminate].
    inversion Hj; subst; clear Hj.
    eexists; split; [reflexivity|].
    rewrite map_app. unfold encode. rewrite flat_map_app. f_equal.
    apply (encode_seq_is_meaning ok ts e seq Hs).
  Qed.
End Main.

(* ---------- highlight: styling only ---------- *)

Fixpoint unhl_chunk (c : chunk) : chunk :=
  match c with
  | CGroup g cs p => CGroup (match g with GHighlight => GAlign | _ => g end) (map unhl_chunk cs) p
  | other => other
  end.

Lemma strip_app : forall a b, strip (a ++ b) = strip a ++ strip b.
Proof. intros. unfold strip. apply filter_app. Qed.

Lemma strip_chars : forall s, strip (chars s) = chars s.
Proof. induction s; cbn; [reflexivity|]. f_equal. exact IHs. Qed.

Lemma nchars_strip : forall l, nchars (strip l) = nchars l.
Proof.
  unfold strip. induction l as [|x l IH]; cbn [filter nchars]; [reflexivity|].
  destruct x; cbn [nchars]; rewrite IH; reflexivity.
Qed.

Lemma strip_trunc : forall l M, strip (trunc M l) = trunc M (strip l).
Proof.
  induction l as [|x l IH]; intros M; cbn [trunc strip filter]; [reflexivity|].
  destruct x as [c|s|].
  - destruct (M =? 0) eqn:E.
    + cbn [filter trunc]. rewrite E. apply IH.
    + cbn [filter trunc]. rewrite E. f_equal. apply IH.
  - cbn [filter]. apply IH.
  - cbn [filter trunc]. f_equal. apply IH.
Qed.

Lemma strip_padding : forall f n, strip (padding f n) = padding f n.
Proof. intros. unfold padding. induction (N.to_nat n); cbn; [reflexivity|]. f_equal. assumption. Qed.

Lemma strip_apply_params : forall p l, strip (apply_params p l) = apply_params p (strip l).
Proof.
  intros p l. unfold apply_params, pad_side.
  destruct (p_min p), (p_max p); try reflexivity; rewrite ?strip_trunc, ?nchars_strip;
    destruct (p_align p); rewrite ?strip_app, ?strip_padding; reflexivity.
Qed.

Section Highlight.
  Variable ok : str -> bool.
  Variable ts : str -> tz -> str.
  Variable e : env.

  (* erasing the set_style calls from the output of a pattern gives exactly the
     output of the same pattern with every {h(..)} replaced by {(..)} *)
  Theorem highlight_text_invariant : forall c,
    strip (enc_chunk ok ts e c) = enc_chunk ok ts e (unhl_chunk c).
  Proof.
    induction c as [t|k p|m| |g cs p IH] using chunk_ind'; cbn [enc_chunk unhl_chunk].
    - apply strip_chars.
    - rewrite strip_apply_params. f_equal. destruct k; cbn [enc_leaf]; try apply strip_chars.
      destruct (ok fmt); [apply strip_chars|reflexivity].
    - apply strip_chars.
    - reflexivity.
    - rewrite strip_apply_params. f_equal.
      assert (Hb : strip (flat_map (enc_chunk ok ts e) cs)
                   = flat_map (enc_chunk ok ts e) (map unhl_chunk cs)).
      { induction IH as [|x l Hx _ IHl]; cbn [flat_map map]; [reflexivity|].
        rewrite strip_app, Hx, IHl. reflexivity. }
      destruct g; cbn [enc_group]; try exact Hb.
      + destruct (level_style (e_level e)); [|exact Hb].
        cbn [strip filter]. rewrite strip_app. cbn [strip filter].
        fold (strip (flat_map (enc_chunk ok ts e) cs)). rewrite app_nil_r. exact Hb.
      + destruct (e_debug e); [exact Hb|reflexivity].
      + destruct (e_debug e); [reflexivity|exact Hb].
  Qed.
End Highlight.

(* ---------- C11: invalid zones ---------- *)

(* the zone argument as the code reads it (fix d5a5dce): the whole literal text *)
Definition zone_valid (z : list piece) : bool :=
  match literal_arg (LIT "invalid timezone") z with
  | inl t => str_eqb t (LIT "utc") || str_eqb t (LIT "local")
  | inr _ => false
  end.

Theorem invalid_zone_is_error : forall ok fmt z more prm,
  zone_valid z = false ->
  exists m, compile_date ok (fmt :: z :: more) prm = CError m.
Proof.
  intros ok fmt z more prm Hv. unfold compile_date.
  destruct (Nat.ltb 2 (length (fmt :: z :: more))); [eauto|].
  destruct (negb (ok (date_format_of fmt))); [eauto|].
  cbn [nth_error]. unfold zone_valid in Hv.
  destruct (literal_arg (LIT "invalid timezone") z) as [t|]; [|eauto].
  apply orb_false_iff in Hv. destruct Hv as [E1 E2]. rewrite E1, E2. eauto.
Qed.

(* ---------- witnesses of the open findings ---------- *)

Definition w_env : env :=
  mkEnv 3 (LIT "hello") (LIT "t") None None None None 7 7 1
        [(LIT "a", LIT "WRONG"); (LIT "a{b", LIT "right")] true.
Definition w_ok (f : str) : bool := true.
Definition w_ts (f : str) (z : tz) : str := match z with Utc => LIT "U" | Local => LIT "L" end.

(* F-C09-empty-spec-lookahead: `{m:}<` *)
Definition w_lookahead : list ast := [AFmt (LIT "m") [] (mkSpec true None None None); ALit (LIT "<")].

Theorem lookahead_refuted :
  wf_seq a_alpha a_alnum false false w_lookahead = true /\
  wf_seq a_alpha a_alnum true false w_lookahead = false /\
  forallb (sem_ok w_ok) w_lookahead = true /\
  exists cs, construct a_alpha a_alnum w_ok (print_seq w_lookahead) = Ok cs
             /\ encode w_ok w_ts w_env cs <> meaning_seq w_ts w_env w_lookahead.
Proof.
  split; [reflexivity|]. split; [reflexivity|]. split; [reflexivity|].
  eexists; split; [vm_compute; reflexivity|]. vm_compute. discriminate.
Qed.

(* fixed F-C09-mdc-first-piece (c13258d): `{X(a{{b)}` is well-formed for the positive
   theorem and renders the value of key `a{b` *)
Definition w_mdc : list ast :=
  [AFmt (LIT "X") [[ALit (LIT "a"); AEsc 123 Doubled; ALit (LIT "b")]] no_spec].

Theorem mdc_whole_argument :
  wf_seq a_alpha a_alnum true false w_mdc = true /\
  forallb (sem_ok w_ok) w_mdc = true /\
  exists cs, construct a_alpha a_alnum w_ok (print_seq w_mdc) = Ok cs
             /\ encode w_ok w_ts w_env cs = chars (LIT "right")
             /\ meaning_seq w_ts w_env w_mdc = chars (LIT "right").
Proof.
  split; [reflexivity|]. split; [reflexivity|].
  eexists; split; [vm_compute; reflexivity|]. split; vm_compute; reflexivity.
Qed.

(* fixed F-C11-tz-first-piece (d5a5dce): `{d(%Y)(utc{{x)}` reports the invalid zone `utc{x`,
   while the two valid zones still work *)
Theorem tz_whole_argument :
  construct a_alpha a_alnum w_ok (LIT "{d(%Y)(utc{{x)}")
    = Ok [CError (LIT "invalid timezone `utc{x`")]
  /\ construct a_alpha a_alnum w_ok (LIT "{d(%Y)(utc)}|{d(%Y)(local)}")
     = Ok [CLeaf (KTime (LIT "%Y") Utc) default_params; CText (LIT "|");
           CLeaf (KTime (LIT "%Y") Local) default_params].
Proof. split; vm_compute; reflexivity. Qed.

(* a small well-formed pattern used in the examples: `{l} {m:>7}` *)
Definition ex_prefix_seq : list ast :=
  [AFmt (LIT "l") [] no_spec; ALit (LIT " ");
   AFmt (LIT "m") [] (mkSpec true (Some (None, ARight)) (Some (LIT "7")) None)].
