(* C15 — property theorems only: pinned statement, `exact`, Print Assumptions.
   Part A (Model/Swap.v): every schedule of logging / reconfiguring threads, every
   position of a swap inside a fan-out, re-entrant swaps from inside an appender.
   Part B (Model/Reloader.v): every history of file states between polls. *)
From Coq Require Import List NArith Bool.
Import ListNotations.
From L4 Require Import Common.Str Model.Routing Model.Swap Model.Reloader Proofs.Swap Proofs.Reloader.
From L4 Require Model.Facade Proofs.SwapFacade.

(* ------------------------------ Part A ------------------------------ *)

(* For EVERY schedule, appender behaviour and program: a record (tid,k) whose log
   call loaded snapshot s
   - loaded the configuration that was current at that moment (the last one
     stored before the load, else the initial one),
   - is the k-th operation of its thread, a log call with some target/level,
   - loads exactly once, has no delivery before its load,
   - its deliveries, at any moment, are a prefix of the route of its target/level
     under s = C01's `deliver` on the tree of s with the appender table of s
     (never another table, never another tree), whatever stores (by other
     threads or re-entrantly by its own appenders) happen in between,
   - and they are exactly that route once its log call has returned. *)
Theorem C15_every_record_one_snapshot :
  forall reent c0 progs sch tid k s pre post,
    trace (Swap.run reent sch (init_state c0 progs)) = pre ++ ELoad (tid, k) s :: post ->
    s = current c0 pre /\
    exists tg L,
      nth_error (nth tid progs []) k = Some (OLog tg L) /\
      proj (tid, k) pre = [] /\
      (forall s', ~ In (ELoad (tid, k) s') post) /\
      (exists rest, route s tg L = deliveries (tid, k) post ++ rest) /\
      (In (ERet (tid, k)) post -> deliveries (tid, k) post = route s tg L).
Proof. exact one_snapshot. Qed.
Print Assumptions C15_every_record_one_snapshot.

(* Never a mixture, in plain form: every delivery of the record, anywhere in the
   trace, carries the tag of that one snapshot's appender table and an index of
   that snapshot's route. *)
Theorem C15_never_a_mixture :
  forall reent c0 progs sch tid k s pre post d,
    trace (Swap.run reent sch (init_state c0 progs)) = pre ++ ELoad (tid, k) s :: post ->
    In d (deliveries (tid, k) (trace (Swap.run reent sch (init_state c0 progs)))) ->
    fst d = fst s /\
    exists tg L, nth_error (nth tid progs []) k = Some (OLog tg L) /\ In d (route s tg L).
Proof. exact single_tag. Qed.
Print Assumptions C15_never_a_mixture.

(* ... and so are its error reports: the failure of a delivery is handed to the error handler of the snapshot
   the record loaded (handler and appender table are fields of one SharedLogger) - also when the configuration,
   and with it the handler, was replaced while the record was in flight. *)
Theorem C15_errors_reported_by_loaded_snapshot :
  forall fails reent c0 progs sch tid k s pre post d,
    trace (Swap.run reent sch (init_state c0 progs)) = pre ++ ELoad (tid, k) s :: post ->
    In d (reports fails (tid, k) (trace (Swap.run reent sch (init_state c0 progs)))) ->
    fst d = fst s /\
    exists tg L, nth_error (nth tid progs []) k = Some (OLog tg L) /\ In d (route s tg L).
Proof. exact reports_by_loaded_snapshot. Qed.
Print Assumptions C15_errors_reported_by_loaded_snapshot.

(* A log call that loads after a store (set_config's linearisation point; a
   fortiori after set_config returned), with no later store in between, uses
   exactly the stored configuration. *)
Theorem C15_after_store_new_only :
  forall reent c0 progs sch pre s mid r s' post,
    trace (Swap.run reent sch (init_state c0 progs)) = pre ++ EStore s :: mid ++ ELoad r s' :: post ->
    (forall s2, ~ In (EStore s2) mid) ->
    s' = s.
Proof. exact after_store. Qed.
Print Assumptions C15_after_store_new_only.

(* What is ever installed is a complete SharedLogger built from one configuration. *)
Theorem C15_stores_are_complete_builds :
  forall reent c0 progs sch s,
    In (EStore s) (trace (Swap.run reent sch (init_state c0 progs))) ->
    exists c, set_config c = Some s.
Proof. exact stores_complete. Qed.
Print Assumptions C15_stores_are_complete_builds.

(* No panic: if every configuration handed to set_config builds (C01/C13: every
   Config accepted by the builder does), no thread dies, under any schedule. *)
Theorem C15_never_panics :
  forall reent c0 progs sch,
    (forall p c, In p progs -> In (OSet c) p -> build (snd c) <> None) ->
    (forall tag i r c, reent tag i r = Some c -> build (snd c) <> None) ->
    let st := Swap.run reent sch (init_state c0 progs) in
    ~ In Dead (thr st) /\ forall t, ~ In (EPanic t) (trace st).
Proof. exact never_panics. Qed.
Print Assumptions C15_never_panics.

(* No stuck state: an unfinished thread is always enabled (one micro-step, one
   event, whenever it is scheduled) and, scheduled often enough, finishes. *)
Theorem C15_never_stuck :
  forall reent st tid ts,
    nth_error (thr st) tid = Some ts -> finished ts = false ->
    length (trace (step reent st tid)) = S (length (trace st)).
Proof. exact never_stuck. Qed.
Print Assumptions C15_never_stuck.

Theorem C15_every_thread_finishes :
  forall reent tid p pc st,
    nth_error (thr st) tid = Some (Idle pc p) ->
    exists n, thread_done (Swap.run reent (repeat tid n) st) tid.
Proof. exact finishes. Qed.
Print Assumptions C15_every_thread_finishes.

(* The process-global side of the swap (Model/Facade.v: log::max_level + the
   installed tree; the log! macro tests the level against log::max_level before
   it calls Log::log).  After init_config(c0) and any sequence of set_config
   calls has returned, the installed tree is the build of the LAST configuration
   and a record logged through the macro is delivered exactly along that
   configuration's route: the global filter never keeps the old verbosity. *)
Theorem C15_after_swap_facade_new_only :
  forall c0 cs st,
    Facade.run_history c0 cs = Some st ->
    build (last cs c0) = Some (Facade.cur st) /\
    forall T L, (L <= 5)%N -> Facade.macro_log st T L = deliver (Facade.cur st) T L.
Proof. exact SwapFacade.facade_new_only. Qed.
Print Assumptions C15_after_swap_facade_new_only.

(* ------------------------------ Part B ------------------------------ *)
(* `l0` is any reloader state, `h` any history of file states polled so far. *)

(* changed mtime, changed text, parsable: the configuration is applied (one
   set_config), text and mtime remembered, the new rate is used — and a
   configuration without refresh_rate ends the polling *)
Theorem C15_reloader_applies_change :
  forall (cfg : Type) (parse : text -> option (cfg * option N)) l0 h m t c r,
    let l := Reloader.run cfg parse l0 h in
    l_running l = true -> changed cfg l m t -> parse t = Some (c, r) ->
    let l' := poll cfg parse l (File m t) in
    r_active (l_st l') = c /\ r_nset (l_st l') = S (r_nset (l_st l)) /\
    r_text (l_st l') = t /\
    (r_mtime (l_st l) <> None -> r_mtime (l_st l') = Some m) /\
    match r with
    | Some x => l_running l' = true /\ l_rate l' = x
    | None => l_running l' = false
    end.
Proof. intros cfg parse l0 h. exact (poll_applies cfg parse (Reloader.run cfg parse l0 h)). Qed.
Print Assumptions C15_reloader_applies_change.

(* same mtime, or same text: no set_config, same configuration, same pace *)
Theorem C15_reloader_untouched :
  forall (cfg : Type) (parse : text -> option (cfg * option N)) l0 h m t,
    let l := Reloader.run cfg parse l0 h in
    r_mtime (l_st l) = Some m \/ t = r_text (l_st l) ->
    untouched cfg l (poll cfg parse l (File m t)) /\ same_pace cfg l (poll cfg parse l (File m t)).
Proof. intros cfg parse l0 h. exact (poll_untouched cfg parse (Reloader.run cfg parse l0 h)). Qed.
Print Assumptions C15_reloader_untouched.

(* deleted, unreadable or unparsable: the last good configuration stays active,
   nothing is installed, and the loop goes on at the old rate *)
Theorem C15_reloader_last_good :
  forall (cfg : Type) (parse : text -> option (cfg * option N)) l0 h f,
    let l := Reloader.run cfg parse l0 h in
    bad cfg parse f ->
    untouched cfg l (poll cfg parse l f) /\ same_pace cfg l (poll cfg parse l f).
Proof. intros cfg parse l0 h. exact (poll_bad cfg parse (Reloader.run cfg parse l0 h)). Qed.
Print Assumptions C15_reloader_last_good.

(* the loop ends on a poll iff that poll applied a configuration without refresh_rate *)
Theorem C15_reloader_keeps_polling :
  forall (cfg : Type) (parse : text -> option (cfg * option N)) l0 h f,
    let l := Reloader.run cfg parse l0 h in
    l_running l = true ->
    (l_running (poll cfg parse l f) = false <->
     exists m t c, f = File m t /\ changed cfg l m t /\ parse t = Some (c, None)).
Proof. intros cfg parse l0 h. exact (poll_stops_iff cfg parse (Reloader.run cfg parse l0 h)). Qed.
Print Assumptions C15_reloader_keeps_polling.

(* whatever the history, the active configuration is the initial one or the
   parse of a polled version of the file (never a default/partial one) *)
Theorem C15_reloader_active_from_history :
  forall (cfg : Type) (parse : text -> option (cfg * option N)) l0 h,
    r_active (l_st (Reloader.run cfg parse l0 h)) = r_active (l_st l0) \/
    exists m t r, In (File m t) h /\
                  parse t = Some (r_active (l_st (Reloader.run cfg parse l0 h)), r).
Proof. exact active_from_history. Qed.
Print Assumptions C15_reloader_active_from_history.

(* End to end, for every history in which an edit changes the mtime (`honest`):
   started as init_file does, the active configuration and rate are those of the
   LAST PARSABLE version of the file seen before polling stopped, and polling
   stopped iff some version had no refresh_rate. *)
Theorem C15_reloader_follows_history :
  forall (cfg : Type) (parse : text -> option (cfg * option N)) m0 t0 a0 rate0 n0 h,
    parse t0 = Some (a0, Some rate0) -> honest m0 (Some t0) h ->
    let l := Reloader.run cfg parse (init_loop cfg m0 t0 a0 rate0 n0) h in
    (r_active (l_st l), l_rate l) = last_good cfg parse (a0, rate0) (upto_stop cfg parse h)
    /\ l_running l = negb (existsb (stops cfg parse) h).
Proof. exact follows_history. Qed.
Print Assumptions C15_reloader_follows_history.

(* The refresh thread as a whole (Model/Reloader.v `init_file`, `sleeps`).
   (1) `init_file` starts the thread exactly for a readable, parsable document WITH a refresh rate (zero is a rate),
       and the thread starts from that very document: its text, mtime, configuration and rate; nothing else starts one. *)
Theorem C15_init_file_starts_thread_iff_rate :
  forall (cfg : Type) (parse : text -> option (cfg * option N)) f,
    match init_file cfg parse f with
    | None => read f = None \/ exists t, read f = Some t /\ parse t = None
    | Some (c, None) => exists t, read f = Some t /\ parse t = Some (c, None)
    | Some (c, Some l) =>
        exists t rate, read f = Some t /\ parse t = Some (c, Some rate) /\
          l_rate l = rate /\ l_running l = true /\ r_text (l_st l) = t /\ r_mtime (l_st l) = stat f /\
          r_active (l_st l) = c /\ r_nset (l_st l) = 0%nat
    end.
Proof. exact init_file_spec. Qed.
Print Assumptions C15_init_file_starts_thread_iff_rate.

(* (2) For EVERY loop state and history: the k-th interval the thread sleeps is the rate the loop holds after k polls,
       as long as it is running; a stopped thread never sleeps (hence never polls) again. *)
Theorem C15_sleeps_are_the_loop_rate :
  forall (cfg : Type) (parse : text -> option (cfg * option N)) h l k,
    nth_error (sleeps cfg parse l h) k =
    if Nat.leb k (length h) && l_running (Reloader.run cfg parse l (firstn k h))
    then Some (l_rate (Reloader.run cfg parse l (firstn k h))) else None.
Proof. exact sleeps_spec. Qed.
Print Assumptions C15_sleeps_are_the_loop_rate.

(* (3) End to end, for every honest history after `init_file` on version (m0, t0): the k-th interval slept is the
       refresh rate of the LAST GOOD version among the first k observations - a failed poll (deleted, unreadable,
       unparsable file) neither changes it nor ends the polling; a version without a rate ends it for good. *)
Theorem C15_thread_sleeps_last_good_rate :
  forall (cfg : Type) (parse : text -> option (cfg * option N)) m0 t0 a0 rate0 h l,
    init_file cfg parse (File m0 t0) = Some (a0, Some l) -> l_rate l = rate0 -> honest m0 (Some t0) h ->
    forall k, (k <= length h)%nat ->
      nth_error (sleeps cfg parse l h) k =
      if existsb (stops cfg parse) (firstn k h) then None
      else Some (snd (last_good cfg parse (a0, rate0) (upto_stop cfg parse (firstn k h)))).
Proof. exact thread_sleeps_last_good_rate. Qed.
Print Assumptions C15_thread_sleeps_last_good_rate.

(* ------------------------------ non-vacuity ------------------------------ *)
From L4 Require Model.FlushPass Proofs.FlushPass.
Local Open Scope N_scope.
Definition exA : tcfg :=
  (1, {| c_appenders := [[97]; [98]]; c_root_level := 5; c_root_apps := [[97]; [98]]; c_loggers := [] |}).
Definition exB : tcfg :=
  (2, {| c_appenders := [[99]]; c_root_level := 5; c_root_apps := [[99]]; c_loggers := [] |}).
Definition ex_reent : reent_t :=
  fun tag i r => if N.eqb tag 1 && Nat.eqb i 0 then Some exB else None.
Definition ex_s0 : shared := match set_config exA with Some s => s | None => (0, T 0 [] []) end.

(* appender 0 of config 1 swaps in config 2 in the middle of record (0,0)'s
   fan-out: the rest of that record still goes to config 1's appender 1, the next
   record only to config 2; a concurrent thread's record is single-tagged too *)
Example C15_example_reentrant_swap :
  let tr := trace (Swap.run ex_reent [0; 0; 1; 0; 1; 0; 0; 1; 1; 0; 0; 0; 1]%nat
                            (init_state ex_s0 [[OLog [] 3; OLog [] 3]; [OLog [120] 1]])) in
  deliveries (0, 0)%nat tr = [(1, 0%nat); (1, 1%nat)] /\
  deliveries (0, 1)%nat tr = [(2, 0%nat)] /\
  deliveries (1, 0)%nat tr = [(1, 0%nat); (1, 1%nat)] /\
  In (ERet (0, 1)%nat) tr /\ In (ERet (1, 0)%nat) tr /\
  map fst (flat_map (fun e => match e with EStore s => [s] | _ => [] end) tr) = [2; 2].
Proof. vm_compute. repeat split; auto 20. Qed.

(* root level unchanged (3), child `x` raised from 3 to 5: a Trace record for `x`
   logged through the macro after the swap reaches the new config's appenders *)
Example C15_example_facade_child_more_verbose :
  let c1 := {| c_appenders := [[97]; [98]]; c_root_level := 3; c_root_apps := [[97]];
               c_loggers := [{| l_name := [120]; l_level := 3; l_additive := true; l_apps := [[98]] |}] |} in
  let c2 := {| c_appenders := [[97]; [98]]; c_root_level := 3; c_root_apps := [[97]];
               c_loggers := [{| l_name := [120]; l_level := 5; l_additive := true; l_apps := [[98]] |}] |} in
  option_map (fun st => (Facade.macro_log st [120] 5, Facade.gmax st)) (Facade.run_history c1 []) = Some ([], 3) /\
  option_map (fun st => (Facade.macro_log st [120] 5, Facade.gmax st)) (Facade.run_history c1 [c2])
    = Some ([1; 0]%nat, 5).
Proof. vm_compute. split; reflexivity. Qed.

Definition ex_parse (t : text) : option (N * option N) :=
  match t with
  | [1] => Some (10, Some 30)
  | [2] => Some (20, Some 5)
  | [3] => Some (30, None)
  | _ => None
  end.

(* change / touch / syntax error / deletion / unreadable / revert / rate removal / later edit *)
Example C15_example_reloader :
  let h := [File 2 [2]; File 3 [2]; File 4 [9]; Missing; Unreadable 5; File 6 [1]; File 7 [3]; File 8 [2]] in
  let l := Reloader.run N ex_parse (init_loop N 1 [1] 10 30 0) h in
  honest 1 (Some [1]) h /\
  r_active (l_st l) = 30 /\ r_nset (l_st l) = 3%nat /\ l_running l = false /\ l_rate l = 30 /\
  map (fun k => r_active (l_st (Reloader.run N ex_parse (init_loop N 1 [1] 10 30 0) (firstn k h))))
      [1; 2; 3; 4; 5; 6; 7; 8]%nat = [20; 20; 20; 20; 20; 10; 30; 30].
Proof. vm_compute. repeat split; congruence. Qed.

(* init_file on version 1 (rate 30), then: rate change to 5 / touch / syntax error / deletion / back to 30 / a version
   without a rate: the thread sleeps 30, 5, 5, 5, 5, 30 and then never again; a document with rate 0 starts a thread
   that sleeps 0; a document without a rate starts none *)
Example C15_example_thread :
  let h := [File 2 [2]; File 3 [2]; File 4 [9]; Missing; File 6 [1]; File 7 [3]; File 8 [2]] in
  match init_file N ex_parse (File 1 [1]) with
  | Some (10, Some l) => honest 1 (Some [1]) h /\ sleeps N ex_parse l h = [30; 5; 5; 5; 5; 30]
  | _ => False
  end /\
  (exists l, init_file N (fun t => match t with [4] => Some (40, Some 0) | _ => None end) (File 1 [4]) = Some (40, Some l)
             /\ sleeps N (fun t => match t with [4] => Some (40, Some 0) | _ => None end) l [Missing] = [0; 0]) /\
  init_file N ex_parse (File 1 [3]) = Some (30, None) /\
  init_file N ex_parse (File 1 [9]) = None /\ init_file N ex_parse Missing = None.
Proof. vm_compute. repeat split; try congruence. eexists. split; reflexivity. Qed.

Example C15_example_changed :
  changed N (init_loop N 1 [1] 10 30 0) 2 [2] /\ bad N ex_parse (File 4 [9]).
Proof. split; [split; cbn; congruence|reflexivity]. Qed.

(* ---- <Logger as Log>::flush under reconfiguration (Model/FlushPass.v) ---- *)
Module FPm := L4.Model.FlushPass.
Module FPp := L4.Proofs.FlushPass.

(* At every moment of every schedule of the flusher's micro-steps against stores by other threads, and
   whatever the appenders being flushed install themselves: the pass has done nothing yet, or it has
   loaded ONE snapshot and flushed that snapshot's first i appenders in table order, or - finished -
   all of them. *)
Theorem C15_flush_pass_works_on_one_snapshot :
  forall (reent : FPm.reent_t) (c0 : FPm.cell) (ms : list FPm.move),
    let s := FPm.run reent ms (FPm.init c0) in
    match FPm.fl s with
    | FPm.FIdle => FPm.trace s = []
    | FPm.FPass snap i => (i <= snd snap)%nat /\ FPm.trace s = FPm.FLoad snap :: FPm.flushes (fst snap) i
    | FPm.FDone snap => FPm.trace s = FPm.FLoad snap :: FPm.flushes (fst snap) (snd snap) ++ [FPm.FRet]
    end.
Proof. exact FPp.pass_is_over_one_snapshot. Qed.
Print Assumptions C15_flush_pass_works_on_one_snapshot.

(* A finished pass flushed every appender of its snapshot exactly once and no appender of any other
   configuration. *)
Theorem C15_finished_flush_pass :
  forall (reent : FPm.reent_t) (c0 : FPm.cell) (ms : list FPm.move) (snap : FPm.cell),
    FPm.fl (FPm.run reent ms (FPm.init c0)) = FPm.FDone snap ->
    filter FPp.is_flush (FPm.trace (FPm.run reent ms (FPm.init c0))) = FPm.flushes (fst snap) (snd snap) /\
    NoDup (FPm.flushes (fst snap) (snd snap)) /\
    (forall tag i, In (FPm.FFlush tag i) (FPm.trace (FPm.run reent ms (FPm.init c0))) <-> tag = fst snap /\ (i < snd snap)%nat).
Proof. exact FPp.finished_pass. Qed.
Print Assumptions C15_finished_flush_pass.
