(* C04 — property theorems only: pinned statement, `exact`, Print Assumptions.
   Vocabulary: Model/BufW.v (fstate = disk/buf/orc, the BufWriter algorithm over an
   OS acceptance oracle), Model/FileApp.v (fa_open, append, block_of, thread_progs),
   Common/Sched.v (run/init/compile: interleaving semantics with one lock),
   Proofs/FileApp.v (orc_ok = no OS error, short writes allowed; open_content;
   prefix; rec_bytes = concat of the chunks). Capacity `c` is universally
   quantified everywhere: the appender's 1024 is one instance. *)
From Coq Require Import List Arith NArith Bool.
Import ListNotations.
From L4 Require Import Common.Sched Model.BufW Model.FileApp Proofs.FileApp Proofs.FileAppTrace Proofs.FileAppFaults.

(* Once append returns Ok the complete record is on disk (readable by anyone) and
   nothing is left in the private buffer - for every oracle (short writes), every
   chunking, every size relative to the buffer. *)
Theorem C04_append_flushes_whole_record :
  forall c st cs st',
    append c st cs = Ok st' ->
    disk st' = disk st ++ buf st ++ rec_bytes cs /\ buf st' = [].
Proof. exact append_flushes_whole_record. Qed.
Print Assumptions C04_append_flushes_whole_record.

(* An encoder that fails half-way (append returns its error before the flush) leaves the
   bytes it wrote pending; the next successful append stores its record whole and contiguous
   right after them - nothing of it is held back, nothing written before is disturbed. *)
Theorem C04_failed_encode_then_append :
  forall c st cs r s1 st2,
    write_chunks c cs st = Ok s1 ->
    append_enc_fails c st cs = Err s1 /\
    (append c s1 r = Ok st2 ->
     disk st2 = disk st ++ buf st ++ rec_bytes cs ++ rec_bytes r /\ buf st2 = []).
Proof. exact failed_encode_then_append. Qed.
Print Assumptions C04_failed_encode_then_append.

(* If the OS reports no error (short writes allowed) append cannot fail. *)
Theorem C04_append_succeeds_without_os_error :
  forall c st cs, orc_ok (orc st) = true ->
                  exists st', append c st cs = Ok st' /\ orc_ok (orc st') = true.
Proof. exact append_ok. Qed.
Print Assumptions C04_append_succeeds_without_os_error.

(* At every point inside a call (after any number j of its micro-steps, whether
   or not one of them failed) the disk is the old content plus a prefix of the
   pending bytes: what a concurrent reader can see of a record > buffer size. *)
Theorem C04_prefix_at_all_times :
  forall c st cs j ok st',
    run_acts c (firstn j (block_of cs)) st = (ok, st') ->
    exists p, disk st' = disk st ++ p /\ prefix p (buf st ++ rec_bytes cs).
Proof. exact prefix_at_all_times. Qed.
Print Assumptions C04_prefix_at_all_times.

(* Sequential histories: what fs::read shows after n calls. *)
Theorem C04_history_is_concat :
  forall c rs st,
    orc_ok (orc st) = true -> buf st = [] ->
    disk (appends c st rs) = disk st ++ concat (map rec_bytes rs) /\ buf (appends c st rs) = [].
Proof. exact appends_history. Qed.
Print Assumptions C04_history_is_concat.

(* The buffer capacity (1024 in the crate) has no influence on the file. *)
Theorem C04_capacity_irrelevant :
  forall c1 c2 rs st,
    orc_ok (orc st) = true -> buf st = [] ->
    disk (appends c1 st rs) = disk (appends c2 st rs).
Proof. exact capacity_irrelevant. Qed.
Print Assumptions C04_capacity_irrelevant.

(* A single BufWriter::write (what an encoder calling `write` directly gets):
   Ok(n) hands over exactly the first n <= len bytes; Err hands over nothing. *)
Theorem C04_single_write_accepts_a_prefix :
  forall c d st r st',
    bw_write c d st = (r, st') ->
    match r with
    | Some n => n <= length d /\
                exists w q, disk st' = disk st ++ w /\ w ++ q = buf st ++ firstn n d /\ buf st' = q
    | None => exists w q, disk st' = disk st ++ w /\ w ++ q = buf st
    end.
Proof.
  intros c d st r st' H. apply bw_write_spec in H. destruct r as [n|].
  - destruct H as [Hn (w & q & Hd & Hw & Hb)]. split; [exact Hn|]. exists w, q. auto.
  - destruct H as (w & q & Hd & Hw & _). rewrite app_nil_r in Hw. exists w, q. auto.
Qed.
Print Assumptions C04_single_write_accepts_a_prefix.

(* Open modes: append keeps the old content, truncate (and a missing file) start
   empty ... *)
Theorem C04_open_modes :
  forall a pre o,
    fa_open a pre o = Some (mkF (open_content a pre) [] o)
    /\ open_content true pre = match pre with Some p => p | None => [] end
    /\ open_content false pre = [].
Proof.
  intros a pre o. split; [apply open_modes|]. split; destruct pre; reflexivity.
Qed.
Print Assumptions C04_open_modes.

(* ... and nothing is discarded after open: any history of calls, failing or
   not, under any oracle, only ever appends to the disk. *)
Theorem C04_truncation_only_at_open :
  forall c rs st, exists p, disk (appends c st rs) = disk st ++ p.
Proof. exact disk_only_grows. Qed.
Print Assumptions C04_truncation_only_at_open.

(* Several writers on one path, all with O_APPEND (append-mode appenders alive at
   the same time, e.g. old and new appender around a reconfiguration, and
   external `>>` writers): after any history of calls the file is the initial
   content followed by everything written, in call order - nothing that reached
   the file after an appender was opened is ever overwritten by it. *)
Theorem C04_shared_file_history :
  forall c ops m,
    orc_ok (morc m) = true -> (forall h, mbufs m h = []) ->
    mdisk (hops c m ops) = mdisk m ++ concat (map hop_bytes ops)
    /\ (forall h, mbufs (hops c m ops) h = []).
Proof. exact shared_file_history. Qed.
Print Assumptions C04_shared_file_history.

(* The atomic-block reduction, generic in the shared state and its actions:
   after EVERY schedule the shared state is the sequential execution of the
   completed blocks in lock-acquisition order (+ a prefix of the holder's block),
   and the projection of that order on each thread is a prefix of its program. *)
Theorem C04_atomic_block_reduction :
  forall (S A : Type) (step : A -> S -> S) (progs : nat -> list (list A)) (s0 : S) (sched : list nat),
    let st := run S A step sched (init s0 progs) in
    exists (done : list (nat * list A)) (rem : nat -> list (list A)),
      (forall i, proj i done ++ rem i = progs i) /\
      match lock st with
      | None =>
          acq st = map fst done /\
          sh st = exec_blocks S A step (map snd done) s0 /\
          (forall i, thr st i = compile (rem i))
      | Some t =>
          acq st = map fst done ++ [t] /\
          exists pre post rest,
            rem t = (pre ++ post) :: rest /\
            thr st t = map Act post ++ Release :: compile rest /\
            sh st = exec_acts S A step pre (exec_blocks S A step (map snd done) s0) /\
            (forall i, i <> t -> thr st i = compile (rem i))
      end.
Proof. exact atomic_block_reduction. Qed.
Print Assumptions C04_atomic_block_reduction.

(* Programs whose shared accesses all lie between Acquire and Release are
   exactly the compiled block sequences the reduction speaks about. *)
Theorem C04_well_locked_programs_are_blocks :
  forall (A : Type) (p : list (mstep A)),
    well_locked false p = true <-> exists bs, p = compile bs.
Proof.
  intros A p. split.
  - apply (well_locked_blocks A p).
  - intros [bs ->]. apply well_locked_compile.
Qed.
Print Assumptions C04_well_locked_programs_are_blocks.

(* THE property, concurrent form.  For every buffer capacity, open mode, previous
   content, OS short-write behaviour, any number of threads (thread i appends the
   records `recs i`, each an arbitrary list of chunks of arbitrary sizes) and
   EVERY schedule: whenever no append call is in progress the file is the open
   content followed by whole records `done`, in lock-acquisition order; the
   records of thread i among them are exactly the first k of its program, in
   program order, and thread i's remaining program is exactly the not yet
   appended rest (so `done` holds exactly the completed calls: no interleaving,
   truncation, duplication, loss). *)
Theorem C04_file_is_concat_of_records :
  forall (c : nat) (a : bool) (pre : option bytes) (o : list resp)
         (recs : nat -> list record) (sched : list nat),
    orc_ok o = true ->
    forall s0, fa_open a pre o = Some s0 ->
    let st := run fstate act (fstep c) sched (init s0 (thread_progs recs)) in
    lock st = None ->
    exists done : list (nat * record),
      disk (sh st) = open_content a pre ++ concat (map (fun d => rec_bytes (snd d)) done)
      /\ buf (sh st) = []
      /\ map fst done = acq st
      /\ forall i, exists k,
          map snd (filter (fun d => Nat.eqb (fst d) i) done) = firstn k (recs i)
          /\ thr st i = compile (map block_of (skipn k (recs i))).
Proof. exact file_is_concat_of_records. Qed.
Print Assumptions C04_file_is_concat_of_records.

(* While thread t is inside a call a reader sees whole records followed by a
   prefix of t's current record - never bytes of two records mixed. *)
Theorem C04_reader_sees_whole_records_and_prefix :
  forall (c : nat) (a : bool) (pre : option bytes) (o : list resp)
         (recs : nat -> list record) (sched : list nat),
    orc_ok o = true ->
    forall s0, fa_open a pre o = Some s0 ->
    let st := run fstate act (fstep c) sched (init s0 (thread_progs recs)) in
    forall t, lock st = Some t ->
    exists (done : list (nat * record)) (cur : record) (p : bytes),
      disk (sh st) = open_content a pre ++ concat (map (fun d => rec_bytes (snd d)) done) ++ p
      /\ prefix p (rec_bytes cur)
      /\ nth_error (recs t) (length (filter (fun d => Nat.eqb (fst d) t) done)) = Some cur
      /\ map fst done ++ [t] = acq st
      /\ forall i, exists k,
          map snd (filter (fun d => Nat.eqb (fst d) i) done) = firstn k (recs i).
Proof. exact reader_sees_whole_records_and_prefix. Qed.
Print Assumptions C04_reader_sees_whole_records_and_prefix.

(* The trace validator used on runs of the real appender accepts only files in
   the admissible set of C04_file_is_concat_of_records with all calls completed. *)
Theorem C04_check_trace_sound :
  forall content0 recs obs order,
    check_trace content0 recs obs = Some order ->
    exists done : list (nat * bytes),
      map fst done = order
      /\ obs = content0 ++ concat (map snd done)
      /\ forall i, map snd (filter (fun d => Nat.eqb (fst d) i) done) = nth i recs [].
Proof. exact check_trace_sound. Qed.
Print Assumptions C04_check_trace_sound.

(* ---------------- non-vacuity ---------------- *)

(* a 3-chunk record (2 + 5 + 1 bytes) through a 4-byte buffer with an OS that
   accepts 1, then 2, then 3 bytes per call, then everything *)
Example C04_example_append :
  append 4 (mkF [9%N] [] [Acc 1; Acc 2; Acc 3]) [[1;2]; [3;4;5;6;7]; [8]]%N
  = Ok (mkF [9;1;2;3;4;5;6;7;8]%N [] []).
Proof. vm_compute. reflexivity. Qed.

(* a failing OS makes append fail and leaves only a prefix on disk *)
Example C04_example_error :
  append 4 (mkF [9%N] [] [Acc 1; IoErr]) [[1;2]; [3;4;5;6;7]]%N = Err (mkF [9;1]%N [2%N] []).
Proof. vm_compute. reflexivity. Qed.

Definition ex_recs (i : nat) : list record :=
  match i with
  | 0 => [[[1;2];[3]]; [[4]]]%N
  | 1 => [[[5;6;7]]; [[8]]]%N
  | _ => []
  end.

(* two threads, two records each, a schedule with contention: the lock is free
   at the end, the file holds thread 1's first record then thread 0's first *)
Example C04_example_schedule :
  let st := run fstate act (fstep 2) [1;0;1;0;1;1;0;0;0;0;0]
                (init (mkF [0%N] [] [Acc 1]) (thread_progs ex_recs)) in
  lock st = None /\ acq st = [1;0] /\ disk (sh st) = [0;5;6;7;1;2;3]%N /\ buf (sh st) = [].
Proof. vm_compute. repeat split; reflexivity. Qed.

(* mid-call: thread 1 holds the lock, a reader sees a strict prefix of its record *)
Example C04_example_midcall :
  let st := run fstate act (fstep 2) [1;1;1] (init (mkF [0%N] [] []) (thread_progs ex_recs)) in
  lock st = Some 1 /\ disk (sh st) = [0;5;6;7]%N.
Proof. vm_compute. split; reflexivity. Qed.

Example C04_example_open :
  fa_open true (Some [1;2]%N) [] = Some (mkF [1;2]%N [] [])
  /\ fa_open false (Some [1;2]%N) [] = Some (mkF [] [] [])
  /\ fa_open true None [] = Some (mkF [] [] []).
Proof. vm_compute. repeat split; reflexivity. Qed.

(* old and new appender alive on one path, an external writer in between *)
Example C04_example_two_handles :
  mdisk (hops 4 (mkM [9%N] (fun _ => []) [])
              [HBuild 0; HAppend 0 [[1]]%N; HBuild 1; HAppend 1 [[2;3]]%N; HExternal [7%N];
               HAppend 0 [[4;5;6;7;8]]%N; HAppend 1 [[0]]%N])
  = [9;1;2;3;7;4;5;6;7;8;0]%N.
Proof. vm_compute. reflexivity. Qed.

Example C04_example_trace :
  check_trace [7%N] [[[1;2];[3]]; [[4;5]]]%N [7;4;5;1;2;3]%N = Some [1;0;0]
  /\ check_trace [7%N] [[[1;2];[3]]; [[4;5]]]%N [7;4;1;2;5;3]%N = None.
Proof. vm_compute. split; reflexivity. Qed.

(* ---- under OS errors: ANY script of the file's answers (disk full for a while, EIO, short writes) ---- *)

(* A record whose append returned Ok is on disk, whole, right behind everything the appender had taken before it - and
   it stays there through every later call, whether those calls fail or not. *)
Theorem C04_acknowledged_record_stays :
  forall c st rs1 r rs2 st1,
    append c (appends c st rs1) r = Ok st1 ->
    exists post,
      disk (appends c st (rs1 ++ r :: rs2)) =
      disk (appends c st rs1) ++ buf (appends c st rs1) ++ rec_bytes r ++ post.
Proof. exact acknowledged_record_stays. Qed.
Print Assumptions C04_acknowledged_record_stays.

(* Two acknowledged records are in the file in call order, without overlapping, whatever happened around them. *)
Theorem C04_acknowledged_records_in_order :
  forall c st rs1 r1 rs2 r2 rs3 s1 s2,
    append c (appends c st rs1) r1 = Ok s1 ->
    append c (appends c st (rs1 ++ r1 :: rs2)) r2 = Ok s2 ->
    exists a b d,
      disk (appends c st (rs1 ++ r1 :: rs2 ++ r2 :: rs3)) = a ++ rec_bytes r1 ++ b ++ rec_bytes r2 ++ d.
Proof. exact acknowledged_records_in_order. Qed.
Print Assumptions C04_acknowledged_records_in_order.

(* Nothing the appender has taken is silently dropped: after any history the file followed by the private buffer is
   what was there before followed by one piece per call, each piece a prefix of that call's record (the whole record
   when the call was acknowledged: C04_append_flushes_whole_record). *)
Theorem C04_history_under_os_errors :
  forall c rs st,
    exists ps, Forall2 (fun p r => prefix p (rec_bytes r)) ps rs /\
      disk (appends c st rs) ++ buf (appends c st rs) = disk st ++ buf st ++ concat ps.
Proof. exact appends_keep. Qed.
Print Assumptions C04_history_under_os_errors.

(* the disk accepts 2 bytes, then fails twice, then works again; capacity 4: the first record (3 bytes) stays in the
   buffer and its flush fails after 2 bytes (Err), the second call's flush fails too (Err), the third succeeds and
   everything taken so far is in the file in order *)
Example C04_example_full_disk :
  let o := [Acc 2; IoErr; IoErr] in
  let s0 := mkF [9%N] [] o in
  let r1 := append 4 s0 [[1;2;3]]%N in
  let r2 := append 4 (res_state r1) [[4]]%N in
  let r3 := append 4 (res_state r2) [[5;6]]%N in
  (match r1 with Err _ => true | Ok _ => false end) = true /\
  (match r2 with Err _ => true | Ok _ => false end) = true /\
  (match r3 with Ok s => disk s | Err _ => [] end) = [9;1;2;3;4;5;6]%N.
Proof. vm_compute. repeat split; reflexivity. Qed.
