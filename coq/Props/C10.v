(* C10 — property theorems only: pinned statement, `exact`, Print Assumptions.
   Vocabulary (Proofs/Width.v): a character is its UTF-8 byte sequence (`uchar_ok`:
   one lead byte, then continuation bytes), `encs` concatenates, `fit m M fill right`
   = pad (firstn M ..), `cpat`/`bytes_of`/`meaning` = patterns over characters, their
   byte-level pattern, and the law applied at every group.  `acc` is the sink's
   acceptance oracle (how many bytes, 1..n, each write call accepts): every theorem
   holds for every oracle, i.e. for all short-write behaviours. *)
From Coq Require Import List NArith Bool Arith.
Import ListNotations.
From L4 Require Import Model.Width Proofs.Width.

(* lead bytes count Unicode scalar values, not bytes *)
Theorem C10_char_starts_counts_chars :
  forall l, Forall uchar_ok l -> char_starts (encs l) = length l.
Proof. exact cs_encs. Qed.
Print Assumptions C10_char_starts_counts_chars.

(* std's write_all over any stack of the three writers over any such sink never
   returns WriteZero and never loops (explicit fuel = bytes offered suffices) *)
Theorem C10_write_all_never_fails :
  forall acc buf ls s, exists st, write_all acc ls s buf = Some st.
Proof. exact write_all_total. Qed.
Print Assumptions C10_write_all_never_fails.

(* MaxWidthWriter, byte level, any writer stack below, any short writes: a
   write_all of buf through it is a write_all of `cut r buf` to the writer below
   (cut = everything before the (r+1)-th lead byte), and the budget drops by the
   lead bytes passed on *)
Theorem C10_maxwidth_writer :
  forall acc buf r ls s,
    write_all acc (LMax r :: ls) s buf =
    push (LMax (r - char_starts (cut r buf))) (write_all acc ls s (cut r buf)).
Proof. exact max_write_all. Qed.
Print Assumptions C10_maxwidth_writer.

Theorem C10_cut_is_first_chars :
  forall l r, Forall uchar_ok l -> cut r (encs l) = encs (firstn r l).
Proof. exact cut_encs. Qed.
Print Assumptions C10_cut_is_first_chars.

(* `self.remaining -= char_starts(&buf[..len])` cannot underflow, whatever prefix
   of the forwarded slice `cut r buf` the writer below accepts *)
Theorem C10_remaining_never_underflows :
  forall r buf len, len <= length (cut r buf) -> char_starts (firstn len (cut r buf)) <= r.
Proof. exact max_sub_no_underflow. Qed.
Print Assumptions C10_remaining_never_underflows.

(* LeftAlignWriter / RightAlignWriter, byte level, any stack below *)
Theorem C10_leftalign_writer :
  forall acc buf n f ls s,
    write_all acc (LLeft n f :: ls) s buf =
    push (LLeft (n - char_starts buf) f) (write_all acc ls s buf).
Proof. exact left_write_all. Qed.
Print Assumptions C10_leftalign_writer.

Theorem C10_rightalign_writer :
  forall acc buf n f b ls s,
    write_all acc (LRight n f b :: ls) s buf =
    Some (LRight (n - char_starts buf) f (b ++ buf) :: ls, s)
    /\ finish acc (LRight n f b :: ls) s = feed acc ls s (repeat f n ++ [b]).
Proof. intros; split; [apply right_write_all|apply finish_right]. Qed.
Print Assumptions C10_rightalign_writer.

(* the bytes reaching the sink do not depend on the sink's short writes *)
Theorem C10_output_independent_of_short_writes :
  forall acc q, run_pattern acc q = Some (concat (chunks_of q)).
Proof. exact run_pattern_bytes. Qed.
Print Assumptions C10_output_independent_of_short_writes.

(* {m:.M}: every list of character-aligned pieces, every oracle *)
Theorem C10_maxwidth_correct :
  forall acc M f right css,
    Forall (Forall uchar_ok) css -> uchar_ok f ->
    run_pattern acc (bytes_of (CGroup {| p_min := None; p_max := Some M; p_right := right; p_fill := f |}
                                      (cchunks css) CNil))
    = Some (encs (firstn M (concat css))).
Proof. exact maxwidth_correct. Qed.
Print Assumptions C10_maxwidth_correct.

(* {m:f<m} and {m:f<m.M} *)
Theorem C10_left_align_correct :
  forall acc m oM f css,
    Forall (Forall uchar_ok) css -> uchar_ok f ->
    (match oM with Some M => m <= M | None => True end) ->
    run_pattern acc (bytes_of (CGroup {| p_min := Some m; p_max := oM; p_right := false; p_fill := f |}
                                      (cchunks css) CNil))
    = Some (encs (fit (Some m) oM f false (concat css))).
Proof. exact left_align_correct. Qed.
Print Assumptions C10_left_align_correct.

(* {m:f>m} and {m:f>m.M} *)
Theorem C10_right_align_correct :
  forall acc m oM f css,
    Forall (Forall uchar_ok) css -> uchar_ok f ->
    (match oM with Some M => m <= M | None => True end) ->
    run_pattern acc (bytes_of (CGroup {| p_min := Some m; p_max := oM; p_right := true; p_fill := f |}
                                      (cchunks css) CNil))
    = Some (encs (fit (Some m) oM f true (concat css))).
Proof. exact right_align_correct. Qed.
Print Assumptions C10_right_align_correct.

(* composition: under any outer writers, a character-aligned pattern acts as a
   sequence of write_all calls of whole-character chunks (the very precondition)
   that concatenate to its meaning *)
Theorem C10_fit_nested :
  forall acc t ls s, chars_ok t ->
    encode acc (bytes_of t) ls s = feed acc ls s (map encs (cchunks_of t))
    /\ Forall (Forall uchar_ok) (cchunks_of t)
    /\ (all_widths_ok t -> concat (cchunks_of t) = meaning t).
Proof. exact fit_nested. Qed.
Print Assumptions C10_fit_nested.

(* all nestings: the output is the encoding of the law applied at every group *)
Theorem C10_pattern_meaning :
  forall acc t, chars_ok t -> all_widths_ok t ->
    run_pattern acc (bytes_of t) = Some (encs (meaning t)).
Proof. exact pattern_meaning. Qed.
Print Assumptions C10_pattern_meaning.

(* the output is always the encoding of a list of whole characters (valid UTF-8
   whenever the pieces and fills are), even when some group has min > max *)
Theorem C10_never_splits_a_char :
  forall acc t, chars_ok t ->
    exists l, Forall uchar_ok l /\ run_pattern acc (bytes_of t) = Some (encs l).
Proof. exact never_splits_a_char. Qed.
Print Assumptions C10_never_splits_a_char.

Theorem C10_at_most_M_chars :
  (forall m M f right (l : text), (match m with Some m => m <= M | None => True end) ->
     length (fit m (Some M) f right l) <= M)
  /\ (forall p M cs, p_max p = Some M -> char_starts (concat (fit_chunks p cs)) <= M).
Proof. split; [exact fit_length_le|exact fit_chunks_at_most]. Qed.
Print Assumptions C10_at_most_M_chars.

(* the same with the bound as part of the conclusion about what is EMITTED: a
   group with max width M (any body incl. nested groups, any min — even min > M —,
   any alignment / fill) emits the encoding of at most M whole characters *)
Theorem C10_at_most_M_chars_emitted :
  forall acc p M body,
    chars_ok (CGroup p body CNil) -> p_max p = Some M ->
    exists l, Forall uchar_ok l /\ length l <= M
              /\ run_pattern acc (bytes_of (CGroup p body CNil)) = Some (encs l).
Proof. exact at_most_M_chars_emitted. Qed.
Print Assumptions C10_at_most_M_chars_emitted.

(* no hypothesis on the widths: in general the code pads and THEN truncates
   (`fit_code` = trunc M (pad m ..)) at every group; equal to the law when m <= M *)
Theorem C10_pattern_meaning_any_widths :
  (forall acc t, chars_ok t -> run_pattern acc (bytes_of t) = Some (encs (meaning_code t)))
  /\ (forall p l, widths_ok p -> fit_code p l = fitp p l).
Proof. split; [exact pattern_meaning_code|exact fit_code_fitp]. Qed.
Print Assumptions C10_pattern_meaning_any_widths.

(* valid UTF-8: if every piece character and every fill is a well-formed UTF-8
   scalar-value encoding (`utf8_scalar`: RFC 3629 ranges), the output is a
   concatenation of such encodings — for every oracle, nesting and width pair *)
Theorem C10_output_valid_utf8 :
  forall acc t,
    chars_sat (fun u => utf8_scalar u = true) t ->
    exists l, Forall (fun u => utf8_scalar u = true) l
              /\ run_pattern acc (bytes_of t) = Some (encs l).
Proof. exact output_valid_utf8. Qed.
Print Assumptions C10_output_valid_utf8.

(* ---- non-vacuity / illustrations ---- *)
Local Open Scope N_scope.
Definition ch_a : uchar := [97].
Definition ch_b : uchar := [98].
Definition ch_eacute : uchar := [195; 169].
Definition ch_clef : uchar := [240; 157; 132; 158].
Definition one_byte : oracle := fun _ _ => 1%nat.

Example C10_example_chars_ok :
  Forall uchar_ok [ch_a; ch_b; ch_eacute; ch_clef].
Proof. repeat constructor. Qed.

(* {m:é>4.5} on pieces "a" "𝄞b" through a sink taking one byte per call *)
Example C10_example_right :
  run_pattern one_byte
    (bytes_of (CGroup {| p_min := Some 4%nat; p_max := Some 5%nat; p_right := true; p_fill := ch_eacute |}
                      (cchunks [[ch_a]; [ch_clef; ch_b]]) CNil))
  = Some [195; 169; 97; 240; 157; 132; 158; 98].
Proof. vm_compute. reflexivity. Qed.

(* {({m:.2}{l}):~<6.8} with message pieces "é" "𝄞a" and level text "ab": nested *)
Example C10_example_nested :
  let inner := CGroup {| p_min := None; p_max := Some 2%nat; p_right := false; p_fill := [32] |}
                      (cchunks [[ch_eacute]; [ch_clef; ch_a]]) (CChunk [ch_a; ch_b] CNil) in
  let t := CGroup {| p_min := Some 6%nat; p_max := Some 8%nat; p_right := false; p_fill := [126] |} inner CNil in
  chars_ok t /\ all_widths_ok t /\ meaning t = [ch_eacute; ch_clef; ch_a; ch_b; [126]; [126]]
  /\ run_pattern one_byte (bytes_of t) = Some [195; 169; 240; 157; 132; 158; 97; 98; 126; 126].
Proof.
  split; [repeat constructor|]. split; [cbn; repeat split; repeat constructor|].
  split; vm_compute; reflexivity.
Qed.

(* min > max is outside the law: {m:~<5.2} on "abb" emits "ab" (no padding) *)
Example C10_example_min_gt_max :
  run_pattern one_byte
    (bytes_of (CGroup {| p_min := Some 5%nat; p_max := Some 2%nat; p_right := false; p_fill := [126] |}
                      (cchunks [[ch_a; ch_b; ch_b]]) CNil))
  = Some [97; 98].
Proof. vm_compute. reflexivity. Qed.

(* why the pieces must be whole characters (always true for &str pieces): a piece
   that starts inside a character after the writer became a sink leaks its
   continuation bytes.  {m:.0} with "é" handed over as two one-byte pieces. *)
Example C10_example_unaligned_pieces_leak :
  run_pattern one_byte
    (PGroup {| p_min := None; p_max := Some 0%nat; p_right := false; p_fill := [32] |}
            (PChunk [195] (PChunk [169] PNil)) PNil)
  = Some [169].
Proof. vm_compute. reflexivity. Qed.

(* {m:𝄞<4.6} on pieces "é" "a" (m < M, left, 4-byte fill), two bytes per call *)
Example C10_example_left :
  let p := {| p_min := Some 4%nat; p_max := Some 6%nat; p_right := false; p_fill := ch_clef |} in
  let css := [[ch_eacute]; [ch_a]] in
  Forall (Forall uchar_ok) css /\ uchar_ok (p_fill p) /\ widths_ok p
  /\ fit (Some 4%nat) (Some 6%nat) ch_clef false (concat css) = [ch_eacute; ch_a; ch_clef; ch_clef]
  /\ run_pattern (fun _ _ => 2%nat) (bytes_of (CGroup p (cchunks css) CNil))
     = Some [195; 169; 97; 240; 157; 132; 158; 240; 157; 132; 158].
Proof. repeat split; try (repeat constructor; fail); vm_compute; reflexivity. Qed.

(* {m:.2} on pieces "a𝄞" "éb": the cut falls between two multi-byte characters *)
Example C10_example_max :
  run_pattern one_byte
    (bytes_of (CGroup {| p_min := None; p_max := Some 2%nat; p_right := false; p_fill := [32] |}
                      (cchunks [[ch_a; ch_clef]; [ch_eacute; ch_b]]) CNil))
  = Some [97; 240; 157; 132; 158].
Proof. vm_compute. reflexivity. Qed.

(* the hypotheses of C10_output_valid_utf8 are satisfiable with 1/2/3/4-byte and
   combining characters; surrogates / overlongs / stray continuation bytes are not scalars *)
Example C10_example_utf8_scalar :
  forallb utf8_scalar [ch_a; ch_eacute; [226; 130; 172]; ch_clef; [204; 129]] = true
  /\ forallb (fun u => negb (utf8_scalar u)) [[237; 160; 128]; [192; 128]; [169]; [244; 144; 128; 128]; []] = true.
Proof. split; vm_compute; reflexivity. Qed.

(* min > max: pad-then-truncate differs from the law on the RIGHT-aligned side:
   {m:~>5.2} on "ab" emits "~~" (the fills use up the budget) *)
Example C10_example_min_gt_max_right :
  let p := {| p_min := Some 5%nat; p_max := Some 2%nat; p_right := true; p_fill := [126] |} in
  run_pattern one_byte (bytes_of (CGroup p (cchunks [[ch_a; ch_b]]) CNil)) = Some [126; 126]
  /\ fit_code p [ch_a; ch_b] = [[126]; [126]] /\ fitp p [ch_a; ch_b] = [[126]; [126]; [126]; ch_a; ch_b].
Proof. repeat split; vm_compute; reflexivity. Qed.
