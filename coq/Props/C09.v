(* C09 — property theorems only: pinned statement, `exact`, Print Assumptions.
   Model: Model/Pattern.v (parser.rs + mod.rs step by step).  Spec side:
   Proofs/PatternSpec.v — the AST of the documented grammar, its printer
   `print_seq`, well-formedness `wf_seq` (strict = outside the look-ahead
   finding class), `sem_ok` (known formatter, right arguments, min <= max) and
   the `meaning` of a pattern for a record. *)
From Coq Require Import String Ascii.
From Coq Require Import List NArith Bool.
Import ListNotations.
From L4 Require Import Model.Pattern Proofs.PatternSpec Proofs.Pattern Proofs.PatternMeaning
     Proofs.PatternParse Proofs.PatternTheorems Proofs.PatternExtra.
Local Open Scope N_scope.

(* The parser inverts the printer: for every well-formed AST (any nesting depth,
   any aliases, both escape styles, any spec) the pieces parsed from its text
   are exactly the pieces it denotes - nothing added, dropped or reordered. *)
Theorem C09_parse_print_roundtrip :
  forall (al an : N -> bool), oracle_ok al an ->
  forall seq, wf_seq al an true false seq = true ->
              parse al an (print_seq seq) = Ok (map piece_of seq).
Proof. exact parse_print_roundtrip. Qed.
Print Assumptions C09_parse_print_roundtrip.

(* Encoding the denoted pieces gives the meaning: every formatter's value for
   the record (??? for absent fields, MDC value or default - key and default being
   the whole literal argument -, date in format and zone, profile-dependent groups, highlight styling), fitted to its spec. *)
Theorem C09_pieces_encode_to_meaning :
  forall ok ts e seq,
    forallb (sem_ok ok) seq = true ->
    encode ok ts e (map (compile ok) (map piece_of seq)) = meaning_seq ts e seq.
Proof. exact encode_seq_is_meaning. Qed.
Print Assumptions C09_pieces_encode_to_meaning.

(* The headline: PatternEncoder::new(text of a well-formed pattern) followed by
   encode produces exactly the meaning of the pattern, for every record. *)
Theorem C09_encode_is_meaning :
  forall (al an : N -> bool), oracle_ok al an ->
  forall ok ts e seq,
    wf_seq al an true false seq = true ->
    forallb (sem_ok ok) seq = true ->
    exists cs, construct al an ok (print_seq seq) = Ok cs
               /\ encode ok ts e cs = meaning_seq ts e seq.
Proof. exact encode_is_meaning. Qed.
Print Assumptions C09_encode_is_meaning.

(* The six writer compositions of Chunk::encode are C10's law (cut to max
   characters, then pad to min) whenever min <= max. *)
Theorem C09_writer_composition_is_fit :
  forall p l,
    match p_min p, p_max p with Some m, Some M => m <= M | _, _ => True end ->
    apply_params p l = fit p l.
Proof. exact fit_eq. Qed.
Print Assumptions C09_writer_composition_is_fit.

(* Highlight groups add styling without changing the text: erasing the
   set_style calls from the output of any compiled pattern gives exactly the
   output of the same pattern with every highlight group made a plain group. *)
Theorem C09_highlight_text_invariant :
  forall ok ts e c, strip (enc_chunk ok ts e c) = enc_chunk ok ts e (unhl_chunk c).
Proof. exact highlight_text_invariant. Qed.
Print Assumptions C09_highlight_text_invariant.

(* ... and every set_style call of a highlight group is closed by exactly one
   default-style call: scanning the output from any nesting depth k returns to
   k and never closes a style that was not opened. *)
Theorem C09_highlight_styles_bracketed :
  forall ok ts e c k, style_run k (enc_chunk ok ts e c) = Some k.
Proof. exact styles_bracketed. Qed.
Print Assumptions C09_highlight_styles_bracketed.

(* Open finding F-C09-empty-spec-lookahead: `{m:}<` is grammatical (wf without
   the strictness condition) but its output is not its meaning. *)
Theorem C09_lookahead_refuted :
  wf_seq a_alpha a_alnum false false w_lookahead = true /\
  wf_seq a_alpha a_alnum true false w_lookahead = false /\
  forallb (sem_ok w_ok) w_lookahead = true /\
  exists cs, construct a_alpha a_alnum w_ok (print_seq w_lookahead) = Ok cs
             /\ encode w_ok w_ts w_env cs <> meaning_seq w_ts w_env w_lookahead.
Proof. exact lookahead_refuted. Qed.
Print Assumptions C09_lookahead_refuted.

(* Fixed finding F-C09-mdc-first-piece (c13258d): an MDC key / default is the WHOLE literal
   argument, escapes included - `{X(a{{b)}` is well-formed for the theorems above and renders
   the value of key `a{b` (the map also holds a value for `a`). *)
Theorem C09_mdc_whole_argument :
  wf_seq a_alpha a_alnum true false w_mdc = true /\
  forallb (sem_ok w_ok) w_mdc = true /\
  exists cs, construct a_alpha a_alnum w_ok (print_seq w_mdc) = Ok cs
             /\ encode w_ok w_ts w_env cs = chars (LIT "right")
             /\ meaning_seq w_ts w_env w_mdc = chars (LIT "right").
Proof. exact mdc_whole_argument. Qed.
Print Assumptions C09_mdc_whole_argument.

(* ---------- non-vacuity ---------- *)

(* `\{{h({l:>7} {m:.3})}}} {date(%Y\(x)(utc)} {X(k)(none):~<9.9}|{({M}:{L}):12}` *)
Definition ex_seq : list ast :=
  [AEsc 123 Backslash;
   AFmt (LIT "h") [[AFmt (LIT "l") [] (mkSpec true (Some (None, ARight)) (Some (LIT "7")) None);
                    ALit (LIT " ");
                    AFmt (LIT "m") [] (mkSpec true None None (Some (LIT "3")))]] no_spec;
   AEsc 125 Doubled; ALit (LIT " ");
   AFmt (LIT "date") [[ALit (LIT "%Y"); AEsc 40 Backslash; ALit (LIT "x")]; [ALit (LIT "utc")]] no_spec;
   ALit (LIT " ");
   AFmt (LIT "X") [[ALit (LIT "k")]; [ALit (LIT "none")]]
        (mkSpec true (Some (Some 126, ALeft)) (Some (LIT "9")) (Some (LIT "9")));
   ALit (LIT "|");
   AFmt [] [[AFmt (LIT "M") [] no_spec; ALit (LIT ":"); AFmt (LIT "L") [] no_spec]]
        (mkSpec true None (Some (LIT "12")) None)].

Example C09_ex_wellformed :
  oracle_ok a_alpha a_alnum /\
  wf_seq a_alpha a_alnum true false ex_seq = true /\
  forallb (sem_ok w_ok) ex_seq = true /\
  print_seq ex_seq
  = LIT "\{{h({l:>7} {m:.3})}}} {date(%Y\(x)(utc)} {X(k)(none):~<9.9}|{({M}:{L}):12}".
Proof. split; [exact a_oracle_ok|]. repeat split; vm_compute; reflexivity. Qed.

Example C09_ex_output :
  exists cs, construct a_alpha a_alnum w_ok (print_seq ex_seq) = Ok cs /\
    encode w_ok w_ts w_env cs
    = [Ch 123; St 3] ++ chars (LIT "   INFO hel") ++ [St 0]
      ++ chars (LIT "} U none~~~~~|???:???     ").
Proof. eexists; split; vm_compute; reflexivity. Qed.
