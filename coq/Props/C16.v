(* C16 — property theorems only: pinned statement, `exact`, Print Assumptions. *)
From Coq Require Import ZArith NArith List Bool.
Import ListNotations.
From L4 Require Import Model.Civil Model.TZ Model.TimeTrig Proofs.TimeTrigBasic.
Local Open Scope Z_scope.

(* The trigger fires exactly on a record arriving at or after the scheduled
   instant; only then is the schedule replaced, by TimeTrigger::new evaluated at
   the ARRIVAL time (not at the old schedule); otherwise it is kept. *)
Theorem C16_trigger_fires_iff :
  forall z c next now_s now_ns r fired nx,
    0 <= now_ns ->
    trigger_step z c next now_s now_ns r = Ok (fired, nx) ->
    (fired = true <-> next <= now_s) /\
    (fired = true -> trigger_new z c now_s r = Ok nx) /\
    (fired = false -> nx = next).
Proof. exact trigger_fires_iff. Qed.
Print Assumptions C16_trigger_fires_iff.

Theorem C16_trigger_not_due :
  forall z c next now_s now_ns r,
    0 <= now_ns -> now_s < next ->
    trigger_step z c next now_s now_ns r = Ok (false, next).
Proof. exact trigger_not_due. Qed.
Print Assumptions C16_trigger_not_due.

(* The random delay lies in [0, max_random_delay) on top of get_next_time(now). *)
Theorem C16_random_delay_bounded :
  forall z c now r t,
    0 <= r < Z.max (c_maxd c) 1 -> c_maxd c <= 18446744073709551615 ->
    r < 9223372036854775808 ->
    trigger_new z c now r = Ok t ->
    exists base, get_next_time z now (c_unit c) (c_n c) (c_mod c) = Ok base /\
                 t = base + r /\ base <= t /\ (0 < c_maxd c -> t < base + c_maxd c).
Proof. exact trigger_new_delay. Qed.
Print Assumptions C16_random_delay_bounded.

(* Pre-process order: when the trigger fires, everything written before is
   archived and the firing record is the first of the new file. *)
Theorem C16_roll_precedes_write :
  forall z c next file a,
    match append_step z c {| a_next := Some next; a_file := file |} a with
    | (Appended true nx arch, st') =>
        arch = file /\ a_file st' = [ar_idx a] /\ a_next st' = Some nx
    | (Appended false nx arch, st') =>
        arch = [] /\ a_file st' = file ++ [ar_idx a] /\ nx = next /\ a_next st' = Some next
    | (Panicked w, st') => a_file st' = file /\ a_next st' = None
    end.
Proof. exact append_step_cases. Qed.
Print Assumptions C16_roll_precedes_write.

(* ---- refutations of the unrestricted statement (open finding classes) ---- *)

(* F-C16-dst-overlap-panic *)
Theorem C16_dst_overlap_panics_refuted :
  exists z now u, In u [USecond; UMinute; UHour] /\
    get_next_time z now u 1 false = Panic 3.
Proof. exact dst_overlap_panics. Qed.
Print Assumptions C16_dst_overlap_panics_refuted.

(* F-C16-fallback-storm *)
Theorem C16_dst_fallback_storm_refuted :
  exists z now t, get_next_time z now UDay 1 false = Ok t /\ t <= now.
Proof. exact dst_fallback_storm. Qed.
Print Assumptions C16_dst_fallback_storm_refuted.

Theorem C16_dst_fallback_storm_fires_every_record_refuted :
  let c := {| c_unit := UDay; c_n := 1; c_mod := false; c_maxd := 0 |} in
  exists z next now,
    trigger_step z c next now 0 0 = Ok (true, next) /\
    trigger_step z c next (now + 1) 0 0 = Ok (true, next) /\
    trigger_step z c next (now + 2) 0 0 = Ok (true, next).
Proof. exact dst_fallback_storm_fires_every_record. Qed.
Print Assumptions C16_dst_fallback_storm_fires_every_record_refuted.

(* F-C16-degenerate-interval *)
Theorem C16_absurd_interval_panics_refuted :
  (exists w, get_next_time utc0 1700000000 UYear 300000 false = Panic w) /\
  (forall u, exists w, get_next_time utc0 1700000000 u 0 true = Panic w) /\
  (exists t, get_next_time utc0 1700000000 UHour 0 false = Ok t /\ t <= 1700000000) /\
  (exists w, get_next_time utc0 1700000000 USecond 4611686018427387904 false = Panic w) /\
  (exists t, get_next_time utc0 1700000000 UMonth 4294967296 false = Ok t /\ t <= 1700000000).
Proof. exact absurd_interval_panics. Qed.
Print Assumptions C16_absurd_interval_panics_refuted.
