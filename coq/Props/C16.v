(* C16 — property theorems only: pinned statement, `exact`, Print Assumptions. *)
From Coq Require Import ZArith NArith List Bool.
Import ListNotations.
From L4 Require Import Model.Civil Model.TZ Model.TimeTrig Proofs.Civil Proofs.TZ Proofs.TimeTrigBasic Proofs.TimeTrig.
Local Open Scope Z_scope.

(* Vocabulary (Proofs/TimeTrig.v, Proofs/TZ.v):
   spec_next u n modulate l   the LOCAL time the property asks for, from the local time l of now:
                              n units after the start of the current unit / the next multiple of n
                              counted from the start of the enclosing period (minute, hour, day,
                              year, ISO year, year, -) -- floor arithmetic + month_start/jan1/
                              iso_year_start, no zone involved
   unit_start u l             local start of the unit containing l
   sane K z                   zone table well separated (offsets within [-K,K], transitions > 2K apart)
   n_ok u n l                 1 <= n, n < 2^31 (years) / n < 2^32 and 1970 <= local now <= chrono max (months)
   natural_hyp z now u n m    the offset in force at now is in force from unit_start (read under it)
                              to the later of now and the expected boundary        [decidable: natural_ok_b]
   core_hyp                   the weaker hypothesis actually needed (from the local time handed to chrono to now)
   in_range u n l             the result stays inside chrono's date range *)

(* --- the schedule lies strictly after now --- *)
Theorem C16_next_strictly_after :
  forall K z now u n m t,
    sane K z = true -> n_ok u n (now + offset_at z now) -> core_hyp z now u n m ->
    get_next_time z now u n m = Ok t -> now < t.
Proof. exact next_strictly_after. Qed.
Print Assumptions C16_next_strictly_after.

(* --- and is exactly the expected boundary, read under the offset in force at now --- *)
Theorem C16_schedule_exact :
  forall K z now, sane K z = true ->
  forall u n m t, n_ok u n (now + offset_at z now) -> core_hyp z now u n m ->
    get_next_time z now u n m = Ok t ->
    t = spec_next u n m (now + offset_at z now) - offset_at z now.
Proof. exact schedule_exact_core. Qed.
Print Assumptions C16_schedule_exact.

(* --- boundary alignment in local time, all seven units, with and without modulation --- *)
Theorem C16_boundary_aligned :
  forall K z now u n m t,
    sane K z = true -> n_ok u n (now + offset_at z now) -> natural_hyp z now u n m ->
    get_next_time z now u n m = Ok t ->
    now < t /\ local z t = spec_next u n m (local z now).
Proof. exact boundary_aligned_natural. Qed.
Print Assumptions C16_boundary_aligned.

Theorem C16_natural_class_decidable :
  forall z now u n m, natural_ok_b z now u n m = true -> natural_hyp z now u n m.
Proof. exact natural_ok_b_sound. Qed.
Print Assumptions C16_natural_class_decidable.

(* the expected local time is strictly later than now's local time and is itself the
   start of a unit (second / minute / hour / local midnight / Monday midnight / first of
   a month / 1 January) *)
Theorem C16_spec_is_future_boundary :
  forall u n m l, 1 <= n ->
    l < spec_next u n m l /\ unit_start u (spec_next u n m l) = spec_next u n m l /\ unit_start u l <= l.
Proof.
  intros u n m l Hn. split; [exact (spec_next_after u n m l Hn)|].
  split; [exact (spec_next_on_boundary u n m l)|exact (unit_start_le u l)].
Qed.
Print Assumptions C16_spec_is_future_boundary.

(* what the calendar vocabulary of spec_next means *)
Theorem C16_calendar_meaning :
  (forall z, jan1 (year_of z) <= z < jan1 (year_of z + 1)) /\
  (forall z, month_start (month_index z) <= z < month_start (month_index z + 1)) /\
  (forall k1 k2, k1 < k2 -> month_start k1 < month_start k2) /\
  (forall z y m d, civil_from_days z = (y, m, d) ->
     days_from_civil y m d = z /\ 1 <= m <= 12 /\ 1 <= d <= 31 /\
     month_start (12 * y + (m - 1)) <= z < month_start (12 * y + (m - 1) + 1)) /\
  (forall z, z - weekday_mon z = iso_year_start (iso_year z) + 7 * iso_week0 z /\
             0 <= iso_week0 z <= 52 /\
             iso_year_start (iso_year z) <= z < iso_year_start (iso_year z + 1)) /\
  (forall y, weekday_mon (iso_year_start y) = 0 /\
             iso_year_start (y + 1) - iso_year_start y = 7 * iso_weeks_in_year y).
Proof.
  split; [exact year_of_bounds'|]. split; [exact month_index_bounds|].
  split; [exact month_start_mono|]. split; [exact civil_from_days_spec|].
  split; [exact iso_week0_spec|].
  intros y. split; [exact (iso_year_start_monday y)|exact (iso_len y)].
Qed.
Print Assumptions C16_calendar_meaning.

(* --- no panic: zone without transitions, interval in range --- *)
Theorem C16_no_panic_fixed_offset :
  forall z now u n m,
    z_trans z = [] -> -86400 <= z_init z <= 86400 ->
    in_range u n (now + z_init z) ->
    exists t, get_next_time z now u n m = Ok t.
Proof. exact no_panic_fixed_offset. Qed.
Print Assumptions C16_no_panic_fixed_offset.

(* --- fires on the first record at or after the schedule, then the new schedule
       (computed from the firing instant + delay) is in the future and no later
       record before it fires --- *)
Theorem C16_fires_once_then_future :
  forall K z c next now ns r nx,
    sane K z = true -> 0 <= ns ->
    n_ok (c_unit c) (c_n c) (now + offset_at z now) ->
    core_hyp z now (c_unit c) (c_n c) (c_mod c) ->
    0 <= r < Z.max (c_maxd c) 1 -> c_maxd c <= 18446744073709551615 -> r < 9223372036854775808 ->
    trigger_step z c next now ns r = Ok (true, nx) ->
    next <= now /\
    nx = spec_next (c_unit c) (c_n c) (c_mod c) (now + offset_at z now) - offset_at z now + r /\
    now < nx /\
    (forall now' ns' r', now' < nx -> 0 <= ns' -> trigger_step z c nx now' ns' r' = Ok (false, nx)).
Proof. exact fires_once_then_future. Qed.
Print Assumptions C16_fires_once_then_future.

(* The trigger fires exactly on a record arriving at or after the scheduled
   instant; only then is the schedule replaced, by TimeTrigger::new evaluated at
   the ARRIVAL time (not at the old schedule); otherwise it is kept. *)
Theorem C16_trigger_fires_iff :
  forall z c next now_s now_ns r fired nx,
    0 <= now_ns ->
    trigger_step z c next now_s now_ns r = Ok (fired, nx) ->
    (fired = true <-> next <= now_s) /\
    (fired = true -> trigger_new z c now_s r = Ok nx) /\
    (fired = false -> nx = next).
Proof. exact trigger_fires_iff. Qed.
Print Assumptions C16_trigger_fires_iff.

Theorem C16_trigger_not_due :
  forall z c next now_s now_ns r,
    0 <= now_ns -> now_s < next ->
    trigger_step z c next now_s now_ns r = Ok (false, next).
Proof. exact trigger_not_due. Qed.
Print Assumptions C16_trigger_not_due.

(* The random delay lies in [0, max_random_delay) on top of get_next_time(now). *)
Theorem C16_random_delay_bounded :
  forall z c now r t,
    0 <= r < Z.max (c_maxd c) 1 -> c_maxd c <= 18446744073709551615 ->
    r < 9223372036854775808 ->
    trigger_new z c now r = Ok t ->
    exists base, get_next_time z now (c_unit c) (c_n c) (c_mod c) = Ok base /\
                 t = base + r /\ base <= t /\ (0 < c_maxd c -> t < base + c_maxd c).
Proof. exact trigger_new_delay. Qed.
Print Assumptions C16_random_delay_bounded.

(* Pre-process order: when the trigger fires, everything written before is
   archived and the firing record is the first of the new file. *)
Theorem C16_roll_precedes_write :
  forall z c next file a,
    match append_step z c {| a_next := Some next; a_file := file |} a with
    | (Appended true nx arch, st') =>
        arch = file /\ a_file st' = [ar_idx a] /\ a_next st' = Some nx
    | (Appended false nx arch, st') =>
        arch = [] /\ a_file st' = file ++ [ar_idx a] /\ nx = next /\ a_next st' = Some next
    | (Panicked w, st') => a_file st' = file /\ a_next st' = None
    end.
Proof. exact append_step_cases. Qed.
Print Assumptions C16_roll_precedes_write.

(* ---- refutations of the unrestricted statement (open finding classes) ---- *)

(* F-C16-dst-overlap-panic *)
Theorem C16_dst_overlap_panics_refuted :
  exists z now u, In u [USecond; UMinute; UHour] /\
    get_next_time z now u 1 false = Panic 3.
Proof. exact dst_overlap_panics. Qed.
Print Assumptions C16_dst_overlap_panics_refuted.

(* F-C16-fallback-storm *)
Theorem C16_dst_fallback_storm_refuted :
  exists z now t, get_next_time z now UDay 1 false = Ok t /\ t <= now.
Proof. exact dst_fallback_storm. Qed.
Print Assumptions C16_dst_fallback_storm_refuted.

Theorem C16_dst_fallback_storm_fires_every_record_refuted :
  let c := {| c_unit := UDay; c_n := 1; c_mod := false; c_maxd := 0 |} in
  exists z next now,
    trigger_step z c next now 0 0 = Ok (true, next) /\
    trigger_step z c next (now + 1) 0 0 = Ok (true, next) /\
    trigger_step z c next (now + 2) 0 0 = Ok (true, next).
Proof. exact dst_fallback_storm_fires_every_record. Qed.
Print Assumptions C16_dst_fallback_storm_fires_every_record_refuted.

(* F-C16-degenerate-interval *)
Theorem C16_absurd_interval_panics_refuted :
  (exists w, get_next_time utc0 1700000000 UYear 300000 false = Panic w) /\
  (forall u, exists w, get_next_time utc0 1700000000 u 0 true = Panic w) /\
  (exists t, get_next_time utc0 1700000000 UHour 0 false = Ok t /\ t <= 1700000000) /\
  (exists w, get_next_time utc0 1700000000 USecond 4611686018427387904 false = Panic w) /\
  (exists t, get_next_time utc0 1700000000 UMonth 4294967296 false = Ok t /\ t <= 1700000000).
Proof. exact absurd_interval_panics. Qed.
Print Assumptions C16_absurd_interval_panics_refuted.

(* ---- non-vacuity ---- *)

(* 2024-02-29 23:59:58 UTC (leap day, two seconds before the month end) *)
Example C16_ex_leap_day_utc :
  get_next_time utc0 1709251198 UDay 1 false = Ok 1709251200 /\     (* 2024-03-01 00:00:00 *)
  get_next_time utc0 1709251198 UMonth 1 false = Ok 1709251200 /\
  get_next_time utc0 1709251198 UYear 1 false = Ok 1735689600 /\    (* 2025-01-01 *)
  get_next_time utc0 1709251198 UWeek 1 false = Ok 1709510400 /\    (* Monday 2024-03-04 *)
  get_next_time utc0 1709251198 UWeek 4 true = Ok 1711324800 /\     (* ISO week 13: Monday 2024-03-25 *)
  get_next_time utc0 1709251198 USecond 1 false = Ok 1709251199 /\
  get_next_time utc0 1709251198 UMinute 7 true = Ok 1709251380 /\   (* 2024-03-01 00:03:00 *)
  sane 0 utc0 = true /\ n_ok UMonth 1 (1709251198 + offset_at utc0 1709251198) /\
  n_ok UYear 1 (1709251198 + offset_at utc0 1709251198) /\
  natural_hyp utc0 1709251198 UMonth 1 false /\
  in_range UMonth 1 (1709251198 + z_init utc0) /\ in_range UYear 1 (1709251198 + z_init utc0) /\
  in_range UDay 1 (1709251198 + z_init utc0).
Proof. exact ex_leap_day_utc. Qed.

(* Europe/Berlin 2025-06-15 12:00 CEST: the hypotheses hold in a DST zone; they fail on the
   fall-back day (Day, 23:10 CET) and across the overlap's end (Hour, 02:30 CEST); inside the
   second pass of the repeated hour they hold although the code panics (so "no panic" is
   claimed for fixed-offset zones only) *)
Example C16_ex_berlin_summer :
  sane 7200 berlin2025 = true /\
  natural_ok_b berlin2025 1749981600 UDay 1 false = true /\
  natural_ok_b berlin2025 1749981600 UHour 3 true = true /\
  natural_ok_b berlin2025 1749981600 UWeek 1 false = true /\
  natural_ok_b berlin2025 1749981600 UMonth 1 false = true /\
  get_next_time berlin2025 1749981600 UDay 1 false = Ok 1750024800 /\
  get_next_time berlin2025 1749981600 UHour 3 true = Ok 1749992400 /\
  get_next_time berlin2025 1749981600 UWeek 1 false = Ok 1750024800 /\
  get_next_time berlin2025 1749981600 UMonth 1 false = Ok 1751320800 /\
  natural_ok_b berlin2025 1761516600 UDay 1 false = false /\
  natural_ok_b berlin2025 1761438600 UHour 1 false = false /\
  natural_ok_b berlin2025 1761442200 UHour 1 false = true /\
  get_next_time berlin2025 1761442200 UHour 1 false = Panic 3.
Proof. exact ex_berlin_summer. Qed.
