(* C19 — property theorems only: pinned statement, `exact`, Print Assumptions.
   `ua` is the oracle for char::is_alphanumeric beyond ASCII, `env` the process
   environment (std::env::var); both arbitrary. *)
From Coq Require Import List NArith Bool.
Import ListNotations.
From L4 Require Import Common.Str Model.EnvExpand Proofs.EnvExpandSpec Proofs.EnvExpand.
Local Open Scope N_scope.

(* Expansion never panics on any path string: every byte offset the code slices at
   (split_at, &path[start..end]) is a character boundary inside the string. *)
Theorem C19_expand_total :
  forall ua env p, expand ua env p <> Panic.
Proof. exact expand_total. Qed.
Print Assumptions C19_expand_total.

(* The code's loop is exactly: for each well-formed reference segment of the ORIGINAL path,
   in order, if its variable is set, replace all occurrences of its text in the output so far. *)
Theorem C19_expand_as_segments :
  forall ua env p, expand ua env p = Ok (run_segs env (segments ua p) p).
Proof. exact expand_as_segments. Qed.
Print Assumptions C19_expand_as_segments.

(* The property, outside the known-finding class: with '$'-free values and no forged
   reference the result is the one-pass expansion - every well-formed reference to a set
   variable replaced by its value, every other segment (references to unset variables,
   malformed / unterminated references, all other text) left as it is. *)
Theorem C19_expand_is_one_pass :
  forall ua env,
    values_dollar_free env ->
    forall p, NoForgedRef ua env p = true ->
    expand ua env p = Ok (expand_spec ua env p).
Proof. exact expand_is_one_pass. Qed.
Print Assumptions C19_expand_is_one_pass.

(* The segments of the spec partition the path: printed without substitution they give the
   path back, so "left unchanged" in expand_spec is byte-for-byte. *)
Theorem C19_segments_partition :
  forall ua env p, out_d env [] (segments ua p) = p.
Proof. exact segments_print. Qed.
Print Assumptions C19_segments_partition.

(* What a well-formed reference is: "$ENV{" name "}" where name is a non-empty run of
   alphanumerics, '_' and '.', not beginning with '.'; the model's scanner and the spec's
   recogniser agree. *)
Theorem C19_reference_shape :
  forall ua s n rest,
    ref_at ua s = Some (n, rest) ->
    s = raw n ++ rest /\ Forall (fun c => is_env_var_part ua c = true) n.
Proof. exact ref_at_some. Qed.
Print Assumptions C19_reference_shape.

(* No reference to a set variable: the path comes back unchanged (no hypothesis on values). *)
Theorem C19_expand_unset_identity :
  forall ua env p,
    (forall n, In (Ref n) (segments ua p) -> env n = None) -> expand ua env p = Ok p.
Proof. exact expand_unset_identity. Qed.
Print Assumptions C19_expand_unset_identity.

(* A '$'-free prefix (the temp directory the harness prepends) takes no part in the expansion,
   so the correspondence may run the model on the generated part of the path alone. *)
Theorem C19_expand_prefix :
  forall ua env pre p,
    dollar_free pre ->
    expand ua env (pre ++ p) = match expand ua env p with Ok s => Ok (pre ++ s) | Panic => Panic end.
Proof. exact expand_prefix. Qed.
Print Assumptions C19_expand_prefix.

(* The faithful model does NOT satisfy the property for every '$'-free environment: the
   sequential replace-all expands a reference forged by an earlier substitution
   (known finding F-C19-forged-ref).  A = "ENV{B}", B = "vb", path "x$$ENV{A}-$ENV{B}":
   the code gives "xvb-vb", one pass gives "x$ENV{B}-vb". *)
Theorem C19_expand_refuted :
  exists ua env p,
    values_dollar_free env /\
    expand ua env p = Ok [120;118;98;45;118;98] /\
    expand_spec ua env p = [120;36;69;78;86;123;66;125;45;118;98] /\
    NoForgedRef ua env p = false.
Proof. exact expand_refuted. Qed.
Print Assumptions C19_expand_refuted.

(* Non-vacuity of C19_expand_is_one_pass: "é$ENV{A}/$ENV{U}$ENV{.x}$ENV{A" with A = "v{}", U unset
   is outside the class and expands to "év{}/$ENV{U}$ENV{.x}$ENV{A"; "$$ENV{A}" with A = "ENV{B}"
   (B never referenced) is outside the class too. *)
Example C19_examples :
  let ua := fun c => c =? 233 in
  let env := lookup [([65], [118;123;125]); ([66], [119])] in
  let p := [233; 36;69;78;86;123;65;125; 47; 36;69;78;86;123;85;125; 36;69;78;86;123;46;120;125; 36;69;78;86;123;65] in
  values_dollar_free env /\ NoForgedRef ua env p = true /\
  expand ua env p = Ok ([233; 118;123;125; 47; 36;69;78;86;123;85;125; 36;69;78;86;123;46;120;125; 36;69;78;86;123;65]) /\
  NoForgedRef ua (lookup [([65], [69;78;86;123;66;125]); ([66], [119])]) [36; 36;69;78;86;123;65;125] = true.
Proof.
  cbv zeta. split; [apply lookup_dollar_free; vm_compute; reflexivity|].
  vm_compute. repeat split; reflexivity.
Qed.
