(* C19 — property theorems only: pinned statement, `exact`, Print Assumptions.
   `ua` is the oracle for char::is_alphanumeric beyond ASCII, `env` the process
   environment (std::env::var); both arbitrary.  The model is the one-pass code of fix
   cc9466f. *)
From Coq Require Import List NArith Bool.
Import ListNotations.
From L4 Require Import Common.Str Model.EnvExpand Proofs.EnvExpandSpec Proofs.EnvExpand Proofs.EnvExpandOld Proofs.EnvExpandTwice.
Local Open Scope N_scope.

(* THE PROPERTY, for every path string and every environment (values may contain anything,
   '$' and whole references included): the result is the one-pass expansion - every
   well-formed reference to a set variable replaced by that variable's value, every other
   segment (references to unset variables, malformed / unterminated references, all other
   text) left as it is.  `Ok` = no panic. *)
Theorem C19_expand_is_one_pass :
  forall ua env p, expand ua env p = Ok (expand_spec ua env p).
Proof. exact expand_is_one_pass. Qed.
Print Assumptions C19_expand_is_one_pass.

(* Expansion never panics on any path string: every byte offset the code slices at
   (split_at, &path[copied..match_start], &path[copied..]) is a character boundary inside the
   string and copied <= match_start. *)
Theorem C19_expand_total :
  forall ua env p, expand ua env p <> Panic.
Proof. exact expand_total. Qed.
Print Assumptions C19_expand_total.

(* The segments of the spec partition the path: their texts concatenated give the path back,
   so "left as it is" in expand_spec is byte-for-byte. *)
Theorem C19_segments_partition :
  forall ua p, concat (map seg_text (segments ua p)) = p.
Proof. exact segments_partition. Qed.
Print Assumptions C19_segments_partition.

(* What a well-formed reference is: "$ENV{" name "}" where name is a non-empty run of
   alphanumerics, '_' and '.' (the maximal one), not beginning with '.'. *)
Theorem C19_reference_shape :
  forall ua s n rest,
    ref_at ua s = Some (n, rest) ->
    s = raw n ++ rest /\ Forall (fun c => is_env_var_part ua c = true) n.
Proof. exact ref_at_some. Qed.
Print Assumptions C19_reference_shape.

(* No reference to a set variable: the path comes back unchanged. *)
Theorem C19_unset_identity :
  forall ua env p,
    (forall n, In (Ref n) (segments ua p) -> env n = None) -> expand ua env p = Ok p.
Proof.
  intros ua env p H. rewrite expand_is_one_pass. f_equal. exact (spec_unset_identity ua env p H).
Qed.
Print Assumptions C19_unset_identity.

(* A '$'-free prefix (the temp directory the harness prepends) takes no part in the expansion,
   so the correspondence may run the model on the generated part of the path alone. *)
Theorem C19_prefix :
  forall ua env pre p,
    dollar_free pre -> expand ua env (pre ++ p) = Ok (pre ++ expand_spec ua env p).
Proof.
  intros ua env pre p H. rewrite expand_is_one_pass. f_equal. exact (spec_prefix ua env pre p H).
Qed.
Print Assumptions C19_prefix.

(* Record of known finding F-C19-forged-ref (fixed by cc9466f): the PRE-FIX algorithm
   `old_expand` (sequential replace-all on the rewritten output) did not satisfy the property:
   A = "ENV{B}", B = "vb", path "x$$ENV{A}-$ENV{B}" gave "xvb-vb", one pass gives "x$ENV{B}-vb". *)
Theorem C19_old_expand_refuted :
  exists ua env p,
    values_dollar_free env /\
    old_expand ua env p = Ok [120;118;98;45;118;98] /\
    expand_spec ua env p = [120;36;69;78;86;123;66;125;45;118;98] /\
    NoForgedRef ua env p = false.
Proof. exact old_expand_refuted. Qed.
Print Assumptions C19_old_expand_refuted.

(* ... and it was right exactly outside that class. *)
Theorem C19_old_expand_is_one_pass :
  forall ua env,
    values_dollar_free env ->
    forall p, NoForgedRef ua env p = true ->
    old_expand ua env p = Ok (expand_spec ua env p).
Proof. exact old_expand_is_one_pass. Qed.
Print Assumptions C19_old_expand_is_one_pass.

(* ONE pass means one: applying the expansion again to its own result is another function, also for
   variable values free of '$' - a component that expanded a declared path when the document was
   read and again when the file is opened would create the file elsewhere ("xvb-vb" instead of
   "x$ENV{B}-vb" for the path x$$ENV{A}-$ENV{B} with A = "ENV{B}", B = "vb"). *)
Theorem C19_expanding_twice_is_not_expanding :
  exists ua env p,
    values_dollar_free env /\
    expand ua env p = Ok [120;36;69;78;86;123;66;125;45;118;98] /\
    expand_twice ua env p = Ok [120;118;98;45;118;98].
Proof. exact twice_is_not_once. Qed.
Print Assumptions C19_expanding_twice_is_not_expanding.

(* Concrete instances: the regression witness under the current code; a path with a non-ASCII
   literal, a set variable whose value holds '$' and a whole reference, an unset variable, a
   name with illegal first character, an unterminated tail. *)
Example C19_examples :
  let ua := fun c => c =? 233 in
  expand ua (lookup wit_tbl) wit_path = Ok [120;36;69;78;86;123;66;125;45;118;98] /\
  let env := lookup [([65], [36;69;78;86;123;66;125]); ([66], [119])] in
  let p := [233; 36;69;78;86;123;65;125; 47; 36;69;78;86;123;85;125; 36;69;78;86;123;46;120;125; 36;69;78;86;123;65] in
  expand ua env p = Ok ([233; 36;69;78;86;123;66;125; 47; 36;69;78;86;123;85;125; 36;69;78;86;123;46;120;125; 36;69;78;86;123;65]).
Proof. vm_compute. split; reflexivity. Qed.
