(* C02 — property theorems only: pinned statement, `exact`, Print Assumptions.
   Vocabulary: Model/Facade.v (facade state = global max level + current tree;
   init = init_config, set_config = Handle::set_config, run_history c0 cs =
   init_config(c0) then set_config for each of cs; macro_log / macro_enabled =
   the log!/log_enabled! macros; logger_enabled = log::logger().enabled);
   spec_level / spec_chain / spec_deliver / eff / valid as in Props/C01.v;
   spec_max cfg = fold_right N.max (root level) (levels of all loggers). *)
From Coq Require Import String.
From Coq Require Import List NArith Bool.
Import ListNotations.
From L4 Require Import Model.Routing Model.Facade Proofs.Routing Proofs.RoutingExtra Proofs.Facade.

(* enabled(target, level) = does the level pass the effective logger's threshold *)
Theorem C02_enabled_iff_threshold :
  forall cfg t, valid cfg -> build cfg = Some t ->
    forall T L,
      enabled_at t T L =
      N.leb L (match eff cfg T with Some lg => l_level lg | None => c_root_level cfg end).
Proof. exact enabled_is_eff_threshold. Qed.
Print Assumptions C02_enabled_iff_threshold.

(* ... which is exactly whether a record with that metadata is delivered to its chain *)
Theorem C02_enabled_agrees_with_delivery :
  forall cfg t, valid cfg -> build cfg = Some t ->
    forall T L,
      map (name_of cfg) (deliver t T L) = if enabled_at t T L then spec_chain cfg T else [].
Proof. exact enabled_agrees_with_delivery. Qed.
Print Assumptions C02_enabled_agrees_with_delivery.

(* the level the logger reports = the maximum over the root and ALL configured loggers *)
Theorem C02_max_level_is_max :
  forall cfg t, valid cfg -> build cfg = Some t ->
    max_level t = fold_right N.max (c_root_level cfg) (map l_level (c_loggers cfg)).
Proof. exact max_level_is_max. Qed.
Print Assumptions C02_max_level_is_max.

Theorem C02_spec_max_is_the_most_verbose_level :
  forall cfg,
    (c_root_level cfg <= spec_max cfg)%N /\
    (forall lg, In lg (c_loggers cfg) -> (l_level lg <= spec_max cfg)%N) /\
    (spec_max cfg = c_root_level cfg \/
     exists lg, In lg (c_loggers cfg) /\ spec_max cfg = l_level lg).
Proof. exact spec_max_is_maximum. Qed.
Print Assumptions C02_spec_max_is_the_most_verbose_level.

(* MAIN: after init_config(c0) and ANY sequence cs of set_config calls (levels
   going up or down), the facade's global max is the maximum of the LAST
   configuration, the log macros reach exactly the appenders routing prescribes
   for that configuration, and both enabled() paths equal the threshold test. *)
Theorem C02_facade_never_drops_admitted :
  forall c0 cs, valid c0 -> Forall valid cs ->
    let cfg := last cs c0 in
    exists st, run_history c0 cs = Some st /\
      facade_max st = spec_max cfg /\
      forall T L, (L <= 5)%N ->
        map (name_of cfg) (macro_log st T L) = spec_deliver cfg T L /\
        logger_enabled st T L = N.leb L (spec_level cfg T) /\
        macro_enabled st T L = N.leb L (spec_level cfg T).
Proof. exact facade_never_drops_admitted. Qed.
Print Assumptions C02_facade_never_drops_admitted.

(* the global filter by itself removes nothing the installed logger would deliver *)
Theorem C02_global_filter_transparent :
  forall c0 cs, valid c0 -> Forall valid cs ->
    exists st, run_history c0 cs = Some st /\
      forall T L, (L <= 5)%N -> macro_log st T L = deliver (cur st) T L.
Proof. exact global_filter_transparent. Qed.
Print Assumptions C02_global_filter_transparent.

(* a record logged through log! from the Drop of an appender of the previous
   configuration (it is released inside set_config, after the swap) is filtered
   and routed as the NEW configuration prescribes: same-thread re-entrancy only *)
Theorem C02_reentrant_drop_sees_new_config :
  forall c0 cs c, valid c0 -> Forall valid cs -> valid c ->
    exists st, run_history c0 cs = Some st /\
      forall T L, (L <= 5)%N ->
        option_map (map (name_of c)) (drop_probe st c T L) = Some (spec_deliver c T L).
Proof. exact drop_probe_sees_new_config. Qed.
Print Assumptions C02_reentrant_drop_sees_new_config.

(* a Config changed after build() through root_mut().set_level is just another
   valid configuration (so all theorems above speak about it): what counts is
   the level it carries when handed to init_config / set_config *)
Theorem C02_post_build_root_level_counts :
  forall cfg l, valid cfg ->
    valid (root_set_level cfg l) /\
    spec_max (root_set_level cfg l) = fold_right N.max l (map l_level (c_loggers cfg)).
Proof. exact root_set_level_spec. Qed.
Print Assumptions C02_post_build_root_level_counts.

(* ---- non-vacuity ---- *)
(* quiet root, verbose grandchild below an implied intermediate *)
Definition ex_quiet : config :=
  {| c_appenders := [bs "A"; bs "B"]; c_root_level := 1%N; c_root_apps := [bs "A"];
     c_loggers := [ {| l_name := bs "a::b"; l_level := 5%N; l_additive := true; l_apps := [bs "B"] |};
                    {| l_name := bs "c";    l_level := 0%N; l_additive := false; l_apps := [] |} ] |}.
Definition ex_off : config :=
  {| c_appenders := [bs "A"]; c_root_level := 0%N; c_root_apps := [bs "A"]; c_loggers := [] |}.
Definition ex_loud : config :=
  {| c_appenders := [bs "A"]; c_root_level := 4%N; c_root_apps := [bs "A"];
     c_loggers := [ {| l_name := bs "a"; l_level := 2%N; l_additive := true; l_apps := [] |} ] |}.

Example C02_example_valid : valid ex_quiet /\ Forall valid [ex_off; ex_loud; ex_quiet] .
Proof.
  split; [apply validb_sound; vm_compute; reflexivity|].
  repeat (apply Forall_cons; [apply validb_sound; vm_compute; reflexivity|]). apply Forall_nil.
Qed.

Definition ex_obs (c0 : config) (cs : list config) (T : string) (L : N) :=
  option_map (fun st => (facade_max st, logger_enabled st (bs T) L, macro_log st (bs T) L))
             (run_history c0 cs).

Example C02_example_history :
  (* the max comes from the grandchild, not the root: Trace record for a::b::x arrives *)
  ex_obs ex_quiet [] "a::b::x" 5%N = Some (5%N, true, [1; 0]%nat) /\
  ex_obs ex_quiet [] "a" 2%N = Some (5%N, false, []) /\
  (* down to Off, up to Debug, back to the quiet/verbose one *)
  ex_obs ex_quiet [ex_off] "a::b::x" 1%N = Some (0%N, false, []) /\
  ex_obs ex_quiet [ex_off; ex_loud] "z" 4%N = Some (4%N, true, [0]%nat) /\
  ex_obs ex_quiet [ex_off; ex_loud] "a::q" 3%N = Some (4%N, false, []) /\
  ex_obs ex_quiet [ex_off; ex_loud; ex_quiet] "a::b" 5%N = Some (5%N, true, [1; 0]%nat) /\
  ex_obs ex_quiet [ex_off; ex_loud; ex_quiet] "c::d" 1%N = Some (5%N, false, []).
Proof. vm_compute. repeat split. Qed.

Example C02_example_drop_and_tweak :
  (* Off -> quiet/verbose: a Trace probe from the Drop of ex_off's appender is delivered *)
  option_map (fun st => drop_probe st ex_quiet (bs "a::b") 5%N) (run_history ex_off [])
    = Some (Some [1; 0]%nat) /\
  (* root raised to Trace after build: the global max follows *)
  option_map facade_max (run_history ex_off [root_set_level ex_loud 5%N]) = Some 5%N /\
  option_map facade_max (run_history ex_off [root_set_level ex_loud 0%N]) = Some 2%N.
Proof. vm_compute. repeat split. Qed.
