(* C13 — property theorems only: pinned statement, `exact`, Print Assumptions. *)
From Coq Require Import List NArith Bool.
Import ListNotations.
From L4 Require Import Common.Str Model.ConfigBuild Proofs.ConfigBuild Proofs.ConfigInstall Proofs.ConfigErrors.
From L4 Require Model.Routing.
Local Open Scope N_scope.

(* check_logger_name accepts exactly: non-empty, last character not ':', no three
   consecutive colons, and (on the name padded with a non-colon sentinel at both
   ends) no colon without a colon neighbour — i.e. colons only in pairs. *)
Theorem C13_check_name_spec :
  forall s, check_name s = true <->
    (s <> [] /\
     last s 0 <> colon /\
     (forall pre post, s <> pre ++ colon :: colon :: colon :: post) /\
     (forall pre a b post, 0 :: s ++ [0] = pre ++ a :: colon :: b :: post -> a = colon \/ b = colon)).
Proof. exact check_name_wf. Qed.
Print Assumptions C13_check_name_spec.

(* Lossy building: the configuration is exactly the non-offending items in their
   original order (first occurrence of an appender name wins, loggers with a
   repeated or malformed name dropped, dangling references filtered out), and
   the errors are exactly one per offending item. *)
Theorem C13_lossy_exact :
  forall apps lvl root_refs ls,
    build_lossy apps lvl root_refs ls =
    let names := firsts [] apps in
    ({| c_appenders := names; c_root_level := lvl;
        c_root_apps := filter (resolves names) root_refs;
        c_loggers := fst (spec_loggers names [] ls) |},
     map DuplicateAppenderName (repeats [] apps)
     ++ map NonexistentAppender (filter (fun r => negb (resolves names r)) root_refs)
     ++ snd (spec_loggers names [] ls)).
Proof. exact build_lossy_spec. Qed.
Print Assumptions C13_lossy_exact.

(* Strict building succeeds exactly for well-formed inputs … *)
Theorem C13_build_ok_iff :
  forall apps lvl root_refs ls,
    (exists c, build apps lvl root_refs ls = Some c) <->
    (NoDup apps /\
     NoDup (map lname ls) /\
     Forall (fun l => check_name (lname l) = true) ls /\
     Forall (fun r => In r apps) root_refs /\
     Forall (fun l => Forall (fun r => In r apps) (lapps l)) ls).
Proof. exact build_ok_iff. Qed.
Print Assumptions C13_build_ok_iff.

(* … and then returns the input unchanged. *)
Theorem C13_build_returns_input :
  forall apps lvl root_refs ls c,
    build apps lvl root_refs ls = Some c ->
    c = {| c_appenders := apps; c_root_level := lvl; c_root_apps := root_refs; c_loggers := ls |}.
Proof. exact build_returns_input. Qed.
Print Assumptions C13_build_returns_input.

(* Whatever either path returns is installable: unique appender names, unique
   well-formed logger names, every reference resolves (what Logger::new's map
   index and log's slice index rely on). *)
Theorem C13_result_valid :
  forall apps lvl root_refs ls,
    let c := fst (build_lossy apps lvl root_refs ls) in
    NoDup (c_appenders c) /\
    NoDup (map lname (c_loggers c)) /\
    Forall (fun l => check_name (lname l) = true) (c_loggers c) /\
    Forall (fun r => In r (c_appenders c)) (c_root_apps c) /\
    Forall (fun l => Forall (fun r => In r (c_appenders c)) (lapps l)) (c_loggers c).
Proof. exact result_valid. Qed.
Print Assumptions C13_result_valid.

(* The reported errors (the strict path returns the same list), error by error: an error names an item exactly when
   that item offends - an appender name at a position with an earlier occurrence; a reference (of the root, or of a
   logger that is itself kept: first occurrence of a well-formed name) to a name no appender has; a logger whose
   name occurred before; the first occurrence of a malformed logger name.  No innocent item is ever named, and no
   offending item goes unnamed. *)
Theorem C13_errors_exactly_the_offenders :
  forall apps lvl root_refs ls e,
    In e (snd (build_lossy apps lvl root_refs ls)) <->
    match e with
    | DuplicateAppenderName a => repeated a apps
    | NonexistentAppender r =>
        ~ In r apps /\
        (In r root_refs \/
         exists pre l post, ls = pre ++ l :: post /\ ~ In (lname l) (map lname pre) /\
                            check_name (lname l) = true /\ In r (lapps l))
    | DuplicateLoggerName n => exists pre l post, ls = pre ++ l :: post /\ lname l = n /\ In n (map lname pre)
    | InvalidLoggerName n =>
        exists pre l post, ls = pre ++ l :: post /\ lname l = n /\ ~ In n (map lname pre) /\ check_name n = false
    end.
Proof. exact errors_exactly_the_offenders. Qed.
Print Assumptions C13_errors_exactly_the_offenders.

(* Strict building succeeds exactly when lossy building reports nothing, and then returns the same configuration *)
Theorem C13_strict_iff_lossy_clean :
  forall apps lvl root_refs ls c,
    build apps lvl root_refs ls = Some c <-> build_lossy apps lvl root_refs ls = (c, []).
Proof. exact build_is_lossy_clean. Qed.
Print Assumptions C13_strict_iff_lossy_clean.

(* The lossy result is a fixed point: it passes the strict path unchanged *)
Theorem C13_lossy_result_passes_strict :
  forall apps lvl root_refs ls,
    let c := fst (build_lossy apps lvl root_refs ls) in
    build (c_appenders c) (c_root_level c) (c_root_apps c) (c_loggers c) = Some c.
Proof. exact lossy_result_passes_strict. Qed.
Print Assumptions C13_lossy_result_passes_strict.

(* "any configuration returned by either path can be installed": C01's model of SharedLogger::new (Routing.build,
   None = the appender map is indexed with a name it does not hold, a panic in the code) succeeds on it *)
Theorem C13_returned_config_installs :
  forall apps lvl root_refs ls,
    (exists t, Routing.build (to_routing (fst (build_lossy apps lvl root_refs ls))) = Some t) /\
    (forall c, build apps lvl root_refs ls = Some c -> exists t, Routing.build (to_routing c) = Some t).
Proof. intros apps lvl root_refs ls. split; [apply lossy_result_installs|intros c; apply strict_result_installs]. Qed.
Print Assumptions C13_returned_config_installs.

(* Non-vacuity / regression examples *)
Example C13_names :
  map check_name [[97]; [97;58;58;98]; [58;58;97]; []; [58;58]; [97;58;58]; [97;58;98]; [97;58;58;58;98];
                  [97;58;58;58;58;98]; [58;97]]
  = [true; true; true; false; false; false; false; false; false; false].
Proof. vm_compute. reflexivity. Qed.

Example C13_lossy_example :
  let lg n a := {| lname := n; llevel := 3; lapps := a; ladditive := true |} in
  build_lossy [[97]; [98]; [97]] 2 [[98]; [99]] [lg [120] [[97]; [122]]; lg [120] []; lg [58] [[97]]; lg [121] [[98]]]
  = ({| c_appenders := [[97]; [98]]; c_root_level := 2; c_root_apps := [[98]];
        c_loggers := [lg [120] [[97]]; lg [121] [[98]]] |},
     [DuplicateAppenderName [97]; NonexistentAppender [99]; NonexistentAppender [122];
      DuplicateLoggerName [120]; InvalidLoggerName [58]]).
Proof. vm_compute. reflexivity. Qed.

(* the errors of the example above, read through C13_errors_exactly_the_offenders: [97] is repeated, [99] and [122]
   name no appender ([122] is referenced by the KEPT first logger [120]), the second [120] repeats a name, [58] is
   malformed; and the lossy result installs *)
Example C13_errors_example :
  let lg n a := {| lname := n; llevel := 3; lapps := a; ladditive := true |} in
  repeated [97] [[97]; [98]; [97]] /\ ~ repeated [98] [[97]; [98]; [97]] /\
  Routing.build (to_routing (fst (build_lossy [[97]; [98]; [97]] 2 [[98]; [99]]
                   [lg [120] [[97]; [122]]; lg [120] []; lg [58] [[97]]; lg [121] [[98]]]))) <> None.
Proof.
  cbv zeta. split; [exists [[97]; [98]], []; split; [reflexivity|left; reflexivity]|]. split.
  - intros (pre & post & E & H). destruct pre as [|a [|b [|c pre]]]; cbn in E; inversion E; subst; cbn in H; try tauto.
    + destruct H as [H|[]]; discriminate.
    + destruct pre; discriminate.
  - vm_compute. discriminate.
Qed.
