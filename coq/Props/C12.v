(* C12 — property theorems only: pinned statement, `exact`, Print Assumptions.
   Model: Model/Json.v (serde_json's escaping and log4rs' Message layout);
   spec: the independent JSON reader of Proofs/Json.v (unescape, lex, parse_line). *)
From Coq Require Import List NArith Bool.
Import ListNotations.
From L4 Require Import Model.Json Proofs.Json Proofs.JsonStream Proofs.JsonUtf8.
Local Open Scope N_scope.

(* Escaping is inverted exactly by a general JSON string reader, for every byte string. *)
Theorem C12_unescape_escape : forall s : bytes, unescape (escape s) = Some s.
Proof. exact unescape_escape. Qed.
Print Assumptions C12_unescape_escape.

(* No raw control byte (in particular no raw newline) inside an escaped string ... *)
Theorem C12_no_control_bytes : forall (s : bytes) (b : N), In b (escape s) -> 32 <= b.
Proof. exact escape_ge32. Qed.
Print Assumptions C12_no_control_bytes.

(* ... and no quote other than as the second byte of a backslash pair. *)
Theorem C12_no_bare_quote : forall s : bytes, no_bare_quote (escape s) = true.
Proof. exact escape_no_bare_quote. Qed.
Print Assumptions C12_no_bare_quote.

(* The emitted line reads back, with an independent lexer/parser, as ONE object whose
   members are exactly the record's fields, in arbitrary bytes, for any MDC. *)
Theorem C12_object_roundtrip : forall r : record, parse_line (encode_record r) = Some (fields_of r).
Proof. exact object_roundtrip. Qed.
Print Assumptions C12_object_roundtrip.

(* Absent module path / file / line are absent from the parsed object (no placeholder
   member), present ones are present with their value; nothing else is added. *)
Theorem C12_optionals_exact :
  forall r : record,
  exists ms, parse_line (encode_record r) = Some ms
    /\ lookup k_module_path ms = option_map JStr (r_module r)
    /\ lookup k_file ms = option_map JStr (r_file r)
    /\ lookup k_line ms = option_map JNum (r_line r)
    /\ length ms = (7 + (if r_module r then 1 else 0) + (if r_file r then 1 else 0)
                      + (if r_line r then 1 else 0))%nat.
Proof. exact optionals_exact. Qed.
Print Assumptions C12_optionals_exact.

(* One record = one line: the output is a body without any byte < 0x20 followed by
   exactly one newline. *)
Theorem C12_one_line :
  forall r : record,
  exists body, encode_record r = body ++ [10] /\ (forall b, In b body -> 32 <= b).
Proof. exact one_line. Qed.
Print Assumptions C12_one_line.

Theorem C12_one_newline : forall r : record, count_occ N.eq_dec (encode_record r) 10 = 1%nat.
Proof. exact one_newline. Qed.
Print Assumptions C12_one_newline.

(* Over a HISTORY: the sink after any list of records, cut at newlines by a line reader, is
   exactly one line per record, in order, with nothing left over, and each line parses to
   that record's fields - no field content forges, merges or splits a line. *)
Theorem C12_stream_roundtrip :
  forall rs : list record,
    split_lines (stream rs) = (map message_object rs, [])
    /\ read_stream (stream rs) = Some (map fields_of rs).
Proof. exact (fun rs => conj (stream_lines rs) (stream_roundtrip rs)). Qed.
Print Assumptions C12_stream_roundtrip.

(* Every byte prefix of the sink (crash, torn write, full disk): the complete lines are the
   lines of the first k records, and the tail is a proper prefix of record k's line (or empty
   when nothing follows); every complete line parses to its record. *)
Theorem C12_stream_prefix :
  forall (rs : list record) (n : nat),
  exists k,
    (k <= length rs)%nat /\
    fst (split_lines (firstn n (stream rs))) = map message_object (firstn k rs) /\
    match nth_error rs k with
    | Some r => proper_prefix (snd (split_lines (firstn n (stream rs)))) (encode_record r)
    | None => snd (split_lines (firstn n (stream rs))) = []
    end.
Proof. exact stream_prefix. Qed.
Print Assumptions C12_stream_prefix.

Theorem C12_prefix_lines_parse :
  forall (rs : list record) (n : nat),
  exists k, parse_all (fst (split_lines (firstn n (stream rs)))) = Some (map fields_of (firstn k rs)).
Proof. exact prefix_lines_parse. Qed.
Print Assumptions C12_prefix_lines_parse.

(* "Arbitrary Unicode": escaping is transparent to the UTF-8 automaton (Rust's str validity: no
   overlong forms, no surrogates, nothing above U+10FFFF) from EVERY state - it never splits, drops
   or damages a multi-byte character - so text is well-formed UTF-8 exactly when its escaped form is,
   and the line of a record whose strings are well-formed UTF-8 is well-formed UTF-8. *)
Theorem C12_escaping_is_transparent_to_utf8 :
  forall (s : bytes) (st : ust), urun st (escape s) = urun st s.
Proof. exact urun_escape. Qed.
Print Assumptions C12_escaping_is_transparent_to_utf8.

Theorem C12_line_is_utf8 :
  forall r : record, record_utf8 r -> utf8 (encode_record r).
Proof. exact line_is_utf8. Qed.
Print Assumptions C12_line_is_utf8.

(* Non-vacuity: a record whose message is  a QUOTE b BACKSLASH c LF 0x01 DEL  with a quote
   in an MDC key, absent module/file, line 7, unnamed thread. *)
Definition ex_record : record :=
  {| r_time := [50; 48]; r_level := Warn; r_message := [97; 34; 98; 92; 99; 10; 1; 127];
     r_module := None; r_file := None; r_line := Some 7; r_target := [116];
     r_thread := None; r_thread_id := 140; r_mdc := [([107; 34], [13; 10]); ([], [226; 128; 168])] |}.

Example C12_example_bytes :
  encode_record ex_record =
  [123; 34;116;105;109;101;34; 58; 34;50;48;34; 44;
   34;108;101;118;101;108;34; 58; 34;87;65;82;78;34; 44;
   34;109;101;115;115;97;103;101;34; 58;
     34; 97; 92;34; 98; 92;92; 99; 92;110; 92;117;48;48;48;49; 127; 34; 44;
   34;108;105;110;101;34; 58; 55; 44;
   34;116;97;114;103;101;116;34; 58; 34;116;34; 44;
   34;116;104;114;101;97;100;34; 58; 110;117;108;108; 44;
   34;116;104;114;101;97;100;95;105;100;34; 58; 49;52;48; 44;
   34;109;100;99;34; 58; 123; 34;107;92;34;34; 58; 34;92;114;92;110;34; 44;
                              34;34; 58; 34;226;128;168;34; 125; 125; 10].
Proof. vm_compute. reflexivity. Qed.

Example C12_example_parse :
  parse_line (encode_record ex_record) =
  Some [ (k_time, JStr [50; 48]); (k_level, JStr [87; 65; 82; 78]);
         (k_message, JStr [97; 34; 98; 92; 99; 10; 1; 127]); (k_line, JNum 7);
         (k_target, JStr [116]); (k_thread, JNull); (k_thread_id, JNum 140);
         (k_mdc, JMap [([107; 34], [13; 10]); ([], [226; 128; 168])]) ].
Proof. vm_compute. reflexivity. Qed.

(* the reader is not trivially permissive: a raw newline inside a string, a bare quote,
   or a placeholder-free but truncated line are all rejected *)
Example C12_example_rejects :
  parse_line [123; 34; 97; 10; 34; 58; 49; 125; 10] = None
  /\ unescape [97; 34; 98] = None
  /\ parse_line [123; 34; 97; 34; 58; 49; 125] = None
  /\ parse_line [123; 34; 97; 34; 58; 49; 125; 10; 10] = None.
Proof. vm_compute. repeat split. Qed.
