(* C01 — property theorems only: pinned statement, `exact`, Print Assumptions. *)
From Coq Require Import List NArith Bool Permutation.
Import ListNotations.
From L4 Require Import Model.Routing Proofs.Routing.

(* `add` splits with repeated find("::"), `find` with split("::"): the two agree
   on every name that does not end in "::" *)
Theorem C01_split_add_agree :
  forall n, last (split_cc n) [] <> [] -> add_parts n = split_cc n.
Proof. exact add_parts_split. Qed.
Print Assumptions C01_split_add_agree.
