(* C01 — property theorems only: pinned statement, `exact`, Print Assumptions.
   Vocabulary (Proofs/Routing.v, Proofs/RoutingExtra.v):
     build cfg            the tree SharedLogger::new builds (None = it would panic)
     deliver t T L        appender indices whose `append` Log::log calls, in call order
     split_cc T           components of T as `str::split("::")` yields them
     lpath lg             = split_cc (l_name lg);  is_prefix = component-wise prefix
     eff cfg T            effective logger (None = root);  spec_level / spec_chain / spec_deliver:
                          threshold, attachment chain (appender NAMES) and prescribed deliveries
     chain_members cfg T  effective logger, then its additive configured ancestors, root last
     valid cfg            distinct logger names not ending in "::", every appender reference declared *)
From Coq Require Import String.
From Coq Require Import List NArith Bool Permutation.
Import ListNotations.
From L4 Require Import Model.Routing Proofs.Routing Proofs.RoutingExtra.

(* MAIN: for every valid configuration the real construction succeeds and every
   (target, level) is delivered to exactly the prescribed list of appenders:
   list equality - one delivery per attachment, in chain order, nobody else. *)
Theorem C01_routing_correct :
  forall cfg, valid cfg ->
    exists t, build cfg = Some t /\
      forall target L, map (name_of cfg) (deliver t target L) = spec_deliver cfg target L.
Proof. exact routing_correct. Qed.
Print Assumptions C01_routing_correct.

(* what is prescribed: the chain iff the effective threshold admits the level *)
Theorem C01_prescribed_iff_threshold :
  forall cfg target L,
    spec_deliver cfg target L =
    if N.leb L (spec_level cfg target) then spec_chain cfg target else [].
Proof. intros; reflexivity. Qed.
Print Assumptions C01_prescribed_iff_threshold.

(* the effective logger is THE configured logger whose component list is the
   longest component-wise prefix of the target's; none exists = root *)
Theorem C01_effective_is_longest_component_prefix :
  forall cfg q,
    NoDup (map l_name (c_loggers cfg)) ->
    match eff_at cfg q with
    | Some lg =>
      In lg (c_loggers cfg) /\ is_prefix (lpath lg) q = true /\
      (forall lg', In lg' (c_loggers cfg) -> is_prefix (lpath lg') q = true ->
                   length (lpath lg') <= length (lpath lg) /\
                   (length (lpath lg') = length (lpath lg) -> lg' = lg))
    | None => forall lg, In lg (c_loggers cfg) -> is_prefix (lpath lg) q = false
    end.
Proof. exact eff_at_longest. Qed.
Print Assumptions C01_effective_is_longest_component_prefix.

(* threshold = the effective logger's level (root's when none); chain = its own
   attachments followed - iff it is additive - by the chain of its parent name,
   i.e. of the nearest configured proper ancestor, ..., ending at the root *)
Theorem C01_level_and_chain_by_effective_logger :
  forall cfg q,
    level_at cfg q =
      match eff_at cfg q with Some lg => l_level lg | None => c_root_level cfg end
    /\ chain_at cfg q =
      match eff_at cfg q with
      | Some lg => l_apps lg ++ (if l_additive lg then chain_at cfg (removelast (lpath lg)) else [])
      | None => c_root_apps cfg
      end.
Proof. exact settings_by_eff. Qed.
Print Assumptions C01_level_and_chain_by_effective_logger.

Theorem C01_target_enters_through_its_components :
  forall cfg T, spec_level cfg T = level_at cfg (split_cc T)
             /\ spec_chain cfg T = chain_at cfg (split_cc T)
             /\ eff cfg T = eff_at cfg (split_cc T).
Proof. intros; repeat split. Qed.
Print Assumptions C01_target_enters_through_its_components.

(* the chain as members: effective logger, additive ancestors, root *)
Theorem C01_chain_members :
  forall cfg q,
    members_at cfg q =
    match eff_at cfg q with
    | Some lg => MLogger lg :: (if l_additive lg then members_at cfg (removelast (lpath lg)) else [])
    | None => [MRoot]
    end.
Proof. exact members_by_eff. Qed.
Print Assumptions C01_chain_members.

(* each attachment along the chain = exactly one delivery, no other appender *)
Theorem C01_one_delivery_per_attachment :
  forall cfg t, valid cfg -> build cfg = Some t ->
    forall T L a,
      count_occ str_dec (map (name_of cfg) (deliver t T L)) a =
      if N.leb L (spec_level cfg T)
      then list_sum (map (fun m => count_occ str_dec (m_apps cfg m) a) (chain_members cfg T))
      else 0.
Proof. exact delivered_counts. Qed.
Print Assumptions C01_one_delivery_per_attachment.

Theorem C01_delivered_exactly_when :
  forall cfg t, valid cfg -> build cfg = Some t ->
    forall T L a,
      In a (map (name_of cfg) (deliver t T L)) <->
      (L <= spec_level cfg T)%N /\ exists m, In m (chain_members cfg T) /\ In a (m_apps cfg m).
Proof. exact delivered_iff. Qed.
Print Assumptions C01_delivered_exactly_when.

(* whatever lies below the effective logger - implied intermediates, unknown
   descendants, textual look-alikes of a sibling - changes nothing *)
Theorem C01_decided_by_effective_logger :
  forall cfg T,
    NoDup (map l_name (c_loggers cfg)) ->
    match eff cfg T with
    | Some lg => forall L, spec_deliver cfg T L = spec_deliver cfg (l_name lg) L
    | None => forall L, spec_deliver cfg T L =
                        if N.leb L (c_root_level cfg) then c_root_apps cfg else []
    end.
Proof. exact spec_decided_by_eff. Qed.
Print Assumptions C01_decided_by_effective_logger.

Theorem C01_implied_intermediates_transparent :
  forall cfg t, valid cfg -> build cfg = Some t ->
    forall T T' c,
      split_cc T = split_cc T' ++ [c] ->
      logger_at (c_loggers cfg) (split_cc T) = None ->
      forall L, map (name_of cfg) (deliver t T L) = map (name_of cfg) (deliver t T' L)
                /\ enabled_at t T L = enabled_at t T' L.
Proof. exact implied_transparent. Qed.
Print Assumptions C01_implied_intermediates_transparent.

(* declaration order of loggers and of appenders is irrelevant *)
Theorem C01_declaration_order_independent :
  forall c1 c2, valid c1 ->
    Permutation (c_loggers c1) (c_loggers c2) ->
    Permutation (c_appenders c1) (c_appenders c2) ->
    c_root_level c1 = c_root_level c2 -> c_root_apps c1 = c_root_apps c2 ->
    exists t1 t2, build c1 = Some t1 /\ build c2 = Some t2 /\
      forall target L,
        map (name_of c1) (deliver t1 target L) = map (name_of c2) (deliver t2 target L)
        /\ spec_deliver c1 target L = spec_deliver c2 target L.
Proof. exact routing_order_independent. Qed.
Print Assumptions C01_declaration_order_independent.

(* `add` splits with repeated find("::"), `find` with split("::"): the two agree
   on every name that does not end in "::"; names accepted by
   check_logger_name are such names *)
Theorem C01_split_add_agree :
  forall n, last (split_cc n) [] <> [] -> add_parts n = split_cc n.
Proof. exact add_parts_split. Qed.
Print Assumptions C01_split_add_agree.

Theorem C01_accepted_names_usable :
  forall n, check_logger_name n = true -> last (split_cc n) [] <> [].
Proof. exact checked_name_ok. Qed.
Print Assumptions C01_accepted_names_usable.

(* ---- non-vacuity: a concrete configuration, declared children first ---- *)
Definition ex_abc := {| l_name := bs "a::b::c"; l_level := 5%N; l_additive := true;  l_apps := [bs "C"; bs "C"] |}.
Definition ex_abx := {| l_name := bs "a::bx";   l_level := 1%N; l_additive := false; l_apps := [bs "C"] |}.
Definition ex_x   := {| l_name := bs "x";       l_level := 0%N; l_additive := true;  l_apps := [bs "B"] |}.
Definition ex_a   := {| l_name := bs "a";       l_level := 3%N; l_additive := true;  l_apps := [bs "B"] |}.
Definition ex_loggers : list logger := [ex_abc; ex_abx; ex_x; ex_a].
Definition ex_cfg : config :=
  {| c_appenders := [bs "A"; bs "B"; bs "C"]; c_root_level := 2%N; c_root_apps := [bs "A"];
     c_loggers := ex_loggers |}.
Definition ex_cfg' : config :=
  {| c_appenders := [bs "C"; bs "A"; bs "B"]; c_root_level := 2%N; c_root_apps := [bs "A"];
     c_loggers := rev ex_loggers |}.
Definition ex_out (cfg : config) (T : string) (L : N) : option (list str) :=
  option_map (fun t => map (name_of cfg) (deliver t (bs T) L)) (build cfg).

Example C01_example_valid : valid ex_cfg /\ valid ex_cfg'.
Proof. split; apply validb_sound; vm_compute; reflexivity. Qed.

Example C01_example_routes :
  (* additive chain through the implied a::b up to the root; C attached twice *)
  ex_out ex_cfg "a::b::c::d" 5 = Some [bs "C"; bs "C"; bs "B"; bs "A"] /\
  (* implied intermediate a::b behaves as a (level Info) *)
  ex_out ex_cfg "a::b" 4 = Some [] /\ ex_out ex_cfg "a::b" 3 = Some [bs "B"; bs "A"] /\
  (* textual but not component prefix: a::bxy and a::b: are NOT under a::bx / a::b *)
  ex_out ex_cfg "a::bxy" 3 = Some [bs "B"; bs "A"] /\
  ex_out ex_cfg "a::bx::y" 1 = Some [bs "C"] /\ ex_out ex_cfg "a::bx::y" 2 = Some [] /\
  ex_out ex_cfg "a::b:::c" 4 = Some [] /\ ex_out ex_cfg "a::b:::c" 3 = Some [bs "B"; bs "A"] /\
  (* root, empty target, stray colons, Off *)
  ex_out ex_cfg "" 2 = Some [bs "A"] /\ ex_out ex_cfg "ax" 3 = Some [] /\
  ex_out ex_cfg "::a" 2 = Some [bs "A"] /\ ex_out ex_cfg "x::y" 1 = Some [] /\
  (* same answers when loggers and appenders are declared in another order *)
  forallb (fun T => forallb (fun L =>
      match ex_out ex_cfg T L, ex_out ex_cfg' T L with
      | Some a, Some b => if list_eq_dec str_dec a b then true else false
      | _, _ => false end) [1;2;3;4;5]%N)
    ["a::b::c::d"; "a::b::c"; "a::b"; "a"; "a::bx"; "a::bxy"; "x"; ""; "::"; "a::"; "b"]%string = true.
Proof. vm_compute. repeat split. Qed.

Example C01_example_effective :
  eff ex_cfg (bs "a::b::c::d") = Some ex_abc /\
  eff ex_cfg (bs "a::b::cc") = Some ex_a /\
  eff ex_cfg (bs "a::bx") = Some ex_abx /\
  eff ex_cfg (bs "a::bxy") = Some ex_a /\
  eff ex_cfg (bs "ab") = None /\
  chain_members ex_cfg (bs "a::b::c") = [MLogger ex_abc; MLogger ex_a; MRoot] /\
  chain_members ex_cfg (bs "a::bx::q") = [MLogger ex_abx].
Proof. vm_compute. repeat split. Qed.
