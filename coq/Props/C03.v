(* C03 — property theorems only: pinned statement, `exact`, Print Assumptions. *)
From Coq Require Import List NArith Bool.
Import ListNotations.
From L4 Require Import Model.Filters Proofs.Filters.
Local Open Scope N_scope.

(* The filter loop consults exactly the prefix up to and including the first
   non-Neutral filter and delivers iff that filter says Accept (or none exists). *)
Theorem C03_chain_first_decisive :
  forall a k fs L,
    chain a k fs L = (map (Consult a) (seq k (consulted fs L)), delivered fs L).
Proof. exact chain_spec. Qed.
Print Assumptions C03_chain_first_decisive.

Theorem C03_first_decisive_position :
  forall fs1 f fs2 L,
    (forall g, In g fs1 -> filt_resp g L = Neutral) ->
    filt_resp f L <> Neutral ->
    delivered (fs1 ++ f :: fs2) L = (match filt_resp f L with Accept => true | _ => false end)
    /\ consulted (fs1 ++ f :: fs2) L = S (length fs1).
Proof. exact first_decisive. Qed.
Print Assumptions C03_first_decisive_position.

Theorem C03_all_neutral_delivers :
  forall fs L, (forall f, In f fs -> filt_resp f L = Neutral) ->
               delivered fs L = true /\ consulted fs L = length fs.
Proof. exact all_neutral_delivers. Qed.
Print Assumptions C03_all_neutral_delivers.

Theorem C03_threshold_exact :
  forall t L, (filt_resp (Threshold t) L = Reject <-> t < L)
           /\ (filt_resp (Threshold t) L = Neutral <-> L <= t).
Proof. intros t L; split; [exact (threshold_reject_iff t L)|exact (threshold_neutral_iff t L)]. Qed.
Print Assumptions C03_threshold_exact.

(* What appender a observes in any fan-out depends on its own chain only: one
   copy of its single-appender events per attachment, whatever the other
   appenders (their filters, their failures) are. *)
Theorem C03_fanout_isolated :
  forall apps attached L a,
    filter (about a) (fst (fan apps attached L)) =
    concat (map (fun i => if Nat.eqb a i
                          then single_events a (nth a apps dummy_app) L else [])
                attached).
Proof. exact fan_isolated. Qed.
Print Assumptions C03_fanout_isolated.

Theorem C03_fanout_independent_of_others :
  forall apps apps' attached L a,
    nth a apps dummy_app = nth a apps' dummy_app ->
    filter (about a) (fst (fan apps attached L)) =
    filter (about a) (fst (fan apps' attached L)).
Proof. exact fan_isolated_indep. Qed.
Print Assumptions C03_fanout_independent_of_others.

(* The handler is called once per failing delivery, in attachment order, and
   for nothing else. *)
Theorem C03_errors_reported_once :
  forall lvl apps attached L,
    filter is_handler (log_record lvl apps attached L) =
    if L <=? lvl then
      map Handler (filter (fun i => delivered (filters (nth i apps dummy_app)) L
                                    && fails (nth i apps dummy_app)) attached)
    else [].
Proof. exact handlers_exact. Qed.
Print Assumptions C03_errors_reported_once.

(* Non-vacuity: a concrete mixed scenario. *)
Example C03_example :
  log_record 3
    [ {| filters := [Scripted Neutral; Threshold 2; Scripted Accept]; fails := true |};
      {| filters := [Scripted Reject; Scripted Accept]; fails := true |};
      {| filters := []; fails := true |} ]
    [0; 1; 2; 0]%nat 2
  = [Consult 0 0; Consult 0 1; Consult 0 2; Deliver 0; Consult 1 0; Deliver 2;
     Consult 0 0; Consult 0 1; Consult 0 2; Deliver 0;
     Handler 0; Handler 2; Handler 0]%nat.
Proof. vm_compute. reflexivity. Qed.

(* ---------- re-entrant, unwinding and concurrent histories ---------- *)

(* Composition law, one level: a log call during which user code (an Append
   inside append(), the error handler) logs again produces the events of the
   plain single call (log_record, to which all theorems above apply) with the
   nested activity spliced in right after the Deliver / Handler event that
   triggered it — whatever that nested activity is. *)
Theorem C03_reentrant_composition :
  forall apps id ia ih lvl attached L,
    log_record_r apps id ia ih lvl attached L = nest id ia ih (log_record lvl apps attached L).
Proof. exact log_record_r_nest. Qed.
Print Assumptions C03_reentrant_composition.

(* ... and for whole call trees: the trace of a re-entrant history is the
   nesting (weave) of the single-call event lists of its calls. *)
Theorem C03_reentrant_weave :
  forall apps nodes c, run apps nodes c = weave apps nodes c.
Proof. exact run_weave. Qed.
Print Assumptions C03_reentrant_weave.

(* Erasure: the events observed on a record inside a re-entrant history are
   exactly those of the non-re-entrant call, so receipt is decided by the
   appender's own chain and each error reaches the handler exactly once, no
   matter which appender or handler was running when the call was made
   (apply to any subtree: nested calls are calls). *)
Theorem C03_reentrant_erasure :
  forall apps nodes id bh ba nd L panics kids,
    ~ In id (concat (map ids kids)) ->
    events_of id (run apps nodes (Call id bh ba nd L panics kids)) =
    log_record (node_level nodes nd) apps (node_att nodes nd) L.
Proof. exact reentrant_erasure. Qed.
Print Assumptions C03_reentrant_erasure.

Theorem C03_reentrant_receipt :
  forall apps nodes id bh ba nd L panics kids b,
    ~ In id (concat (map ids kids)) ->
    (In (Ev id (Deliver b)) (run apps nodes (Call id bh ba nd L panics kids)) <->
     (L <=? node_level nodes nd) = true /\ In b (node_att nodes nd) /\
     delivered (filters (nth b apps dummy_app)) L = true).
Proof. exact reentrant_receipt. Qed.
Print Assumptions C03_reentrant_receipt.

Theorem C03_reentrant_errors_reported_once :
  forall apps nodes id bh ba nd L panics kids,
    ~ In id (concat (map ids kids)) ->
    filter is_handler (events_of id (run apps nodes (Call id bh ba nd L panics kids))) =
    if L <=? node_level nodes nd then
      map Handler (filter (fun i => delivered (filters (nth i apps dummy_app)) L
                                    && fails (nth i apps dummy_app)) (node_att nodes nd))
    else [].
Proof. exact reentrant_errors_once. Qed.
Print Assumptions C03_reentrant_errors_reported_once.

(* Unwinding: a top-level call's observable is a prefix of its panic-free trace
   ending at the panic; without panics it is the whole trace; the next
   top-level call of the thread is an ordinary call (run_seq is a plain
   concatenation: nothing is left behind). *)
Theorem C03_unwind_prefix :
  forall apps nodes c,
    (exists r, run apps nodes c = run_top apps nodes c ++ r) /\
    (forall i, In (Unwind i) (run_top apps nodes c) ->
       exists p, run_top apps nodes c = p ++ [Unwind i] /\ forall j, ~ In (Unwind j) p) /\
    (pfree c = true -> run_top apps nodes c = run apps nodes c).
Proof.
  intros apps nodes c. split; [apply cut_prefix|split; [apply cut_unwind_last|apply run_top_pfree]].
Qed.
Print Assumptions C03_unwind_prefix.

Theorem C03_after_unwind_ordinary :
  forall apps nodes c cs,
    run_seq apps nodes (c :: cs) = run_top apps nodes c ++ run_seq apps nodes cs.
Proof. exact run_seq_cons. Qed.
Print Assumptions C03_after_unwind_ordinary.

(* Threads: in ANY interleaving of two threads' traces each thread's events are
   those of its own sequential run (hence C03_errors_reported_once etc. hold per
   call regardless of what runs concurrently); the harness's rendezvous
   schedule is one such interleaving. *)
Theorem C03_concurrent_isolated :
  forall apps nodes cs1 cs2 m,
    (forall i, In i (concat (map ids cs1)) -> ~ In i (concat (map ids cs2))) ->
    merge (run_seq apps nodes cs1) (run_seq apps nodes cs2) m ->
    filter (mem (concat (map ids cs2))) m = run_seq apps nodes cs2 /\
    filter (mem (concat (map ids cs1))) m = run_seq apps nodes cs1.
Proof. exact concurrent_isolated. Qed.
Print Assumptions C03_concurrent_isolated.

Theorem C03_sched_is_interleaving :
  forall ev1 ev2, merge ev1 ev2 (sched ev1 ev2).
Proof. exact sched_merge. Qed.
Print Assumptions C03_sched_is_interleaving.

(* Non-vacuity: appender 0 (failing) logs record 2 to node 1 = {appender 1}
   from inside append(); the handler, given appender 0's error on record 1,
   logs record 3 which fails again at appender 0 (and is reported once). *)
Example C03_reentrant_example :
  run [ {| filters := [Scripted Neutral]; fails := true |};
        {| filters := [Threshold 3]; fails := false |} ]
      [ (5, [0; 1]%nat); (5, [1]%nat); (5, [0]%nat) ]
      (Call 1 false 0 0 2 []
         [Call 2 false 0 1 3 [] []; Call 3 true 0 2 1 [] []])
  = [Ev 1 (Consult 0 0); Ev 1 (Deliver 0);
       Ev 2 (Consult 1 0); Ev 2 (Deliver 1);
     Ev 1 (Consult 1 0); Ev 1 (Deliver 1);
     Ev 1 (Handler 0);
       Ev 3 (Consult 0 0); Ev 3 (Deliver 0); Ev 3 (Handler 0)].
Proof. vm_compute. reflexivity. Qed.

Example C03_unwind_example :
  run_seq [ {| filters := []; fails := false |}; {| filters := []; fails := false |} ]
          [ (5, [0; 1]%nat) ]
          [Call 1 false 0 0 2 [0%nat] []; Call 2 false 0 0 2 [] []]
  = [Ev 1 (Deliver 0); Unwind 1; Ev 2 (Deliver 0); Ev 2 (Deliver 1)].
Proof. vm_compute. reflexivity. Qed.
