(* C03 — property theorems only: pinned statement, `exact`, Print Assumptions. *)
From Coq Require Import List NArith Bool.
Import ListNotations.
From L4 Require Import Model.Filters Proofs.Filters.
Local Open Scope N_scope.

(* The filter loop consults exactly the prefix up to and including the first
   non-Neutral filter and delivers iff that filter says Accept (or none exists). *)
Theorem C03_chain_first_decisive :
  forall a k fs L,
    chain a k fs L = (map (Consult a) (seq k (consulted fs L)), delivered fs L).
Proof. exact chain_spec. Qed.
Print Assumptions C03_chain_first_decisive.

Theorem C03_first_decisive_position :
  forall fs1 f fs2 L,
    (forall g, In g fs1 -> filt_resp g L = Neutral) ->
    filt_resp f L <> Neutral ->
    delivered (fs1 ++ f :: fs2) L = (match filt_resp f L with Accept => true | _ => false end)
    /\ consulted (fs1 ++ f :: fs2) L = S (length fs1).
Proof. exact first_decisive. Qed.
Print Assumptions C03_first_decisive_position.

Theorem C03_all_neutral_delivers :
  forall fs L, (forall f, In f fs -> filt_resp f L = Neutral) ->
               delivered fs L = true /\ consulted fs L = length fs.
Proof. exact all_neutral_delivers. Qed.
Print Assumptions C03_all_neutral_delivers.

Theorem C03_threshold_exact :
  forall t L, (filt_resp (Threshold t) L = Reject <-> t < L)
           /\ (filt_resp (Threshold t) L = Neutral <-> L <= t).
Proof. intros t L; split; [exact (threshold_reject_iff t L)|exact (threshold_neutral_iff t L)]. Qed.
Print Assumptions C03_threshold_exact.

(* What appender a observes in any fan-out depends on its own chain only: one
   copy of its single-appender events per attachment, whatever the other
   appenders (their filters, their failures) are. *)
Theorem C03_fanout_isolated :
  forall apps attached L a,
    filter (about a) (fst (fan apps attached L)) =
    concat (map (fun i => if Nat.eqb a i
                          then single_events a (nth a apps dummy_app) L else [])
                attached).
Proof. exact fan_isolated. Qed.
Print Assumptions C03_fanout_isolated.

Theorem C03_fanout_independent_of_others :
  forall apps apps' attached L a,
    nth a apps dummy_app = nth a apps' dummy_app ->
    filter (about a) (fst (fan apps attached L)) =
    filter (about a) (fst (fan apps' attached L)).
Proof. exact fan_isolated_indep. Qed.
Print Assumptions C03_fanout_independent_of_others.

(* The handler is called once per failing delivery, in attachment order, and
   for nothing else. *)
Theorem C03_errors_reported_once :
  forall lvl apps attached L,
    filter is_handler (log_record lvl apps attached L) =
    if L <=? lvl then
      map Handler (filter (fun i => delivered (filters (nth i apps dummy_app)) L
                                    && fails (nth i apps dummy_app)) attached)
    else [].
Proof. exact handlers_exact. Qed.
Print Assumptions C03_errors_reported_once.

(* Non-vacuity: a concrete mixed scenario. *)
Example C03_example :
  log_record 3
    [ {| filters := [Scripted Neutral; Threshold 2; Scripted Accept]; fails := true |};
      {| filters := [Scripted Reject; Scripted Accept]; fails := true |};
      {| filters := []; fails := true |} ]
    [0; 1; 2; 0]%nat 2
  = [Consult 0 0; Consult 0 1; Consult 0 2; Deliver 0; Consult 1 0; Deliver 2;
     Consult 0 0; Consult 0 1; Consult 0 2; Deliver 0;
     Handler 0; Handler 2; Handler 0]%nat.
Proof. vm_compute. reflexivity. Qed.
