(* C07 — property theorems only: pinned statement, `exact`, Print Assumptions. *)
From Coq Require Import List NArith Bool.
Import ListNotations.
From L4 Require Import Common.FSModel Model.Window Model.Subst Proofs.Window Proofs.Subst.
From L4 Require Model.PathExt Proofs.PathExt.

(* After any number n of rolls (contents f1..fn, each written to `file` and rolled),
   whatever the directory held initially (old archives, gaps, bystanders):
   index b+j holds the (j+1)-th most recently rolled content for j < min n c; the
   other window positions hold nothing or an initial archive that never moved down;
   the rolled file is gone; every other path is untouched. *)
Theorem C07_window_after_rolls :
  forall (name : N -> path) (b c : N) (cm : cmode) (file : path) (contents : list bytes) (f0 : fs),
    (1 <= c)%N -> (b + c <= 4294967296)%N ->
    names_injective name b c -> file_outside name b c file ->
    exists g, rolls name cm b c file contents f0 = Done g /\
      (forall j, j < length contents -> j < N.to_nat c ->
         lookup (name (b + N.of_nat j)%N) g = Some (arch cm (nth j (rev contents) []))) /\
      (forall j, length contents <= j -> j < N.to_nat c ->
         lookup (name (b + N.of_nat j)%N) g = None \/
         exists i, i <= j /\ lookup (name (b + N.of_nat j)%N) g = lookup (name (b + N.of_nat i)%N) f0) /\
      (contents <> [] -> lookup file g = None) /\
      (forall p, p <> file -> (forall j, j < N.to_nat c -> p <> name (b + N.of_nat j)%N) ->
         lookup p g = lookup p f0).
Proof. exact window_after_rolls_x. Qed.
Print Assumptions C07_window_after_rolls.

(* One roll, exactly: base gets the rolled content, every archive moves up by one,
   a gap moves up with them, the top index is overwritten only by its predecessor. *)
Theorem C07_one_roll_exact :
  forall (name : N -> path) (b c : N) (cm : cmode) (file : path) (x : bytes) (f : fs),
    (1 <= c)%N -> (b + c <= 4294967296)%N ->
    names_injective name b c -> file_outside name b c file ->
    lookup file f = Some x ->
    exists g, roll name cm None b c file f = Done g /\
      lookup file g = None /\
      lookup (name b) g = Some (arch cm x) /\
      (forall j, S j < N.to_nat c ->
         lookup (name (b + N.of_nat (S j))%N) g =
           match lookup (name (b + N.of_nat j)%N) f with
           | Some y => Some y
           | None => if Nat.eqb (S (S j)) (N.to_nat c)
                     then lookup (name (b + N.of_nat (S j))%N) f
                     else None
           end) /\
      (forall p, p <> file -> (forall j, j < N.to_nat c -> p <> name (b + N.of_nat j)%N) ->
         lookup p g = lookup p f).
Proof. exact roll_once_x. Qed.
Print Assumptions C07_one_roll_exact.

(* No path outside the rolled file and the c window names is created, modified or
   removed (in particular index b+c and index b-1 are never touched). *)
Theorem C07_bystanders_untouched :
  forall (name : N -> path) (b c : N) (cm : cmode) (file : path) (contents : list bytes) (f0 g : fs) (p : path),
    (1 <= c)%N -> (b + c <= 4294967296)%N ->
    names_injective name b c -> file_outside name b c file ->
    rolls name cm b c file contents f0 = Done g ->
    p <> file -> (forall j, j < N.to_nat c -> p <> name (b + N.of_nat j)%N) ->
    lookup p g = lookup p f0.
Proof. exact bystanders_untouched_x. Qed.
Print Assumptions C07_bystanders_untouched.

(* count = 0 behaves as the delete roller: the file is removed, nothing else changes. *)
Theorem C07_count0_and_delete :
  forall (name : N -> path) (b : N) (cm : cmode) (fault : option nat) (file : path) (f : fs) (x : bytes),
    lookup file f = Some x ->
    roll name cm fault b 0 file f = delete_roll file f /\
    exists g, delete_roll file f = Done g /\ lookup file g = None /\
              forall p, p <> file -> lookup p g = lookup p f.
Proof. exact count0_and_delete. Qed.
Print Assumptions C07_count0_and_delete.

(* Missing archives (any subset of the window absent) never make a roll fail. *)
Theorem C07_gaps_tolerated :
  forall (name : N -> path) (b c : N) (cm : cmode) (file : path) (x : bytes) (f : fs),
    (1 <= c)%N -> (b + c <= 4294967296)%N ->
    names_injective name b c -> file_outside name b c file ->
    lookup file f = Some x ->
    exists g, roll name cm None b c file f = Done g.
Proof. exact gaps_tolerated_x. Qed.
Print Assumptions C07_gaps_tolerated.

(* Without compression a roll succeeds for every directory state whatsoever. *)
Theorem C07_plain_roll_never_fails :
  forall (name : N -> path) (b c : N) (file : path) (f : fs),
    (1 <= c)%N -> (b + c <= 4294967296)%N ->
    exists g, roll name None None b c file f = Done g.
Proof. exact gaps_tolerated_plain. Qed.
Print Assumptions C07_plain_roll_never_fails.

(* The only panic left (debug profile): the top index b+c-1 is not a u32. *)
Theorem C07_panics_iff_top_index_overflows :
  forall (name : N -> path) (b : N) (cm : cmode) (fault : option nat) (c : N) (file : path) (f : fs),
    roll name cm fault b c file f = Panicked <-> (c <> 0 /\ 4294967296 <= b + (c - 1))%N.
Proof. exact roll_panics_iff. Qed.
Print Assumptions C07_panics_iff_top_index_overflows.

(* Archive names: for every pattern that contains "{}" (and no $ENV reference),
   pattern.replace("{}", i.to_string()) is injective in i - so the `names_injective`
   hypothesis above holds for every base and count, whatever the pattern. *)
Theorem C07_archive_names_distinct :
  forall (pat : list N) (i j : N),
    contains_braces pat = true -> archive_name [] pat i = archive_name [] pat j -> i = j.
Proof. exact archive_names_distinct. Qed.
Print Assumptions C07_archive_names_distinct.

Theorem C07_pattern_names_injective :
  forall (pat : list N) (b c : N),
    contains_braces pat = true -> names_injective (archive_name [] pat) b c.
Proof. exact pattern_names_injective. Qed.
Print Assumptions C07_pattern_names_injective.

(* ---- which compression the builder chooses: std's Path::extension of the pattern text
   (Model/PathExt.v; used by the run driver, so the generator's own idea of it is not trusted) ---- *)
Module PX := L4.Model.PathExt.
Module PXP := L4.Proofs.PathExt.

(* extension = what follows the LAST dot of the file name, provided something precedes that dot *)
Theorem C07_extension_meaning :
  forall (s e : PX.bytes),
    PX.extension s = Some e <->
    exists stem, PX.file_name s = Some (stem ++ 46%N :: e) /\ stem <> [] /\ ~ In 46%N e.
Proof. exact PXP.extension_some. Qed.
Print Assumptions C07_extension_meaning.

(* archives are compressed exactly for file names  <non-empty stem>.gz  /  <non-empty stem>.zst *)
Theorem C07_compressed_iff :
  forall p : PX.bytes,
    PX.compressed p = true <->
    exists stem e, PX.file_name p = Some (stem ++ 46%N :: e) /\ stem <> [] /\ (e = PX.ext_gz \/ e = PX.ext_zst).
Proof. exact PXP.compressed_iff. Qed.
Print Assumptions C07_compressed_iff.

(* a file name that is only ".gz" (any ".word"), or has no dot, means NO compression; the file
   name of  <anything>/<name>  is <name> *)
Theorem C07_dotfile_and_plain_names_are_not_compressed :
  forall (d n : PX.bytes),
    PXP.plain_name n ->
    PX.file_name (d ++ 47%N :: n) = Some n /\ PX.file_name n = Some n /\
    (forall e, n = 46%N :: e -> ~ In 46%N e -> PX.compressed (d ++ 47%N :: n) = false) /\
    (~ In 46%N n -> PX.compressed (d ++ 47%N :: n) = false).
Proof.
  intros d n Hn.
  pose proof (PXP.file_name_last_component d n Hn) as Hf.
  split; [exact Hf|]. split; [exact (PXP.file_name_bare n Hn)|]. split.
  - intros e -> He. unfold PX.compressed. rewrite (PXP.dotfile_has_no_extension _ e Hf He). reflexivity.
  - intros Hd. unfold PX.compressed. rewrite (PXP.no_dot_no_extension _ n Hf Hd). reflexivity.
Qed.
Print Assumptions C07_dotfile_and_plain_names_are_not_compressed.

(* Non-vacuity: pattern "a.{}.log", base 1, count 3, an old archive at index 2, a gap
   at 1, a bystander; three rolls. *)
Definition ex_pat : list N := [97; 46; 123; 125]%N.            (* "a.{}" *)
Definition ex_name : N -> path := archive_name [] ex_pat.
Example C07_example_names : ex_name 10 = [97; 46; 49; 48]%N.   (* "a.10" *)
Proof. vm_compute. reflexivity. Qed.

Example C07_example_rolls :
  rolls ex_name None 1 3 [108]%N [[1]; [2]; [3]; [4]]%N
        (mkfs [(ex_name 2, [9]); ([98], [7])])%N
  = Done [ (ex_name 1, [4]); (ex_name 2, [3]); (ex_name 3, [2]); ([98], [7]) ]%N.
Proof. vm_compute. reflexivity. Qed.

Example C07_example_hypotheses :
  names_injective ex_name 1 3 /\ file_outside ex_name 1 3 [108]%N.
Proof.
  split.
  - intros i j Hi Hj. cbn in Hi, Hj.
    destruct i as [|[|[|i]]]; destruct j as [|[|[|j]]]; try Lia.lia; vm_compute; intro H;
      try reflexivity; discriminate H.
  - intros j Hj. cbn in Hj. destruct j as [|[|[|j]]]; try Lia.lia; vm_compute; discriminate.
Qed.
