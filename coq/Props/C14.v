(* C14 — property theorems only: pinned statement, `exact`, Print Assumptions.

   SCOPE (why every statement is `_partial` with respect to the property text): the theorems speak about the
   document TREE that the serde front-ends hand to log4rs and about log4rs' own logic on it (schema: field
   sets, defaults, kind dispatch, deny_unknown_fields; lossy pipeline; C13's build).  The text -> tree step
   (serde_yaml / serde_json / toml / serde derive / serde-value) and "same logger behaviour" of the logical
   configuration (C01-C03, and the components' own behaviour) are not part of these statements; the
   correspondence run of `./check C14` exercises them on the real crate in all three formats.
   `E : env` carries the external oracles: TimeTrigger::new, opening the log file, humantime. *)
From Coq Require Import List NArith ZArith Bool.
Import ListNotations.
From L4 Require Import Common.Str Model.DocTree Model.Literals Model.ConfigBuild Model.Schema
  Proofs.ConfigBuild Proofs.Schema Proofs.SchemaRender Proofs.SchemaExamples.
Local Open Scope N_scope.

(* Round trip: every rendering of a well-formed logical configuration — sections in any key order, every
   defaulted field omitted, written, or (Option fields) null, `kind` of encoder / policy omitted or explicit,
   sizes and intervals in any spelling C20's parsers accept, level names in any letter case, filters with
   stray keys — is loaded as exactly that configuration: same refresh rate, same appenders with the same
   filters, encoders, policies (defaults resolved: additive true, root level Debug, append true, encoder
   `pattern`, policy `compound`, base 0, min_size 1, ...), no deserialization error, and C13's build on the
   same names / root / loggers.  Gap: tree level only (see SCOPE). *)
Theorem C14_render_interp_roundtrip_partial :
  forall E lc doc,
    wf_lconfig E lc -> renders_doc lc doc ->
    let names := map a_name (lc_appenders lc) in
    let ce := build_lossy names (lc_root_level lc) (lc_root_apps lc) (lc_loggers lc) in
    load_lossy E (DMap doc) =
      Ok {| ld_refresh := option_map snd (lc_refresh lc); ld_appenders := lc_appenders lc; ld_derrs := [];
            ld_config := fst ce; ld_berrs := snd ce |}
    /\ load_strict E (DMap doc) =
       match build names (lc_root_level lc) (lc_root_apps lc) (lc_loggers lc) with
       | Some c => Ok (lc_appenders lc, c)
       | None => Err
       end.
Proof. exact render_interp_roundtrip. Qed.
Print Assumptions C14_render_interp_roundtrip_partial.

(* ... and when the logical configuration is also well-formed in C13's sense, both loaders return it
   unchanged and nothing is reported. *)
Theorem C14_roundtrip_clean_partial :
  forall E lc doc,
    wf_lconfig E lc -> renders_doc lc doc ->
    NoDup (map a_name (lc_appenders lc)) -> NoDup (map lname (lc_loggers lc)) ->
    Forall (fun l => check_name (lname l) = true) (lc_loggers lc) ->
    Forall (fun r => In r (map a_name (lc_appenders lc))) (lc_root_apps lc) ->
    Forall (fun l => Forall (fun r => In r (map a_name (lc_appenders lc))) (lapps l)) (lc_loggers lc) ->
    let c := {| c_appenders := map a_name (lc_appenders lc); c_root_level := lc_root_level lc;
                c_root_apps := lc_root_apps lc; c_loggers := lc_loggers lc |} in
    load_strict E (DMap doc) = Ok (lc_appenders lc, c) /\
    load_lossy E (DMap doc) =
      Ok {| ld_refresh := option_map snd (lc_refresh lc); ld_appenders := lc_appenders lc; ld_derrs := [];
            ld_config := c; ld_berrs := [] |}.
Proof. exact render_interp_roundtrip_clean. Qed.
Print Assumptions C14_roundtrip_clean_partial.

(* Unknown keys, sections 1-3 (document, root, a logger): the whole document is rejected by both loaders. *)
Theorem C14_unknown_key_document_partial :
  forall E m, has_unknown [k_refresh_rate; k_root; k_appenders; k_loggers] m ->
    load_lossy E (DMap m) = Err /\ load_strict E (DMap m) = Err.
Proof. exact unknown_key_document_loads. Qed.
Print Assumptions C14_unknown_key_document_partial.

Theorem C14_unknown_key_root_partial :
  forall E m rm, get k_root m = Some (DMap rm) -> has_unknown [k_level; k_appenders] rm ->
    load_lossy E (DMap m) = Err /\ load_strict E (DMap m) = Err.
Proof. exact unknown_key_root_loads. Qed.
Print Assumptions C14_unknown_key_root_partial.

Theorem C14_unknown_key_logger_partial :
  forall E m lm n l, get k_loggers m = Some (DMap lm) -> In (n, DMap l) lm ->
    has_unknown [k_level; k_appenders; k_additive] l ->
    load_lossy E (DMap m) = Err /\ load_strict E (DMap m) = Err.
Proof. exact unknown_key_logger_loads. Qed.
Print Assumptions C14_unknown_key_logger_partial.

(* Unknown keys, sections 4-8 (inside an appender: its own section, encoder, policy, trigger, roller; the key
   sets are those of the section's kind): the appender's component is not built.  `cfg` is the appender
   section without `kind` and `filters`. *)
Theorem C14_unknown_key_appender_sections_partial :
  forall E,
    (forall kind cfg c, has_unknown (appender_keys kind) cfg -> interp_appender_cfg E kind cfg <> Ok c) /\
    (forall kind cfg em ek c,
        get k_encoder cfg = Some (DMap em) -> kind_of (Some s_pattern) em = Some ek ->
        has_unknown (encoder_keys ek) (remove k_kind em) -> interp_appender_cfg E kind cfg <> Ok c) /\
    (forall cfg pm pk c,
        get k_policy cfg = Some (DMap pm) -> kind_of (Some s_compound) pm = Some pk ->
        has_unknown (policy_keys pk) (remove k_kind pm) -> interp_appender_cfg E s_rolling_file cfg <> Ok c) /\
    (forall cfg pm tm tk c,
        get k_policy cfg = Some (DMap pm) -> get k_trigger (remove k_kind pm) = Some (DMap tm) ->
        kind_of None tm = Some tk -> has_unknown (trigger_keys tk) (remove k_kind tm) ->
        interp_appender_cfg E s_rolling_file cfg <> Ok c) /\
    (forall cfg pm rm rk c,
        get k_policy cfg = Some (DMap pm) -> get k_roller (remove k_kind pm) = Some (DMap rm) ->
        kind_of None rm = Some rk -> has_unknown (roller_keys rk) (remove k_kind rm) ->
        interp_appender_cfg E s_rolling_file cfg <> Ok c).
Proof. exact unknown_key_appender_sections. Qed.
Print Assumptions C14_unknown_key_appender_sections_partial.

(* ... and an appender whose component is not built makes strict loading fail, while lossy loading succeeds,
   reports it, and installs no appender of that name (the constructor oracle not panicking: outside the
   recorded class F-C16-degenerate-interval). *)
Theorem C14_broken_appender_partial :
  forall E v r x,
    never_panics E -> interp_raw E v = Ok r -> In x (rw_appenders r) ->
    (forall c, interp_appender_cfg E (ar_kind (snd x)) (ar_cfg (snd x)) <> Ok c) ->
    load_strict E v = Err /\
    exists ld, load_lossy E v = Ok ld /\ In (EAppender (fst x)) (ld_derrs ld) /\
               (NoDup (map fst (rw_appenders r)) ->
                ~ In (fst x) (map a_name (ld_appenders ld)) /\ ~ In (fst x) (c_appenders (ld_config ld))).
Proof. exact broken_appender_loads'. Qed.
Print Assumptions C14_broken_appender_partial.

(* Lossy keeps the rest, 1: appenders are processed independently.  Dropping a broken appender costs exactly
   one appender error (after its own filter errors); what is kept / reported for the appenders before and
   after it is what the document WITHOUT that appender gives. *)
Theorem C14_lossy_drops_exactly_partial :
  forall E l1 x l2 k1 e1 k2 e2,
    appenders_lossy E l1 = Ok (k1, e1) -> appenders_lossy E l2 = Ok (k2, e2) ->
    interp_appender_cfg E (ar_kind (snd x)) (ar_cfg (snd x)) = Err ->
    appenders_lossy E (l1 ++ x :: l2)
      = Ok (k1 ++ k2, e1 ++ (snd (run_filters (fst x) (ar_filters (snd x))) ++ [EAppender (fst x)]) ++ e2)
    /\ appenders_lossy E (l1 ++ l2) = Ok (k1 ++ k2, e1 ++ e2).
Proof. exact lossy_drops_exactly. Qed.
Print Assumptions C14_lossy_drops_exactly_partial.

(* Lossy keeps the rest, 2: a broken filter costs one filter error and only that filter; the appender and
   its other filters (in order) are kept. *)
Theorem C14_lossy_filters_partial :
  forall name fs1 k m fs2,
    run_filters name (fs1 ++ (k, m) :: fs2) =
    (fst (run_filters name fs1) ++
       match interp_filter_cfg k m with Ok l => [l] | _ => [] end ++ fst (run_filters name fs2),
     snd (run_filters name fs1) ++
       match interp_filter_cfg k m with Ok _ => [] | _ => [EFilter name] end ++ snd (run_filters name fs2)).
Proof. exact filters_lossy. Qed.
Print Assumptions C14_lossy_filters_partial.

(* Lossy keeps the rest, 3 (composition with C13's exact characterisation of build_lossy): the loaded
   configuration consists of the appenders whose component was built, the root with its dangling
   references removed, and C13's kept loggers; the build errors are exactly C13's. *)
Theorem C14_lossy_keeps_rest_partial :
  forall E v r kept derrs,
    interp_raw E v = Ok r -> appenders_lossy E (rw_appenders r) = Ok (kept, derrs) ->
    map a_name kept =
      map fst (filter (fun x => match interp_appender_cfg E (ar_kind (snd x)) (ar_cfg (snd x)) with
                                | Ok _ => true | _ => false end) (rw_appenders r)) /\
    load_lossy E v =
    let names := firsts [] (map a_name kept) in
    Ok {| ld_refresh := rw_refresh r; ld_appenders := kept; ld_derrs := derrs;
          ld_config := {| c_appenders := names; c_root_level := rw_root_level r;
                          c_root_apps := filter (resolves names) (rw_root_apps r);
                          c_loggers := fst (spec_loggers names [] (rw_loggers r)) |};
          ld_berrs := map DuplicateAppenderName (repeats [] (map a_name kept))
                      ++ map NonexistentAppender (filter (fun x => negb (resolves names x)) (rw_root_apps r))
                      ++ snd (spec_loggers names [] (rw_loggers r)) |}.
Proof. exact lossy_keeps_rest. Qed.
Print Assumptions C14_lossy_keeps_rest_partial.

(* Strict loading succeeds exactly when lossy loading has nothing to report, with the same result. *)
Theorem C14_strict_iff_lossy_clean_partial :
  forall E v apps c,
    load_strict E v = Ok (apps, c) <->
    exists ld, load_lossy E v = Ok ld /\ ld_derrs ld = [] /\ ld_berrs ld = [] /\
               ld_appenders ld = apps /\ ld_config ld = c.
Proof. exact strict_iff_lossy_clean. Qed.
Print Assumptions C14_strict_iff_lossy_clean_partial.

(* Totality: on EVERY tree both loaders return a value; the only panic source is the time-trigger
   constructor.  Gap: that TimeTrigger::new itself does not panic outside the recorded class
   F-C16-degenerate-interval is C16's subject and is not proved here. *)
Theorem C14_load_total_partial :
  forall E v, never_panics E -> load_lossy E v <> Panic /\ load_strict E v <> Panic.
Proof. exact load_no_panic. Qed.
Print Assumptions C14_load_total_partial.

(* The recorded class is real in the model too: with a constructor that panics on `interval: 0` +
   `modulate: true` (remainder by zero) loading that document panics in both paths. *)
Theorem C14_degenerate_interval_panics_witness :
  load_lossy degenerate_env degenerate_doc = Panic /\ load_strict degenerate_env degenerate_doc = Panic.
Proof. exact degenerate_panics. Qed.
Print Assumptions C14_degenerate_interval_panics_witness.

(* ---- non-vacuity ---- *)

(* the hypotheses of the round-trip theorem are satisfiable by a shuffled, default-eliding document *)
Example C14_roundtrip_instance :
  wf_lconfig ex_env ex_lc /\ renders_doc ex_lc ex_doc /\
  exists ld, load_lossy ex_env (DMap ex_doc) = Ok ld /\ ld_appenders ld = [ex_f1; ex_r1] /\
             ld_derrs ld = [] /\ ld_berrs ld = [] /\ ld_refresh ld = Some (30, 0) /\
             c_loggers (ld_config ld) = [ex_logger] /\ c_root_level (ld_config ld) = 4.
Proof.
  split; [exact ex_wf|]. split; [exact ex_renders|].
  eexists. split; [vm_compute; reflexivity|]. repeat split.
Qed.

(* an unknown key in the roller section: hypotheses of the roller clause hold, the appender is not built *)
Example C14_unknown_roller_key_instance :
  (exists pm rm, get k_policy ex_bad_roller_cfg = Some (DMap pm) /\
                 get k_roller (remove k_kind pm) = Some (DMap rm) /\
                 kind_of None rm = Some s_fixed_window /\
                 has_unknown (roller_keys s_fixed_window) (remove k_kind rm)) /\
  interp_appender_cfg ex_env s_rolling_file ex_bad_roller_cfg = Err.
Proof. split; [exact ex_bad_roller_unknown|vm_compute; reflexivity]. Qed.

(* lossy vs strict on a document with one broken appender (unknown key), one broken filter (unknown kind)
   and one dangling reference: the rest is kept, three errors, strict fails *)
Example C14_lossy_instance :
  let doc := DMap [
    (k_appenders, DMap [
       ([97], DMap [(k_kind, DStr s_file); (k_path, DStr [112]); ([120], DInt 1)]);
       ([98], DMap [(k_kind, DStr s_console);
                    (k_filters, DSeq [DMap [(k_kind, DStr [122])];
                                      DMap [(k_kind, DStr s_threshold); (k_level, DStr s_warn)]])])]);
    (k_root, DMap [(k_appenders, DSeq [DStr [97]; DStr [98]])])] in
  load_strict ex_env doc = Err /\
  exists ld, load_lossy ex_env doc = Ok ld /\
             map a_name (ld_appenders ld) = [[98]] /\ map a_filters (ld_appenders ld) = [[2]] /\
             ld_derrs ld = [EAppender [97]; EFilter [98]] /\
             ld_berrs ld = [NonexistentAppender [97]] /\
             c_root_apps (ld_config ld) = [[98]] /\ c_root_level (ld_config ld) = 4.
Proof. split; [vm_compute; reflexivity|]. eexists. split; [vm_compute; reflexivity|]. repeat split. Qed.
