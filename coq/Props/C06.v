(* C06 — property theorems only: pinned statement, `exact`, Print Assumptions. *)
From Coq Require Import List NArith Bool.
Import ListNotations.
From L4 Require Import Common.FSRoll Model.Rolling Model.RollingFail Proofs.Rolling Proofs.RollingStream Proofs.RollingFail.
From L4 Require Import Model.RollingEnc Proofs.RollingEnc.
Local Open Scope N_scope.

(* At every policy consultation of every history — any trigger (size,
   on-start-up, oracle), any roller, pre-existing content or none, first build
   and restarts in append or truncate mode, records of any size and chunking —
   the length shown to the policy is the on-disk size of the active file. *)
Theorem C06_len_is_disk_size :
  forall c a0 pre ops,
    Forall (fun e => match e with EConsult shown disk _ => shown = disk | _ => True end)
           (concat (snd (run c a0 pre ops))).
Proof. exact len_is_disk_size. Qed.
Print Assumptions C06_len_is_disk_size.

(* One more append after any history (s reachable): the record is written, the
   policy is consulted exactly once with the true size after the write, and the
   file is rotated away iff that size exceeds the limit; otherwise it stays and
   holds old content ++ record. *)
Theorem C06_rolls_iff_exceeds :
  forall limit rl s chunks,
    let c := {| trig := TSize limit; roll_by := rl |} in
    reach c s ->
    let size_after := disk_len (files s) + blen (concat chunks) in
    let s' := fst (append_op c chunks s) in
    snd (append_op c chunks s) =
      [EWrote (concat chunks); EConsult size_after size_after (limit <? size_after)]
    /\ (limit < size_after -> lookup (files s') Active = None)
    /\ (~ limit < size_after ->
        lookup (files s') Active = Some (content (files s) Active ++ concat chunks)).
Proof. exact rolls_iff_exceeds. Qed.
Print Assumptions C06_rolls_iff_exceeds.

(* History form: in every history (any pre-existing content, first build and
   restarts in either mode), the i-th op, if it appends a record, writes it,
   consults the policy exactly once — with the true size of the active file
   after the write — and rotates iff that size exceeds the limit: never
   earlier, never deferred.  (`before` = state after the first i ops.) *)
Theorem C06_size_rolls_exactly :
  forall limit rl a0 pre ops i chunks,
    nth_error ops i = Some (Append chunks) ->
    let c := {| trig := TSize limit; roll_by := rl |} in
    let before := fst (run c a0 pre (firstn i ops)) in
    let sz := disk_len (files before) + blen (concat chunks) in
    nth_error (snd (run c a0 pre ops)) (S i)
    = Some [EWrote (concat chunks); EConsult sz sz (limit <? sz)].
Proof. exact size_rolls_exactly. Qed.
Print Assumptions C06_size_rolls_exactly.

(* After every append of every history the active file has just been rotated
   away or holds at most `limit` bytes (limit = 0 included). *)
Theorem C06_after_append_bounded :
  forall limit rl a0 pre ops chunks,
    let c := {| trig := TSize limit; roll_by := rl |} in
    let s' := fst (run c a0 pre (ops ++ [Append chunks])) in
    lookup (files s') Active = None \/ disk_len (files s') <= limit.
Proof. exact after_append_bounded. Qed.
Print Assumptions C06_after_append_bounded.

(* Histories in which some appends hit a FAILING roller (Model/RollingFail.v:
   the trigger fires, the writer slot is emptied, roller.roll returns Err and
   leaves the directory untouched, `append` returns Err): still at every
   consultation the length shown is the on-disk size — in particular after the
   reopen that follows a failed roll. *)
Theorem C06_len_is_disk_size_failing_rolls :
  forall c a0 pre ops,
    Forall (fun e => match e with EConsult shown disk _ => shown = disk | _ => True end)
           (concat (map fst (snd (xrun c a0 pre ops)))).
Proof. exact len_is_disk_size_x. Qed.
Print Assumptions C06_len_is_disk_size_failing_rolls.

(* One more append after any such history, size trigger, roller working or
   failing: the record is written, the policy is consulted exactly once with the
   true size after the write, a rotation is requested iff it exceeds the limit
   (not deferred by an earlier failed roll); with a failing roller the call
   returns Err exactly then and the over-limit file stays in place. *)
Theorem C06_size_append_exact_failing_rolls :
  forall limit rl s chunks,
    let c := {| trig := TSize limit; roll_by := rl |} in
    (exists pre ops, s = fst (xrun_ops c ops (raw pre))) ->
    let sz := disk_len (files s) + blen (concat chunks) in
    let evs := [EWrote (concat chunks); EConsult sz sz (limit <? sz)] in
    snd (append_op c chunks s) = evs
    /\ snd (fst (append_op_fail c chunks s)) = evs
    /\ snd (append_op_fail c chunks s) = (limit <? sz)
    /\ lookup (files (fst (fst (append_op_fail c chunks s)))) Active
       = Some (content (files s) Active ++ concat chunks).
Proof. exact size_append_exact_x. Qed.
Print Assumptions C06_size_append_exact_failing_rolls.

(* A roller that ROTATES and then reports failure (histories of C06_len_is_disk_size_failing_rolls contain such
   appends too): size shown = size on disk, rotation requested iff the limit is exceeded, Err exactly then, and the
   appender is left exactly as after a successful rotation *)
Theorem C06_roller_fails_after_rotating :
  forall limit rl s chunks,
    let c := {| trig := TSize limit; roll_by := rl |} in
    xreach c s ->
    let sz := (disk_len (files s) + blen (concat chunks))%N in
    snd (fst (append_op_fail_after c chunks s)) = [EWrote (concat chunks); EConsult sz sz (limit <? sz)%N]
    /\ snd (append_op_fail_after c chunks s) = (limit <? sz)%N
    /\ fst (fst (append_op_fail_after c chunks s)) = fst (append_op c chunks s).
Proof. exact size_append_fail_after_x. Qed.
Print Assumptions C06_roller_fails_after_rotating.

(* `reach` is exactly "state after some history over some initial directory". *)
Theorem C06_reach_is_history :
  forall c s, reach c s <-> exists pre ops, s = fst (run_ops c ops (raw pre)).
Proof. intros; reflexivity. Qed.
Print Assumptions C06_reach_is_history.

(* Non-vacuity: limit 5, pre-existing "ab", window(1,2): the second append
   makes 7 > 5 bytes and rotates; a restart in truncate mode; limit 0. *)
Example C06_example :
  let c := {| trig := TSize 5; roll_by := Window 1 2 |} in
  let r := run c true (Some [97;98]) [Append [[49;50;51]]; Append [[52];[53]]; Append [[54]]] in
  map (fun n => lookup (files (fst r)) n) [Active; Arch 1; Arch 2]
    = [Some [54]; Some [97;98;49;50;51;52;53]; None]
  /\ snd r = [[]; [EWrote [49;50;51]; EConsult 5 5 false];
              [EWrote [52;53]; EConsult 7 7 true]; [EWrote [54]; EConsult 1 1 false]].
Proof. vm_compute. split; reflexivity. Qed.

Example C06_example_limit0 :
  let c := {| trig := TSize 0; roll_by := Delete |} in
  let r := run c false (Some [97;98]) [Append [[]]; Append [[49]]] in
  lookup (files (fst r)) Active = None
  /\ snd r = [[ETrunc]; [EWrote []; EConsult 0 0 false]; [EWrote [49]; EConsult 1 1 true]].
Proof. vm_compute. split; reflexivity. Qed.

(* limit 3, roller fails at the second append (5 > 3 bytes): Err, file kept; the
   next append is shown 6 = the true size and rotates *)
Example C06_example_failing_roll :
  let c := {| trig := TSize 3; roll_by := Window 0 1 |} in
  let r := xrun c true None [XOp (Append [[49;50]]); XAppendFail [[51;52;53]]; XOp (Append [[54]])] in
  map (fun n => lookup (files (fst r)) n) [Active; Arch 0] = [None; Some [49;50;51;52;53;54]]
  /\ snd r = [([], false); ([EWrote [49;50]; EConsult 2 2 false], false);
              ([EWrote [51;52;53]; EConsult 5 5 true], true); ([EWrote [54]; EConsult 6 6 true], false)].
Proof. vm_compute. split; reflexivity. Qed.

(* ---- records whose ENCODER fails half-way (Model/RollingEnc.v) ----
   The chunks written before the failure stay in the writer's buffer and ARE counted; they reach
   the file with the next flush.  For every post-processing trigger (the size trigger) and EVERY
   history of appends, failed-encoder appends and restarts, the size shown to the policy at every
   consultation is the true size of the active file. *)
Theorem C06_len_is_disk_size_with_failed_encoders :
  forall c ops a0 pre,
    is_pre (trig c) = false ->
    Forall (fun ev => match ev with EConsult shown disk _ => shown = disk | _ => True end)
           (snd (erun c ops (einit a0 pre))).
Proof. intros c ops a0 pre H. exact (len_is_disk_size_with_failed_encoders c ops (einit a0 pre) H (einit_egood a0 pre)). Qed.
Print Assumptions C06_len_is_disk_size_with_failed_encoders.

(* what that size is: old content, the pending fragments of failed records, the record - each byte once *)
Theorem C06_failed_fragments_counted_once :
  forall c chunks e,
    is_pre (trig c) = false -> EGood e ->
    EGood (fst (eappend c chunks e)) /\ est_pend (fst (eappend c chunks e)) = [] /\
    exists v fire,
      lookup (files (get_writer (est_s e))) Active = Some v /\
      snd (eappend c chunks e) =
        [EWrote (concat chunks);
         EConsult (blen (v ++ est_pend e ++ concat chunks)) (blen (v ++ est_pend e ++ concat chunks)) fire].
Proof. exact eappend_shown_is_disk. Qed.
Print Assumptions C06_failed_fragments_counted_once.

(* without a failed record the machine is the appender model above *)
Theorem C06_no_failure_is_plain_append :
  forall c chunks s,
    is_pre (trig c) = false ->
    est_s (fst (eappend c chunks {| est_s := s; est_pend := [] |})) = fst (append_op c chunks s)
    /\ snd (eappend c chunks {| est_s := s; est_pend := [] |}) = snd (append_op c chunks s).
Proof. exact eappend_without_pending_is_append. Qed.
Print Assumptions C06_no_failure_is_plain_append.

(* limit 6: "ab", a record that fails after "XY" (nothing on disk yet, no consultation), then "c":
   shown 5 = |ab XY c|, no roll; then "de" makes 7 > 6 and rolls the whole file *)
Example C06_example_failed_encoder :
  let c := {| trig := TSize 6; roll_by := Window 0 1 |} in
  let r := erun c [EAppend [[97;98]]; EFail [[88];[89]]; EAppend [[99]]; EAppend [[100;101]]] (einit true None) in
  snd r = [EWrote [97;98]; EConsult 2 2 false; EWrote [99]; EConsult 5 5 false; EWrote [100;101]; EConsult 7 7 true]
  /\ map (fun n => lookup (files (est_s (fst r))) n) [Active; Arch 0] = [None; Some [97;98;88;89;99;100;101]].
Proof. vm_compute. split; reflexivity. Qed.

(* ---- the io::Write layer (Model/LogWriter.v): LogWriter::write under std's write_all, the sink
   below it answering each call with a short count, zero, an interruption or an error ---- *)
From L4 Require Model.LogWriter Proofs.LogWriter.
Module LW := L4.Model.LogWriter.
Module LWP := L4.Proofs.LogWriter.

(* One write_all call, for every script of answers and every buffer: the sink accepted a prefix
   of the buffer, the count moved by exactly that many bytes, and Ok means the whole buffer. *)
Theorem C06_count_moves_by_what_the_sink_accepted :
  forall (script : list LW.answer) (w : LW.lw) (buf : LW.bytes) (w' : LW.lw) (r : LW.ares) (rest : list LW.answer),
    LW.write_all w buf script = (w', r, rest) ->
    exists k : nat,
      (k <= length buf)%nat /\
      LW.taken w' = LW.taken w ++ firstn k buf /\
      LW.len w' = LW.len w + N.of_nat k /\
      (r = LW.AOk -> k = length buf).
Proof. exact LWP.write_all_exact. Qed.
Print Assumptions C06_count_moves_by_what_the_sink_accepted.

(* Through any encoder (any list of chunks), whatever happens to each call - success, short
   counts, interruptions, a failure half-way: the count stays "size at open + bytes accepted". *)
Theorem C06_count_is_accepted_bytes_through_any_encoder :
  forall (base : N) (chunks : list LW.bytes) (script : list LW.answer) (w w' : LW.lw) (r : LW.ares) (rest : list LW.answer),
    LWP.accounted base w -> LW.write_chunks w chunks script = (w', r, rest) -> LWP.accounted base w'.
Proof. exact LWP.write_chunks_accounted. Qed.
Print Assumptions C06_count_is_accepted_bytes_through_any_encoder.

Theorem C06_encoder_ok_means_all_chunks_counted :
  forall (chunks : list LW.bytes) (script : list LW.answer) (w w' : LW.lw) (rest : list LW.answer),
    LW.write_chunks w chunks script = (w', LW.AOk, rest) ->
    LW.taken w' = LW.taken w ++ concat chunks /\ LW.len w' = LW.len w + LW.blen (concat chunks).
Proof. exact LWP.write_chunks_ok. Qed.
Print Assumptions C06_encoder_ok_means_all_chunks_counted.

(* Short counts and interrupted calls are not failures, and with enough answers the buffer is
   written in full (every non-zero answer takes at least one byte). *)
Theorem C06_short_and_interrupted_writes_are_invisible :
  forall (script : list LW.answer) (w : LW.lw) (buf : LW.bytes),
    Forall LWP.benign script ->
    (forall w' r rest, LW.write_all w buf script = (w', r, rest) -> r <> LW.AErr) /\
    ((length buf <= LWP.tooks script)%nat -> exists w' rest, LW.write_all w buf script = (w', LW.AOk, rest)).
Proof.
  exact (fun script w buf Hb =>
    conj (fun w' r rest H => LWP.interrupts_invisible script w buf w' r rest Hb H)
         (LWP.enough_answers_finish script w buf Hb)).
Qed.
Print Assumptions C06_short_and_interrupted_writes_are_invisible.
