(* C08 — property theorems only: pinned statement, `exact`, Print Assumptions.
   A failed or interrupted rotation loses no acknowledged data and is recoverable.

   Vocabulary (Proofs/RollFault.v):
     window name b n f   the contents of the n archive names, highest index first (= oldest
                         first), absent names skipped;  arch cm x = archive made from x
     exec_prefix cm k ss f   the directory after the first k steps of a rotation = what a
                         process dying at the k-th rotate_step hook call leaves behind
     HAppend r fire fault   an append whose trigger answers `fire len` and whose rotation (if
                         any) fails at step `fault` (None: no failure); HRestart mode = the
                         appender is dropped (crash or shutdown) and built again
     stream_st evs (A, act)   the record stream: A = records already rotated out of the active
                         file, act = records of the active file; EvWrite appends to act,
                         EvRolled moves act to A, EvTrunc (a truncating builder) empties act *)
From Coq Require Import List NArith Bool.
Import ListNotations.
From L4 Require Import Common.FSModel Model.Window Model.Subst Model.RollFault.
From L4 Require Import Proofs.Window Proofs.RollFault.

(* For every window size, base and directory state, and EVERY prefix length k of the
   rotation's step list (shifts from the top down, then the final move/compress): the
   archives R that the completed rotation retains are all still there, byte for byte and
   in the same oldest-to-newest order, preceded by at most one more (the top archive, due
   for eviction); the newest chunk x is still intact in the active file — or the prefix is
   already the completed rotation, where it is the archive at the base index. *)
Theorem C08_retained_chunks_survive_every_prefix :
  forall (name : N -> path) (b c : N) (cm : cmode) (file : path) (f : fs) (x : bytes),
    (1 <= c)%N -> (b + c <= 4294967296)%N ->
    names_injective name b c -> file_outside name b c file ->
    lookup file f = Some x ->
    exists g R,
      roll name cm None b c file f = Done g /\
      window name b (N.to_nat c) g = R ++ [arch cm x] /\ lookup file g = None /\
      forall k, let p := exec_prefix cm k (steps name b c file) f in
        p = g \/
        (lookup file p = Some x /\
         exists l, window name b (N.to_nat c) p = l ++ R /\ length l <= 1).
Proof. exact retained_chunks_survive_every_prefix_x. Qed.
Print Assumptions C08_retained_chunks_survive_every_prefix.

(* A step that returns Err: the rotation stops right there — the directory is exactly the
   k-prefix state (covered by the theorem above) — or k lies beyond the last step and the
   rotation is the un-faulted one. *)
Theorem C08_fault_leaves_prefix_state :
  forall (name : N -> path) (b c : N) (cm : cmode) (file : path) (f : fs) (x : bytes) (k : nat),
    (1 <= c)%N -> (b + c <= 4294967296)%N ->
    names_injective name b c -> file_outside name b c file ->
    lookup file f = Some x ->
    roll name cm (Some k) b c file f = roll name cm None b c file f \/
    (k < N.to_nat c /\
     roll name cm (Some k) b c file f = Failed (exec_prefix cm k (steps name b c file) f)).
Proof. exact fault_leaves_prefix_state_x. Qed.
Print Assumptions C08_fault_leaves_prefix_state.

(* Process death at the k-th hook call of an append = that append with a fault at step k,
   as far as the directory goes (and the faulted append returns Err): crash-restart
   histories are the histories `HAppend r fire (Some k); HRestart mode`. *)
Theorem C08_crash_image_is_fault_state :
  forall (name : N -> path) (b c : N) (cm : cmode) (file : path) (pre : bool) (fire : N -> bool)
         (r : bytes) (s : ast) (k : nat) (img : fs) (s1 : ast) (a1 : ack) (e1 : list ev) (imgs1 : list fs),
    append_rec name cm file {| c_base := b; c_count := c; c_pre := pre |} fire None r s = (s1, a1, e1, imgs1) ->
    nth_error imgs1 k = Some img ->
    exists s2 e2 imgs2,
      append_rec name cm file {| c_base := b; c_count := c; c_pre := pre |} fire (Some k) r s
        = (s2, AErr, e2, imgs2) /\
      afs s2 = img /\
      img = exec_prefix cm k (steps name b c file)
              (afs (if pre then get_writer file s else write_rec file r (get_writer file s))).
Proof. exact crash_image_is_fault_state_x. Qed.
Print Assumptions C08_crash_image_is_fault_state.

(* ALL histories: any appends with any trigger answers, a fault at any step of any
   rotation, restarts (after a crash or not) in either open mode, pre- and post-processing
   triggers, either builder mode, any initial directory whose archives are whole chunks
   (segs0; none in the usual case) and any bystander files.  Then: no operation panics, the
   history runs to its end, and the archives (oldest first) are whole groups of consecutive
   records which, followed by the active file's records, form the stream from some record
   k on: nothing missing in the middle, nothing reordered, nothing split. *)
Theorem C08_suffix_invariant_under_faults :
  forall (name : N -> path) (b c : N) (cm : cmode) (file : path) (pre : bool),
    (1 <= c)%N -> (b + c <= 4294967296)%N ->
    names_injective name b c -> file_outside name b c file ->
    forall (segs0 : list (list bytes)) (f0 : fs) (mode0 : bool) (ops : list hop) (s : ast)
           (tr : list (ack * list ev)),
      window name b (N.to_nat c) f0 = map (seg_bytes cm) segs0 ->
      run_hist name cm file {| c_base := b; c_count := c; c_pre := pre |} ops (build file mode0 f0) = (s, tr) ->
      let st := stream_st (init_evs file mode0 f0 ++ concat (map snd tr)) (concat segs0, []) in
      Forall (fun ae => fst ae <> APanic) tr /\ length tr = length ops /\
      exists k segs,
        k <= length (fst st) /\ skipn k (fst st) = concat segs /\
        window name b (N.to_nat c) (afs s) = map (seg_bytes cm) segs /\
        (lookup file (afs s) = Some (concat (snd st)) \/
         (lookup file (afs s) = None /\ snd st = [])).
Proof. exact suffix_invariant_under_faults_x. Qed.
Print Assumptions C08_suffix_invariant_under_faults.

(* The same in bytes: reading the archives from the highest index down (decompressed by
   any left inverse `un` of the compression) and then the active file yields exactly the
   concatenation of a suffix of the record stream. *)
Theorem C08_read_is_stream_suffix :
  forall (name : N -> path) (b c : N) (cm : cmode) (un : bytes -> bytes) (file : path) (pre : bool),
    (1 <= c)%N -> (b + c <= 4294967296)%N ->
    names_injective name b c -> file_outside name b c file ->
    (forall y, un (arch cm y) = y) ->
    forall (segs0 : list (list bytes)) (f0 : fs) (mode0 : bool) (ops : list hop) (s : ast)
           (tr : list (ack * list ev)),
      window name b (N.to_nat c) f0 = map (seg_bytes cm) segs0 ->
      run_hist name cm file {| c_base := b; c_count := c; c_pre := pre |} ops (build file mode0 f0) = (s, tr) ->
      exists k,
        read name b c file un (afs s) =
        concat (skipn k (stream_of (stream_st (init_evs file mode0 f0 ++ concat (map snd tr))
                                              (concat segs0, [])))).
Proof. exact read_is_stream_suffix_x. Qed.
Print Assumptions C08_read_is_stream_suffix.

(* acknowledged ⊆ written: an append that returns Ok has put its record into the stream
   (a post-processing append whose rotation fails has written too, but returns Err). *)
Theorem C08_acknowledged_are_written :
  forall (name : N -> path) (cm : cmode) (file : path) (cf : cfg) (fire : N -> bool)
         (fault : option nat) (r : bytes) (s s' : ast) (e : list ev) (imgs : list fs),
    append_rec name cm file cf fire fault r s = (s', AOk, e, imgs) -> In (EvWrite r) e.
Proof. exact acknowledged_are_written_x. Qed.
Print Assumptions C08_acknowledged_are_written.

(* Resumption: after ANY such history (faults, crashes, restarts), the next append whose
   rotation meets no fault returns Ok and writes its record; when its trigger fires (shown
   the active file's length: before the write for a pre-processing trigger, after it
   otherwise) the rotation completes: the base archive holds exactly the records written
   since the last completed rotation, and the active file starts afresh. *)
Theorem C08_resumes :
  forall (name : N -> path) (b c : N) (cm : cmode) (file : path) (pre : bool),
    (1 <= c)%N -> (b + c <= 4294967296)%N ->
    names_injective name b c -> file_outside name b c file ->
    forall (segs0 : list (list bytes)) (f0 : fs) (mode0 : bool) (ops : list hop) (s : ast)
           (tr : list (ack * list ev)),
      window name b (N.to_nat c) f0 = map (seg_bytes cm) segs0 ->
      run_hist name cm file {| c_base := b; c_count := c; c_pre := pre |} ops (build file mode0 f0) = (s, tr) ->
      forall (fire : N -> bool) (r : bytes) (s' : ast) (a : ack) (e : list ev) (imgs : list fs),
        append_rec name cm file {| c_base := b; c_count := c; c_pre := pre |} fire None r s = (s', a, e, imgs) ->
        let act := snd (stream_st (init_evs file mode0 f0 ++ concat (map snd tr)) (concat segs0, [])) in
        let shown := if pre then concat act else concat act ++ r in
        let due := fire (N.of_nat (length shown)) in
        a = AOk /\
        e = (if pre then rolled_ev due ++ [EvWrite r] else EvWrite r :: rolled_ev due) /\
        (due = true ->
           lookup (name b) (afs s') = Some (arch cm shown) /\
           lookup file (afs s') = if pre then Some r else None) /\
        (due = false -> lookup file (afs s') = Some (concat act ++ r)).
Proof. exact resumes_x. Qed.
Print Assumptions C08_resumes.

(* Bounded loss along histories: from any reachable state, one append — whatever its fault —
   takes away at most the top (oldest) archive and adds at most one archive (that of a
   completed rotation, to the newest end); every other archive keeps its bytes and order. *)
Theorem C08_append_evicts_at_most_top :
  forall (name : N -> path) (b c : N) (cm : cmode) (file : path) (pre : bool),
    (1 <= c)%N -> (b + c <= 4294967296)%N ->
    names_injective name b c -> file_outside name b c file ->
    forall (segs0 : list (list bytes)) (f0 : fs) (mode0 : bool) (ops : list hop) (s : ast)
           (tr : list (ack * list ev)),
      window name b (N.to_nat c) f0 = map (seg_bytes cm) segs0 ->
      run_hist name cm file {| c_base := b; c_count := c; c_pre := pre |} ops (build file mode0 f0) = (s, tr) ->
      forall (fire : N -> bool) (fault : option nat) (r : bytes) (s' : ast) (a : ack) (e : list ev) (imgs : list fs),
        append_rec name cm file {| c_base := b; c_count := c; c_pre := pre |} fire fault r s = (s', a, e, imgs) ->
        exists l R new,
          window name b (N.to_nat c) (afs s) = l ++ R /\
          window name b (N.to_nat c) (afs s') = R ++ new /\
          length l <= 1 /\ length new <= 1 /\ (new <> [] -> In EvRolled e).
Proof. exact append_evicts_at_most_top_x. Qed.
Print Assumptions C08_append_evicts_at_most_top.

(* ---- non-vacuity ---- *)
Definition ex_pat : list N := [97; 46; 123; 125]%N.            (* "a.{}" *)
Definition ex_name : N -> path := archive_name [] ex_pat.
Definition ex_file : path := [108]%N.                           (* "l" *)

Example C08_example_hypotheses :
  names_injective ex_name 1 3 /\ file_outside ex_name 1 3 ex_file.
Proof.
  split.
  - intros i j Hi Hj. cbn in Hi, Hj.
    destruct i as [|[|[|i]]]; destruct j as [|[|[|j]]]; try Lia.lia; vm_compute; intro H;
      try reflexivity; discriminate H.
  - intros j Hj. cbn in Hj. destruct j as [|[|[|j]]]; try Lia.lia; vm_compute; discriminate.
Qed.

(* a full window (archives 3,2,1 = chunks [1],[2],[3]) and an active file [4]: the four
   prefix states of the rotation.  After the first shift the top chunk [1] is gone (it is
   the one the completed rotation evicts); [2],[3],[4] are present in every state. *)
Definition ex_full : fs :=
  mkfs [ (ex_name 3, [1]); (ex_name 2, [2]); (ex_name 1, [3]); (ex_file, [4]); ([98], [7]) ]%N.

Example C08_example_prefixes :
  map (fun k => let p := exec_prefix None k (steps ex_name 1 3 ex_file) ex_full in
                (window ex_name 1 3 p, lookup ex_file p)) [0; 1; 2; 3]
  = [ ([[1]; [2]; [3]], Some [4]);
      ([[2]; [3]],      Some [4]);
      ([[2]; [3]],      Some [4]);
      ([[2]; [3]; [4]], None) ]%N.
Proof. vm_compute. reflexivity. Qed.

(* a history: SizeTrigger-like oracle (fires above 1 byte), the second append's rotation
   fails at step 1 (after the first shift), the third append's rotation is interrupted at
   step 0 and the appender restarted in append mode, then two clean appends.  Every record
   is still there, in order; the failing appends returned Err and did not panic. *)
Definition ex_fire : N -> bool := fun len => (1 <? len)%N.
Definition ex_ops : list hop :=
  [ HAppend [10; 11]%N ex_fire None;
    HAppend [20; 21]%N ex_fire (Some 1);
    HAppend [30]%N ex_fire (Some 0); HRestart true;
    HAppend [40]%N ex_fire None;
    HAppend [50; 51]%N ex_fire None ].

Example C08_example_history :
  let cf := {| c_base := 1; c_count := 3; c_pre := false |} in
  let '(s, tr) := run_hist ex_name None ex_file cf ex_ops (build ex_file true [([98], [7])]%N) in
  map fst tr = [AOk; AErr; AErr; AOk; AOk; AOk] /\
  window ex_name 1 3 (afs s) = [[10; 11]; [20; 21; 30; 40]; [50; 51]]%N /\
  lookup ex_file (afs s) = None /\
  stream_of (stream_st (init_evs ex_file true [([98], [7])]%N ++ concat (map snd tr)) ([], []))
  = [[10; 11]; [20; 21]; [30]; [40]; [50; 51]]%N.
Proof. vm_compute. repeat split. Qed.
