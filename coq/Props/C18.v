(* C18 — property theorems only: pinned statement, `exact`, Print Assumptions.
   Model: Model/Console.v (COLOR_MODE, writer choice, do_write, Highlight, append) and
   Model/Ansi.v (set_style with the array bound as Panic); spec vocabulary
   (active, is_zero, render, sgr_parse/sgr_apply, known_class) in Proofs/Console.v, Proofs/Ansi.v. *)
From Coq Require Import List NArith Bool.
Import ListNotations.
From L4 Require Import Model.Ansi Model.Console Proofs.Ansi Proofs.Console.
Local Open Scope N_scope.

(* Escape sequences can appear iff: not NO_COLOR, and (CLICOLOR_FORCE, or CLICOLOR is not 0
   and the stream is a terminal) -- for ANY values of the three variables
   (active = set and different from the text 0; is_zero = set to exactly 0). *)
Theorem C18_colour_precedence :
  forall (e : env3) (tty : bool),
    emits_escapes (writer_kind (colour_mode e) tty) = true <->
    ~ active (e_no_color e)
    /\ (active (e_clicolor_force e) \/ (~ is_zero (e_clicolor e) /\ tty = true)).
Proof. exact colour_precedence. Qed.
Print Assumptions C18_colour_precedence.

(* What reaches the two streams: nothing when the appender does not write; otherwise the
   rendering of the pattern's writer calls on the chosen stream only, with style requests
   shown iff escapes are enabled. *)
Theorem C18_append_spec :
  forall w a lv msg,
    append w a lv msg =
    Ok (if writes w a
        then let out := render (emits_escapes (built_kind w a)) (enc_chunks (a_pattern a) lv msg) in
             match a_target a with Stdout => (out, []) | Stderr => ([], out) end
        else ([], [])).
Proof. exact append_spec. Qed.
Print Assumptions C18_append_spec.

(* with colour off the stream shows the text alone *)
Theorem C18_plain_when_no_colour : forall evs, render false evs = plain evs.
Proof. exact render_false_plain. Qed.
Print Assumptions C18_plain_when_no_colour.

(* An unrestricted appender always writes the encoded text to the chosen stream. *)
Theorem C18_untied_always_writes :
  forall w a lv msg,
    a_tty_only a = false ->
    writes w a = true
    /\ append w a lv msg =
       Ok (let out := render (emits_escapes (built_kind w a)) (enc_chunks (a_pattern a) lv msg) in
           match a_target a with Stdout => (out, []) | Stderr => ([], out) end).
Proof. exact untied_always_writes. Qed.
Print Assumptions C18_untied_always_writes.

(* A restricted appender writes exactly when its target is a terminal -- OUTSIDE the
   recorded open finding F-C18-tty-only-colour (known_class: tty_only and colour mode <> Auto). *)
Theorem C18_tty_only_spec :
  forall w a,
    known_class w a = false ->
    writes w a = (if a_tty_only a then isatty w (a_target a) else true).
Proof. exact write_decision. Qed.
Print Assumptions C18_tty_only_spec.

(* Inside the class the statement fails both ways (the finding itself). *)
Theorem C18_tty_only_refuted :
  (exists w a, known_class w a = true /\ a_tty_only a = true
               /\ isatty w (a_target a) = true /\ writes w a = false)
  /\ (exists w a, known_class w a = true /\ a_tty_only a = true
               /\ isatty w (a_target a) = false /\ writes w a = true).
Proof. exact tty_only_refuted. Qed.
Print Assumptions C18_tty_only_refuted.

(* the class is exactly "tty_only and one of the overriding colour settings" *)
Theorem C18_colour_mode_spec :
  forall e,
    (colour_mode e = Never <-> active (e_no_color e)
                               \/ (~ active (e_clicolor_force e) /\ is_zero (e_clicolor e)))
    /\ (colour_mode e = Always <-> ~ active (e_no_color e) /\ active (e_clicolor_force e))
    /\ (colour_mode e = Auto <-> ~ active (e_no_color e) /\ ~ active (e_clicolor_force e)
                                 /\ ~ is_zero (e_clicolor e)).
Proof. exact colour_mode_spec. Qed.
Print Assumptions C18_colour_mode_spec.

(* For every one of the 243 styles (all_styles, complete by all_styles_complete; finite
   domain decided by vm_compute in Proofs/Ansi.v): set_style does not panic, writes exactly
   one well-formed SGR sequence, and from EVERY previous style the terminal ends in exactly
   the requested style. *)
Theorem C18_sgr_decode_encode :
  forall s : style,
  exists bs, set_style s = Ok bs
    /\ well_formed_sgr bs = true
    /\ count27 bs = 1%nat
    /\ forall s0 : style, sgr_apply s0 bs = Some s.
Proof. exact sgr_decode_encode. Qed.
Print Assumptions C18_sgr_decode_encode.

Theorem C18_style_space_is_243 : length all_styles = 243%nat /\ forall s : style, In s all_styles.
Proof. exact (conj all_styles_length all_styles_complete). Qed.
Print Assumptions C18_style_space_is_243.

(* A highlighted group is: the level's style request, the group's own output, a reset --
   for any nesting; at DEBUG there is no request and no reset. *)
Theorem C18_highlight_reset :
  forall colour cs lv msg,
    render colour (enc_chunk (CHighlight no_params cs) lv msg) =
    match highlight_style lv with
    | Some st =>
      (if colour then sgr_bytes st else [])
      ++ render colour (enc_chunks cs lv msg)
      ++ (if colour then sgr_bytes style_new else [])
    | None => render colour (enc_chunks cs lv msg)
    end.
Proof. exact highlight_reset. Qed.
Print Assumptions C18_highlight_reset.

(* A highlighted group with ANY format spec (min/max width, either alignment, any fill) issues
   exactly the same style requests in the same order -- style, inner requests, reset -- however
   long its text is: the width writers never drop or reorder a set_style call. *)
Theorem C18_highlight_styles_with_spec :
  forall p cs lv msg,
    styles_of (enc_chunk (CHighlight p cs) lv msg) =
    match highlight_style lv with
    | Some st => st :: styles_of (enc_chunks cs lv msg) ++ [style_new]
    | None => styles_of (enc_chunks cs lv msg)
    end.
Proof. exact highlight_styles_with_spec. Qed.
Print Assumptions C18_highlight_styles_with_spec.

(* With a max-width spec the coloured stream still opens with the style request and closes
   with the reset. *)
Theorem C18_highlight_max_width_reset :
  forall p mx cs lv msg st,
    p_min p = None -> p_max p = Some mx -> highlight_style lv = Some st ->
    exists body,
      render true (enc_chunk (CHighlight p cs) lv msg) = sgr_bytes st ++ body ++ sgr_bytes style_new.
Proof. exact highlight_max_width_reset. Qed.
Print Assumptions C18_highlight_max_width_reset.

Theorem C18_reset_resets : forall s0, sgr_apply s0 (sgr_bytes style_new) = Some style_new.
Proof. exact reset_resets. Qed.
Print Assumptions C18_reset_resets.

(* The pre-fix code (12-byte array) panicked exactly on the 64 styles
   text + background + intense=false: finding F-C18-ansi-buffer, fixed by 8076380. *)
Theorem C18_ansi_overrun12_exact :
  forall s, set_style_cap 12 s = Panic <-> in_overrun_class s = true.
Proof. exact ansi_overrun12_exact. Qed.
Print Assumptions C18_ansi_overrun12_exact.

(* Non-vacuity *)
Example C18_example_sgr :
  set_style (mkStyle (Some Red) (Some Blue) (Some false)) = Ok [27; 91; 48; 59; 51; 49; 59; 52; 52; 59; 50; 50; 109]
  /\ sgr_apply (mkStyle (Some Green) None (Some true)) [27; 91; 48; 59; 51; 49; 59; 52; 52; 59; 50; 50; 109]
     = Some (mkStyle (Some Red) (Some Blue) (Some false))
  /\ well_formed_sgr [27; 91; 48; 59; 59; 109] = false
  /\ well_formed_sgr [27; 91; 48; 109; 109] = false
  /\ sgr_apply style_new [27; 91; 48; 59; 51; 56; 109] = None.
Proof. vm_compute. repeat split. Qed.

(* {h({l})} {m}{n} at ERROR on a terminal stderr, nothing set: red+bold, reset, plain text *)
Example C18_example_append :
  append {| w_env := env_of None None None; w_out_tty := false; w_err_tty := true |}
         {| a_target := Stderr; a_tty_only := true;
            a_pattern := [CHighlight no_params [CLevel]; CText [32]; CMessage; CNewline] |}
         Error [104; 105]
  = Ok ([], [27; 91; 48; 59; 51; 49; 59; 49; 109; 69; 82; 82; 79; 82; 27; 91; 48; 109; 32; 104; 105; 10]).
Proof. vm_compute. reflexivity. Qed.

Example C18_example_precedence :
  colour_mode (env_of (Some [49]) (Some [49]) None) = Never         (* NO_COLOR beats CLICOLOR_FORCE *)
  /\ colour_mode (env_of (Some [48]) (Some [49]) (Some [48])) = Always  (* NO_COLOR=0 is off; FORCE beats CLICOLOR=0 *)
  /\ colour_mode (env_of None (Some [48]) (Some [48])) = Never
  /\ colour_mode (env_of (Some []) None None) = Never                (* set-but-empty counts as set *)
  /\ colour_mode (env_of None None (Some [49])) = Auto.
Proof. vm_compute. repeat split. Qed.

(* unrestricted appender, NO_COLOR=1, stdout a pipe, highlighted WARN: the plain text is written *)
Example C18_example_untied :
  let w := {| w_env := env_of (Some [49]) None None; w_out_tty := false; w_err_tty := true |} in
  let a := {| a_target := Stdout; a_tty_only := false;
              a_pattern := [CHighlight no_params [CLevel]; CText [32]; CMessage; CNewline] |} in
  a_tty_only a = false /\ known_class w a = false
  /\ append w a Warn [104; 105] = Ok ([87; 65; 82; 78; 32; 104; 105; 10], []).
Proof. vm_compute. repeat split. Qed.

(* {h({m}):.3} at ERROR, message abcde, colour on: truncated to 3 characters, reset kept;
   {h({m}):_>6.8}: right-aligned, fill first, then style, text, reset *)
Example C18_example_width :
  render true (enc_chunk (CHighlight {| p_min := None; p_max := Some 3; p_right := false; p_fill := [32] |}
                                     [CMessage]) Error [97; 98; 99; 100; 101])
  = [27; 91; 48; 59; 51; 49; 59; 49; 109; 97; 98; 99; 27; 91; 48; 109]
  /\ render true (enc_chunk (CHighlight {| p_min := Some 6; p_max := Some 8; p_right := true; p_fill := [95] |}
                                        [CMessage]) Warn [97; 98])
  = [95; 95; 95; 95; 27; 91; 48; 59; 51; 51; 109; 97; 98; 27; 91; 48; 109].
Proof. vm_compute. split; reflexivity. Qed.
