(* C20 — property theorems only: pinned statement, `exact`, Print Assumptions. *)
From Coq Require Import List NArith ZArith Bool.
Import ListNotations.
From L4 Require Import Model.Literals Proofs.Literals Model.LiteralVisitors Proofs.LiteralVisitors.
Local Open Scope N_scope.

(* "<digits><ws><unit><ws>" with any digit string (any length, leading zeros), any
   white space, any letter case of any size unit = number x 1024^k, or an error
   when the number or the product does not fit in 64 bits. *)
Theorem C20_size_exact :
  forall ds w u w' lit m,
    ds <> [] -> all_digits ds -> all_ws w -> all_ws w' ->
    In (lit, m) size_units -> spells u lit ->
    parse_size_str (ds ++ w ++ u ++ w') =
    if digits_value ds <? two64
    then (if digits_value ds * m <? two64 then Some (digits_value ds * m) else None)
    else None.
Proof. exact size_str_exact. Qed.
Print Assumptions C20_size_exact.

Theorem C20_size_bare_is_bytes :
  forall ds, ds <> [] -> all_digits ds ->
    parse_size_str ds = if digits_value ds <? two64 then Some (digits_value ds) else None.
Proof. exact size_str_bare. Qed.
Print Assumptions C20_size_bare_is_bytes.

Theorem C20_size_rejects_no_leading_digit :
  forall s, (match s with [] => True | c :: _ => is_digit c = false end) -> parse_size_str s = None.
Proof. exact size_str_rejects_no_digit. Qed.
Print Assumptions C20_size_rejects_no_leading_digit.

Theorem C20_size_rejects_unknown_unit :
  forall ds rest,
    all_digits ds -> rest <> [] ->
    (match rest with [] => True | c :: _ => is_digit c = false end) ->
    (forall lit m, In (lit, m) size_units -> ~ spells (trim rest) lit) ->
    parse_size_str (ds ++ rest) = None.
Proof. exact size_str_rejects_unknown_unit. Qed.
Print Assumptions C20_size_rejects_unknown_unit.

Theorem C20_size_rejects_number_overflow :
  forall ds rest,
    all_digits ds ->
    (match rest with [] => True | c :: _ => is_digit c = false end) ->
    two64 <= digits_value ds -> parse_size_str (ds ++ rest) = None.
Proof. exact size_str_rejects_overflow. Qed.
Print Assumptions C20_size_rejects_number_overflow.

Theorem C20_interval_exact :
  forall ds w u w' lit iu,
    ds <> [] -> all_digits ds -> all_ws w -> all_ws w' ->
    In (lit, iu) interval_units -> spells u lit ->
    parse_interval_str (ds ++ w ++ u ++ w') =
    if digits_value ds <? two63 then Some (iu, digits_value ds) else None.
Proof. exact interval_str_exact. Qed.
Print Assumptions C20_interval_exact.

Theorem C20_interval_bare_is_seconds :
  forall ds, ds <> [] -> all_digits ds ->
    parse_interval_str ds = if digits_value ds <? two63 then Some (Second, digits_value ds) else None.
Proof. exact interval_str_bare. Qed.
Print Assumptions C20_interval_bare_is_seconds.

Theorem C20_interval_rejects_no_leading_digit :
  forall s, (match s with [] => True | c :: _ => is_digit c = false end) -> parse_interval_str s = None.
Proof. exact interval_str_rejects_no_digit. Qed.
Print Assumptions C20_interval_rejects_no_leading_digit.

Theorem C20_interval_rejects_unknown_unit :
  forall ds rest,
    all_digits ds -> rest <> [] ->
    (match rest with [] => True | c :: _ => is_digit c = false end) ->
    (forall lit iu, In (lit, iu) interval_units -> ~ spells (trim rest) lit) ->
    parse_interval_str (ds ++ rest) = None.
Proof. exact interval_str_rejects_unknown_unit. Qed.
Print Assumptions C20_interval_rejects_unknown_unit.

Theorem C20_interval_rejects_number_overflow :
  forall ds rest,
    all_digits ds ->
    (match rest with [] => True | c :: _ => is_digit c = false end) ->
    two63 <= digits_value ds -> parse_interval_str (ds ++ rest) = None.
Proof. exact interval_str_rejects_overflow. Qed.
Print Assumptions C20_interval_rejects_number_overflow.

(* a number followed by any character that is not a digit, white space or an ASCII letter is
   rejected whatever comes after: fractions ("1.5kb", "1,5 kb"), signs, symbols, non-ASCII
   look-alikes.  Instances: fractional and negative numbers. *)
Theorem C20_rejects_nonletter_tail :
  forall ds c rest,
    all_digits ds -> is_digit c = false -> is_ws c = false -> ~ (97 <= lower c <= 122) ->
    parse_size_str (ds ++ c :: rest) = None /\ parse_interval_str (ds ++ c :: rest) = None.
Proof.
  intros ds c rest Hd Hc Hw Hn.
  exact (conj (size_str_rejects_nonletter_tail ds c rest Hd Hc Hw Hn)
              (interval_str_rejects_nonletter_tail ds c rest Hd Hc Hw Hn)).
Qed.
Print Assumptions C20_rejects_nonletter_tail.

Theorem C20_rejects_fraction :
  forall ds rest, all_digits ds ->
    parse_size_str (ds ++ 46 :: rest) = None /\ parse_interval_str (ds ++ 46 :: rest) = None.
Proof. exact rejects_fraction. Qed.
Print Assumptions C20_rejects_fraction.

Theorem C20_rejects_negative :
  forall rest, parse_size_str (45 :: rest) = None /\ parse_interval_str (45 :: rest) = None.
Proof. exact rejects_negative. Qed.
Print Assumptions C20_rejects_negative.

(* integer scalars: bytes / seconds when representable, rejected when negative or
   too wide; floats are rejected; no result ever lies outside u64 / i64 *)
Theorem C20_int_forms :
  forall z,
    parse_size (SInt z) = (if ((0 <=? z) && (z <? Z.of_N two64))%Z then Some (Z.to_N z) else None) /\
    parse_interval (SInt z) =
      (if ((0 <=? z) && (z <? Z.of_N two63))%Z then Some (Second, Z.to_N z) else None) /\
    parse_size SFloat = None /\ parse_interval SFloat = None.
Proof. intros z. split; [exact (size_int_exact z)|split; [exact (interval_int_exact z)|split; reflexivity]]. Qed.
Print Assumptions C20_int_forms.

(* ... whichever visitor method the document's front-end calls for it: serde_yaml / serde_json hand a
   non-negative integer to visit_u64 and a negative one to visit_i64, toml hands EVERY integer (it has
   only i64) to visit_i64.  Through each front-end that can carry the integer the visitor layer gives
   what C20_int_forms says, so the meaning does not depend on the front-end. *)
Theorem C20_int_through_every_front_end :
  forall (fe : frontend) (z : Z),
    in_range fe z = true ->
    size_of_int fe z = parse_size (SInt z) /\ interval_of_int fe z = parse_interval (SInt z).
Proof.
  exact (fun fe z H => conj (size_of_int_is_parse_size fe z H) (interval_of_int_is_parse_interval fe z H)).
Qed.
Print Assumptions C20_int_through_every_front_end.

Theorem C20_int_meaning_is_front_end_independent :
  forall (fe1 fe2 : frontend) (z : Z),
    in_range fe1 z = true -> in_range fe2 z = true ->
    size_of_int fe1 z = size_of_int fe2 z /\ interval_of_int fe1 z = interval_of_int fe2 z.
Proof. exact int_meaning_is_frontend_independent. Qed.
Print Assumptions C20_int_meaning_is_front_end_independent.

Theorem C20_never_wraps :
  (forall sc n, parse_size sc = Some n -> n < two64) /\
  (forall sc u n, parse_interval sc = Some (u, n) -> n < two63).
Proof. split; [exact size_result_in_range|exact interval_result_in_range]. Qed.
Print Assumptions C20_never_wraps.

(* Non-vacuity: concrete literals. "10 KiB " ; "17179869184gb" overflows ; "1.5kb" ; "-1" ;
   "3 Weeks" ; K = U+212A KELVIN SIGN is not 'k' *)
Example C20_examples :
  parse_size_str [49;48;32;75;105;66;32] = Some 10240 /\
  parse_size_str [49;55;49;55;57;56;54;57;49;56;52;103;98] = None /\
  parse_size_str [49;46;53;107;98] = None /\
  parse_size_str [45;49] = None /\
  parse_size_str [49;8490;98] = None /\
  parse_size_str [49;32] = None /\
  parse_interval_str [51;32;87;101;101;107;115] = Some (Week, 3) /\
  parse_interval (SInt 18446744073709551615) = None /\
  parse_interval_str [57;50;50;51;51;55;50;48;51;54;56;53;52;55;55;53;56;48;56] = None.
Proof. vm_compute. repeat split; reflexivity. Qed.
