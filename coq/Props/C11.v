(* C11 — property theorems only: pinned statement, `exact`, Print Assumptions.
   `construct` = PatternEncoder::new, `encode` = Encode::encode on the model of
   Model/Pattern.v; a panic would be the chunk CPanic / the output item Boom,
   non-termination the result OutOfFuel. *)
From Coq Require Import String Ascii.
From Coq Require Import List NArith Bool.
Import ListNotations.
From L4 Require Import Model.Pattern Proofs.PatternSpec Proofs.Pattern Proofs.PatternMeaning
     Proofs.PatternParse Proofs.PatternPrefix Proofs.PatternTheorems Proofs.PatternPrefixGen
     Proofs.PatternExtra.
Local Open Scope N_scope.

(* The parser terminates on every string: the fuel length+1 always suffices. *)
Theorem C11_parse_total :
  forall (al an : N -> bool) s, parse al an s <> OutOfFuel.
Proof. exact parse_total. Qed.
Print Assumptions C11_parse_total.

(* Construction from ANY string succeeds and no chunk is a panic. *)
Theorem C11_construct_no_panic :
  forall al an ok s, exists cs, construct al an ok s = Ok cs /\ forallb no_cpanic cs = true.
Proof. exact construct_no_panic. Qed.
Print Assumptions C11_construct_no_panic.

(* Encoding any record with an encoder constructed from ANY string never
   panics, for all widths, any date oracle. *)
Theorem C11_encode_no_panic :
  forall al an ok ts e s cs,
    construct al an ok s = Ok cs -> ~ In Boom (encode ok ts e cs).
Proof. exact encode_no_panic. Qed.
Print Assumptions C11_encode_no_panic.

(* Every error chunk of the compiled pattern is visible as {ERROR: msg}. *)
Theorem C11_errors_visible :
  forall ok ts e cs m,
    In (CError m) cs ->
    exists pre post, encode ok ts e cs = pre ++ chars (LIT "{ERROR: " ++ m ++ [125]) ++ post.
Proof. exact errors_visible. Qed.
Print Assumptions C11_errors_visible.

(* ... also when nested: an error chunk inside groups that are rendered for
   this record / build profile and carry no maximum width (which may cut it)
   appears in full in the output. *)
Theorem C11_nested_errors_visible :
  forall ok ts e m c,
    error_reachable e m c = true ->
    exists pre post,
      enc_chunk ok ts e c = pre ++ chars (LIT "{ERROR: " ++ m ++ [125]) ++ post.
Proof. exact nested_errors_visible. Qed.
Print Assumptions C11_nested_errors_visible.

(* The parser does not depend on its fuel (used below). *)
Theorem C11_parser_fuel_irrelevant :
  forall al an d k s, (length s < d)%nat -> (length s < k)%nat ->
                      top_loop (next al an d) k s = parse al an s.
Proof. exact top_loop_parse. Qed.
Print Assumptions C11_parser_fuel_irrelevant.

(* Whatever follows a well-formed pattern - junk of any kind - the well-formed
   part renders fully (its meaning) and the rest renders as it would alone.
   Only the open finding F-C09-empty-spec-lookahead is excluded: the last
   format of the well-formed part has a bare ':' spec and junk starts with
   '<' or '>'. *)
Theorem C11_prefix_renders_before_error :
  forall (al an : N -> bool), oracle_ok al an ->
  forall ok ts e seq junk cj,
    wf_seq al an true false seq = true ->
    forallb (sem_ok ok) seq = true ->
    last_not_lookahead seq junk ->
    construct al an ok junk = Ok cj ->
    exists cs, construct al an ok (print_seq seq ++ junk) = Ok cs
               /\ encode ok ts e cs = meaning_seq ts e seq ++ encode ok ts e cj.
Proof. exact prefix_renders_full. Qed.
Print Assumptions C11_prefix_renders_before_error.

(* A width whose decimal value exceeds usize::MAX is the error "width too
   large": no wrap-around, no panic, in every build profile. *)
Theorem C11_width_overflow_is_error :
  forall ds rest,
    forallb is_digit ds = true -> hd_digit rest = false ->
    usize_max < digits_val ds ->
    integer (ds ++ rest) = (inr msg_width, rest).
Proof. exact integer_overflow_is_error. Qed.
Print Assumptions C11_width_overflow_is_error.

(* An invalid time zone argument - the WHOLE literal argument is read (fix d5a5dce) - is
   an error chunk. *)
Theorem C11_invalid_zone_is_error :
  forall ok fmt z more prm,
    zone_valid z = false ->
    exists m, compile_date ok (fmt :: z :: more) prm = CError m.
Proof. exact invalid_zone_is_error. Qed.
Print Assumptions C11_invalid_zone_is_error.

(* Fixed finding F-C11-tz-first-piece: `{d(%Y)(utc{{x)}` reports the zone `utc{x`. *)
Theorem C11_tz_whole_argument :
  construct a_alpha a_alnum w_ok (LIT "{d(%Y)(utc{{x)}")
    = Ok [CError (LIT "invalid timezone `utc{x`")]
  /\ construct a_alpha a_alnum w_ok (LIT "{d(%Y)(utc)}|{d(%Y)(local)}")
     = Ok [CLeaf (KTime (LIT "%Y") Utc) default_params; CText (LIT "|");
           CLeaf (KTime (LIT "%Y") Local) default_params].
Proof. exact tz_whole_argument. Qed.
Print Assumptions C11_tz_whole_argument.

(* ---------- non-vacuity / regression instances ---------- *)

Example C11_ex_width_overflow :
  construct a_alpha a_alnum w_ok (LIT "{m:99999999999999999999999}")
  = Ok [CError (LIT "width too large")]
  /\ construct a_alpha a_alnum w_ok (LIT "{m:18446744073709551615}")
     = Ok [CLeaf KMessage (mkParams 32 ALeft (Some 18446744073709551615) None)]
  /\ construct a_alpha a_alnum w_ok (LIT "{m:.18446744073709551616}")
     = Ok [CError (LIT "width too large")].
Proof. repeat split; vm_compute; reflexivity. Qed.

Example C11_ex_invalid_date_format :
  construct a_alpha a_alnum (fun _ => false) (LIT "a{d(%Q)}b")
  = Ok [CText (LIT "a"); CError (LIT "invalid date format `%Q`"); CText (LIT "b")].
Proof. vm_compute; reflexivity. Qed.

Example C11_ex_errors :
  construct a_alpha a_alnum w_ok (LIT "x{nope}{m}}y{l")
  = Ok [CText (LIT "x"); CError (LIT "unknown formatter `nope`"); CLeaf KMessage default_params;
        CError (LIT "unmatched '}'"); CText (LIT "y"); CError (LIT "expected '}'")].
Proof. vm_compute; reflexivity. Qed.

Example C11_ex_nested_error :
  exists cs, construct a_alpha a_alnum w_ok (LIT "{h({({nope}):>30})}") = Ok cs /\
             forallb (error_reachable w_env (LIT "unknown formatter `nope`")) cs = true.
Proof. eexists; split; vm_compute; reflexivity. Qed.

Example C11_ex_prefix :
  last_not_lookahead ex_prefix_seq (LIT "{nope") /\
  wf_seq a_alpha a_alnum true false ex_prefix_seq = true /\
  forallb (sem_ok w_ok) ex_prefix_seq = true.
Proof. repeat split; vm_compute; try reflexivity; intros; try discriminate. Qed.
