(* C11 — property theorems only: pinned statement, `exact`, Print Assumptions. *)
From Coq Require Import String Ascii.
From Coq Require Import List NArith Bool.
Import ListNotations.
From L4 Require Import Model.Pattern Proofs.PatternSpec Proofs.Pattern.
Local Open Scope N_scope.

Theorem C11_error_chunk_renders :
  forall ok ts e m, enc_chunk ok ts e (CError m) = chars (lit "{ERROR: " ++ m ++ lit "}").
Proof. exact error_chunk_renders. Qed.
Print Assumptions C11_error_chunk_renders.
