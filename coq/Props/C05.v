(* C05 — property theorems only: pinned statement, `exact`, Print Assumptions.
   Vocabulary (Proofs/Rolling.v, Proofs/RollingStream.v):
     run c a0 pre ops      history: build (mode a0) over a directory whose active file
                           holds `pre` (or is absent), then the ops (Append chunks |
                           Restart mode); result (final state, event list per op)
     records ops           the acknowledged records, in call order
     pre_recs pre          pre-existing content counted as one earlier record
     read_order r          archive names oldest (highest index) .. newest, then Active
     content f n           bytes of file n, [] when absent
     rolls evs             number of rotations in an event log;  keep r = count (0 for delete)
     in_window r i         base <= i < base + count
     ghost evs g           segmentation of the written records computed from the event
                           log alone: (records of the current file, closed files newest first)
   The trigger is ANY of: SizeTrigger, OnStartUpTrigger, or an arbitrary oracle
   `TUser pre decide` (pre- or post-processing; time triggers under any clock and
   user-defined triggers are instances).  The roller is Delete or Window base count
   for any base and count (count 0 included). *)
From Coq Require Import List NArith Bool.
Import ListNotations.
From L4 Require Import Common.FSRoll Common.LockSerial Model.Rolling
  Proofs.Rolling Proofs.RollingStream Proofs.RollingConc Model.RollingBg Proofs.RollingBg
  Model.RollingFail Proofs.RollingFail.

(* For every append-mode history, trigger and roller: the acknowledged stream
   (pre-existing content, then the records in call order) splits as
   lost ++ kept where `lost` are whole evicted files (oldest first) and `kept`
   lists, per name in read order, the WHOLE records that file consists of — so
   every retained record is in exactly one file, unsplit, in write order, nothing
   is missing from the middle; no archive exists outside the window; exactly
   max (rotations - count) 0 files were evicted, none while rotations <= count. *)
Theorem C05_stream_suffix_invariant :
  forall c pre ops,
    append_restarts ops ->
    let s := fst (run c true pre ops) in
    let evs := concat (snd (run c true pre ops)) in
    let stream := pre_recs pre ++ records ops in
    let r := roll_by c in
    exists (lost kept : list (list bytes)),
      concat lost ++ concat kept = stream
      /\ map (content (files s)) (read_order r) = map (@concat N) kept
      /\ (forall i, in_window r i = false -> lookup (files s) (Arch i) = None)
      /\ length lost = rolls evs - keep r
      /\ (rolls evs <= keep r -> lost = []).
Proof. exact stream_suffix_invariant. Qed.
Print Assumptions C05_stream_suffix_invariant.

(* byte level: archives oldest -> newest followed by the active file read as a
   suffix of the stream that starts at a record boundary; the whole stream while
   at most `count` rotations happened *)
Theorem C05_read_is_suffix :
  forall c pre ops,
    append_restarts ops ->
    let s := fst (run c true pre ops) in
    let evs := concat (snd (run c true pre ops)) in
    let stream := pre_recs pre ++ records ops in
    exists k, read (roll_by c) (files s) = concat (skipn k stream)
              /\ (rolls evs <= keep (roll_by c) -> k = 0).
Proof. exact read_is_suffix. Qed.
Print Assumptions C05_read_is_suffix.

(* For EVERY history (truncating builds / restarts included): the directory is
   exactly the segmentation computed from the event log — active file = records
   written since the last rotation/truncation, archive base+j = the j-th newest
   closed file for j < count, nothing else. *)
Theorem C05_files_are_segments :
  forall c a0 pre ops,
    let s := fst (run c a0 pre ops) in
    let g := ghost (concat (snd (run c a0 pre ops))) (pre_recs pre, []) in
    content (files s) Active = concat (fst g)
    /\ forall i, lookup (files s) (Arch i) =
         if in_window (roll_by c) i
         then nth_error (map (@concat N) (snd g)) (i - base (roll_by c)) else None.
Proof. exact files_are_segments. Qed.
Print Assumptions C05_files_are_segments.

(* every call writes exactly its record, once, in call order (any mode) *)
Theorem C05_history_writes_records :
  forall c a0 pre ops, wrote (concat (snd (run c a0 pre ops))) = records ops.
Proof. exact history_writes_records. Qed.
Print Assumptions C05_history_writes_records.

(* the segmentation partitions the written records in order; one closed file per
   rotation (a statement about event logs only, no model involved) *)
Theorem C05_segmentation_partitions :
  forall evs g,
    Forall (fun e => is_trunc e = false) evs ->
    concat (rev (snd (ghost evs g))) ++ fst (ghost evs g)
      = (concat (rev (snd g)) ++ fst g) ++ wrote evs
    /\ length (snd (ghost evs g)) = length (snd g) + rolls evs.
Proof. intros evs g H. split; [exact (ghost_stream evs g H)|exact (ghost_closed evs g)]. Qed.
Print Assumptions C05_segmentation_partitions.

(* restart on the same path: append mode changes no file content (an absent
   active file is created empty); truncate mode empties exactly the active file;
   no record is written, nothing rotates *)
Theorem C05_restart_preserves :
  forall c s a,
    reach c s ->
    let s' := fst (step c (Restart a) s) in
    reach c s'
    /\ content (files s') Active = (if a then content (files s) Active else [])
    /\ (forall i, lookup (files s') (Arch i) = lookup (files s) (Arch i))
    /\ wrote (snd (step c (Restart a) s)) = [] /\ rolls (snd (step c (Restart a) s)) = 0.
Proof. exact restart_preserves. Qed.
Print Assumptions C05_restart_preserves.

(* Concurrent writers: threads t = 0,1,.. each append their records `progs t`
   through one appender; `append` = Acquire; append_micro; Release
   (Common/LockSerial.v).  For EVERY schedule, once all calls returned, state
   and event log equal the sequential history of the calls in lock-acquisition
   order, an interleaving of the threads' programs. *)
Theorem C05_schedules_reduce_to_histories :
  forall c s (progs : nat -> list (list bytes)) sch,
    let st := run_sched sh (list bytes) (append_micro c) sch (init sh (list bytes) progs (s, [])) in
    all_done sh (list bytes) st ->
    let order := map snd (acq sh (list bytes) st) in
    is_merge (list bytes) progs (acq sh (list bytes) st)
    /\ fst (shared sh (list bytes) st) = fst (run_ops c (map Append order) s)
    /\ snd (shared sh (list bytes) st) = concat (snd (run_ops c (map Append order) s)).
Proof. exact schedules_reduce_to_histories. Qed.
Print Assumptions C05_schedules_reduce_to_histories.

(* the critical section executed alone is exactly `append` of the model *)
Theorem C05_critical_section_is_append :
  forall c chunks s l,
    run_micro sh (append_micro c chunks) (s, l)
    = (fst (append_op c chunks s), l ++ snd (append_op c chunks s)).
Proof. exact append_micro_seq. Qed.
Print Assumptions C05_critical_section_is_append.

(* ... hence the stream invariant after an append-mode history followed by a
   burst of threads under any schedule *)
Theorem C05_concurrent_stream_invariant :
  forall c pre ops0 (progs : nat -> list (list bytes)) sch,
    append_restarts ops0 ->
    let s := fst (run c true pre ops0) in
    let st := run_sched sh (list bytes) (append_micro c) sch (init sh (list bytes) progs (s, [])) in
    all_done sh (list bytes) st ->
    let order := acq sh (list bytes) st in
    let final := fst (shared sh (list bytes) st) in
    let evs := concat (snd (run c true pre ops0)) ++ snd (shared sh (list bytes) st) in
    let stream := pre_recs pre ++ records ops0 ++ map (@concat N) (map snd order) in
    let r := roll_by c in
    is_merge (list bytes) progs order
    /\ exists (lost kept : list (list bytes)),
         concat lost ++ concat kept = stream
         /\ map (content (files final)) (read_order r) = map (@concat N) kept
         /\ (forall i, in_window r i = false -> lookup (files final) (Arch i) = None)
         /\ (rolls evs <= keep r -> lost = []).
Proof. exact concurrent_stream_invariant. Qed.
Print Assumptions C05_concurrent_stream_invariant.

(* Non-vacuity.  A post-processing oracle firing at consultations 1 and 3,
   window(base 7, count 1), pre-existing "ab": two rotations, the older file is
   evicted whole, the newer one and the active file partition the rest. *)
Example C05_example :
  let c := {| trig := TUser false (fun i _ => Nat.eqb i 1 || Nat.eqb i 3); roll_by := Window 7 1 |} in
  let r := run c true (Some [97;98]%N)
             [Append [[49]%N]; Append [[50]%N;[51]%N]; Restart true; Append [[52]%N]; Append [[53]%N]; Append [[54]%N]] in
  map (fun n => lookup (files (fst r)) n) [Active; Arch 7; Arch 8; Arch 6]
    = [Some [54]%N; Some [52;53]%N; None; None]
  /\ ghost (concat (snd r)) (pre_recs (Some [97;98]%N), [])
     = ([[54]%N], [[[52]%N;[53]%N]; [[97;98]%N;[49]%N;[50;51]%N]])
  /\ rolls (concat (snd r)) = 2.
Proof. vm_compute. repeat split; reflexivity. Qed.

(* two threads, a schedule that interleaves their lock attempts: thread 1 wins
   the lock first, thread 0 blocks until the release *)
Example C05_example_schedule :
  let c := {| trig := TSize 2; roll_by := Window 0 2 |} in
  let s := fst (run c true None []) in
  let progs := fun t => match t with 0 => [[[65]%N]; [[66]%N]] | 1 => [[[67]%N;[68]%N]] | _ => [] end in
  let st := run_sched sh (list bytes) (append_micro c)
              [1;0;1;0;1;1;0;1;1;1;0;0;0;0;0;0;0;0;0;0;0;0;0;0] (init sh (list bytes) progs (s, [])) in
  map (fun p => (fst p, concat (snd p))) (acq sh (list bytes) st)
    = [(1, [67;68]%N); (0, [65]%N); (0, [66]%N)]
  /\ owner sh (list bytes) st = None
  /\ map (fun t => length (todo sh (list bytes) (threads sh (list bytes) st t))) [0;1;2] = [0;0;0]
  /\ map (fun n => lookup (files (fst (shared sh (list bytes) st))) n) [Active; Arch 0; Arch 1]
     = [Some [66]%N; Some [67;68;65]%N; None].
Proof. vm_compute. repeat split; reflexivity. Qed.

(* A roller that ROTATES and then reports failure (a user Roll impl whose post-processing fails, a notification that
   cannot be sent): for every trigger and roller the appender is left as after a successful append whenever the record
   was written; under a pre-processing trigger that fired the call returns Err with the rotation done, the writer slot
   empty and the record - not acknowledged - not written.  The stream invariant over the ACKNOWLEDGED records is
   therefore the one of the same history with working rollers. *)
Theorem C05_roller_failing_after_rotation :
  forall c chunks s, Good s ->
    let r := append_op_fail_after c chunks s in
    (snd r = false -> fst (fst r) = fst (append_op c chunks s)) /\
    (snd r = true -> is_pre (trig c) = false -> fst (fst r) = fst (append_op c chunks s)) /\
    (snd r = true -> is_pre (trig c) = true ->
       files (fst (fst r)) = do_roll (roll_by c) (files (get_writer s)) /\ writer (fst (fst r)) = None /\
       wrote (snd (fst r)) = []).
Proof. exact fail_after_is_append_or_unacknowledged. Qed.
Print Assumptions C05_roller_failing_after_rotation.

(* ---- background rotation (`background_rotation` feature) ----
   Model/RollingBg.v: the appender's file-system calls (derived from the model
   above by `prog_of`: open/create/truncate, one write per chunk, and for a roll
   `move_file(active, temp)` then `wait ready; spawn rotate(temp)`) interleaved,
   under ANY schedule, with the rename steps of the rotation thread; `ts i` is
   the temp name picked by operation i; `bad` = a temp name that already exists
   was picked or a file that is not there was rolled (make_temp_file_name's loop
   and the appender exclude both).
   At every quiescent point (program done, no rotation in flight) the directory is
   exactly the synchronous model's, so every theorem above applies to it. *)
Theorem C05_background_quiescent_is_sync :
  forall c a0 pre ops (ts : nat -> nat) (sch : list bool) s',
    let b := fst (bk_of (roll_by c)) in
    let k := snd (bk_of (roll_by c)) in
    let prog := prog_of c (Restart a0 :: ops) (raw pre) ts 0 in
    run_bg b k sch prog (bg_init (to_store (init_fs pre))) = ([], s') ->
    infl s' = [] -> bad s' = false ->
    forall n, bfiles s' n = to_store (files (fst (run c a0 pre ops))) n.
Proof. exact bg_history_quiescent. Qed.
Print Assumptions C05_background_quiescent_is_sync.

(* ... and at ANY moment of ANY schedule, completing the rotation in flight and
   the spawn that is waiting for it (`norm`) gives the synchronous directory
   after the file-system calls made so far (`done`): nothing is lost, duplicated
   or reordered by the interleaving itself; what is not yet in its archive slot
   sits whole in a temp file. *)
Theorem C05_background_anytime :
  forall c a0 pre ops (ts : nat -> nat) (sch : list bool) rest s',
    let b := fst (bk_of (roll_by c)) in
    let k := snd (bk_of (roll_by c)) in
    let prog := prog_of c (Restart a0 :: ops) (raw pre) ts 0 in
    run_bg b k sch prog (bg_init (to_store (init_fs pre))) = (rest, s') -> bad s' = false ->
    exists done, prog = done ++ rest
      /\ forall n, norm b k rest s' n = sync_exec b k done (to_store (init_fs pre)) n.
Proof. exact bg_history_anytime. Qed.
Print Assumptions C05_background_anytime.

(* the synchronous program semantics used above is the model's: after any history
   the model's directory is the `sync_exec` of its own file-system calls *)
Theorem C05_background_program_is_model :
  forall c ops s (ts : nat -> nat) i n,
    to_store (files (fst (run_ops c ops s))) n
    = sync_exec (fst (bk_of (roll_by c))) (snd (bk_of (roll_by c))) (prog_of c ops s ts i) (to_store (files s)) n.
Proof. exact prog_of_sync. Qed.
Print Assumptions C05_background_program_is_model.

(* Non-vacuity: size trigger 2, window(0,2), three records.  (i) the foreground runs
   ahead: after 7 of its calls and one background step two temp files exist (temp 1
   in flight, temp 2 renamed, its spawn blocked); (ii) a schedule that lets both
   threads finish ends in the synchronous model's directory. *)
Example C05_example_background :
  let c := {| trig := TSize 2; roll_by := Window 0 2 |} in
  let ops := [Append [[49;50;51]%N]; Append [[52;53;54]%N]; Append [[55]%N]] in
  let prog := prog_of c (Restart true :: ops) (raw None) (fun i => i) 0 in
  let names := [BActive; BArch 0; BArch 1; BArch 2; BTemp 1; BTemp 2] in
  let mid := run_bg 0 1 (repeat true 7 ++ [false]) prog (bg_init (to_store (init_fs None))) in
  let fin := run_bg 0 1 (repeat true 20 ++ repeat false 20 ++ repeat true 20 ++ repeat false 20) prog
               (bg_init (to_store (init_fs None))) in
  prog = [MOpen false; MWrite [49;50;51]%N; MRename 1; MSpawn 1; MOpen false; MWrite [52;53;54]%N;
          MRename 2; MSpawn 2; MOpen false; MWrite [55]%N]
  /\ fst mid = [MSpawn 2; MOpen false; MWrite [55]%N]
  /\ infl (snd mid) = [SRen (BTemp 1) (BArch 0)] /\ bad (snd mid) = false
  /\ map (bfiles (snd mid)) names = [None; None; None; None; Some [49;50;51]%N; Some [52;53;54]%N]
  /\ fst fin = [] /\ infl (snd fin) = [] /\ bad (snd fin) = false
  /\ map (bfiles (snd fin)) names = [Some [55]%N; Some [52;53;54]%N; Some [49;50;51]%N; None; None; None]
  /\ map (fun n => lookup (files (fst (run c true None ops))) n) [Active; Arch 0; Arch 1; Arch 2]
     = [Some [55]%N; Some [52;53;54]%N; Some [49;50;51]%N; None].
Proof. vm_compute. repeat split; reflexivity. Qed.
