(* C17 — property theorems only: pinned statement, `exact`, Print Assumptions. *)
From Coq Require Import List NArith Bool.
Import ListNotations.
From L4 Require Import Common.FSRoll Common.LockSerial Model.Rolling Model.RollingFail Proofs.Rolling Proofs.RollingStream Proofs.RollingConc Proofs.RollingFail.
Local Open Scope N_scope.

(* A lifetime = an appender built (append or truncate mode) over the directory
   left by any earlier history, then any number of appends.  At most one
   consultation of the on-start-up trigger fires in it. *)
Theorem C17_at_most_one_roll :
  forall m rl s a rs,
    let c := {| trig := TStartup m; roll_by := rl |} in
    reach c s ->
    (rolls (concat (snd (run_ops c (map Append rs) (fst (build a (files s) (consults s)))))) <= 1)%nat.
Proof. exact at_most_one_roll. Qed.
Print Assumptions C17_at_most_one_roll.

(* The i-th append of the lifetime rotates iff it is the first one and the
   file that existed after the build holds at least min_size bytes. *)
Theorem C17_rolls_iff_first_and_big_enough :
  forall m rl s a rs i evi,
    let c := {| trig := TStartup m; roll_by := rl |} in
    reach c s ->
    let s0 := fst (build a (files s) (consults s)) in
    nth_error (snd (run_ops c (map Append rs) s0)) i = Some evi ->
    (rolls evi = 1%nat <-> (i = 0%nat /\ m <= disk_len (files s0)))
    /\ (rolls evi = 0%nat <-> ~ (i = 0%nat /\ m <= disk_len (files s0))).
Proof. exact rolls_iff_first_and_big_enough. Qed.
Print Assumptions C17_rolls_iff_first_and_big_enough.

(* When it fires (window roller with count >= 1) the pre-existing content is
   the newest archive and the first record starts a fresh active file. *)
Theorem C17_preexisting_becomes_newest_archive :
  forall m b k s a chunks pre,
    let c := {| trig := TStartup m; roll_by := Window b (S k) |} in
    reach c s ->
    let s0 := fst (build a (files s) (consults s)) in
    lookup (files s0) Active = Some pre -> m <= blen pre ->
    let s1 := fst (append_op c chunks s0) in
    lookup (files s1) (Arch b) = Some pre
    /\ lookup (files s1) Active = Some (concat chunks)
    /\ rolls (snd (append_op c chunks s0)) = 1%nat.
Proof. exact preexisting_becomes_newest_archive. Qed.
Print Assumptions C17_preexisting_becomes_newest_archive.

(* what the build leaves as "the file that existed at that moment" *)
Theorem C17_build_file :
  forall a f n,
    lookup (files (fst (build a f n))) Active = Some (if a then content f Active else [])
    /\ fired (fst (build a f n)) = false.
Proof. intros a f n. destruct (build_spec a f n) as (_ & F & _ & _ & L & _). split; assumption. Qed.
Print Assumptions C17_build_file.

(* A whole lifetime, any roller (delete and count 0 included): if any record
   arrives, exactly one rotation iff the file at build time holds >= min_size
   bytes; the active file then holds exactly the new records (the first record
   started a fresh file), otherwise the old content followed by them; the
   archives are those of one `roll` of the build-time directory, or untouched. *)
Theorem C17_startup_lifetime :
  forall m rl s a rs,
    let c := {| trig := TStartup m; roll_by := rl |} in
    reach c s ->
    let s0 := fst (build a (files s) (consults s)) in
    let big := m <=? disk_len (files s0) in
    let s' := fst (run_ops c (map Append rs) s0) in
    rs <> [] ->
    rolls (concat (snd (run_ops c (map Append rs) s0))) = (if big then 1 else 0)%nat
    /\ lookup (files s') Active
       = Some ((if big then [] else content (files s0) Active) ++ concat (map (@concat N) rs))
    /\ (forall i, lookup (files s') (Arch i)
        = lookup (if big then do_roll rl (files s0) else files s0) (Arch i)).
Proof. exact startup_lifetime. Qed.
Print Assumptions C17_startup_lifetime.

(* The first records arrive simultaneously from any number of threads
   (thread t appends `progs t`; `append` = Acquire; append_micro; Release, see
   Common/LockSerial.v), under EVERY schedule, once all calls have returned:
   the lock order interleaves the threads' programs; at most one rotation; if
   any record was appended: one rotation iff the build-time file holds >=
   min_size bytes, it is requested by the call that acquired the lock first
   (evs1 = that call's events) and by no later one; every record of every
   thread is in the active file, in lock order, after nothing (rolled) or after
   the old content (not rolled). *)
Theorem C17_concurrent_first_appends :
  forall m rl s a (progs : nat -> list (list bytes)) sch,
    let c := {| trig := TStartup m; roll_by := rl |} in
    reach c s ->
    let s0 := fst (build a (files s) (consults s)) in
    let st := run_sched sh (list bytes) (append_micro c) sch (init sh (list bytes) progs (s0, [])) in
    all_done sh (list bytes) st ->
    let order := acq sh (list bytes) st in
    let final := fst (shared sh (list bytes) st) in
    let big := m <=? disk_len (files s0) in
    is_merge (list bytes) progs order
    /\ (rolls (snd (shared sh (list bytes) st)) <= 1)%nat
    /\ (order <> [] ->
        rolls (snd (shared sh (list bytes) st)) = (if big then 1 else 0)%nat
        /\ (exists evs1 rest, snd (shared sh (list bytes) st) = evs1 ++ rest
              /\ evs1 = snd (append_op c (snd (hd (0%nat, []) order)) s0)
              /\ rolls evs1 = (if big then 1 else 0)%nat /\ rolls rest = 0%nat)
        /\ lookup (files final) Active
           = Some ((if big then [] else content (files s0) Active)
                   ++ concat (map (@concat N) (map snd order)))
        /\ (forall i, lookup (files final) (Arch i)
            = lookup (if big then do_roll rl (files s0) else files s0) (Arch i))).
Proof. exact concurrent_first_appends. Qed.
Print Assumptions C17_concurrent_first_appends.

(* the critical section executed alone is exactly `append` of the model *)
Theorem C17_critical_section_is_append :
  forall c chunks s l,
    run_micro sh (append_micro c chunks) (s, l)
    = (fst (append_op c chunks s), l ++ snd (append_op c chunks s)).
Proof. exact append_micro_seq. Qed.
Print Assumptions C17_critical_section_is_append.

(* A lifetime in which any append may hit a FAILING roller (Model/RollingFail.v),
   built over a directory left by any history with failed rolls: the numbers of
   rotations requested per append are (1 or 0, 0, 0, ...) — one request, in the
   first append only, iff the build-time file holds >= min_size bytes, whether
   or not that rotation succeeds (the roller refusing before it touches anything,
   or rotating and then reporting failure); a failed one is never retried. *)
Theorem C17_requests_once_failing_rolls :
  forall m rl s a ops,
    let c := {| trig := TStartup m; roll_by := rl |} in
    (exists pre ops0, s = fst (xrun_ops c ops0 (raw pre))) ->
    forallb (fun o => match o with XOp (Append _) => true | XAppendFail _ => true | XAppendFailAfter _ => true
                              | _ => false end) ops = true ->
    let s0 := fst (build a (files s) (consults s)) in
    let big := m <=? disk_len (files s0) in
    map (fun p => rolls (fst p)) (snd (xrun_ops c ops s0))
    = match ops with [] => [] | _ :: rest => (if big then 1 else 0)%nat :: repeat 0%nat (length rest) end.
Proof. exact startup_requests_once_x. Qed.
Print Assumptions C17_requests_once_failing_rolls.

(* Non-vacuity: min_size 2 over "abc": first append rolls, later ones do not; after
   a restart over 2 bytes it rolls again, after one over 1 byte it does not; min_size 0 in truncate mode rolls the empty file. *)
Example C17_example :
  let c := {| trig := TStartup 2; roll_by := Window 0 2 |} in
  let r := run c true (Some [97;98;99]) [Append [[49]]; Append [[50]]; Restart true; Append [[51]]; Restart true; Append [[52]]] in
  map (fun n => lookup (files (fst r)) n) [Active; Arch 0; Arch 1; Arch 2]
    = [Some [51;52]; Some [49;50]; Some [97;98;99]; None]
  /\ map rolls (snd r) = [0;1;0;0;1;0;0]%nat.
Proof. vm_compute. split; reflexivity. Qed.

Example C17_example_min0_truncate :
  let c := {| trig := TStartup 0; roll_by := Window 1 1 |} in
  let r := run c false (Some [97]) [Append [[49]]] in
  map (fun n => lookup (files (fst r)) n) [Active; Arch 1] = [Some [49]; Some []]
  /\ map rolls (snd r) = [0;1]%nat.
Proof. vm_compute. split; reflexivity. Qed.

(* three threads race for the first append over a 3-byte file, min_size 3:
   thread 2 wins the lock, its call rolls, the others do not *)
Example C17_example_threads :
  let c := {| trig := TStartup 3; roll_by := Window 1 2 |} in
  let s0 := fst (build true [(Active, [97;98;99])] 0) in
  let progs := fun t => match t with 0%nat => [[[65]]] | 1%nat => [[[66]]] | 2%nat => [[[67]]] | _ => [] end in
  let st := run_sched sh (list bytes) (append_micro c)
              (2 :: 0 :: 1 :: repeat 2 6 ++ repeat 1 7 ++ repeat 0 7)%nat (init sh (list bytes) progs (s0, [])) in
  map fst (acq sh (list bytes) st) = [2; 1; 0]%nat
  /\ owner sh (list bytes) st = None
  /\ map (fun t => length (todo sh (list bytes) (threads sh (list bytes) st t))) [0;1;2;3]%nat = [0;0;0;0]%nat
  /\ map is_roll (snd (shared sh (list bytes) st)) = [true; false; false; false; false; false]
  /\ map (fun n => lookup (files (fst (shared sh (list bytes) st))) n) [Active; Arch 1; Arch 2]
     = [Some [67;66;65]; Some [97;98;99]; None].
Proof. vm_compute. repeat split; reflexivity. Qed.

(* the start-up rotation fails: Err, record 1 not written, old file kept; no retry *)
Example C17_example_failing_roll :
  let c := {| trig := TStartup 1; roll_by := Window 0 1 |} in
  let r := xrun c true (Some [97]) [XAppendFail [[49]]; XOp (Append [[50]]); XOp (Append [[51]])] in
  map (fun n => lookup (files (fst r)) n) [Active; Arch 0] = [Some [97;50;51]; None]
  /\ map (fun p => (rolls (fst p), snd p)) (snd r) = [(0, false); (1, true); (0, false); (0, false)]%nat.
Proof. vm_compute. split; reflexivity. Qed.
