(* C17 — property theorems only: pinned statement, `exact`, Print Assumptions. *)
From Coq Require Import List NArith Bool.
Import ListNotations.
From L4 Require Import Common.FSRoll Model.Rolling Proofs.Rolling.
Local Open Scope N_scope.

(* A lifetime = an appender built (append or truncate mode) over the directory
   left by any earlier history, then any number of appends.  At most one
   consultation of the on-start-up trigger fires in it. *)
Theorem C17_at_most_one_roll :
  forall m rl s a rs,
    let c := {| trig := TStartup m; roll_by := rl |} in
    reach c s ->
    (rolls (concat (snd (run_ops c (map Append rs) (fst (build a (files s) (consults s)))))) <= 1)%nat.
Proof. exact at_most_one_roll. Qed.
Print Assumptions C17_at_most_one_roll.

(* The i-th append of the lifetime rotates iff it is the first one and the
   file that existed after the build holds at least min_size bytes. *)
Theorem C17_rolls_iff_first_and_big_enough :
  forall m rl s a rs i evi,
    let c := {| trig := TStartup m; roll_by := rl |} in
    reach c s ->
    let s0 := fst (build a (files s) (consults s)) in
    nth_error (snd (run_ops c (map Append rs) s0)) i = Some evi ->
    (rolls evi = 1%nat <-> (i = 0%nat /\ m <= disk_len (files s0)))
    /\ (rolls evi = 0%nat <-> ~ (i = 0%nat /\ m <= disk_len (files s0))).
Proof. exact rolls_iff_first_and_big_enough. Qed.
Print Assumptions C17_rolls_iff_first_and_big_enough.

(* When it fires (window roller with count >= 1) the pre-existing content is
   the newest archive and the first record starts a fresh active file. *)
Theorem C17_preexisting_becomes_newest_archive :
  forall m b k s a chunks pre,
    let c := {| trig := TStartup m; roll_by := Window b (S k) |} in
    reach c s ->
    let s0 := fst (build a (files s) (consults s)) in
    lookup (files s0) Active = Some pre -> m <= blen pre ->
    let s1 := fst (append_op c chunks s0) in
    lookup (files s1) (Arch b) = Some pre
    /\ lookup (files s1) Active = Some (concat chunks)
    /\ rolls (snd (append_op c chunks s0)) = 1%nat.
Proof. exact preexisting_becomes_newest_archive. Qed.
Print Assumptions C17_preexisting_becomes_newest_archive.

(* what the build leaves as "the file that existed at that moment" *)
Theorem C17_build_file :
  forall a f n,
    lookup (files (fst (build a f n))) Active = Some (if a then content f Active else [])
    /\ fired (fst (build a f n)) = false.
Proof. intros a f n. destruct (build_spec a f n) as (_ & F & _ & _ & L & _). split; assumption. Qed.
Print Assumptions C17_build_file.

(* Non-vacuity: min_size 2 over "abc": first append rolls, later ones do not; after
   a restart over 2 bytes it rolls again, after one over 1 byte it does not; min_size 0 in truncate mode rolls the empty file. *)
Example C17_example :
  let c := {| trig := TStartup 2; roll_by := Window 0 2 |} in
  let r := run c true (Some [97;98;99]) [Append [[49]]; Append [[50]]; Restart true; Append [[51]]; Restart true; Append [[52]]] in
  map (fun n => lookup (files (fst r)) n) [Active; Arch 0; Arch 1; Arch 2]
    = [Some [51;52]; Some [49;50]; Some [97;98;99]; None]
  /\ map rolls (snd r) = [0;1;0;0;1;0;0]%nat.
Proof. vm_compute. split; reflexivity. Qed.

Example C17_example_min0_truncate :
  let c := {| trig := TStartup 0; roll_by := Window 1 1 |} in
  let r := run c false (Some [97]) [Append [[49]]] in
  map (fun n => lookup (files (fst r)) n) [Active; Arch 1] = [Some [49]; Some []]
  /\ map rolls (snd r) = [0;1]%nat.
Proof. vm_compute. split; reflexivity. Qed.
