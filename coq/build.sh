#!/bin/bash
# Full .vo build of the Coq development (no -vos). Usage: coq/build.sh [make targets...]
set -e
cd "$(dirname "$0")"
# one build at a time in this directory (several checks/agents may call this concurrently)
mkdir -p ../.cache
exec 9> ../.cache/coq-build.lock
flock 9
{
  echo "-Q . L4"
  echo "-arg -w -arg -notation-overridden,-abstract-large-number,-deprecated-hint-without-locality,-deprecated-instance-without-locality"
  find Common Model Proofs Props Run -name '*.v' | sort
} > _CoqProject.new
if ! cmp -s _CoqProject.new _CoqProject 2>/dev/null; then
  mv _CoqProject.new _CoqProject
  coq_makefile -f _CoqProject -o Makefile > /dev/null
else
  rm -f _CoqProject.new
fi
timeout 3000 make -j16 --no-print-directory "$@"
