x
