//! Shared helpers for the per-property drivers.

use log::{Level, LevelFilter};

pub fn level_filter(n: u128) -> LevelFilter {
    match n {
        0 => LevelFilter::Off,
        1 => LevelFilter::Error,
        2 => LevelFilter::Warn,
        3 => LevelFilter::Info,
        4 => LevelFilter::Debug,
        5 => LevelFilter::Trace,
        _ => panic!("bad level filter {}", n),
    }
}

pub fn level(n: u128) -> Level {
    match n {
        1 => Level::Error,
        2 => Level::Warn,
        3 => Level::Info,
        4 => Level::Debug,
        5 => Level::Trace,
        _ => panic!("bad level {}", n),
    }
}

pub fn level_filter_n(l: LevelFilter) -> u128 {
    l as usize as u128
}

use crate::val::Val;
use std::sync::{Arc, Mutex};

/// What a case does not say and must not matter: WHAT error a scripted failure is.  The text (`to_string()`) is
/// always `msg`; by turn the error is a bare message, an `io::Error` of one of a dozen kinds (Interrupted and
/// WouldBlock - the "try again" kinds - included), bare or under an anyhow context, a `fmt::Error` under a
/// context, or a custom error type with a source chain.
pub fn varied_error(msg: String) -> anyhow::Error {
    use std::io::ErrorKind::*;
    static TURN: std::sync::atomic::AtomicUsize = std::sync::atomic::AtomicUsize::new(0);
    let t = TURN.fetch_add(1, std::sync::atomic::Ordering::SeqCst);
    const KINDS: [std::io::ErrorKind; 12] = [
        Interrupted, WouldBlock, Other, BrokenPipe, TimedOut, WriteZero, UnexpectedEof, NotFound, PermissionDenied,
        OutOfMemory, AlreadyExists, InvalidData,
    ];
    #[derive(Debug)]
    struct Chained(String, std::io::Error);
    impl std::fmt::Display for Chained {
        fn fmt(&self, f: &mut std::fmt::Formatter) -> std::fmt::Result {
            f.write_str(&self.0)
        }
    }
    impl std::error::Error for Chained {
        fn source(&self) -> Option<&(dyn std::error::Error + 'static)> {
            Some(&self.1)
        }
    }
    let kind = KINDS[(t / 5) % KINDS.len()];
    match t % 5 {
        0 => anyhow::anyhow!("{}", msg),
        1 => anyhow::Error::new(std::io::Error::new(kind, msg)),
        2 => anyhow::Error::new(std::io::Error::from(kind)).context(msg),
        3 => anyhow::Error::new(Chained(msg, std::io::Error::from(kind))),
        _ => anyhow::Error::new(std::fmt::Error).context(msg),
    }
}

pub type Rec = Arc<Mutex<Vec<Val>>>;

pub fn new_rec() -> Rec {
    Arc::new(Mutex::new(Vec::new()))
}

/// An appender that records each call as (1 idx) and optionally fails with
/// an error whose text is the index.
#[derive(Debug)]
pub struct RecAppender {
    pub idx: usize,
    pub fails: bool,
    pub rec: Rec,
}

impl log4rs::append::Append for RecAppender {
    fn append(&self, _record: &log::Record) -> anyhow::Result<()> {
        self.rec
            .lock()
            .unwrap()
            .push(Val::L(vec![Val::N(1), Val::N(self.idx as u128)]));
        if self.fails {
            Err(varied_error(format!("{}", self.idx)))
        } else {
            Ok(())
        }
    }
    fn flush(&self) {}
}

/// A filter wrapper that records each consultation as (0 app k) and then
/// delegates to the wrapped filter.
#[derive(Debug)]
pub struct SpyFilter {
    pub app: usize,
    pub k: usize,
    pub inner: Box<dyn log4rs::filter::Filter>,
    pub rec: Rec,
}

impl log4rs::filter::Filter for SpyFilter {
    fn filter(&self, record: &log::Record) -> log4rs::filter::Response {
        self.rec.lock().unwrap().push(Val::L(vec![
            Val::N(0),
            Val::N(self.app as u128),
            Val::N(self.k as u128),
        ]));
        self.inner.filter(record)
    }
}

#[derive(Debug)]
pub struct FixedFilter(pub u8);

impl log4rs::filter::Filter for FixedFilter {
    fn filter(&self, _record: &log::Record) -> log4rs::filter::Response {
        match self.0 {
            0 => log4rs::filter::Response::Accept,
            1 => log4rs::filter::Response::Neutral,
            _ => log4rs::filter::Response::Reject,
        }
    }
}

/// File timestamps are part of the environment a rolling appender starts in and none of the
/// properties lets them matter: give a pre-existing file / directory one of a few modification
/// times (now, seconds or an hour or a year ahead, a day ago, 2001, the epoch), cycling through
/// them on every call so that every driver sees all of them.
pub fn vary_mtime(path: &std::path::Path) {
    use std::sync::atomic::{AtomicUsize, Ordering};
    use std::time::{Duration, SystemTime, UNIX_EPOCH};
    static TURN: AtomicUsize = AtomicUsize::new(0);
    let now = SystemTime::now();
    let t = match TURN.fetch_add(1, Ordering::SeqCst) % 7 {
        0 => return,
        1 => now + Duration::from_secs(5),
        2 => now + Duration::from_secs(3600),
        3 => now - Duration::from_secs(86_400),
        4 => UNIX_EPOCH + Duration::from_secs(978_307_200),
        5 => now + Duration::from_secs(400 * 86_400),
        _ => UNIX_EPOCH,
    };
    if let Ok(f) = std::fs::File::open(path) {
        let _ = f.set_modified(t);
    }
}

/// Appender names for drivers whose cases speak of appenders by index.  An appender's name is an
/// opaque string compared exactly; the style changes with every call of `next_name_style` (one per
/// case): plain `a<i>`, names that differ only by surrounding white space, names that differ only by
/// case / look-alike letters.
static NAME_STYLE: std::sync::atomic::AtomicUsize = std::sync::atomic::AtomicUsize::new(0);

pub fn next_name_style() {
    NAME_STYLE.fetch_add(1, std::sync::atomic::Ordering::SeqCst);
}

pub fn aname(i: usize) -> String {
    const WS: [&str; 10] =
        ["sink", "sink ", " sink", "\u{a0}sink", "sink\t", "\u{3000}sink", "sink\u{2003}", " sink ", "sink\u{a0}", "\tsink"];
    const LOOK: [&str; 10] =
        ["log", "Log", "LOG", "l\u{43e}g", "lo\u{261}", "log\u{200b}", "lo\u{301}g", "l0g", "1og", "log."];
    match NAME_STYLE.load(std::sync::atomic::Ordering::SeqCst) % 3 {
        1 if i < WS.len() => WS[i].to_string(),
        2 if i < LOOK.len() => LOOK[i].to_string(),
        _ => format!("a{}", i),
    }
}

/// Hand `chunk` to a writer through one of the entry points of `io::Write`, chosen by `how`:
/// write_all, a loop over write, a loop over write_vectored (two slices), write_fmt (valid UTF-8
/// only).  Whatever the entry point, the bytes are the record's bytes.
pub fn write_varied<W: std::io::Write + ?Sized>(w: &mut W, chunk: &[u8], how: usize) -> std::io::Result<()> {
    use std::io::{Error, ErrorKind, IoSlice};
    match how % 4 {
        1 => {
            let mut off = 0;
            while off < chunk.len() {
                let n = w.write(&chunk[off..])?;
                if n == 0 {
                    return Err(Error::new(ErrorKind::WriteZero, "write returned 0"));
                }
                off += n;
            }
            Ok(())
        }
        2 => {
            let mut off = 0;
            while off < chunk.len() {
                let rem = &chunk[off..];
                let (a, b) = rem.split_at(rem.len() / 2);
                let n = w.write_vectored(&[IoSlice::new(a), IoSlice::new(b)])?;
                if n == 0 {
                    return Err(Error::new(ErrorKind::WriteZero, "write_vectored returned 0"));
                }
                off += n;
            }
            Ok(())
        }
        3 => match std::str::from_utf8(chunk) {
            Ok(s) => w.write_fmt(format_args!("{}", s)),
            Err(_) => w.write_all(chunk),
        },
        _ => w.write_all(chunk),
    }
}

/// Assemble a configuration from its parts through the builders' setters.  The builders offer a
/// singular and a plural setter for every list (appender/appenders, logger/loggers, filter/filters);
/// which ones are used, and whether `additive` is set before or after the attachments, changes with
/// every call (`how`): the configuration is the same - same items, same order.
pub fn assemble(
    apps: Vec<log4rs::config::Appender>,
    loggers: Vec<(String, LevelFilter, bool, Vec<String>)>,
    root_level: LevelFilter,
    root_refs: Vec<String>,
) -> (log4rs::config::runtime::ConfigBuilder, log4rs::config::Root) {
    use log4rs::config::{Config, Logger, Root};
    static TURN: std::sync::atomic::AtomicUsize = std::sync::atomic::AtomicUsize::new(0);
    let how = TURN.fetch_add(1, std::sync::atomic::Ordering::SeqCst) % 3;
    let mut b = Config::builder();
    let mut root = Root::builder();
    match how {
        0 => {
            for a in apps {
                b = b.appender(a);
            }
            for r in root_refs {
                root = root.appender(r);
            }
        }
        1 => {
            b = b.appenders(apps);
            root = root.appenders(root_refs);
        }
        _ => {
            let mut it = apps.into_iter();
            if let Some(first) = it.next() {
                b = b.appender(first);
            }
            b = b.appenders(it);
            let mut it = root_refs.into_iter();
            if let Some(first) = it.next() {
                root = root.appender(first);
            }
            root = root.appenders(it);
        }
    }
    let mut built = vec![];
    for (k, (name, level, additive, refs)) in loggers.into_iter().enumerate() {
        let mut lb = Logger::builder();
        if (how + k) % 2 == 0 {
            lb = lb.additive(additive);
        }
        match (how + k) % 3 {
            0 => {
                for r in refs {
                    lb = lb.appender(r);
                }
            }
            1 => lb = lb.appenders(refs),
            _ => {
                let mut it = refs.into_iter();
                if let Some(first) = it.next() {
                    lb = lb.appender(first);
                }
                lb = lb.appenders(it);
            }
        }
        if (how + k) % 2 == 1 {
            lb = lb.additive(additive);
        }
        built.push(lb.build(name, level));
    }
    match how {
        0 => {
            for l in built {
                b = b.logger(l);
            }
        }
        1 => b = b.loggers(built),
        _ => {
            let mut it = built.into_iter();
            if let Some(first) = it.next() {
                b = b.logger(first);
            }
            b = b.loggers(it);
        }
    }
    (b, root.build(root_level))
}
