//! vh — shared code of the per-property harness binaries that drive the real
//! log4rs crate (path dependency on /repo) on generated cases.
//! Each binary `cXX` reads one case per line on stdin and prints one
//! observation per line on stdout, in the shared value syntax (val.rs).
pub mod util;
pub mod val;

use std::io::{BufRead, Write};
use std::sync::atomic::{AtomicUsize, Ordering};
use val::Val;

/// Cases that ran into a harness-side watchdog so far (a deadlocked or livelocked crate).
/// After `MAX_STUCK` of them the remaining cases are not run: `main_loop` answers `xskipped`
/// (not a value; the check counts those cases as not run), so that a tree on which every
/// case of a family hangs is reported in minutes instead of hours.
pub static STUCK: AtomicUsize = AtomicUsize::new(0);
pub const MAX_STUCK: usize = 3;

/// to be called by a binary whose own watchdog gave up on a case
pub fn note_stuck() {
    STUCK.fetch_add(1, Ordering::SeqCst);
}

/// Standard main loop: parse each stdin line, call `f` under catch_unwind,
/// print the result (a panic is reported as the byte string "panic").
pub fn main_loop(f: fn(&Val) -> Val) {
    // quiet panics: they are observations, reported in the result value
    std::panic::set_hook(Box::new(|_| {}));
    // Results go to a private duplicate of fd 1; fd 1 itself is pointed at stderr for the
    // rest of the process, so that anything the crate under test prints with println!
    // (e.g. fixed_window.rs on a failed compress) can neither corrupt the result channel
    // nor block on a stdout lock held by this loop.
    let mut out = {
        use std::os::unix::io::FromRawFd;
        let saved = unsafe { libc::dup(1) };
        assert!(saved >= 0, "dup(1)");
        unsafe { libc::dup2(2, 1) };
        std::io::BufWriter::new(unsafe { std::fs::File::from_raw_fd(saved) })
    };
    let stdin = std::io::stdin();
    let mut buf = String::new();
    for line in stdin.lock().lines() {
        let line = line.expect("stdin");
        if line.trim().is_empty() {
            continue;
        }
        if STUCK.load(Ordering::SeqCst) >= MAX_STUCK {
            writeln!(out, "xskipped").unwrap();
            out.flush().unwrap();
            continue;
        }
        let case = val::parse(&line);
        let res = match std::panic::catch_unwind(std::panic::AssertUnwindSafe(|| f(&case))) {
            Ok(v) => v,
            Err(_) => Val::panic(),
        };
        buf.clear();
        val::print(&res, &mut buf);
        writeln!(out, "{}", buf).unwrap();
        out.flush().unwrap();
    }
}
