//! vh — shared code of the per-property harness binaries that drive the real
//! log4rs crate (path dependency on /repo) on generated cases.
//! Each binary `cXX` reads one case per line on stdin and prints one
//! observation per line on stdout, in the shared value syntax (val.rs).
pub mod util;
pub mod val;

use std::io::{BufRead, Write};
use val::Val;

/// Standard main loop: parse each stdin line, call `f` under catch_unwind,
/// print the result (a panic is reported as the byte string "panic").
pub fn main_loop(f: fn(&Val) -> Val) {
    // quiet panics: they are observations, reported in the result value
    std::panic::set_hook(Box::new(|_| {}));
    let stdin = std::io::stdin();
    let stdout = std::io::stdout();
    let mut out = std::io::BufWriter::new(stdout.lock());
    let mut buf = String::new();
    for line in stdin.lock().lines() {
        let line = line.expect("stdin");
        if line.trim().is_empty() {
            continue;
        }
        let case = val::parse(&line);
        let res = match std::panic::catch_unwind(std::panic::AssertUnwindSafe(|| f(&case))) {
            Ok(v) => v,
            Err(_) => Val::panic(),
        };
        buf.clear();
        val::print(&res, &mut buf);
        writeln!(out, "{}", buf).unwrap();
        out.flush().unwrap();
    }
}
