//! C08 driver — a history with failing / interrupted rotations on the REAL
//! `RollingFileAppender` + `CompoundPolicy` + `FixedWindowRoller` (included by bin/c08.rs).
//!
//! case: ( b c limit pre gz pattern file mode0 nohook ( (path bytes) ... ) ( op ... ) )
//!   pre 0: SizeTrigger(limit) (post-processing) | 1: a pre-processing trigger that fires
//!   iff len_estimate() > limit;  mode0: builder's append flag;  nohook 1: the rotate_step
//!   hook is never installed (failures then only come from the real file system)
//!   op (0 record (0))         append
//!      (0 record (1 k))       append; the rotate_step hook returns Err at its k-th call
//!      (0 record (2 k mode))  append; at the k-th hook call the directory is copied aside (the
//!                             crash image = what a process dying there leaves behind).  After
//!                             the call the appender is dropped, the directory is replaced by
//!                             the image and a FRESH appender (append flag = mode) is built on it.
//!                             When the k-th call is never reached: plain restart after the op
//!      (0 record (4 k))       append; at the k-th hook call the step's (vacant) destination is turned
//!                             into a non-empty directory, so the step fails in the REAL file system
//!                             and the crate's own error handling runs; the obstacle is removed when
//!                             the call has returned (the model sees fault kind 1)
//!      (1 mode)               restart: drop the appender, build a new one
//!      (0 record (3 L))       append while RLIMIT_FSIZE = L bytes (SIGXFSZ ignored): a write
//!                             beyond L fails with EFBIG, the moral equivalent of a full disk
//!      (2) / (3)              create / remove a non-empty directory at the top archive name
//!      (4 kind j) / (5)       make / undo "the directory of slot base+j cannot be created":
//!                             kind 0 a dangling symlink, kind 1 a regular file at the slot's
//!                             directory name (patterns with {} in a directory component)
//! result: ( (ack (listing ...) listing) ... ), entry 0 = the initial build, then one per op:
//!   ack 0 Ok / 1 Err (or died), the directory at each hook call of the op (up to and
//!   including the crash point), the directory after the op.  Listings as in C07
//!   (relative paths, gzip reported as 0x1f 0x8b ++ decompressed bytes).
//! A panic anywhere is reported as "panic" by vh::main_loop.
#[path = "c07_fsutil.rs"]
mod fsutil;
use fsutil::*;
use log4rs::append::rolling_file::policy::compound::roll::fixed_window::FixedWindowRoller;
use log4rs::append::rolling_file::policy::compound::trigger::size::SizeTrigger;
use log4rs::append::rolling_file::policy::compound::trigger::Trigger;
use log4rs::append::rolling_file::policy::compound::CompoundPolicy;
use log4rs::append::rolling_file::{LogFile, RollingFileAppender};
use log4rs::append::Append;
use log4rs::encode::{Encode, Write as EncWrite};
use std::fs;
use std::io;
use std::path::{Path, PathBuf};
use std::sync::{Arc, Mutex};
use vh::val::Val;

#[derive(Debug)]
struct PreSizeTrigger {
    limit: u64,
}

impl Trigger for PreSizeTrigger {
    fn trigger(&self, file: &LogFile) -> anyhow::Result<bool> {
        Ok(file.len_estimate() > self.limit)
    }
    fn is_pre_process(&self) -> bool {
        true
    }
}

/// Encoder writing the bytes of record number `args`.
#[derive(Debug)]
struct TableEncoder {
    table: Arc<Vec<Vec<u8>>>,
}

impl Encode for TableEncoder {
    fn encode(&self, w: &mut dyn EncWrite, record: &log::Record) -> anyhow::Result<()> {
        let id: usize = record.args().to_string().parse()?;
        vh::util::write_varied(w, &self.table[id], id)?;
        Ok(())
    }
}

#[derive(Default)]
struct HookState {
    root: PathBuf,
    fail_at: Option<usize>,
    /// at this hook call a REAL obstacle is put in the step's way (see fault kind 4)
    block_at: Option<usize>,
    blocked: Option<PathBuf>,
    crash_at: Option<usize>,
    images: Vec<Vec<(String, Vec<u8>)>>,
    crash_dir: Option<tempfile::TempDir>,
    dead: bool,
}

struct HookGuard;
impl Drop for HookGuard {
    fn drop(&mut self) {
        log4rs::verif_hooks::set_rotate_step(None);
        let _ = std::env::set_current_dir("/");
    }
}

/// listing() of c07_fsutil, except that symbolic links are skipped (the slot-directory
/// obstacle is a dangling symlink)
fn listing_ns(root: &Path) -> Vec<(String, Vec<u8>)> {
    fn walk(dir: &Path, rel: &str, out: &mut Vec<(String, Vec<u8>)>) {
        let rd = match fs::read_dir(dir) {
            Ok(r) => r,
            Err(_) => return,
        };
        for e in rd {
            let e = e.expect("dir entry");
            let name = e.file_name().to_string_lossy().into_owned();
            let r = if rel.is_empty() { name.clone() } else { format!("{}/{}", rel, name) };
            let ft = e.file_type().expect("file type");
            if ft.is_symlink() {
                continue;
            } else if ft.is_dir() {
                walk(&e.path(), &r, out);
            } else {
                let raw = fs::read(e.path()).expect("read file");
                out.push((r, observable(raw)));
            }
        }
    }
    let mut out = vec![];
    walk(root, "", &mut out);
    out.sort();
    out
}

/// RLIMIT_FSIZE soft limit for the duration of one call; restored on drop
struct FsizeLimit {
    old: libc::rlimit,
}
impl FsizeLimit {
    fn set(bytes: u64) -> FsizeLimit {
        unsafe {
            libc::signal(libc::SIGXFSZ, libc::SIG_IGN);
            let mut old = libc::rlimit { rlim_cur: 0, rlim_max: 0 };
            assert_eq!(libc::getrlimit(libc::RLIMIT_FSIZE, &mut old), 0);
            let new = libc::rlimit { rlim_cur: bytes as libc::rlim_t, rlim_max: old.rlim_max };
            assert_eq!(libc::setrlimit(libc::RLIMIT_FSIZE, &new), 0);
            FsizeLimit { old }
        }
    }
}
impl Drop for FsizeLimit {
    fn drop(&mut self) {
        unsafe {
            libc::setrlimit(libc::RLIMIT_FSIZE, &self.old);
        }
    }
}

fn copy_tree(src: &Path, dst: &Path) {
    fs::create_dir_all(dst).expect("mkdir");
    for e in fs::read_dir(src).expect("read_dir") {
        let e = e.expect("entry");
        let to = dst.join(e.file_name());
        if e.file_type().expect("ft").is_symlink() {
            std::os::unix::fs::symlink(fs::read_link(e.path()).expect("readlink"), &to).expect("symlink");
        } else if e.file_type().expect("ft").is_dir() {
            copy_tree(&e.path(), &to);
        } else {
            fs::copy(e.path(), &to).expect("copy");
        }
    }
}

fn wipe(dir: &Path) {
    for e in fs::read_dir(dir).expect("read_dir") {
        let e = e.expect("entry");
        if e.file_type().expect("ft").is_dir() {
            fs::remove_dir_all(e.path()).expect("rmdir");
        } else {
            fs::remove_file(e.path()).expect("rm");
        }
    }
}

struct Setup {
    base: u32,
    count: u32,
    limit: u64,
    pre: bool,
    pattern: String,
    file: String,
    table: Arc<Vec<Vec<u8>>>,
}

impl Setup {
    fn build(&self, append: bool) -> RollingFileAppender {
        let trigger: Box<dyn Trigger> = if self.pre {
            Box::new(PreSizeTrigger { limit: self.limit })
        } else {
            Box::new(SizeTrigger::new(self.limit))
        };
        let roller = FixedWindowRoller::builder()
            .base(self.base)
            .build(&self.pattern, self.count)
            .expect("roller");
        let policy = CompoundPolicy::new(trigger, Box::new(roller));
        RollingFileAppender::builder()
            .append(append)
            .encoder(Box::new(TableEncoder { table: self.table.clone() }))
            .build(&self.file, Box::new(policy))
            .expect("build appender")
    }
}

fn append_id(app: &RollingFileAppender, id: usize) -> bool {
    silenced(|| {
        app.append(
            &log::Record::builder()
                .level(log::Level::Info)
                .target("t")
                .args(format_args!("{}", id))
                .build(),
        )
        .is_ok()
    })
}

fn entry(ack_err: bool, imgs: &[Vec<(String, Vec<u8>)>], root: &Path) -> Val {
    Val::L(vec![
        Val::N(ack_err as u128),
        Val::L(imgs.iter().map(|l| listing_val(l)).collect()),
        listing_val(&listing_ns(root)),
    ])
}

pub fn run(case: &Val) -> Val {
    let c = case.l();
    let tmp = tempfile::tempdir().expect("tempdir");
    let root = tmp.path().to_path_buf();
    std::env::set_current_dir(&root).expect("chdir");
    let _guard = HookGuard;
    let nohook = c[8].b();
    for pc in c[9].l() {
        let pc = pc.l();
        write_file(&pc[0].str(), pc[1].s());
    }
    let ops = c[10].l();
    let mut table = vec![];
    for o in ops {
        let o = o.l();
        if o[0].n() == 0 {
            table.push(o[1].s().to_vec());
        }
    }
    let setup = Setup {
        base: u32::try_from(c[0].n()).expect("base"),
        count: u32::try_from(c[1].n()).expect("count"),
        limit: c[2].n() as u64,
        pre: c[3].b(),
        pattern: c[5].str(),
        file: c[6].str(),
        table: Arc::new(table),
    };
    let top = setup
        .pattern
        .replace("{}", &(setup.base as u64 + setup.count as u64 - 1).to_string());
    let hs = Arc::new(Mutex::new(HookState { root: root.clone(), ..Default::default() }));
    if !nohook {
        let h = hs.clone();
        log4rs::verif_hooks::set_rotate_step(Some(Box::new(move |k, _src, dst| {
            let mut st = h.lock().unwrap();
            if st.dead {
                return Ok(());
            }
            let l = listing_ns(&st.root);
            st.images.push(l);
            if st.crash_at == Some(k) {
                let d = tempfile::tempdir().expect("crash dir");
                copy_tree(&st.root, d.path());
                st.crash_dir = Some(d);
                st.dead = true;
                return Ok(());
            }
            if st.fail_at == Some(k) {
                // what KIND of error the step fails with is not part of a case: by turn one of the kinds a
                // rename / copy / create can return (NotFound and Interrupted - which some callers tolerate or
                // retry - included); the rotation fails all the same
                static TURN: std::sync::atomic::AtomicUsize = std::sync::atomic::AtomicUsize::new(0);
                const KINDS: [io::ErrorKind; 8] = [
                    io::ErrorKind::Other,
                    io::ErrorKind::NotFound,
                    io::ErrorKind::PermissionDenied,
                    io::ErrorKind::Interrupted,
                    io::ErrorKind::AlreadyExists,
                    io::ErrorKind::WouldBlock,
                    io::ErrorKind::InvalidInput,
                    io::ErrorKind::TimedOut,
                ];
                let kind = KINDS[TURN.fetch_add(1, std::sync::atomic::Ordering::SeqCst) % KINDS.len()];
                return Err(io::Error::new(kind, "injected rotation fault"));
            }
            if st.block_at == Some(k) {
                // the step's destination becomes a non-empty directory: the rename (and move_file's
                // copy fall-back, and File::create of a compressed archive) fail in the real file
                // system, so the crate's own error path runs.  Only when the name is vacant (it always
                // is for k >= 1: the previous shift emptied it).
                let d = PathBuf::from(dst);
                if fs::symlink_metadata(&d).is_err() {
                    if fs::create_dir_all(&d).is_ok() && fs::write(d.join("keep"), b"obst").is_ok() {
                        vh::util::vary_mtime(&d);
                        st.blocked = Some(d);
                    }
                }
            }
            Ok(())
        })));
    }
    let mut out = vec![];
    let mut app = Some(setup.build(c[7].b()));
    out.push(entry(false, &[], &root));
    let mut next_id = 0usize;
    let mut slot_obst: Option<PathBuf> = None;
    for o in ops {
        let o = o.l();
        match o[0].n() {
            0 => {
                let f = o[2].l();
                let (fail_at, crash_at, restart) = match f[0].n() {
                    0 | 3 | 4 => (None, None, None),
                    1 => (Some(f[1].u()), None, None),
                    _ => (None, Some(f[1].u()), Some(f[2].b())),
                };
                let block_at = if f[0].n() == 4 { Some(f[1].u()) } else { None };
                let fsize = if f[0].n() == 3 { Some(f[1].n() as u64) } else { None };
                {
                    let mut st = hs.lock().unwrap();
                    st.fail_at = fail_at;
                    st.block_at = block_at;
                    st.blocked = None;
                    st.crash_at = crash_at;
                    st.images.clear();
                    st.crash_dir = None;
                    st.dead = false;
                }
                let ok = {
                    let _lim = fsize.map(FsizeLimit::set);
                    append_id(app.as_ref().expect("appender"), next_id)
                };
                next_id += 1;
                let (imgs, crash_dir) = {
                    let mut st = hs.lock().unwrap();
                    st.fail_at = None;
                    st.block_at = None;
                    st.crash_at = None;
                    st.dead = false;
                    // "once the obstruction is gone": the obstacle of a real fault is removed as soon as
                    // the failing call has returned
                    if let Some(d) = st.blocked.take() {
                        let _ = fs::remove_dir_all(&d);
                    }
                    (std::mem::take(&mut st.images), st.crash_dir.take())
                };
                let mut ack_err = !ok;
                if let Some(mode) = restart {
                    drop(app.take());
                    if let Some(img) = crash_dir {
                        ack_err = true;
                        wipe(&root);
                        copy_tree(img.path(), &root);
                    }
                    app = Some(setup.build(mode));
                }
                out.push(entry(ack_err, &imgs, &root));
            }
            1 => {
                drop(app.take());
                app = Some(setup.build(o[1].b()));
                out.push(entry(false, &[], &root));
            }
            2 => {
                fs::create_dir_all(&top).expect("obstacle dir");
                fs::write(Path::new(&top).join("keep"), b"obst").expect("obstacle file");
                vh::util::vary_mtime(Path::new(&top));
                out.push(entry(false, &[], &root));
            }
            3 => {
                fs::remove_dir_all(&top).expect("remove obstacle");
                out.push(entry(false, &[], &root));
            }
            4 => {
                let slot = setup.pattern.replace("{}", &(setup.base as u64 + o[2].n() as u64).to_string());
                let d = Path::new(&slot).parent().expect("slot directory").to_path_buf();
                if let Some(pp) = d.parent() {
                    if !pp.as_os_str().is_empty() {
                        fs::create_dir_all(pp).expect("mkdir");
                    }
                }
                if d.is_dir() {
                    fs::remove_dir(&d).expect("slot directory is empty");
                }
                if o[1].n() == 0 {
                    std::os::unix::fs::symlink("gone-volume/nowhere", &d).expect("symlink");
                } else {
                    fs::write(&d, b"obst").expect("obstacle file");
                    vh::util::vary_mtime(&d);
                }
                slot_obst = Some(d);
                out.push(entry(false, &[], &root));
            }
            _ => {
                fs::remove_file(slot_obst.take().expect("obstacle placed")).expect("remove obstacle");
                out.push(entry(false, &[], &root));
            }
        }
    }
    drop(app);
    Val::L(out)
}
