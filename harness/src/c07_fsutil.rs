//! File-system helpers shared by the C07 and C08 drivers (included with #[path]).
#![allow(dead_code)]
use std::fs;
use std::io::Read;
use std::path::Path;
use vh::val::Val;

/// All regular files below `root` as (relative path with '/', observable content), sorted.
/// A file whose bytes are a complete gzip stream or zstd frame is reported as 0x1f 0x8b ++ decompressed bytes.
pub fn listing(root: &Path) -> Vec<(String, Vec<u8>)> {
    let mut out = vec![];
    walk(root, "", &mut out);
    out.sort();
    out
}

fn walk(dir: &Path, rel: &str, out: &mut Vec<(String, Vec<u8>)>) {
    let rd = match fs::read_dir(dir) {
        Ok(r) => r,
        Err(_) => return,
    };
    for e in rd {
        let e = e.expect("dir entry");
        let name = e.file_name().to_string_lossy().into_owned();
        let r = if rel.is_empty() { name.clone() } else { format!("{}/{}", rel, name) };
        // follow symlinks (C07's cross-mount directory `xm` is one)
        let is_dir = fs::metadata(e.path()).map(|m| m.is_dir()).unwrap_or(false);
        if is_dir {
            walk(&e.path(), &r, out);
        } else {
            let raw = fs::read(e.path()).expect("read file");
            out.push((r, observable(raw)));
        }
    }
}

pub fn observable(raw: Vec<u8>) -> Vec<u8> {
    if raw.len() >= 2 && raw[0] == 0x1f && raw[1] == 0x8b {
        let mut d = flate2::read::GzDecoder::new(&raw[..]);
        let mut plain = vec![];
        if d.read_to_end(&mut plain).is_ok() {
            let mut v = vec![0x1f, 0x8b];
            v.extend(plain);
            return v;
        }
    }
    // a complete zstd frame (magic 28 B5 2F FD) is reported the same way: "compressed" ++ plain bytes
    if raw.len() >= 4 && raw[..4] == [0x28, 0xb5, 0x2f, 0xfd] {
        if let Ok(plain) = zstd::stream::decode_all(&raw[..]) {
            let mut v = vec![0x1f, 0x8b];
            v.extend(plain);
            return v;
        }
    }
    raw
}

pub fn listing_val(l: &[(String, Vec<u8>)]) -> Val {
    Val::L(l.iter()
        .map(|(p, c)| Val::L(vec![Val::S(p.as_bytes().to_vec()), Val::S(c.clone())]))
        .collect())
}

pub fn write_file(rel: &str, content: &[u8]) {
    let p = Path::new(rel);
    if let Some(parent) = p.parent() {
        if !parent.as_os_str().is_empty() {
            fs::create_dir_all(parent).expect("mkdir");
        }
    }
    fs::write(p, content).expect("write file");
    vh::util::vary_mtime(p);
}

/// Materialise a listing (observable form: gzip-tagged entries are re-compressed) below `root`.
pub fn materialise(root: &Path, l: &[(String, Vec<u8>)]) {
    for (p, c) in l {
        let full = root.join(p);
        if let Some(parent) = full.parent() {
            fs::create_dir_all(parent).expect("mkdir");
        }
        fs::write(&full, c).expect("write");
        vh::util::vary_mtime(&full);
    }
}

/// Run `f` with file descriptor 1 pointing at /dev/null or at a broken pipe (the crate prints a diagnostic
/// when the final move/compress fails; the harness's result channel is a duplicate made at start-up).
pub fn silenced<T>(f: impl FnOnce() -> T) -> T {
    use std::os::unix::io::AsRawFd;
    // What a case does not say and must not matter: what the process's standard output is.  Every third call it
    // is a pipe nobody reads any more (`service | logger` after the logger died: a write fails with EPIPE), else
    // /dev/null.
    static TURN: std::sync::atomic::AtomicUsize = std::sync::atomic::AtomicUsize::new(0);
    let broken = TURN.fetch_add(1, std::sync::atomic::Ordering::SeqCst) % 3 == 1;
    let devnull = fs::OpenOptions::new().write(true).open("/dev/null").expect("devnull");
    let saved = unsafe { libc::dup(1) };
    if broken {
        let mut fds = [0i32; 2];
        if unsafe { libc::pipe(fds.as_mut_ptr()) } == 0 {
            unsafe {
                libc::close(fds[0]);
                libc::dup2(fds[1], 1);
                libc::close(fds[1]);
            }
        } else {
            unsafe { libc::dup2(devnull.as_raw_fd(), 1) };
        }
    } else {
        unsafe { libc::dup2(devnull.as_raw_fd(), 1) };
    }
    let r = std::panic::catch_unwind(std::panic::AssertUnwindSafe(f));
    unsafe {
        libc::dup2(saved, 1);
        libc::close(saved);
    }
    match r {
        Ok(v) => v,
        Err(e) => std::panic::resume_unwind(e),
    }
}
