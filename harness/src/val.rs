//! Generic case/result value: numbers, byte strings, lists.
//! Line syntax:  v ::= DECIMAL | xHEX | ( v* )
use std::fmt::Write;

#[derive(Clone, Debug, PartialEq, Eq)]
pub enum Val {
    N(u128),
    S(Vec<u8>),
    L(Vec<Val>),
}

impl Val {
    pub fn n(&self) -> u128 {
        match self {
            Val::N(n) => *n,
            _ => panic!("expected number, got {:?}", self),
        }
    }
    pub fn u(&self) -> usize {
        self.n() as usize
    }
    pub fn b(&self) -> bool {
        self.n() != 0
    }
    pub fn s(&self) -> &[u8] {
        match self {
            Val::S(s) => s,
            _ => panic!("expected bytes, got {:?}", self),
        }
    }
    pub fn str(&self) -> String {
        String::from_utf8(self.s().to_vec()).expect("utf8")
    }
    pub fn l(&self) -> &[Val] {
        match self {
            Val::L(l) => l,
            _ => panic!("expected list, got {:?}", self),
        }
    }
    pub fn bool(b: bool) -> Val {
        Val::N(b as u128)
    }
    pub fn text(s: &str) -> Val {
        Val::S(s.as_bytes().to_vec())
    }
    pub fn err(tag: u128) -> Val {
        Val::L(vec![Val::S(b"err".to_vec()), Val::N(tag)])
    }
    pub fn panic() -> Val {
        Val::S(b"panic".to_vec())
    }
    /// Z encoding shared with Common/Val.v: (sign magnitude)
    pub fn z(v: i128) -> Val {
        Val::L(vec![Val::N((v < 0) as u128), Val::N(v.unsigned_abs())])
    }
    pub fn to_z(&self) -> i128 {
        let l = self.l();
        let m = l[1].n() as i128;
        if l[0].n() != 0 { -m } else { m }
    }
}

pub fn parse(line: &str) -> Val {
    let b = line.as_bytes();
    let mut pos = 0usize;
    let v = parse_at(b, &mut pos);
    v
}

fn skip(b: &[u8], pos: &mut usize) {
    while *pos < b.len() && (b[*pos] == b' ' || b[*pos] == b'\t' || b[*pos] == b'\r') {
        *pos += 1;
    }
}

fn hexv(c: u8) -> u8 {
    match c {
        b'0'..=b'9' => c - b'0',
        b'a'..=b'f' => c - b'a' + 10,
        b'A'..=b'F' => c - b'A' + 10,
        _ => panic!("bad hex"),
    }
}

fn parse_at(b: &[u8], pos: &mut usize) -> Val {
    skip(b, pos);
    assert!(*pos < b.len(), "eof");
    match b[*pos] {
        b'(' => {
            *pos += 1;
            let mut items = vec![];
            loop {
                skip(b, pos);
                assert!(*pos < b.len(), "unclosed");
                if b[*pos] == b')' {
                    *pos += 1;
                    break;
                }
                items.push(parse_at(b, pos));
            }
            Val::L(items)
        }
        b'x' => {
            *pos += 1;
            let st = *pos;
            while *pos < b.len() && b[*pos].is_ascii_hexdigit() {
                *pos += 1;
            }
            let h = &b[st..*pos];
            Val::S(h.chunks(2).map(|c| hexv(c[0]) * 16 + hexv(c[1])).collect())
        }
        b'0'..=b'9' => {
            let st = *pos;
            while *pos < b.len() && b[*pos].is_ascii_digit() {
                *pos += 1;
            }
            let t = std::str::from_utf8(&b[st..*pos]).unwrap();
            Val::N(t.parse::<u128>().expect("number too large for u128"))
        }
        c => panic!("bad char {} at {}", c as char, *pos),
    }
}

pub fn print(v: &Val, out: &mut String) {
    match v {
        Val::N(n) => {
            let _ = write!(out, "{}", n);
        }
        Val::S(s) => {
            out.push('x');
            for b in s {
                let _ = write!(out, "{:02x}", b);
            }
        }
        Val::L(l) => {
            out.push('(');
            for (i, x) in l.iter().enumerate() {
                if i > 0 {
                    out.push(' ');
                }
                print(x, out);
            }
            out.push(')');
        }
    }
}
