//! Shared driver of C05 / C06 / C17: runs a history on the REAL
//! `RollingFileAppender` (included by bin/c05.rs, bin/c06.rs, bin/c17.rs via #[path]).
//!
//! case: ( trigger roller pre a0 ops )
//!   trigger: (0 limit) SizeTrigger | (1 min) OnStartUpTrigger
//!          | (2 pre (thr ...)) scripted user Trigger: i-th consultation (global over
//!            restarts) fires iff thr_i <= len_estimate(); beyond the script: never
//!          | (3 n modulate t0) the real TimeTrigger, interval n seconds, under the hook
//!            clock (log4rs::verif_hooks::set_clock), which reads t0 (UTC seconds) at the
//!            first build and is moved by the clock ops; TZ is forced to UTC
//!   roller : (0) DeleteRoller | (1 base count gz) FixedWindowRoller
//!   pre    : (0) no file | (1 bytes) active file pre-exists with these bytes
//!   a0     : builder append flag of the first build
//!   ops    : (0 (chunk ...)) append one record whose encoder writes these chunks
//!          | (1 a) restart: drop the appender, build again with append flag a
//!          | (2 ((rec ...) ...)) burst: one thread per list, released by a barrier,
//!            each appending its records (rec = (chunk ...)) in order
//!          | (3 t) set the hook clock to t (UTC seconds); no appender call
//! result: one entry per op (entry 0 = the initial build):
//!   ( ((shown disk rolled) ...) ((kind idx bytes) ...) errors [order] )
//!   consultations seen by a Policy wrapped around the real CompoundPolicy,
//!   directory snapshot (kind 0 active, 1 archive idx, 2 other; .gz gunzipped),
//!   number of failed calls, and for a burst the (thread rec) order in which the
//!   encoder was entered (= lock acquisition order).
use log4rs::append::rolling_file::policy::compound::roll::delete::DeleteRoller;
use log4rs::append::rolling_file::policy::compound::roll::fixed_window::FixedWindowRoller;
use log4rs::append::rolling_file::policy::compound::roll::Roll;
use log4rs::append::rolling_file::policy::compound::trigger::onstartup::OnStartUpTrigger;
use log4rs::append::rolling_file::policy::compound::trigger::size::SizeTrigger;
use log4rs::append::rolling_file::policy::compound::trigger::time::{TimeTrigger, TimeTriggerConfig};
use log4rs::append::rolling_file::policy::compound::trigger::Trigger;
use log4rs::append::rolling_file::policy::compound::CompoundPolicy;
use log4rs::append::rolling_file::policy::Policy;
use log4rs::append::rolling_file::{LogFile, RollingFileAppender};
use log4rs::append::Append;
use log4rs::encode::{Encode, Write as EncWrite};
use std::io::Read;
use std::path::{Path, PathBuf};
use std::sync::atomic::{AtomicUsize, Ordering};
use std::sync::{Arc, Barrier, Mutex};
use vh::val::Val;

#[derive(Debug)]
struct ScriptTrigger {
    pre: bool,
    script: Arc<Vec<u128>>,
    idx: Arc<AtomicUsize>,
}

impl Trigger for ScriptTrigger {
    fn trigger(&self, file: &LogFile) -> anyhow::Result<bool> {
        let i = self.idx.fetch_add(1, Ordering::SeqCst);
        Ok(match self.script.get(i) {
            Some(t) => *t <= file.len_estimate() as u128,
            None => false,
        })
    }
    fn is_pre_process(&self) -> bool {
        self.pre
    }
}

type Log = Arc<Mutex<Vec<Val>>>;

#[derive(Debug)]
struct SpyPolicy {
    inner: CompoundPolicy,
    log: Log,
}

impl Policy for SpyPolicy {
    fn process(&self, log: &mut LogFile) -> anyhow::Result<()> {
        let shown = log.len_estimate() as u128;
        let disk = match std::fs::metadata(log.path()) {
            Ok(m) => Val::N(m.len() as u128),
            Err(_) => Val::L(vec![]),
        };
        let r = self.inner.process(log);
        let rolled = !log.path().exists();
        self.log
            .lock()
            .unwrap()
            .push(Val::L(vec![Val::N(shown), disk, Val::bool(rolled)]));
        r
    }
    fn is_pre_process(&self) -> bool {
        self.inner.is_pre_process()
    }
}

/// Encoder writing the scripted chunks of record number `args` (decimal id).
#[derive(Debug)]
struct ChunkEncoder {
    table: Arc<Vec<Vec<Vec<u8>>>>,
    order: Arc<Mutex<Vec<usize>>>,
}

impl Encode for ChunkEncoder {
    fn encode(&self, w: &mut dyn EncWrite, record: &log::Record) -> anyhow::Result<()> {
        let id: usize = record.args().to_string().parse()?;
        self.order.lock().unwrap().push(id);
        for ch in &self.table[id] {
            w.write_all(ch)?;
        }
        Ok(())
    }
}

struct Ctx {
    dir: PathBuf,
    trigger: Val,
    roller: Val,
    table: Arc<Vec<Vec<Vec<u8>>>>,
    order: Arc<Mutex<Vec<usize>>>,
    consults: Log,
    idx: Arc<AtomicUsize>,
    script: Arc<Vec<u128>>,
}

impl Ctx {
    fn active(&self) -> PathBuf {
        self.dir.join("cur.log")
    }

    fn build(&self, append: bool) -> anyhow::Result<RollingFileAppender> {
        let t = self.trigger.l();
        let trigger: Box<dyn Trigger> = match t[0].n() {
            0 => Box::new(SizeTrigger::new(t[1].n() as u64)),
            1 => Box::new(OnStartUpTrigger::new(t[1].n() as u64)),
            3 => {
                let yaml = format!(
                    "interval: {} seconds\nmodulate: {}\n",
                    t[1].n(),
                    if t[2].b() { "true" } else { "false" }
                );
                let cfg: TimeTriggerConfig = serde_yaml::from_str(&yaml)?;
                Box::new(TimeTrigger::new(cfg))
            }
            _ => Box::new(ScriptTrigger {
                pre: t[1].b(),
                script: self.script.clone(),
                idx: self.idx.clone(),
            }),
        };
        let r = self.roller.l();
        let roller: Box<dyn Roll> = match r[0].n() {
            0 => Box::new(DeleteRoller::new()),
            _ => {
                let ext = if r[3].b() { "gz" } else { "log" };
                let pattern = format!("{}/arch.{{}}.{}", self.dir.display(), ext);
                Box::new(
                    FixedWindowRoller::builder()
                        .base(r[1].n() as u32)
                        .build(&pattern, r[2].n() as u32)?,
                )
            }
        };
        let policy = SpyPolicy {
            inner: CompoundPolicy::new(trigger, roller),
            log: self.consults.clone(),
        };
        let enc = ChunkEncoder {
            table: self.table.clone(),
            order: self.order.clone(),
        };
        Ok(RollingFileAppender::builder()
            .append(append)
            .encoder(Box::new(enc))
            .build(self.active(), Box::new(policy))?)
    }

    fn snapshot(&self) -> Val {
        let mut ents: Vec<(u128, u128, Vec<u8>)> = Vec::new();
        for e in std::fs::read_dir(&self.dir).unwrap() {
            let e = e.unwrap();
            let name = e.file_name().to_string_lossy().to_string();
            let raw = std::fs::read(e.path()).unwrap_or_else(|_| b"<unreadable>".to_vec());
            if name == "cur.log" {
                ents.push((0, 0, raw));
                continue;
            }
            let parts: Vec<&str> = name.split('.').collect();
            if parts.len() == 3 && parts[0] == "arch" {
                if let Ok(i) = parts[1].parse::<u128>() {
                    if parts[2] == "log" {
                        ents.push((1, i, raw));
                        continue;
                    }
                    if parts[2] == "gz" {
                        let mut out = Vec::new();
                        let ok = flate2::read::GzDecoder::new(&raw[..]).read_to_end(&mut out).is_ok();
                        if ok {
                            ents.push((1, i, out));
                            continue;
                        }
                    }
                }
            }
            ents.push((2, 0, name.into_bytes()));
        }
        ents.sort();
        Val::L(
            ents.into_iter()
                .map(|(k, i, b)| Val::L(vec![Val::N(k), Val::N(i), Val::S(b)]))
                .collect(),
        )
    }

    fn take_consults(&self) -> Val {
        Val::L(std::mem::take(&mut *self.consults.lock().unwrap()))
    }
}

fn append_id(app: &RollingFileAppender, id: usize) -> bool {
    app.append(
        &log::Record::builder()
            .level(log::Level::Info)
            .target("t")
            .args(format_args!("{}", id))
            .build(),
    )
    .is_ok()
}

fn chunks_of(v: &Val) -> Vec<Vec<u8>> {
    v.l().iter().map(|c| c.s().to_vec()).collect()
}

/// clears the hook clock when the case ends (also on panic)
struct ClockGuard;
impl Drop for ClockGuard {
    fn drop(&mut self) {
        log4rs::verif_hooks::set_clock(None);
    }
}

pub fn run(case: &Val) -> Val {
    let c = case.l();
    let _clock_guard = ClockGuard;
    if c[0].l()[0].n() == 3 {
        std::env::set_var("TZ", "UTC");
        log4rs::verif_hooks::set_clock(Some((c[0].l()[3].n() as i64, 0)));
    }
    let tmp = tempfile::tempdir().unwrap();
    let dir: &Path = tmp.path();
    // record table: ids in op order (burst: thread-major)
    let mut table: Vec<Vec<Vec<u8>>> = Vec::new();
    for o in c[4].l() {
        let o = o.l();
        match o[0].n() {
            0 => table.push(chunks_of(&o[1])),
            2 => {
                for th in o[1].l() {
                    for r in th.l() {
                        table.push(chunks_of(r));
                    }
                }
            }
            _ => {}
        }
    }
    let script: Vec<u128> = if c[0].l()[0].n() == 2 {
        c[0].l()[2].l().iter().map(|x| x.n()).collect()
    } else {
        vec![]
    };
    let ctx = Ctx {
        dir: dir.to_path_buf(),
        trigger: c[0].clone(),
        roller: c[1].clone(),
        table: Arc::new(table),
        order: Arc::new(Mutex::new(Vec::new())),
        consults: Arc::new(Mutex::new(Vec::new())),
        idx: Arc::new(AtomicUsize::new(0)),
        script: Arc::new(script),
    };
    if c[2].l()[0].n() == 1 {
        std::fs::write(ctx.active(), c[2].l()[1].s()).unwrap();
    }
    let mut out: Vec<Val> = Vec::new();
    let mut app = match ctx.build(c[3].b()) {
        Ok(a) => Some(a),
        Err(_) => None,
    };
    out.push(Val::L(vec![
        ctx.take_consults(),
        ctx.snapshot(),
        Val::N(if app.is_some() { 0 } else { 1 }),
    ]));
    let mut next_id = 0usize;
    for o in c[4].l() {
        let o = o.l();
        let mut errors = 0u128;
        let mut extra: Option<Val> = None;
        match o[0].n() {
            0 => {
                let ok = match &app {
                    Some(a) => append_id(a, next_id),
                    None => false,
                };
                next_id += 1;
                if !ok {
                    errors += 1;
                }
            }
            1 => {
                drop(app.take());
                app = ctx.build(o[1].b()).ok();
                if app.is_none() {
                    errors += 1;
                }
            }
            3 => {
                log4rs::verif_hooks::set_clock(Some((o[1].n() as i64, 0)));
            }
            _ => {
                // burst
                let threads = o[1].l();
                let mut ids: Vec<Vec<usize>> = Vec::new();
                let mut who: std::collections::HashMap<usize, (usize, usize)> = Default::default();
                for (ti, th) in threads.iter().enumerate() {
                    let mut v = Vec::new();
                    for ri in 0..th.l().len() {
                        who.insert(next_id, (ti, ri));
                        v.push(next_id);
                        next_id += 1;
                    }
                    ids.push(v);
                }
                ctx.order.lock().unwrap().clear();
                let errs = AtomicUsize::new(0);
                if let Some(a) = &app {
                    let barrier = Barrier::new(ids.len());
                    std::thread::scope(|s| {
                        for v in &ids {
                            let barrier = &barrier;
                            let errs = &errs;
                            s.spawn(move || {
                                barrier.wait();
                                for id in v {
                                    if !append_id(a, *id) {
                                        errs.fetch_add(1, Ordering::SeqCst);
                                    }
                                }
                            });
                        }
                    });
                } else {
                    errs.fetch_add(1, Ordering::SeqCst);
                }
                errors += errs.load(Ordering::SeqCst) as u128;
                let order = ctx.order.lock().unwrap().clone();
                extra = Some(Val::L(
                    order
                        .iter()
                        .map(|id| {
                            let (t, r) = who.get(id).copied().unwrap_or((999, 999));
                            Val::L(vec![Val::N(t as u128), Val::N(r as u128)])
                        })
                        .collect(),
                ));
            }
        }
        let mut ent = vec![ctx.take_consults(), ctx.snapshot(), Val::N(errors)];
        if let Some(e) = extra {
            ent.push(e);
        }
        out.push(Val::L(ent));
    }
    drop(app);
    Val::L(out)
}

/// Main loop of the three rolling bins.  Same protocol as `vh::main_loop` (one
/// result line per case line, a panic is reported as "panic"), but the results
/// are written to a private duplicate of the original stdout and fd 1 is
/// redirected to stderr: `rotate` in the crate reports a failed compress with
/// `println!`, which from a burst thread would block forever on a held stdout
/// lock and from the main thread would inject a line into the protocol.
pub fn main_loop_private() {
    use std::io::{BufRead, Write};
    use std::os::unix::io::FromRawFd;
    std::panic::set_hook(Box::new(|_| {}));
    let out_fd = unsafe { libc::dup(1) };
    assert!(out_fd >= 0);
    unsafe { libc::dup2(2, 1) };
    let mut out = unsafe { std::fs::File::from_raw_fd(out_fd) };
    let stdin = std::io::stdin();
    let mut buf = String::new();
    for line in stdin.lock().lines() {
        let line = line.expect("stdin");
        if line.trim().is_empty() {
            continue;
        }
        let case = vh::val::parse(&line);
        let res = match std::panic::catch_unwind(std::panic::AssertUnwindSafe(|| run(&case))) {
            Ok(v) => v,
            Err(_) => Val::panic(),
        };
        buf.clear();
        vh::val::print(&res, &mut buf);
        buf.push('\n');
        out.write_all(buf.as_bytes()).unwrap();
        out.flush().unwrap();
    }
}
