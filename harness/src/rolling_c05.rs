//! Shared driver of C05 / C06 / C17: runs a history on the REAL
//! `RollingFileAppender` (included by bin/c05.rs, bin/c06.rs, bin/c17.rs via #[path]).
//!
//! case: ( trigger roller pre a0 ops )
//!   trigger: (0 limit) SizeTrigger | (1 min) OnStartUpTrigger
//!          | (2 pre (thr ...)) scripted user Trigger: i-th consultation (global over
//!            restarts) fires iff thr_i <= len_estimate(); beyond the script: never
//!          | (3 n modulate t0) the real TimeTrigger, interval n seconds, under the hook
//!            clock (log4rs::verif_hooks::set_clock), which reads t0 (UTC seconds) at the
//!            first build and is moved by the clock ops; TZ is forced to UTC
//!   roller : (0) DeleteRoller | (1 base count gz [shape [bg]]) FixedWindowRoller;
//!            shape 0: pattern <dir>/arch.{}.<ext>, 1: <dir>/ar{}/arch.{}.<ext> (index in a
//!            directory component AND the file name), 2: <dir>/ar{}/arch.<ext>;
//!            bg 1: the case is meant for the `background_rotation` build: after every op
//!            a "pending" snapshot is taken at once, then the driver waits until no temp
//!            file <active stem>.<digits> is left (rotation threads remove it last) before
//!            the regular snapshot
//!   pre    : (0) no file | (1 bytes) active file pre-exists with these bytes
//!   a0     : builder append flag of the first build
//!   ops    : (0 (chunk ...)) append one record whose encoder writes these chunks
//!          | (1 a) restart: drop the appender, build again with append flag a
//!          | (2 ((rec ...) ...)) burst: one thread per list, released by a barrier,
//!            each appending its records (rec = (chunk ...)) in order
//!          | (3 t) set the hook clock to t (UTC seconds); no appender call
//!          | (4 a) hot restart: build a second appender on the same path while the
//!            current one stays alive as "the old instance"
//!          | (5 (chunk ...)) append through the old instance (the current one if none)
//!          | (6) drop the old instance
//!          | (7 (chunk ...)) append while the roller is set to fail: if the policy calls
//!            Roll::roll it returns Err without touching the directory
//!          | (8) install a real archive write fault: the newest archive slot arch.<base>.<ext>
//!            becomes a symlink to /dev/full (every write fails with ENOSPC); symlinks are
//!            not listed in snapshots | (9) remove that symlink
//! result: one entry per op (entry 0 = the initial build):
//!   ( ((shown disk requested gone) ...) ((kind idx bytes) ...) errors [order [pending]] )
//!   consultations seen by a Policy wrapped around the real CompoundPolicy (requested =
//!   Roll::roll was called during this consultation, gone = the active file does not
//!   exist afterwards), directory snapshot (kind 0 active, 1 archive idx, 2 other,
//!   3 temp file of a background rotation; .gz gunzipped), number of failed calls, for
//!   a burst the (thread rec) order in which the encoder was entered (= lock acquisition
//!   order; () otherwise), for bg cases the pending snapshot (() if none was consistent).
use log4rs::append::rolling_file::policy::compound::roll::delete::DeleteRoller;
use log4rs::append::rolling_file::policy::compound::roll::fixed_window::FixedWindowRoller;
use log4rs::append::rolling_file::policy::compound::roll::Roll;
use log4rs::append::rolling_file::policy::compound::trigger::onstartup::OnStartUpTrigger;
use log4rs::append::rolling_file::policy::compound::trigger::size::SizeTrigger;
use log4rs::append::rolling_file::policy::compound::trigger::time::{TimeTrigger, TimeTriggerConfig};
use log4rs::append::rolling_file::policy::compound::trigger::Trigger;
use log4rs::append::rolling_file::policy::compound::CompoundPolicy;
use log4rs::append::rolling_file::policy::Policy;
use log4rs::append::rolling_file::{LogFile, RollingFileAppender};
use log4rs::append::Append;
use log4rs::encode::{Encode, Write as EncWrite};
use std::io::Read;
use std::path::{Path, PathBuf};
use std::sync::atomic::{AtomicUsize, Ordering};
use std::sync::{Arc, Barrier, Mutex};
use vh::val::Val;

#[derive(Debug)]
struct ScriptTrigger {
    pre: bool,
    script: Arc<Vec<u128>>,
    idx: Arc<AtomicUsize>,
}

impl Trigger for ScriptTrigger {
    fn trigger(&self, file: &LogFile) -> anyhow::Result<bool> {
        let i = self.idx.fetch_add(1, Ordering::SeqCst);
        Ok(match self.script.get(i) {
            Some(t) => *t <= file.len_estimate() as u128,
            None => false,
        })
    }
    fn is_pre_process(&self) -> bool {
        self.pre
    }
}

type Log = Arc<Mutex<Vec<Val>>>;

// ---- a SECOND rolling appender ("side": <dir>/side/cur.log, SizeTrigger(SIDE_LIMIT), window of 2) that
// ---- receives a record from INSIDE a call of the main appender: from its encoder (SIDE_FIRE = 1) or from
// ---- its roller (SIDE_FIRE = 2).  op (10 chunks side_record via).
const SIDE_LIMIT: u64 = 10;
static SIDE: Mutex<Option<Arc<RollingFileAppender>>> = Mutex::new(None);
static SIDE_TABLE: Mutex<Vec<Vec<u8>>> = Mutex::new(Vec::new());
static SIDE_FIRE: AtomicUsize = AtomicUsize::new(0);
static SIDE_RESULT: AtomicUsize = AtomicUsize::new(0); // 0 not fired, 1 fired + Ok, 2 fired + Err
/// op 11: the encoder writes the record's chunks and then returns Err (a record that cannot be rendered to its end)
static SLOW_NEXT: std::sync::atomic::AtomicBool = std::sync::atomic::AtomicBool::new(false);
static SLOW_ARMED: std::sync::atomic::AtomicBool = std::sync::atomic::AtomicBool::new(false);
static FAIL_AFTER: std::sync::atomic::AtomicBool = std::sync::atomic::AtomicBool::new(false);
static ENC_FAIL: std::sync::atomic::AtomicBool = std::sync::atomic::AtomicBool::new(false);

#[derive(Debug)]
struct SideEncoder;
impl Encode for SideEncoder {
    fn encode(&self, w: &mut dyn EncWrite, record: &log::Record) -> anyhow::Result<()> {
        let id: usize = record.args().to_string().parse()?;
        let b = SIDE_TABLE.lock().unwrap()[id].clone();
        w.write_all(&b)?;
        Ok(())
    }
}

/// called from inside the main appender's encoder / roller
fn side_fire(via: usize) {
    if SIDE_FIRE.compare_exchange(via, 0, Ordering::SeqCst, Ordering::SeqCst).is_err() {
        return;
    }
    let side = SIDE.lock().unwrap().clone();
    if let Some(side) = side {
        let id = SIDE_TABLE.lock().unwrap().len() - 1;
        let ok = side
            .append(&log::Record::builder().level(log::Level::Info).args(format_args!("{}", id)).build())
            .is_ok();
        SIDE_RESULT.store(if ok { 1 } else { 2 }, Ordering::SeqCst);
    }
}

/// Roller wrapper: counts the calls and fails on demand before touching anything.
#[derive(Debug)]
struct SpyRoll {
    inner: Box<dyn Roll>,
    fail: Arc<std::sync::atomic::AtomicBool>,
    calls: Arc<AtomicUsize>,
}

impl Roll for SpyRoll {
    fn roll(&self, file: &Path) -> anyhow::Result<()> {
        self.calls.fetch_add(1, Ordering::SeqCst);
        if self.fail.load(Ordering::SeqCst) {
            anyhow::bail!("scripted roller failure");
        }
        side_fire(2);
        let r = self.inner.roll(file);
        if FAIL_AFTER.load(Ordering::SeqCst) && r.is_ok() {
            // op 12: the rotation has been done in full; the roller then reports a failure
            anyhow::bail!("scripted failure after the rotation");
        }
        r
    }
}

#[derive(Debug)]
struct SpyPolicy {
    inner: CompoundPolicy,
    log: Log,
    calls: Arc<AtomicUsize>,
}

impl Policy for SpyPolicy {
    fn process(&self, log: &mut LogFile) -> anyhow::Result<()> {
        // the two accessors of the length (`len` is the deprecated name of `len_estimate`) in turn
        #[allow(deprecated)]
        let shown = if self.calls.load(Ordering::SeqCst) % 2 == 0 { log.len_estimate() } else { log.len() } as u128;
        let disk = match std::fs::metadata(log.path()) {
            Ok(m) => Val::N(m.len() as u128),
            Err(_) => Val::L(vec![]),
        };
        let before = self.calls.load(Ordering::SeqCst);
        let r = self.inner.process(log);
        let requested = self.calls.load(Ordering::SeqCst) > before;
        let gone = !log.path().exists();
        self.log.lock().unwrap().push(Val::L(vec![
            Val::N(shown),
            disk,
            Val::bool(requested),
            Val::bool(gone),
        ]));
        r
    }
    fn is_pre_process(&self) -> bool {
        self.inner.is_pre_process()
    }
}

/// Encoder writing the scripted chunks of record number `args` (decimal id).
#[derive(Debug)]
struct ChunkEncoder {
    table: Arc<Vec<Vec<Vec<u8>>>>,
    order: Arc<Mutex<Vec<usize>>>,
}

impl Encode for ChunkEncoder {
    fn encode(&self, w: &mut dyn EncWrite, record: &log::Record) -> anyhow::Result<()> {
        let id: usize = record.args().to_string().parse()?;
        self.order.lock().unwrap().push(id);
        side_fire(1);
        for (k, ch) in self.table[id].iter().enumerate() {
            // every entry point of io::Write in turn (write_all, write, write_vectored, write_fmt)
            vh::util::write_varied(w, ch, id + k)?;
        }
        if ENC_FAIL.swap(false, Ordering::SeqCst) {
            anyhow::bail!("scripted encoder failure");
        }
        Ok(())
    }
}

struct Ctx {
    dir: PathBuf,
    trigger: Val,
    roller: Val,
    table: Arc<Vec<Vec<Vec<u8>>>>,
    order: Arc<Mutex<Vec<usize>>>,
    consults: Log,
    idx: Arc<AtomicUsize>,
    script: Arc<Vec<u128>>,
    fail: Arc<std::sync::atomic::AtomicBool>,
    calls: Arc<AtomicUsize>,
}

fn opt(v: &[Val], i: usize) -> u128 {
    v.get(i).map(|x| x.n()).unwrap_or(0)
}

impl Ctx {
    fn active(&self) -> PathBuf {
        self.dir.join("cur.log")
    }

    fn build(&self, append: bool) -> anyhow::Result<RollingFileAppender> {
        let t = self.trigger.l();
        let trigger: Box<dyn Trigger> = match t[0].n() {
            0 => Box::new(SizeTrigger::new(t[1].n() as u64)),
            1 => Box::new(OnStartUpTrigger::new(t[1].n() as u64)),
            3 => {
                let yaml = format!(
                    "interval: {} seconds\nmodulate: {}\n",
                    t[1].n(),
                    if t[2].b() { "true" } else { "false" }
                );
                let cfg: TimeTriggerConfig = serde_yaml::from_str(&yaml)?;
                Box::new(TimeTrigger::new(cfg))
            }
            _ => Box::new(ScriptTrigger {
                pre: t[1].b(),
                script: self.script.clone(),
                idx: self.idx.clone(),
            }),
        };
        let r = self.roller.l();
        let inner: Box<dyn Roll> = match r[0].n() {
            0 => Box::new(DeleteRoller::new()),
            _ => {
                let ext = match r[3].n() {
                    0 => "log",
                    2 => "zst",
                    _ => "gz",
                };
                let d = self.dir.display();
                let pattern = match opt(r, 4) {
                    0 => format!("{}/arch.{{}}.{}", d, ext),
                    1 => format!("{}/ar{{}}/arch.{{}}.{}", d, ext),
                    // 3: `xm` is a symbolic link to a directory on ANOTHER file system (when the machine
                    // has one): every move into / out of it is refused by rename (EXDEV)
                    3 => format!("{}/xm/arch.{{}}.{}", d, ext),
                    _ => format!("{}/ar{{}}/arch.{}", d, ext),
                };
                Box::new(
                    FixedWindowRoller::builder()
                        .base(r[1].n() as u32)
                        .build(&pattern, r[2].n() as u32)?,
                )
            }
        };
        let roller: Box<dyn Roll> = Box::new(SpyRoll {
            inner,
            fail: self.fail.clone(),
            calls: self.calls.clone(),
        });
        let policy = SpyPolicy {
            inner: CompoundPolicy::new(trigger, roller),
            log: self.consults.clone(),
            calls: self.calls.clone(),
        };
        let enc = ChunkEncoder {
            table: self.table.clone(),
            order: self.order.clone(),
        };
        Ok(RollingFileAppender::builder()
            .append(append)
            .encoder(Box::new(enc))
            .build(self.active(), Box::new(policy))?)
    }

    /// all regular files under the directory as (relative name, size)
    fn listing(&self) -> Vec<(String, u64)> {
        fn walk(base: &Path, d: &Path, out: &mut Vec<(String, u64)>) {
            if let Ok(rd) = std::fs::read_dir(d) {
                for e in rd.flatten() {
                    let p = e.path();
                    match e.metadata() {
                        Ok(m) if m.file_type().is_symlink() => {
                            if e.file_name() == "xm" && p.is_dir() {
                                walk(base, &p, out);
                            } else if let Ok(t) = std::fs::metadata(&p) {
                                // a link to a regular file (the log path of pre kind 2, or that link moved
                                // into the archive window) counts as the file it names
                                if t.is_file() {
                                    out.push((p.strip_prefix(base).unwrap().to_string_lossy().to_string(), t.len()));
                                }
                            }
                        }
                        Ok(m) if m.is_dir() => {
                            if !(d == base && (e.file_name() == "side" || e.file_name() == "real")) {
                                walk(base, &p, out)
                            }
                        }
                        Ok(m) => out.push((
                            p.strip_prefix(base).unwrap().to_string_lossy().to_string(),
                            m.len(),
                        )),
                        Err(_) => {}
                    }
                }
            }
        }
        let mut out = Vec::new();
        walk(&self.dir, &self.dir, &mut out);
        out.sort();
        out
    }

    /// (kind, idx) of a relative file name
    fn classify(name: &str) -> (u128, u128, bool) {
        if name == "cur.log" {
            return (0, 0, false);
        }
        if let Some(d) = name.strip_prefix("cur.") {
            if !d.is_empty() && d.bytes().all(|b| b.is_ascii_digit()) {
                return (3, d.parse::<u128>().unwrap_or(0), false);
            }
        }
        let comps: Vec<&str> = name.split('/').collect();
        let dir_idx = if comps.len() == 2 && comps[0] == "xm" {
            None
        } else if comps.len() == 2 {
            match comps[0].strip_prefix("ar").and_then(|x| x.parse::<u128>().ok()) {
                Some(i) => Some(i),
                None => return (2, 0, false),
            }
        } else if comps.len() == 1 {
            None
        } else {
            return (2, 0, false);
        };
        let parts: Vec<&str> = comps[comps.len() - 1].split('.').collect();
        if parts[0] != "arch" {
            return (2, 0, false);
        }
        let (file_idx, ext) = match parts.len() {
            3 => match parts[1].parse::<u128>() {
                Ok(i) => (Some(i), parts[2]),
                Err(_) => return (2, 0, false),
            },
            2 => (None, parts[1]),
            _ => return (2, 0, false),
        };
        if ext != "log" && ext != "gz" && ext != "zst" {
            return (2, 0, false);
        }
        let idx = match (dir_idx, file_idx) {
            (Some(a), Some(b)) if a == b => a,
            (Some(a), None) => a,
            (None, Some(b)) => b,
            _ => return (2, 0, false),
        };
        (1, idx, ext == "gz" || ext == "zst")
    }

    /// Some(snapshot) if every listed file could be read (and gunzipped)
    fn try_snapshot(&self, strict: bool) -> Option<Val> {
        let mut ents: Vec<(u128, u128, Vec<u8>)> = Vec::new();
        // Read order: active file, temp files, then the archives by ascending index.  A rotation only
        // moves a record temp -> base or archive i -> i+1, so a scan in this order that reads every
        // listed file successfully cannot miss a record that is being moved (it is read either under
        // its old name, or - the old name read earlier - the read of the old name fails and the strict
        // scan is abandoned).  The directory as a whole is still not read atomically.
        let mut names: Vec<String> = self.listing().into_iter().map(|(n, _)| n).collect();
        names.sort_by_key(|n| {
            let (kind, idx, _) = Ctx::classify(n);
            (match kind { 0 => 0u8, 3 => 1, 1 => 2, _ => 3 }, idx)
        });
        for name in names {
            let (kind, idx, gz) = Ctx::classify(&name);
            let raw = match std::fs::read(self.dir.join(&name)) {
                Ok(r) => r,
                Err(_) if strict => return None,
                Err(_) => b"<unreadable>".to_vec(),
            };
            if kind == 2 {
                ents.push((2, 0, name.into_bytes()));
            } else if gz {
                let mut out = Vec::new();
                let decoded = if name.ends_with(".zst") {
                    match zstd::stream::decode_all(&raw[..]) {
                        Ok(v) => {
                            out = v;
                            true
                        }
                        Err(_) => false,
                    }
                } else {
                    flate2::read::GzDecoder::new(&raw[..]).read_to_end(&mut out).is_ok()
                };
                if decoded {
                    ents.push((kind, idx, out));
                } else if strict {
                    return None;
                } else {
                    ents.push((2, 0, name.into_bytes()));
                }
            } else {
                ents.push((kind, idx, raw));
            }
        }
        ents.sort();
        Some(Val::L(
            ents.into_iter()
                .map(|(k, i, b)| Val::L(vec![Val::N(k), Val::N(i), Val::S(b)]))
                .collect(),
        ))
    }

    fn snapshot(&self) -> Val {
        self.try_snapshot(false).unwrap()
    }

    /// snapshot while background rotations may be running: accepted only if the
    /// listing (names, sizes) is the same before and after reading and every file
    /// could be read; () if no such snapshot was obtained
    fn pending_snapshot(&self) -> Val {
        for _ in 0..6 {
            let l1 = self.listing();
            if let Some(s) = self.try_snapshot(true) {
                if self.listing() == l1 {
                    return s;
                }
            }
        }
        Val::L(vec![])
    }

    /// wait until no temp file of a background rotation is left (each rotation
    /// thread removes its temp file as its last file-system action); bounded
    fn wait_quiescent(&self) {
        let t0 = std::time::Instant::now();
        loop {
            let busy = self.listing().iter().any(|(n, _)| Ctx::classify(n).0 == 3);
            if !busy {
                std::thread::sleep(std::time::Duration::from_millis(1));
                if !self.listing().iter().any(|(n, _)| Ctx::classify(n).0 == 3) {
                    return;
                }
            }
            if t0.elapsed() > std::time::Duration::from_secs(5) {
                return;
            }
            std::thread::sleep(std::time::Duration::from_micros(300));
        }
    }

    fn take_consults(&self) -> Val {
        Val::L(std::mem::take(&mut *self.consults.lock().unwrap()))
    }
}

fn append_id(app: &RollingFileAppender, id: usize) -> bool {
    app.append(
        &log::Record::builder()
            .level(log::Level::Info)
            .target("t")
            .args(format_args!("{}", id))
            .build(),
    )
    .is_ok()
}

fn chunks_of(v: &Val) -> Vec<Vec<u8>> {
    v.l().iter().map(|c| c.s().to_vec()).collect()
}

/// RLIMIT_FSIZE soft limit for the duration of one call; restored on drop
struct FsizeLimit {
    old: libc::rlimit,
}
impl FsizeLimit {
    fn set(bytes: u64) -> FsizeLimit {
        unsafe {
            libc::signal(libc::SIGXFSZ, libc::SIG_IGN);
            let mut old = libc::rlimit { rlim_cur: 0, rlim_max: 0 };
            assert_eq!(libc::getrlimit(libc::RLIMIT_FSIZE, &mut old), 0);
            let new = libc::rlimit { rlim_cur: bytes as libc::rlim_t, rlim_max: old.rlim_max };
            assert_eq!(libc::setrlimit(libc::RLIMIT_FSIZE, &new), 0);
            FsizeLimit { old }
        }
    }
}
impl Drop for FsizeLimit {
    fn drop(&mut self) {
        unsafe {
            libc::setrlimit(libc::RLIMIT_FSIZE, &self.old);
        }
    }
}

/// clears the hook clock when the case ends (also on panic)
struct ClockGuard;
impl Drop for ClockGuard {
    fn drop(&mut self) {
        log4rs::verif_hooks::set_clock(None);
    }
}

/// case ( 99 size ): a SPARSE pre-existing log file of `size` bytes (no data blocks are allocated), the real
/// SizeTrigger with limit size + 10, the delete roller, append mode; two records of 5 and 10 bytes.
/// result ( (shown disk fired) (shown disk fired) err ) with `shown` = LogFile::len_estimate() at the policy's
/// consultation, `disk` = metadata().len() at that moment, fired = the real trigger's answer;
/// ( ) when the file system refuses a file of that size.
fn run_huge(size: u64) -> Val {
    #[derive(Debug)]
    struct Probe {
        inner: SizeTrigger,
        log: Arc<Mutex<Vec<Val>>>,
    }
    impl Trigger for Probe {
        fn trigger(&self, file: &log4rs::append::rolling_file::LogFile) -> anyhow::Result<bool> {
            let disk = std::fs::metadata(file.path()).map(|m| m.len()).unwrap_or(0);
            let fired = self.inner.trigger(file)?;
            self.log.lock().unwrap().push(Val::L(vec![
                Val::N(file.len_estimate() as u128),
                Val::N(disk as u128),
                Val::bool(fired),
            ]));
            Ok(fired)
        }
        fn is_pre_process(&self) -> bool {
            false
        }
    }
    #[derive(Debug)]
    struct Fixed;
    impl Encode for Fixed {
        fn encode(&self, w: &mut dyn EncWrite, record: &log::Record) -> anyhow::Result<()> {
            let n: usize = record.args().to_string().parse()?;
            w.write_all(&vec![b'x'; n])?;
            Ok(())
        }
    }
    let tmp = tempfile::tempdir().unwrap();
    let path = tmp.path().join("cur.log");
    {
        let f = std::fs::File::create(&path).unwrap();
        if f.set_len(size).is_err() {
            return Val::L(vec![]);
        }
    }
    let log = Arc::new(Mutex::new(Vec::new()));
    let policy = CompoundPolicy::new(
        Box::new(Probe { inner: SizeTrigger::new(size + 10), log: log.clone() }),
        Box::new(DeleteRoller::new()),
    );
    let app = match RollingFileAppender::builder().append(true).encoder(Box::new(Fixed)).build(&path, Box::new(policy)) {
        Ok(a) => a,
        Err(_) => return Val::L(vec![]),
    };
    let mut err = 0u128;
    for n in [5usize, 10] {
        if app
            .append(&log::Record::builder().level(log::Level::Info).args(format_args!("{}", n)).build())
            .is_err()
        {
            err += 1;
        }
    }
    let mut out = std::mem::take(&mut *log.lock().unwrap());
    out.push(Val::N(err));
    Val::L(out)
}

/// `(98 mode)`: MANY bytes written through ONE handle of the real appender, the file kept sparse by punching out
/// what was written after every consultation (the length stays).  mode 0: 260 records of 16 MiB, limit 4 GiB +
/// 24 MiB (the byte count of the handle passes 2^32); mode 1: 59 pre-existing bytes, then records of 100 bytes,
/// 2 GiB + 1 MiB (more than one write(2) call transfers on Linux) and 100 bytes, limit 2 GiB.
/// Result: ( (shown on_disk fired) per consultation ... #errors #panics ), or () where the file system refuses.
fn run_written(mode: u128) -> Val {
    #[derive(Debug)]
    struct Probe {
        inner: SizeTrigger,
        log: Arc<Mutex<Vec<Val>>>,
    }
    impl Trigger for Probe {
        fn trigger(&self, file: &log4rs::append::rolling_file::LogFile) -> anyhow::Result<bool> {
            use std::os::unix::io::AsRawFd;
            let disk = std::fs::metadata(file.path()).map(|m| m.len()).unwrap_or(0);
            let fired = self.inner.trigger(file)?;
            self.log.lock().unwrap().push(Val::L(vec![
                Val::N(file.len_estimate() as u128),
                Val::N(disk as u128),
                Val::bool(fired),
            ]));
            if let Ok(f) = std::fs::OpenOptions::new().write(true).open(file.path()) {
                unsafe {
                    libc::fallocate(f.as_raw_fd(), libc::FALLOC_FL_PUNCH_HOLE | libc::FALLOC_FL_KEEP_SIZE, 0, disk.max(1) as libc::off_t);
                }
            }
            Ok(fired)
        }
        fn is_pre_process(&self) -> bool {
            false
        }
    }
    #[derive(Debug)]
    struct Zeros;
    impl Encode for Zeros {
        fn encode(&self, w: &mut dyn EncWrite, record: &log::Record) -> anyhow::Result<()> {
            let n: usize = record.args().to_string().parse()?;
            w.write_all(&vec![0u8; n])?;
            Ok(())
        }
    }
    const MIB: u64 = 1 << 20;
    let (limit, pre, sizes): (u64, usize, Vec<usize>) = if mode == 0 {
        (4096 * MIB + 24 * MIB, 0, vec![16 * MIB as usize; 260])
    } else {
        (2048 * MIB, 59, vec![100, (2048 * MIB + MIB) as usize, 100])
    };
    let tmp = tempfile::tempdir().unwrap();
    let path = tmp.path().join("cur.log");
    std::fs::write(&path, vec![b'p'; pre]).unwrap();
    {
        // a file system without hole punching would really hold the gigabytes: not run there
        use std::os::unix::io::AsRawFd;
        let f = std::fs::OpenOptions::new().write(true).open(&path).unwrap();
        let rc = unsafe { libc::fallocate(f.as_raw_fd(), libc::FALLOC_FL_PUNCH_HOLE | libc::FALLOC_FL_KEEP_SIZE, 0, 1) };
        if rc != 0 {
            return Val::L(vec![]);
        }
    }
    let log = Arc::new(Mutex::new(Vec::new()));
    let policy = CompoundPolicy::new(
        Box::new(Probe { inner: SizeTrigger::new(limit), log: log.clone() }),
        Box::new(DeleteRoller::new()),
    );
    let app = match RollingFileAppender::builder().append(true).encoder(Box::new(Zeros)).build(&path, Box::new(policy)) {
        Ok(a) => a,
        Err(_) => return Val::L(vec![]),
    };
    let (mut err, mut panics) = (0u128, 0u128);
    for n in sizes {
        let r = std::panic::catch_unwind(std::panic::AssertUnwindSafe(|| {
            app.append(&log::Record::builder().level(log::Level::Info).args(format_args!("{}", n)).build())
        }));
        match r {
            Ok(Ok(())) => {}
            Ok(Err(_)) => err += 1,
            Err(_) => {
                panics += 1;
                break; // the appender's lock is poisoned from here on
            }
        }
    }
    let mut out = std::mem::take(&mut *log.lock().unwrap());
    out.push(Val::N(err));
    out.push(Val::N(panics));
    Val::L(out)
}

pub fn run(case: &Val) -> Val {
    let c = case.l();
    if let Val::N(99) = c[0] {
        return run_huge(c[1].n() as u64);
    }
    if let Val::N(98) = c[0] {
        return run_written(c[1].n());
    }
    let _clock_guard = ClockGuard;
    if c[0].l()[0].n() == 3 {
        std::env::set_var("TZ", "UTC");
        log4rs::verif_hooks::set_clock(Some((c[0].l()[3].n() as i64, 0)));
    }
    let tmp = tempfile::tempdir().unwrap();
    let dir: &Path = tmp.path();
    // roller shape 3: the archive directory `xm` lives on another file system
    let _other_fs: Option<tempfile::TempDir> = if c[1].l()[0].n() == 1 && opt(c[1].l(), 4) == 3 {
        use std::os::unix::fs::MetadataExt;
        let here = std::fs::metadata(dir).map(|m| m.dev()).unwrap_or(0);
        let mut found = None;
        for cand in ["/dev/shm", "/tmp", "/var/tmp", "/run"] {
            let ok = std::fs::metadata(cand).map(|m| m.is_dir() && m.dev() != here).unwrap_or(false);
            if ok {
                if let Ok(t) = tempfile::tempdir_in(cand) {
                    found = Some(t);
                    break;
                }
            }
        }
        match &found {
            Some(t) => std::os::unix::fs::symlink(t.path(), dir.join("xm")).expect("symlink xm"),
            None => std::fs::create_dir(dir.join("xm")).expect("mkdir xm"), // one file system only
        }
        found
    } else {
        None
    };
    // record table: ids in op order (burst: thread-major)
    let mut table: Vec<Vec<Vec<u8>>> = Vec::new();
    for o in c[4].l() {
        let o = o.l();
        match o[0].n() {
            0 | 5 | 7 | 10 | 11 | 12 => table.push(chunks_of(&o[1])),
            2 => {
                for th in o[1].l() {
                    for r in th.l() {
                        table.push(chunks_of(r));
                    }
                }
            }
            _ => {}
        }
    }
    let script: Vec<u128> = if c[0].l()[0].n() == 2 {
        c[0].l()[2].l().iter().map(|x| x.n()).collect()
    } else {
        vec![]
    };
    let ctx = Ctx {
        dir: dir.to_path_buf(),
        trigger: c[0].clone(),
        roller: c[1].clone(),
        table: Arc::new(table),
        order: Arc::new(Mutex::new(Vec::new())),
        consults: Arc::new(Mutex::new(Vec::new())),
        idx: Arc::new(AtomicUsize::new(0)),
        script: Arc::new(script),
        fail: Arc::new(std::sync::atomic::AtomicBool::new(false)),
        calls: Arc::new(AtomicUsize::new(0)),
    };
    let bg = c[1].l()[0].n() == 1 && opt(c[1].l(), 5) == 1;
    // `background_rotation` build, every 12th case with a burst of four or more concurrent appends: the FIRST rotation of the case
    // is slow (its first step takes 1.3 s - a big file being compressed, a slow disk), so that the next roll finds a
    // rotation in flight for longer than any patience a roller might have; it has to wait for it, not skip its own
    struct HookGuard;
    impl Drop for HookGuard {
        fn drop(&mut self) {
            log4rs::verif_hooks::set_rotate_step(None);
            SLOW_ARMED.store(false, Ordering::SeqCst);
            SLOW_NEXT.store(false, Ordering::SeqCst);
        }
    }
    static BG_TURN: AtomicUsize = AtomicUsize::new(0);
    let big_burst = c[4].l().iter().any(|o| o.l()[0].n() == 2 && o.l()[1].l().iter().map(|t| t.l().len()).sum::<usize>() >= 4);
    let _hook_guard = if bg && big_burst && BG_TURN.fetch_add(1, Ordering::SeqCst) % 12 == 3 {
        // (armed at the start of the case's first big burst: the first rotation INSIDE the burst is the slow one)
        log4rs::verif_hooks::set_rotate_step(Some(Box::new(move |_k, _src, _dst| {
            if SLOW_NEXT.swap(false, Ordering::SeqCst) {
                std::thread::sleep(std::time::Duration::from_millis(1300));
            }
            Ok(())
        })));
        SLOW_ARMED.store(true, Ordering::SeqCst);
        Some(HookGuard)
    } else {
        None
    };
    let mut old: Option<RollingFileAppender> = None;
    if c[2].l()[0].n() == 1 {
        std::fs::write(ctx.active(), c[2].l()[1].s()).unwrap();
        vh::util::vary_mtime(&ctx.active());
    }
    if c[2].l()[0].n() == 2 {
        // the configured log path is a SYMBOLIC LINK to the file that holds the pre-existing content
        // (a common deployment: /var/log/app/current -> /data/logs/app.log)
        std::fs::create_dir(ctx.dir.join("real")).unwrap();
        std::fs::write(ctx.dir.join("real").join("cur.data"), c[2].l()[1].s()).unwrap();
        std::os::unix::fs::symlink(ctx.dir.join("real").join("cur.data"), ctx.active()).unwrap();
        vh::util::vary_mtime(&ctx.dir.join("real").join("cur.data"));
    }
    let mut out: Vec<Val> = Vec::new();
    let mut app = match ctx.build(c[3].b()) {
        Ok(a) => Some(a),
        Err(_) => None,
    };
    out.push(Val::L(vec![
        ctx.take_consults(),
        ctx.snapshot(),
        Val::N(if app.is_some() { 0 } else { 1 }),
    ]));
    let mut next_id = 0usize;
    for o in c[4].l() {
        let o = o.l();
        let mut errors = 0u128;
        let mut extra: Option<Val> = None;
        match o[0].n() {
            0 | 5 | 7 => {
                let k = o[0].n();
                if k == 7 {
                    ctx.fail.store(true, Ordering::SeqCst);
                }
                let target = if k == 5 && old.is_some() { &old } else { &app };
                let ok = match target {
                    Some(a) => append_id(a, next_id),
                    None => false,
                };
                ctx.fail.store(false, Ordering::SeqCst);
                next_id += 1;
                if !ok {
                    errors += 1;
                }
            }
            12 => {
                FAIL_AFTER.store(true, Ordering::SeqCst);
                let ok = match &app {
                    Some(a) => append_id(a, next_id),
                    None => false,
                };
                FAIL_AFTER.store(false, Ordering::SeqCst);
                next_id += 1;
                if !ok {
                    errors += 1;
                }
            }
            11 if o.len() > 2 && o[2].n() == 1 => {
                // the record is fine, the disk is full: the active file cannot grow by a single byte during the call
                // (RLIMIT_FSIZE = its current size, SIGXFSZ ignored), so the flush at the end of append fails
                let size = std::fs::metadata(ctx.active()).map(|m| m.len()).unwrap_or(0);
                let ok = {
                    let _full = FsizeLimit::set(size);
                    match &app {
                        Some(a) => append_id(a, next_id),
                        None => false,
                    }
                };
                next_id += 1;
                if !ok {
                    errors += 1;
                }
            }
            11 => {
                ENC_FAIL.store(true, Ordering::SeqCst);
                let ok = match &app {
                    Some(a) => append_id(a, next_id),
                    None => false,
                };
                ENC_FAIL.store(false, Ordering::SeqCst);
                next_id += 1;
                if !ok {
                    errors += 1;
                }
            }
            10 => {
                // an append whose encoder (via 1) / roller (via 2) appends a record to the SIDE appender
                if SIDE.lock().unwrap().is_none() {
                    let sd = ctx.dir.join("side");
                    let roller = FixedWindowRoller::builder()
                        .build(&format!("{}/arch.{{}}.log", sd.display()), 2)
                        .expect("side roller");
                    let policy = CompoundPolicy::new(Box::new(SizeTrigger::new(SIDE_LIMIT)), Box::new(roller));
                    let side = RollingFileAppender::builder()
                        .encoder(Box::new(SideEncoder))
                        .build(sd.join("cur.log"), Box::new(policy))
                        .expect("side appender");
                    *SIDE.lock().unwrap() = Some(Arc::new(side));
                }
                SIDE_TABLE.lock().unwrap().push(o[2].s().to_vec());
                SIDE_RESULT.store(0, Ordering::SeqCst);
                SIDE_FIRE.store(o[3].u(), Ordering::SeqCst);
                let ok = match &app {
                    Some(a) => append_id(a, next_id),
                    None => false,
                };
                SIDE_FIRE.store(0, Ordering::SeqCst);
                next_id += 1;
                if !ok {
                    errors += 1;
                }
                // the side directory: (kind idx bytes) with kind 0 active / 1 archive idx
                let mut sl: Vec<Val> = Vec::new();
                let sd = ctx.dir.join("side");
                if let Ok(b) = std::fs::read(sd.join("cur.log")) {
                    sl.push(Val::L(vec![Val::N(0), Val::N(0), Val::S(b)]));
                }
                for i in 0..4u128 {
                    if let Ok(b) = std::fs::read(sd.join(format!("arch.{}.log", i))) {
                        sl.push(Val::L(vec![Val::N(1), Val::N(i), Val::S(b)]));
                    }
                }
                extra = Some(Val::L(vec![Val::N(SIDE_RESULT.load(Ordering::SeqCst) as u128), Val::L(sl)]));
            }
            4 => {
                // hot restart: the previous instance stays in service
                if let Some(prev) = old.take() {
                    drop(prev);
                }
                old = app.take();
                app = ctx.build(o[1].b()).ok();
                if app.is_none() {
                    errors += 1;
                }
            }
            6 => {
                drop(old.take());
            }
            8 | 9 => {
                let r = ctx.roller.l();
                let ext = match r[3].n() {
                    0 => "log",
                    2 => "zst",
                    _ => "gz",
                };
                let slot = ctx.dir.join(format!("arch.{}.{}", r[1].n(), ext));
                if o[0].n() == 8 {
                    if std::os::unix::fs::symlink("/dev/full", &slot).is_err() {
                        errors += 1;
                    }
                } else if std::fs::symlink_metadata(&slot).map(|m| m.file_type().is_symlink()).unwrap_or(false) {
                    let _ = std::fs::remove_file(&slot);
                }
            }
            1 => {
                drop(old.take());
                drop(app.take());
                app = ctx.build(o[1].b()).ok();
                if app.is_none() {
                    errors += 1;
                }
            }
            3 => {
                log4rs::verif_hooks::set_clock(Some((o[1].n() as i64, 0)));
            }
            _ => {
                // burst
                let threads = o[1].l();
                let mut ids: Vec<Vec<usize>> = Vec::new();
                let mut who: std::collections::HashMap<usize, (usize, usize)> = Default::default();
                for (ti, th) in threads.iter().enumerate() {
                    let mut v = Vec::new();
                    for ri in 0..th.l().len() {
                        who.insert(next_id, (ti, ri));
                        v.push(next_id);
                        next_id += 1;
                    }
                    ids.push(v);
                }
                ctx.order.lock().unwrap().clear();
                let errs = AtomicUsize::new(0);
                // the first rotation of this burst takes 1.3 s, and the threads start 120 ms apart: the later ones ask
                // for their rotation while the slow one has been running for a while
                let slow = ids.iter().map(|v| v.len()).sum::<usize>() >= 4 && SLOW_ARMED.swap(false, Ordering::SeqCst);
                if slow {
                    SLOW_NEXT.store(true, Ordering::SeqCst);
                }
                if let Some(a) = &app {
                    let barrier = Barrier::new(ids.len());
                    std::thread::scope(|s| {
                        for (ti, v) in ids.iter().enumerate() {
                            let barrier = &barrier;
                            let errs = &errs;
                            s.spawn(move || {
                                barrier.wait();
                                if slow {
                                    std::thread::sleep(std::time::Duration::from_millis(120 * ti as u64));
                                }
                                for id in v {
                                    if !append_id(a, *id) {
                                        errs.fetch_add(1, Ordering::SeqCst);
                                    }
                                }
                            });
                        }
                    });
                } else {
                    errs.fetch_add(1, Ordering::SeqCst);
                }
                errors += errs.load(Ordering::SeqCst) as u128;
                let order = ctx.order.lock().unwrap().clone();
                extra = Some(Val::L(
                    order
                        .iter()
                        .map(|id| {
                            let (t, r) = who.get(id).copied().unwrap_or((999, 999));
                            Val::L(vec![Val::N(t as u128), Val::N(r as u128)])
                        })
                        .collect(),
                ));
            }
        }
        let pending = if bg { Some(ctx.pending_snapshot()) } else { None };
        if bg {
            ctx.wait_quiescent();
        }
        let mut ent = vec![ctx.take_consults(), ctx.snapshot(), Val::N(errors)];
        if extra.is_some() || pending.is_some() {
            ent.push(extra.unwrap_or(Val::L(vec![])));
        }
        if let Some(p) = pending {
            ent.push(p);
        }
        out.push(Val::L(ent));
    }
    drop(old);
    drop(app);
    *SIDE.lock().unwrap() = None;
    SIDE_TABLE.lock().unwrap().clear();
    Val::L(out)
}

/// Main loop of the three rolling bins.  Same protocol as `vh::main_loop` (one
/// result line per case line, a panic is reported as "panic"), but the results
/// are written to a private duplicate of the original stdout and fd 1 is
/// redirected to stderr: `rotate` in the crate reports a failed compress with
/// `println!`, which from a burst thread would block forever on a held stdout
/// lock and from the main thread would inject a line into the protocol.
pub fn main_loop_private() {
    use std::io::{BufRead, Write};
    use std::os::unix::io::FromRawFd;
    std::panic::set_hook(Box::new(|_| {}));
    let out_fd = unsafe { libc::dup(1) };
    assert!(out_fd >= 0);
    unsafe { libc::dup2(2, 1) };
    let mut out = unsafe { std::fs::File::from_raw_fd(out_fd) };
    let stdin = std::io::stdin();
    let mut buf = String::new();
    for line in stdin.lock().lines() {
        let line = line.expect("stdin");
        if line.trim().is_empty() {
            continue;
        }
        let case = vh::val::parse(&line);
        let res = match std::panic::catch_unwind(std::panic::AssertUnwindSafe(|| run(&case))) {
            Ok(v) => v,
            Err(_) => Val::panic(),
        };
        buf.clear();
        vh::val::print(&res, &mut buf);
        buf.push('\n');
        out.write_all(buf.as_bytes()).unwrap();
        out.flush().unwrap();
    }
}
