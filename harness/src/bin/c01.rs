//! C01 — routing: which appenders receive a record for (target, level).
//! case: ( (appname ...) (rootlevel (appname ...)) ((name level additive (appname ...)) ...)
//!         ((target level) ...) [ (failing-appender-index ...) ] )
//! Appenders named in the optional 5th component record the call and then return
//! Err: a failing appender must not keep the record from the rest of the chain.
//! result: per probe the list of appender indices (position in the appender
//! declaration list) whose `append` was called, in call order; ("err" 1) when
//! the config does not build.
use log::Log;
use log4rs::config::{Appender, Config, Logger, Root};
use vh::util::*;
use vh::val::Val;

fn run(case: &Val) -> Val {
    let c = case.l();
    let rec = new_rec();
    let failing: Vec<usize> = if c.len() > 4 { c[4].l().iter().map(|v| v.u()).collect() } else { vec![] };
    let mut builder = Config::builder();
    for (i, a) in c[0].l().iter().enumerate() {
        builder = builder.appender(Appender::builder().build(
            a.str(),
            Box::new(RecAppender { idx: i, fails: failing.contains(&i), rec: rec.clone() }),
        ));
    }
    for lg in c[2].l() {
        let lg = lg.l();
        let mut lb = Logger::builder().additive(lg[2].b());
        for a in lg[3].l() {
            lb = lb.appender(a.str());
        }
        builder = builder.logger(lb.build(lg[0].str(), level_filter(lg[1].n())));
    }
    let r = c[1].l();
    let mut root = Root::builder();
    for a in r[1].l() {
        root = root.appender(a.str());
    }
    let config = match builder.build(root.build(level_filter(r[0].n()))) {
        Ok(c) => c,
        Err(_) => return Val::err(1),
    };
    // same construction as Logger::new, with a silent error handler (failing appenders)
    let logger = log4rs::Logger::new_with_err_handler(config, Box::new(|_e: &anyhow::Error| {}));
    let mut out = vec![];
    for p in c[3].l() {
        let p = p.l();
        let target = p[0].str();
        rec.lock().unwrap().clear();
        logger.log(
            &log::Record::builder()
                .level(level(p[1].n()))
                .target(&target)
                .args(format_args!("m"))
                .build(),
        );
        let ev = rec.lock().unwrap();
        out.push(Val::L(ev.iter().map(|e| e.l()[1].clone()).collect()));
    }
    Val::L(out)
}

fn main() {
    vh::main_loop(run);
}
