//! C01 — routing: which appenders receive a record for (target, level).
//! case: ( (appname ...) (rootlevel (appname ...)) ((name level additive (appname ...)) ...)
//!         ((target level) ...) [ (failing-appender-index ...) ] )
//! Appenders named in the optional 5th component record the call and then return
//! Err: a failing appender must not keep the record from the rest of the chain.
//! Optional 6th component ( app probe ): the appender with index `app`, while handling a
//! top-level record (message "m"), logs the probe number `probe` (message "k") through the
//! same Logger before it returns - a record emitted from inside an appender is an ordinary
//! record and must be routed like one.
//! Optional 7th component ( idx ... ): these appenders are supplied as `log::Log` values whose own
//! `enabled()` refuses everything (they neither fail nor follow up).
//! result: per probe the list of appender indices (position in the appender
//! declaration list) whose `append` was called, in call order; ("err" 1) when
//! the config does not build.  With a 6th component one more entry follows: per probe
//! the appender indices that received a nested "k" record while that probe was logged.
use log::Log;
use log4rs::config::{Appender, Config, Logger, Root};
use vh::util::*;
use vh::val::Val;

/// records (1 idx) for a top-level record and (2 idx) for a nested one; on a top-level record
/// optionally logs a follow-up record through the logger it is attached to
struct NestAppender {
    idx: usize,
    fails: bool,
    rec: Rec,
    logger: std::sync::Arc<std::sync::Mutex<Option<std::sync::Arc<log4rs::Logger>>>>,
    follow: Option<(String, log::Level)>,
}

impl std::fmt::Debug for NestAppender {
    fn fmt(&self, f: &mut std::fmt::Formatter) -> std::fmt::Result {
        write!(f, "NestAppender({})", self.idx)
    }
}

impl log4rs::append::Append for NestAppender {
    fn append(&self, record: &log::Record) -> anyhow::Result<()> {
        let top = record.args().to_string() == "m";
        self.rec
            .lock()
            .unwrap()
            .push(Val::L(vec![Val::N(if top { 1 } else { 2 }), Val::N(self.idx as u128)]));
        if top {
            if let Some((t, l)) = &self.follow {
                let lg = self.logger.lock().unwrap().clone();
                if let Some(lg) = lg {
                    lg.log(&log::Record::builder().level(*l).target(t).args(format_args!("k")).build());
                }
            }
        }
        if self.fails {
            Err(varied_error(format!("{}", self.idx)))
        } else {
            Ok(())
        }
    }
    fn flush(&self) {}
}

/// An appender supplied as a `log::Log` (log4rs' blanket `impl<T: Log> Append for T`): its own
/// `enabled()` says no to everything, `log()` records the call as (1 idx).  Routing - and nothing
/// else - decides what an attached appender receives.
#[derive(Debug)]
struct LogSink {
    idx: usize,
    rec: Rec,
}

impl log::Log for LogSink {
    fn enabled(&self, _m: &log::Metadata) -> bool {
        false
    }
    fn log(&self, record: &log::Record) {
        let top = record.args().to_string() == "m";
        self.rec
            .lock()
            .unwrap()
            .push(Val::L(vec![Val::N(if top { 1 } else { 2 }), Val::N(self.idx as u128)]));
    }
    fn flush(&self) {}
}

/// Thread history that must not matter (run before every case, on the thread that logs the case's
/// probes): (a) three log calls that leave `Logger::log` by unwinding - an appender panics, the panic
/// is caught by the caller, as a worker pool does; (b) a record whose appender logs a follow-up record
/// through the same logger, 12 levels deep: every level is an ordinary record and is delivered.
/// Some(text) when (b) is not delivered 13 times.
fn thread_history() -> Option<String> {
    use std::sync::atomic::{AtomicUsize, Ordering};
    use std::sync::{Arc, OnceLock};
    #[derive(Debug)]
    struct Boom;
    impl log4rs::append::Append for Boom {
        fn append(&self, _r: &log::Record) -> anyhow::Result<()> {
            panic!("appender panics")
        }
        fn flush(&self) {}
    }
    static DEEP_CALLS: AtomicUsize = AtomicUsize::new(0);
    static PRIVATE: OnceLock<Arc<log4rs::Logger>> = OnceLock::new();
    #[derive(Debug)]
    struct Deep;
    impl log4rs::append::Append for Deep {
        fn append(&self, r: &log::Record) -> anyhow::Result<()> {
            DEEP_CALLS.fetch_add(1, Ordering::SeqCst);
            let k: usize = r.args().to_string().parse().unwrap_or(0);
            if k > 0 {
                if let Some(l) = PRIVATE.get() {
                    l.log(&log::Record::builder().level(log::Level::Error).target("deep").args(format_args!("{}", k - 1)).build());
                }
            }
            Ok(())
        }
        fn flush(&self) {}
    }
    let logger = PRIVATE.get_or_init(|| {
        let config = Config::builder()
            .appender(Appender::builder().build("boom", Box::new(Boom)))
            .appender(Appender::builder().build("deep", Box::new(Deep)))
            .logger(Logger::builder().additive(false).appender("boom").build("boom", log::LevelFilter::Trace))
            .logger(Logger::builder().additive(false).appender("deep").build("deep", log::LevelFilter::Trace))
            .build(Root::builder().build(log::LevelFilter::Off))
            .expect("private config");
        Arc::new(log4rs::Logger::new_with_err_handler(config, Box::new(|_e: &anyhow::Error| {})))
    });
    for _ in 0..3 {
        let r = std::panic::catch_unwind(std::panic::AssertUnwindSafe(|| {
            logger.log(&log::Record::builder().level(log::Level::Error).target("boom::x").args(format_args!("p")).build());
        }));
        if r.is_ok() {
            return Some("a panicking appender did not unwind out of Logger::log".to_string());
        }
    }
    // (c) an appender of one logger hands the record it received (the same &Record) on to a SECOND logger: for that
    // logger it is a record like any other
    {
        static FWD_CALLS: AtomicUsize = AtomicUsize::new(0);
        static SECOND: OnceLock<Arc<log4rs::Logger>> = OnceLock::new();
        static FIRST: OnceLock<Arc<log4rs::Logger>> = OnceLock::new();
        #[derive(Debug)]
        struct Count;
        impl log4rs::append::Append for Count {
            fn append(&self, _r: &log::Record) -> anyhow::Result<()> {
                FWD_CALLS.fetch_add(1, Ordering::SeqCst);
                Ok(())
            }
            fn flush(&self) {}
        }
        #[derive(Debug)]
        struct Forward;
        impl log4rs::append::Append for Forward {
            fn append(&self, r: &log::Record) -> anyhow::Result<()> {
                if let Some(b) = SECOND.get() {
                    b.log(r);
                }
                Ok(())
            }
            fn flush(&self) {}
        }
        let second = SECOND.get_or_init(|| {
            let config = Config::builder()
                .appender(Appender::builder().build("count", Box::new(Count)))
                .appender(Appender::builder().build("count2", Box::new(Count)))
                .logger(Logger::builder().appender("count2").build("fwd", log::LevelFilter::Trace))
                .build(Root::builder().appender("count").build(log::LevelFilter::Trace))
                .expect("second config");
            Arc::new(log4rs::Logger::new_with_err_handler(config, Box::new(|_e: &anyhow::Error| {})))
        });
        let _ = second;
        let first = FIRST.get_or_init(|| {
            let config = Config::builder()
                .appender(Appender::builder().build("forward", Box::new(Forward)))
                .build(Root::builder().appender("forward").build(log::LevelFilter::Trace))
                .expect("first config");
            Arc::new(log4rs::Logger::new_with_err_handler(config, Box::new(|_e: &anyhow::Error| {})))
        });
        FWD_CALLS.store(0, Ordering::SeqCst);
        first.log(&log::Record::builder().level(log::Level::Info).target("fwd::x").args(format_args!("f")).build());
        let n = FWD_CALLS.load(Ordering::SeqCst);
        if n != 2 {
            return Some(format!(
                "a record handed on by an appender of one logger to a second logger: {} of the 2 deliveries the second logger's configuration prescribes",
                n
            ));
        }
    }
    DEEP_CALLS.store(0, Ordering::SeqCst);
    logger.log(&log::Record::builder().level(log::Level::Error).target("deep").args(format_args!("12")).build());
    let n = DEEP_CALLS.load(Ordering::SeqCst);
    if n != 13 {
        return Some(format!(
            "a record logged from inside an appender, 12 levels deep: {} of 13 records delivered (same thread, after earlier log calls that unwound)",
            n
        ));
    }
    None
}

fn run(case: &Val) -> Val {
    if let Some(bad) = thread_history() {
        return Val::L(vec![Val::text(&bad)]);
    }
    let c = case.l();
    let rec = new_rec();
    let logkind: Vec<usize> = if c.len() > 6 { c[6].l().iter().map(|v| v.u()).collect() } else { vec![] };
    let nest: Option<(usize, usize)> = if c.len() > 5 && c[5].l().len() == 2 {
        Some((c[5].l()[0].u(), c[5].l()[1].u()))
    } else {
        None
    };
    let slot: std::sync::Arc<std::sync::Mutex<Option<std::sync::Arc<log4rs::Logger>>>> =
        std::sync::Arc::new(std::sync::Mutex::new(None));
    let failing: Vec<usize> = if c.len() > 4 { c[4].l().iter().map(|v| v.u()).collect() } else { vec![] };
    let mut apps = vec![];
    for (i, a) in c[0].l().iter().enumerate() {
        let follow = match nest {
            Some((ai, pi)) if ai == i => {
                let p = c[3].l()[pi].l();
                Some((p[0].str(), level(p[1].n())))
            }
            _ => None,
        };
        if logkind.contains(&i) {
            apps.push(Appender::builder().build(a.str(), Box::new(LogSink { idx: i, rec: rec.clone() })));
            continue;
        }
        apps.push(Appender::builder().build(
            a.str(),
            Box::new(NestAppender {
                idx: i,
                fails: failing.contains(&i),
                rec: rec.clone(),
                logger: slot.clone(),
                follow,
            }),
        ));
    }
    let loggers = c[2]
        .l()
        .iter()
        .map(|lg| {
            let lg = lg.l();
            (lg[0].str(), level_filter(lg[1].n()), lg[2].b(), lg[3].l().iter().map(|a| a.str()).collect())
        })
        .collect();
    let r = c[1].l();
    let (builder, root) = assemble(apps, loggers, level_filter(r[0].n()), r[1].l().iter().map(|a| a.str()).collect());
    let config = match builder.build(root) {
        Ok(c) => c,
        Err(_) => return Val::err(1),
    };
    // same construction as Logger::new, with a silent error handler (failing appenders)
    let logger = std::sync::Arc::new(log4rs::Logger::new_with_err_handler(
        config,
        Box::new(|_e: &anyhow::Error| {}),
    ));
    if nest.is_some() {
        *slot.lock().unwrap() = Some(logger.clone());
    }
    let mut out = vec![];
    let mut nested = vec![];
    for p in c[3].l() {
        let p = p.l();
        let target = p[0].str();
        rec.lock().unwrap().clear();
        // module path, file and line name a configured logger (another one for every probe): only the target routes
        let lgs = c[2].l();
        let decoy: Option<String> = lgs.get(out.len() % lgs.len().max(1)).map(|lg| lg.l()[0].str());
        logger.log(
            &log::Record::builder()
                .level(level(p[1].n()))
                .target(&target)
                .module_path(decoy.as_deref())
                .file(decoy.as_deref())
                .line(Some(out.len() as u32))
                .args(format_args!("m"))
                .build(),
        );
        let ev = rec.lock().unwrap();
        out.push(Val::L(ev.iter().filter(|e| e.l()[0].n() == 1).map(|e| e.l()[1].clone()).collect()));
        nested.push(Val::L(ev.iter().filter(|e| e.l()[0].n() == 2).map(|e| e.l()[1].clone()).collect()));
    }
    // break the logger -> appender -> logger cycle
    *slot.lock().unwrap() = None;
    if nest.is_some() {
        out.push(Val::L(nested));
    }
    Val::L(out)
}

fn main() {
    vh::main_loop(run);
}
