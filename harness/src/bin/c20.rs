//! C20 — size and interval literals through the real serde front-ends.
//! case: ( kind form payload fmt )
//!   kind 0: SizeTriggerConfig.limit      kind 1: TimeTriggerConfig.interval
//!   kind 2: RawConfig.refresh_rate (string forms 2/3 only).  Result ( crate humantime ) where each
//!           is (0) rejected | (1 secs nanos): what RawConfig::refresh_rate() holds after
//!           deserialising `refresh_rate: <literal>`, and what humantime::parse_duration returns
//!           for the SAME literal (direct third-party oracle; humantime is not modelled)
//!   form 0: integer scalar, payload = Z (sign magnitude), written in decimal
//!   form 1: float scalar, payload = bytes of the literal text, written verbatim
//!   form 2: quoted string scalar, payload = list of code points (everything outside
//!           printable ASCII is written as an escape so the front-end cannot fold it)
//!   form 3: YAML plain (unquoted) scalar, payload = list of code points, written verbatim
//!   form 4: integer scalar in an alternative YAML spelling, payload = ( Z text ), text verbatim
//!   fmt 0: serde_yaml   fmt 1: serde_json (forms 3 and 4 are YAML only)
//! result: (0) rejected | size: (1 limit) | interval: (1 unit n)  unit 0=Second .. 6=Year;
//!         a negative interval count is printed as (1 unit (1 magnitude)).
//! The limit is read back from the Debug rendering (the field is private); the interval
//! through the `verif_parts` hook.
use log4rs::append::rolling_file::policy::compound::trigger::size::SizeTriggerConfig;
use log4rs::append::rolling_file::policy::compound::trigger::time::{
    TimeTriggerConfig, TimeTriggerInterval,
};
use vh::val::Val;

fn text_of(cps: &Val) -> String {
    cps.l()
        .iter()
        .map(|c| char::from_u32(c.n() as u32).expect("scalar value"))
        .collect()
}

fn quote_yaml(s: &str) -> String {
    let mut o = String::from("\"");
    for c in s.chars() {
        let u = c as u32;
        if (0x20..0x7f).contains(&u) && c != '"' && c != '\\' {
            o.push(c);
        } else if u <= 0xffff {
            o.push_str(&format!("\\u{:04X}", u));
        } else {
            o.push_str(&format!("\\U{:08X}", u));
        }
    }
    o.push('"');
    o
}

fn quote_json(s: &str) -> String {
    let mut o = String::from("\"");
    for c in s.chars() {
        let u = c as u32;
        if (0x20..0x7f).contains(&u) && c != '"' && c != '\\' {
            o.push(c);
        } else {
            let mut buf = [0u16; 2];
            for w in c.encode_utf16(&mut buf) {
                o.push_str(&format!("\\u{:04X}", w));
            }
        }
    }
    o.push('"');
    o
}

fn quote_toml(s: &str) -> String {
    let mut o = String::from("\"");
    for ch in s.chars() {
        match ch {
            '"' => o.push_str("\\\""),
            '\\' => o.push_str("\\\\"),
            c if (c as u32) < 0x20 || c as u32 == 0x7f => o.push_str(&format!("\\u{:04X}", c as u32)),
            c => o.push(c),
        }
    }
    o.push('"');
    o
}

/// front-end by `fmt`: 0 serde_yaml, 1 serde_json, 2 toml (integers reach the visitor as i64 there)
fn parse_doc<T: serde::de::DeserializeOwned>(fmt: u128, doc: &str) -> Result<T, String> {
    match fmt {
        0 => serde_yaml::from_str(doc).map_err(|e| e.to_string()),
        1 => serde_json::from_str(doc).map_err(|e| e.to_string()),
        _ => toml::from_str(doc).map_err(|e| e.to_string()),
    }
}

fn run(case: &Val) -> Val {
    let c = case.l();
    let kind = c[0].n();
    let form = c[1].n();
    let fmt = c[3].n();
    let scalar = match form {
        0 => format!("{}", c[2].to_z_wide()),
        1 => c[2].str(),
        2 => {
            let s = text_of(&c[2]);
            match fmt { 0 => quote_yaml(&s), 1 => quote_json(&s), _ => quote_toml(&s) }
        }
        3 => {
            assert!(fmt == 0, "plain scalars are YAML only");
            text_of(&c[2])
        }
        _ => {
            assert!(fmt == 0, "alternative integer spellings are YAML only");
            c[2].l()[1].str()
        }
    };
    let key = match kind {
        0 => "limit",
        1 => "interval",
        _ => "refresh_rate",
    };
    let doc = match fmt {
        0 => format!("{}: {}\n", key, scalar),
        1 => format!("{{\"{}\": {}}}", key, scalar),
        _ => format!("{} = {}\n", key, scalar),
    };
    if kind == 2 {
        fn dur(d: Option<std::time::Duration>) -> Val {
            match d {
                Some(d) => Val::L(vec![Val::N(1), Val::N(d.as_secs() as u128), Val::N(d.subsec_nanos() as u128)]),
                None => Val::L(vec![Val::N(0)]),
            }
        }
        assert!(form == 2 || form == 3, "refresh_rate: string forms only");
        let r: Result<log4rs::config::RawConfig, String> = if fmt == 0 {
            serde_yaml::from_str(&doc).map_err(|e| e.to_string())
        } else {
            serde_json::from_str(&doc).map_err(|e| e.to_string())
        };
        let got = match r {
            Ok(cfg) => match cfg.refresh_rate() {
                Some(d) => dur(Some(d)),
                None => Val::L(vec![Val::N(9)]), // accepted but absent: never expected
            },
            Err(_) => dur(None),
        };
        let direct = dur(humantime::parse_duration(&text_of(&c[2])).ok());
        return Val::L(vec![got, direct]);
    }
    // Every other size / interval case takes the route of a component DECLARED in a configuration document: the
    // literal sits in the generic value tree that `Deserializers::deserialize("size" | "time", tree)` hands to the
    // trigger's deserializer.  Same literal, same meaning (nothing else in that route may touch it).
    static TURN: std::sync::atomic::AtomicUsize = std::sync::atomic::AtomicUsize::new(0);
    let declared = TURN.fetch_add(1, std::sync::atomic::Ordering::SeqCst) % 2 == 1;
    if declared && (kind == 0 || kind == 1) {
        use log4rs::append::rolling_file::policy::compound::trigger::Trigger;
        let name = if kind == 0 { "size" } else { "time" };
        let d2 = doc.clone();
        let built = std::panic::catch_unwind(move || {
            let tree = parse_doc(fmt, &d2);
            match tree {
                Ok(t) => log4rs::config::Deserializers::default()
                    .deserialize::<dyn Trigger>(name, t)
                    .map(|t| format!("{:?}", t))
                    .map_err(|e| e.to_string()),
                Err(e) => Err(e),
            }
        });
        match built {
            Ok(Err(_)) => return Val::L(vec![Val::N(0)]),
            Ok(Ok(dbg)) if kind == 0 => {
                let digits: String =
                    dbg.split("limit:").nth(1).expect("limit in Debug").chars().take_while(|ch| *ch != '}' && *ch != ',').filter(|ch| ch.is_ascii_digit()).collect();
                return Val::L(vec![Val::N(1), Val::N(digits.parse::<u128>().expect("limit digits"))]);
            }
            Ok(Ok(dbg)) => {
                // "... interval: Hour(3), ..."
                if let Some(rest) = dbg.split("interval:").nth(1) {
                    let rest = rest.trim_start();
                    let unit = ["Second", "Minute", "Hour", "Day", "Week", "Month", "Year"].iter().position(|u| rest.starts_with(u));
                    let num: String = rest.chars().skip_while(|ch| *ch != '(').skip(1).take_while(|ch| *ch != ')').collect();
                    if let (Some(u), Ok(n)) = (unit, num.parse::<i128>()) {
                        let nv = if n < 0 { Val::z(n) } else { Val::N(n as u128) };
                        return Val::L(vec![Val::N(1), Val::N(u as u128), nv]);
                    }
                }
                // Debug shape not understood: fall through to the direct route
            }
            Err(_) => {} // TimeTrigger::new panics on degenerate intervals (C16's findings): direct route
        }
    }
    if kind == 0 {
        let r: Result<SizeTriggerConfig, String> = parse_doc(fmt, &doc);
        match r {
            Ok(cfg) => {
                // "SizeTriggerConfig { limit: 123 }"
                let d = format!("{:?}", cfg);
                let digits: String = d
                    .split("limit:")
                    .nth(1)
                    .expect("limit field in Debug")
                    .chars()
                    .filter(|ch| ch.is_ascii_digit())
                    .collect();
                Val::L(vec![Val::N(1), Val::N(digits.parse::<u128>().expect("limit digits"))])
            }
            Err(_) => Val::L(vec![Val::N(0)]),
        }
    } else {
        let r: Result<TimeTriggerConfig, String> = parse_doc(fmt, &doc);
        match r {
            Ok(cfg) => {
                let (iv, modulate, delay) = cfg.verif_parts();
                assert!(!modulate && delay == 0, "defaults of the other fields");
                let (u, n) = match iv {
                    TimeTriggerInterval::Second(n) => (0, n),
                    TimeTriggerInterval::Minute(n) => (1, n),
                    TimeTriggerInterval::Hour(n) => (2, n),
                    TimeTriggerInterval::Day(n) => (3, n),
                    TimeTriggerInterval::Week(n) => (4, n),
                    TimeTriggerInterval::Month(n) => (5, n),
                    TimeTriggerInterval::Year(n) => (6, n),
                };
                let nv = if n < 0 { Val::z(n as i128) } else { Val::N(n as u128) };
                Val::L(vec![Val::N(1), Val::N(u), nv])
            }
            Err(_) => Val::L(vec![Val::N(0)]),
        }
    }
}

trait WideZ {
    fn to_z_wide(&self) -> String;
}
impl WideZ for Val {
    /// decimal text of a (sign magnitude) integer whose magnitude may need all of u128
    fn to_z_wide(&self) -> String {
        let l = self.l();
        if l[0].n() != 0 && l[1].n() != 0 {
            format!("-{}", l[1].n())
        } else {
            format!("{}", l[1].n())
        }
    }
}

fn main() {
    // variables that size / interval literals might (wrongly) be expanded with
    std::env::set_var("C20_UNIT", "kb");
    std::env::set_var("C20_NUM", "10");
    std::env::set_var("C20_EMPTY", "");
    std::env::set_var("C20_SECS", "seconds");
    vh::main_loop(run);
}
