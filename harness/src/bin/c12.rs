//! C12 — JSON encoder: one record, one line, fields round-trip.
//! case: ( level pieces module file line target thread mdc )
//!   level 1..5; pieces: ( str ... ) 1..3 strings the message's Display writes one after
//!   another; module/file/thread: () absent | ( str ); line: () | ( n ); mdc: ( (k v) ... )
//! The record is encoded by the real `JsonEncoder::encode` on a fresh thread (named or
//! unnamed as the case says, MDC installed with log_mdc::insert) into a Vec.
//! optional 9th element: history ( n ... ) -- before the observed encode, the SAME thread encodes a
//!   marker record (message "STALE<i>") once per entry into a writer that accepts n bytes in total
//!   and then fails every write (n = 0: the first write fails).  The encoder is stateless per the
//!   property (one record, one line per encode call), so the observed output must not depend on it.
//! result: ( output_bytes thread_id ( mdc keys in log_mdc iteration order ) ) | (err 1)
use log4rs::encode::json::JsonEncoder;
use log4rs::encode::Encode;
use std::io;
use vh::util::*;
use vh::val::Val;

/// collects what it is given; `1` > 0: takes at most that many bytes per write call (a short count, as a
/// pipe, a socket or a bounded buffer returns it)
#[derive(Debug)]
struct VecWriter(Vec<u8>, usize);

impl io::Write for VecWriter {
    fn write(&mut self, buf: &[u8]) -> io::Result<usize> {
        let n = if self.1 > 0 { buf.len().min(self.1) } else { buf.len() };
        self.0.extend_from_slice(&buf[..n]);
        Ok(n)
    }
    fn flush(&mut self) -> io::Result<()> {
        Ok(())
    }
}

/// a sink that RENDERS styles (as the console writer on a colour terminal does): every style request shows in
/// the bytes, so an encoder that asks for one is seen
impl log4rs::encode::Write for VecWriter {
    fn set_style(&mut self, _style: &log4rs::encode::Style) -> io::Result<()> {
        self.0.extend_from_slice(b"\x1b[STYLE]");
        Ok(())
    }
}

/// accepts `budget` bytes in total (short writes at the boundary), then fails
#[derive(Debug)]
struct FailWriter {
    budget: usize,
}

impl io::Write for FailWriter {
    fn write(&mut self, buf: &[u8]) -> io::Result<usize> {
        if self.budget == 0 {
            return Err(io::Error::new(io::ErrorKind::Other, "disk full"));
        }
        let n = buf.len().min(self.budget);
        self.budget -= n;
        Ok(n)
    }
    fn flush(&mut self) -> io::Result<()> {
        Ok(())
    }
}

impl log4rs::encode::Write for FailWriter {}

/// refuses exactly its `refuse`-th write call (WouldBlock, or Interrupted - which `io::Write` users retry),
/// accepts everything else
struct TransientWriter {
    out: Vec<u8>,
    calls: usize,
    refuse: usize,
    interrupted: bool,
}

impl io::Write for TransientWriter {
    fn write(&mut self, buf: &[u8]) -> io::Result<usize> {
        self.calls += 1;
        if self.calls == self.refuse {
            let kind = if self.interrupted { io::ErrorKind::Interrupted } else { io::ErrorKind::WouldBlock };
            return Err(io::Error::new(kind, "try again"));
        }
        self.out.extend_from_slice(buf);
        Ok(buf.len())
    }
    fn flush(&mut self) -> io::Result<()> {
        Ok(())
    }
}

impl log4rs::encode::Write for TransientWriter {}

/// the line with the value of its "time" member blanked (two encodes differ in nothing else)
fn mask_time(line: &[u8]) -> Vec<u8> {
    let key = b"\"time\":\"";
    if let Some(p) = line.windows(key.len()).position(|w| w == key) {
        let start = p + key.len();
        if let Some(q) = line[start..].iter().position(|b| *b == b'"') {
            let mut v = line[..start].to_vec();
            v.extend_from_slice(&line[start + q..]);
            return v;
        }
    }
    line.to_vec()
}

fn opt_str(v: &Val) -> Option<String> {
    v.l().first().map(|x| x.str())
}

fn work(case: Val) -> Val {
    let c = case.l();
    let lvl = level(c[0].n());
    let pieces: Vec<String> = c[1].l().iter().map(|p| p.str()).collect();
    let module = opt_str(&c[2]);
    let file = opt_str(&c[3]);
    let line = c[4].l().first().map(|x| x.n() as u32);
    let target = c[5].str();
    // optional 10th element 1: the MDC entries are inserted BY THE MESSAGE, while it is being formatted (a Display impl
    // that tags the request it belongs to); the thread's MDC is empty when encode is entered.  The line's "mdc" member
    // is written after the message, so it holds them.
    let late = c.len() > 9 && c[9].n() == 1;
    let kvs: Vec<(String, String)> = c[7].l().iter().map(|kv| (kv.l()[0].str(), kv.l()[1].str())).collect();
    if !late {
        for (k, v) in &kvs {
            log_mdc::insert(k.clone(), v.clone());
        }
    }
    struct Late<'a> {
        text: &'a str,
        kvs: &'a [(String, String)],
        on: bool,
    }
    impl std::fmt::Display for Late<'_> {
        fn fmt(&self, f: &mut std::fmt::Formatter) -> std::fmt::Result {
            if self.on {
                for (k, v) in self.kvs {
                    log_mdc::insert(k.clone(), v.clone());
                }
            }
            f.write_str(self.text)
        }
    }
    let mut order = vec![];
    if !late {
        log_mdc::iter(|k, _| order.push(Val::S(k.as_bytes().to_vec())));
    }
    let tid = thread_id::get();
    // What a case does not say and must not matter (changes with every case of the process): the encoder is
    // JsonEncoder::new() or the one a configuration document's `kind: json` yields (JsonEncoderDeserializer);
    // the sink takes everything it is offered, or at most 1 / 5 / 64 bytes per write call.
    static TURN: std::sync::atomic::AtomicUsize = std::sync::atomic::AtomicUsize::new(0);
    let turn = TURN.fetch_add(1, std::sync::atomic::Ordering::SeqCst);
    // ... and the sink is empty, or already holds what earlier records left there (a whole line, or a torn
    // one): the encoder only ever appends, so that content must come out untouched in front of the record.
    let earlier: &[u8] = [&b""[..], b"{\"earlier\":\"line\"}\n", b"", b"{\"torn\":\"li", b"\n\n"][turn % 5];
    let mut w = VecWriter(earlier.to_vec(), [0, 1, 0, 5, 0, 64, 1, 0, 5, 0, 64, 0][turn % 12]);
    let enc: Box<dyn Encode> = if turn % 2 == 1 {
        let cfg = serde_json::from_value(serde_json::json!({})).expect("empty encoder configuration");
        log4rs::config::Deserializers::default().deserialize("json", cfg).expect("kind json")
    } else {
        Box::new(JsonEncoder::new())
    };
    if let Some(hist) = c.get(8) {
        for (i, n) in hist.l().iter().enumerate() {
            let mut fw = FailWriter { budget: n.u() };
            let _ = enc.encode(
                &mut fw,
                &log::Record::builder()
                    .level(log::Level::Error)
                    .target("stale-target")
                    .args(format_args!("STALE{}", i))
                    .build(),
            );
        }
    }
    let mut b = log::Record::builder();
    b.level(lvl)
        .target(&target)
        .module_path(module.as_deref())
        .file(file.as_deref())
        .line(line);
    let first = Late { text: &pieces[0], kvs: &kvs, on: late };
    let r = match pieces.len() {
        1 => enc.encode(&mut w, &b.args(format_args!("{}", first)).build()),
        2 => enc.encode(&mut w, &b.args(format_args!("{}{}", first, pieces[1])).build()),
        3 => enc.encode(
            &mut w,
            &b.args(format_args!("{}{}{}", first, pieces[1], pieces[2])).build(),
        ),
        n => panic!("unsupported number of message pieces {}", n),
    };
    if late {
        // the iteration order of the map the message filled (read after the encode: the map is this thread's)
        log_mdc::iter(|k, _| order.push(Val::S(k.as_bytes().to_vec())));
    }
    if w.0.starts_with(earlier) {
        w.0.drain(..earlier.len());
    }
    // A sink that refuses ONE write call: when encode nevertheless returns Ok, what it wrote must still be
    // the one complete line (records with MDC entries and a short message only: ~100 write calls).
    let mut broken = 0u128;
    if r.is_ok() && !c[7].l().is_empty() && pieces.len() == 1 && w.0.len() < 700 {
        let clean = mask_time(&w.0);
        let mut j = 1;
        loop {
            // every other position is an EINTR: `write_all` restarts the call, so the encode must succeed with
            // the complete line (an interrupted system call is not an error of the sink)
            let interrupted = (j + turn) % 2 == 0;
            let mut tw = TransientWriter { out: Vec::new(), calls: 0, refuse: j, interrupted };
            let mut b2 = log::Record::builder();
            b2.level(lvl)
                .target(&target)
                .module_path(module.as_deref())
                .file(file.as_deref())
                .line(line);
            let r2 = enc.encode(&mut tw, &b2.args(format_args!("{}", pieces[0])).build());
            if tw.calls < j {
                break; // the record needs fewer write calls than j: every call has been refused once
            }
            if interrupted && r2.is_err() {
                broken += 1;
            }
            if r2.is_ok() && mask_time(&tw.out) != clean {
                broken += 1;
            }
            j += 1;
            if j > 400 {
                break;
            }
        }
    }
    match r {
        Ok(()) if broken == 0 => Val::L(vec![Val::S(w.0), Val::N(tid as u128), Val::L(order)]),
        Ok(()) => Val::L(vec![Val::S(w.0), Val::N(tid as u128), Val::L(order), Val::N(broken)]),
        Err(_) => Val::err(1),
    }
}

fn run(case: &Val) -> Val {
    let thread_name = opt_str(&case.l()[6]);
    let case = case.clone();
    let h = match thread_name {
        Some(n) => std::thread::Builder::new().name(n).spawn(move || work(case)).expect("spawn"),
        None => std::thread::spawn(move || work(case)),
    };
    match h.join() {
        Ok(v) => v,
        Err(_) => Val::panic(),
    }
}

fn main() {
    vh::main_loop(run);
}
