//! C16 — time trigger: schedule computation, fire pattern, pre-process order.
//! The process must be started with TZ set to the case's zone name (chrono's
//! `Local` caches the zone per process).
//! case: ( tz init_off ( (T off flag) ... ) kind payload )      [table used by the model only]
//!  kind 0: payload = ( now_s:Z now_ns unit n modulate )
//!          result  = (0 t:Z) | "panic"            t = UTC seconds of get_next_time(now)
//!  kind 1: payload = ( unit n modulate max_delay (s0:Z ns0) ( (s:Z ns) ... ) )
//!          result  = (2) if TimeTrigger::new panics, else
//!                    ( sched0:Z ( (status fired sched_after:Z (archived idx ...)) ... ) )
//!          status 0 = append returned, 1 = append panicked (then the other fields are 0)
//!  unit: 0 second 1 minute 2 hour 3 day 4 week 5 month 6 year
use chrono::{Local, TimeZone};
use log4rs::append::rolling_file::policy::compound::roll::Roll;
use log4rs::append::rolling_file::policy::compound::trigger::time::{
    TimeTrigger, TimeTriggerConfig, TimeTriggerInterval,
};
use log4rs::append::rolling_file::policy::compound::trigger::Trigger;
use log4rs::append::rolling_file::policy::compound::CompoundPolicy;
use log4rs::append::rolling_file::{LogFile, RollingFileAppender};
use log4rs::append::Append;
use log4rs::encode::pattern::PatternEncoder;
use std::sync::{Arc, Mutex};
use vh::val::Val;

const UNITS: [&str; 7] = ["seconds", "minutes", "hours", "days", "weeks", "months", "years"];

fn interval(unit: u128, n: i64) -> TimeTriggerInterval {
    match unit {
        0 => TimeTriggerInterval::Second(n),
        1 => TimeTriggerInterval::Minute(n),
        2 => TimeTriggerInterval::Hour(n),
        3 => TimeTriggerInterval::Day(n),
        4 => TimeTriggerInterval::Week(n),
        5 => TimeTriggerInterval::Month(n),
        6 => TimeTriggerInterval::Year(n),
        _ => panic!("bad unit"),
    }
}

#[derive(Debug)]
struct SpyTrigger {
    inner: TimeTrigger,
    log: Arc<Mutex<Vec<(bool, i64)>>>,
}

impl Trigger for SpyTrigger {
    fn trigger(&self, file: &LogFile) -> anyhow::Result<bool> {
        let r = self.inner.trigger(file)?;
        let s = self.inner.verif_scheduled();
        assert_eq!(s.timestamp_subsec_nanos(), 0, "scheduled instant has sub-second part");
        self.log.lock().unwrap().push((r, s.timestamp()));
        Ok(r)
    }
    fn is_pre_process(&self) -> bool {
        self.inner.is_pre_process()
    }
}

#[derive(Debug)]
struct SpyRoller {
    seen: Arc<Mutex<Vec<Vec<u8>>>>,
}

impl Roll for SpyRoller {
    fn roll(&self, file: &std::path::Path) -> anyhow::Result<()> {
        let data = std::fs::read(file)?;
        self.seen.lock().unwrap().push(data);
        std::fs::remove_file(file)?;
        Ok(())
    }
}

fn run(case: &Val) -> Val {
    let c = case.l();
    let tz = c[0].str();
    if std::env::var("TZ").ok().as_deref() != Some(tz.as_str()) {
        return Val::err(9);
    }
    let p = c[4].l();
    match c[3].n() {
        0 => {
            let now = Local
                .timestamp_opt(p[0].to_z() as i64, p[1].n() as u32)
                .single()
                .expect("now");
            let iv = interval(p[2].n(), p[3].n() as i64);
            let t = TimeTrigger::verif_get_next_time(now, iv, p[4].b());
            assert_eq!(t.timestamp_subsec_nanos(), 0, "result has sub-second part");
            Val::L(vec![Val::N(0), Val::z(t.timestamp() as i128)])
        }
        _ => {
            let yaml = format!(
                "interval: {} {}\nmodulate: {}\nmax_random_delay: {}\n",
                p[1].n(),
                UNITS[p[0].u()],
                p[2].b(),
                p[3].n()
            );
            let cfg: TimeTriggerConfig = serde_yaml::from_str(&yaml).expect("config");
            let (iv, m, d) = cfg.verif_parts();
            assert_eq!((iv, m, d), (interval(p[0].n(), p[1].n() as i64), p[2].b(), p[3].n() as u64));
            let s0 = p[4].l();
            log4rs::verif_hooks::set_clock(Some((s0[0].to_z() as i64, s0[1].n() as u32)));
            let trig = match std::panic::catch_unwind(|| TimeTrigger::new(cfg)) {
                Ok(t) => t,
                Err(_) => return Val::L(vec![Val::N(2)]),
            };
            let sched0 = trig.verif_scheduled().timestamp();
            let tlog = Arc::new(Mutex::new(Vec::new()));
            let seen = Arc::new(Mutex::new(Vec::new()));
            let dir = tempfile::tempdir().expect("tempdir");
            let policy = CompoundPolicy::new(
                Box::new(SpyTrigger { inner: trig, log: tlog.clone() }),
                Box::new(SpyRoller { seen: seen.clone() }),
            );
            let app = RollingFileAppender::builder()
                .encoder(Box::new(PatternEncoder::new("{m}{n}")))
                .build(dir.path().join("active.log"), Box::new(policy))
                .expect("appender");
            // What a case does not say and must not matter (changes with every case of the process):
            //  - a TWIN is alive: a second appender with a trigger built from an equal configuration at the same
            //    moment, given every record right after the first one (same clock): each trigger has a schedule of
            //    its own, so the twin fires exactly when the first one does (only without a random delay);
            //  - every other record is appended from a SECOND THREAD (one worker, alive for the whole case).
            static TURN: std::sync::atomic::AtomicUsize = std::sync::atomic::AtomicUsize::new(0);
            let turn = TURN.fetch_add(1, std::sync::atomic::Ordering::SeqCst);
            let with_twin = turn % 2 == 1 && p[3].n() == 0;
            let two_threads = turn % 4 >= 2;
            let tlog2 = Arc::new(Mutex::new(Vec::new()));
            let dir2 = tempfile::tempdir().expect("tempdir");
            let twin = if with_twin {
                log4rs::verif_hooks::set_clock(Some((s0[0].to_z() as i64, s0[1].n() as u32)));
                let cfg2: TimeTriggerConfig = serde_yaml::from_str(&yaml).expect("config");
                std::panic::catch_unwind(|| TimeTrigger::new(cfg2)).ok().map(|t| {
                    let policy = CompoundPolicy::new(
                        Box::new(SpyTrigger { inner: t, log: tlog2.clone() }),
                        Box::new(SpyRoller { seen: Arc::new(Mutex::new(Vec::new())) }),
                    );
                    RollingFileAppender::builder()
                        .encoder(Box::new(PatternEncoder::new("{m}{n}")))
                        .build(dir2.path().join("active.log"), Box::new(policy))
                        .expect("twin appender")
                })
            } else {
                None
            };
            let append_i = |a: &RollingFileAppender, i: usize| {
                std::panic::catch_unwind(std::panic::AssertUnwindSafe(|| {
                    a.append(&log::Record::builder().level(log::Level::Info).args(format_args!("{}", i)).build())
                }))
            };
            let (tx, rx) = std::sync::mpsc::channel::<usize>();
            let (rtx, rrx) = std::sync::mpsc::channel();
            let mut steps = vec![];
            std::thread::scope(|sc| {
            let app_ref = &app;
            let append_ref = &append_i;
            sc.spawn(move || {
                for i in rx {
                    let _ = rtx.send(append_ref(app_ref, i));
                }
            });
            for (i, a) in p[5].l().iter().enumerate() {
                let a = a.l();
                log4rs::verif_hooks::set_clock(Some((a[0].to_z() as i64, a[1].n() as u32)));
                tlog.lock().unwrap().clear();
                seen.lock().unwrap().clear();
                let r = if two_threads && i % 2 == 1 {
                    tx.send(i).expect("worker");
                    rrx.recv().expect("worker result")
                } else {
                    append_i(&app, i)
                };
                if let (Some(tw), Ok(Ok(()))) = (&twin, &r) {
                    tlog2.lock().unwrap().clear();
                    let r2 = append_i(tw, i);
                    let same = matches!(r2, Ok(Ok(()))) && *tlog2.lock().unwrap() == *tlog.lock().unwrap();
                    if !same {
                        steps.push(Val::L(vec![Val::N(9), Val::text("a twin trigger (equal configuration, built at the same moment, same records) decided differently")]));
                    }
                }
                match r {
                    Ok(Ok(())) => {
                        let tl = tlog.lock().unwrap();
                        assert_eq!(tl.len(), 1, "trigger consulted once per record");
                        let (fired, sched) = tl[0];
                        let sn = seen.lock().unwrap();
                        assert_eq!(sn.len(), fired as usize, "roller called iff fired");
                        let archived: Vec<Val> = sn
                            .iter()
                            .flat_map(|d| {
                                String::from_utf8_lossy(d)
                                    .lines()
                                    .map(|l| Val::N(l.parse::<u128>().expect("idx")))
                                    .collect::<Vec<_>>()
                            })
                            .collect();
                        steps.push(Val::L(vec![
                            Val::N(0),
                            Val::bool(fired),
                            Val::z(sched as i128),
                            Val::L(archived),
                        ]));
                    }
                    Ok(Err(_)) => steps.push(Val::L(vec![Val::N(3)])),
                    Err(_) => steps.push(Val::L(vec![Val::N(1), Val::N(0), Val::z(0), Val::L(vec![])])),
                }
            }
            drop(tx);
            });
            drop(twin);
            log4rs::verif_hooks::set_clock(None);
            // what is left in the active file after the last record
            let rest: Vec<Val> = std::fs::read_to_string(dir.path().join("active.log"))
                .unwrap_or_default()
                .lines()
                .map(|l| Val::N(l.parse::<u128>().expect("idx")))
                .collect();
            Val::L(vec![Val::z(sched0 as i128), Val::L(steps), Val::L(rest)])
        }
    }
}

fn main() {
    vh::main_loop(run);
}
