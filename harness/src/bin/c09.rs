//! C09 / C11 — PatternEncoder::new + Encode::encode on the real crate.
//! All strings are lists of code points.  Options are () or (v).
//! case:   ( mode pattern rec mdc thread treqs )   |   ( 3 chars ) -> cls of those chars only
//!   mode   1 = construct and encode, 2 = construct only (absurd widths), 5 = switch the process's TZ, then as 1,
//!          4 = as 1 but in a forked child, after the parent has encoded the pid formatters,
//!          8 = as 1, but encoded from a thread-local destructor while the thread exits (after one encode on the live thread),
//!          7 = as 1 into a sink that takes 300 bytes and then fails for good: res = ( "err" ( event* ) ) on Err
//!   rec    ( level msg target module? file? line? )
//!   mdc    ( (key value)* )
//!   thread () unnamed thread | (name)
//!   treqs  ( fmt* )  date formats whose rendering the model needs as an oracle
//! result: ( cls rt times res )
//!   cls    ( (cp is_alphabetic is_alphanumeric)* ) for the non-ASCII chars of the pattern
//!   rt     ( pid thread_id debug_assertions )
//!   times  ( (validity utc_before utc_after local_before local_after)* ) per treq
//!   res    "panic" | "ok" (mode 2) | ( event* ), event = (cp*) text written | N set_style code
use std::io;
use vh::val::Val;
use log4rs::encode::{Color, Encode, Style};
use log4rs::encode::pattern::PatternEncoder;

fn cps(v: &Val) -> String {
    v.l().iter().map(|c| char::from_u32(c.n() as u32).expect("scalar")).collect()
}
fn opt_cps(v: &Val) -> Option<String> {
    v.l().first().map(cps)
}
fn to_cps(s: &str) -> Val {
    Val::L(s.chars().map(|c| Val::N(c as u128)).collect())
}

struct Cap {
    ev: Vec<Val>,
    cur: Vec<u8>,
    /// > 0: every `intr`-th write call fails with ErrorKind::Interrupted (nothing accepted; the
    /// caller's write_all retries) - a signal arriving during the write must not show in the output
    intr: usize,
    calls: usize,
    /// > 0: the sink takes this many bytes in total (the last accepted write is a short one), then every write
    /// fails for good (mode 7: a full disk under a pattern that asks for more output than any sink holds)
    budget: usize,
    taken: usize,
}
impl Cap {
    fn flush_text(&mut self) {
        if !self.cur.is_empty() {
            let bytes = std::mem::take(&mut self.cur);
            match String::from_utf8(bytes) {
                Ok(s) => self.ev.push(to_cps(&s)),
                Err(e) => self.ev.push(Val::S(e.into_bytes())), // invalid UTF-8: never equals a model text
            }
        }
    }
}
impl io::Write for Cap {
    fn write(&mut self, buf: &[u8]) -> io::Result<usize> {
        self.calls += 1;
        if self.intr > 0 && self.calls % self.intr == 0 {
            return Err(io::Error::new(io::ErrorKind::Interrupted, "EINTR"));
        }
        if self.budget > 0 {
            if self.taken >= self.budget {
                return Err(io::Error::new(io::ErrorKind::Other, "no space left on device"));
            }
            let n = buf.len().min(self.budget - self.taken);
            self.taken += n;
            self.cur.extend_from_slice(&buf[..n]);
            return Ok(n);
        }
        self.cur.extend_from_slice(buf);
        Ok(buf.len())
    }
    fn flush(&mut self) -> io::Result<()> {
        Ok(())
    }
}
fn color(c: &Option<Color>) -> u128 {
    match c {
        None => 0,
        Some(Color::Black) => 1,
        Some(Color::Red) => 2,
        Some(Color::Green) => 3,
        Some(Color::Yellow) => 4,
        Some(Color::Blue) => 5,
        Some(Color::Magenta) => 6,
        Some(Color::Cyan) => 7,
        Some(Color::White) => 8,
    }
}
impl log4rs::encode::Write for Cap {
    fn set_style(&mut self, style: &Style) -> io::Result<()> {
        self.flush_text();
        let i = match style.intense {
            None => 0,
            Some(false) => 1,
            Some(true) => 2,
        };
        self.ev.push(Val::N(color(&style.text) + 16 * color(&style.background) + 256 * i));
        Ok(())
    }
}

fn strftime_valid(fmt: &str) -> bool {
    !chrono::format::StrftimeItems::new(fmt).any(|i| i == chrono::format::Item::Error)
}

fn cls_of(chars: impl Iterator<Item = char>) -> Val {
    let mut cls = vec![];
    let mut seen = std::collections::BTreeSet::new();
    for ch in chars {
        if (ch as u32) >= 128 && seen.insert(ch) {
            cls.push(Val::L(vec![
                Val::N(ch as u128),
                Val::bool(ch.is_alphabetic()),
                Val::bool(ch.is_alphanumeric()),
            ]));
        }
    }
    Val::L(cls)
}

/// the text events with every ASCII digit replaced by '0' (and the style
/// codes): equal shapes of two consecutive encodings mean the clock-dependent
/// parts had the same widths and the same non-digit skeleton (chrono's %+ prints
/// 0/3/6/9 fractional digits depending on the nanoseconds)
fn shape(v: &Val) -> Vec<Val> {
    match v {
        Val::L(evs) => evs
            .iter()
            .map(|e| match e {
                Val::L(cs) => Val::L(
                    cs.iter()
                        .map(|c| match c {
                            Val::N(n) if (48..=57).contains(n) => Val::N(48),
                            other => other.clone(),
                        })
                        .collect(),
                ),
                other => other.clone(),
            })
            .collect(),
        _ => vec![],
    }
}

/// mode 6: the message argument's Display impl itself encodes a record (with run-time
/// arguments) through a `{m}` pattern on the same thread before it writes its own text -
/// what happens when a value logs, or is rendered through a log4rs encoder, while it is
/// being formatted.  Both encodings must be unaffected by each other.
struct Reentrant<'a> {
    text: &'a str,
    on: bool,
}

impl std::fmt::Display for Reentrant<'_> {
    fn fmt(&self, f: &mut std::fmt::Formatter) -> std::fmt::Result {
        if !self.on {
            return f.write_str(self.text);
        }
        let ok = std::panic::catch_unwind(|| {
            let enc = PatternEncoder::new("<{m}|{m:>9}|{m:.4}>");
            let mut cap = Cap { ev: vec![], cur: vec![], intr: 0, calls: 0, budget: 0, taken: 0 };
            let n = 41;
            let r = enc.encode(
                &mut cap,
                &log::Record::builder().level(log::Level::Info).args(format_args!("in{}er", n + 1)).build(),
            );
            cap.flush_text();
            let mut text = String::new();
            for e in &cap.ev {
                if let Val::L(cs) = e {
                    for c in cs {
                        text.push(char::from_u32(c.n() as u32).unwrap_or('?'));
                    }
                }
            }
            if r.is_ok() && text == "<in42er|   in42er|in42>" {
                None
            } else {
                Some(format!("{:?}/{}", r.is_ok(), text))
            }
        });
        match ok {
            Ok(None) => {}
            Ok(Some(t)) => {
                f.write_str("<<NESTED-ENCODE-WRONG:")?;
                f.write_str(&t)?;
                f.write_str(">>")?;
            }
            Err(_) => f.write_str("<<NESTED-ENCODE-PANICKED>>")?,
        }
        f.write_str(self.text)
    }
}

static PREBUILT: std::sync::Mutex<Option<PatternEncoder>> = std::sync::Mutex::new(None);
static POISON: std::sync::atomic::AtomicBool = std::sync::atomic::AtomicBool::new(false);

/// the process's time zone changes (TZ is re-read by chrono's Local on every call); the zone stays
/// switched for the following cases of this process
fn switch_tz() {
    static NEXT: std::sync::atomic::AtomicUsize = std::sync::atomic::AtomicUsize::new(0);
    const ZONES: [&str; 5] = ["JST-9", "EST5", "Asia/Kolkata", "UTC0", "America/St_Johns"];
    let k = NEXT.fetch_add(1, std::sync::atomic::Ordering::SeqCst);
    if k % 3 == 2 {
        // a zone whose daylight-saving time ends within the coming hour: the local wall-clock time
        // of "now" is in the REPEATED hour (ambiguous), the situation of one night every autumn
        use chrono::{Datelike, Timelike};
        let u = chrono::Utc::now();
        let day = u.ordinal(); // 1..366
        let leap = u.date_naive().leap_year();
        let jday = if leap && day > 59 { day - 1 } else { day }; // POSIX Jn never counts Feb 29
        let end_hour = u.hour() + 2; // in DST wall-clock time (UTC+1): now is u+1h, the end is 0..1 h ahead
        if end_hour < 24 && !(leap && day == 60) && jday >= 2 {
            std::env::set_var("TZ", format!("XST0XDT-1,J1/0,J{}/{}", jday, end_hour));
            return;
        }
    }
    std::env::set_var("TZ", ZONES[k % ZONES.len()]);
}

/// a message that writes some text and then fails (std turns that into a panic of the formatting call)
struct Failing;
impl std::fmt::Display for Failing {
    fn fmt(&self, f: &mut std::fmt::Formatter) -> std::fmt::Result {
        f.write_str("STALE-TEXT-OF-A-FAILED-RECORD")?;
        Err(std::fmt::Error)
    }
}

fn body(case: &Val) -> Val {
    let c = case.l();
    let mode = c[0].n();
    if mode == 3 {
        // character-class oracle only
        return cls_of(cps(&c[1]).chars());
    }
    let pattern = cps(&c[1]);
    let rec = c[2].l();
    let lvl = vh::util::level(rec[0].n());
    let msg = cps(&rec[1]);
    let target = cps(&rec[2]);
    let module = opt_cps(&rec[3]);
    let file = opt_cps(&rec[4]);
    let line = rec[5].l().first().map(|v| v.n() as u32);
    let in_dtor = IN_TLS_DTOR.load(std::sync::atomic::Ordering::SeqCst);
    if !in_dtor {
        for kv in c[3].l() {
            let kv = kv.l();
            log_mdc::insert(cps(&kv[0]), cps(&kv[1]));
        }
    }
    let treqs: Vec<String> = c[5].l().iter().map(cps).collect();

    let cls = cls_of(pattern.chars());
    let rt = Val::L(vec![
        Val::N(std::process::id() as u128),
        Val::N(thread_id::get() as u128),
        Val::bool(cfg!(debug_assertions)),
    ]);
    // validity 0: StrftimeItems yields Item::Error; 1: renders; 2: valid but Display fails
    let render = |f: &str| -> (u128, String, String) {
        use std::fmt::Write as _;
        if strftime_valid(f) {
            let (mut u, mut l) = (String::new(), String::new());
            let ru = write!(u, "{}", chrono::Utc::now().format(f));
            let rl = write!(l, "{}", chrono::Local::now().format(f));
            if ru.is_ok() && rl.is_ok() {
                (1, u, l)
            } else {
                (2, String::new(), String::new())
            }
        } else {
            (0, String::new(), String::new())
        }
    };
    // every other case of a process writes into a sink whose 2nd, 4th, ... write call is interrupted
    static CASE_NO: std::sync::atomic::AtomicUsize = std::sync::atomic::AtomicUsize::new(0);
    let intr = if CASE_NO.fetch_add(1, std::sync::atomic::Ordering::SeqCst) % 2 == 1 { 2 } else { 0 };
    // mode 5: the encoder is BUILT, then the process's time zone changes, then the encoder is USED (an
    // encoder lives as long as its appender: across every DST switch of the process's life)
    // (built by `run` on ANOTHER thread, before the zone changed: chrono caches the zone per thread for a second,
    // so the thread that encodes must not be the one that looked at the clock under the old zone)
    let prebuilt: Option<PatternEncoder> = PREBUILT.lock().unwrap().take();
    // mode 9: on this thread a record whose message fails half-way inside aligned / truncated fields was
    // encoded (and the failure survived) before the observed record
    if POISON.swap(false, std::sync::atomic::Ordering::SeqCst) {
        for pat in ["[{m:>40}]", "{({l} {m}):>30.35}|{m:<20}|{m:.50}", "{h({m:>25})}"] {
            let _ = std::panic::catch_unwind(|| {
                let enc = PatternEncoder::new(pat);
                let mut cap = Cap { ev: vec![], cur: vec![], intr: 0, calls: 0, budget: 0, taken: 0 };
                let _ = enc.encode(
                    &mut cap,
                    &log::Record::builder().level(log::Level::Warn).args(format_args!("x{}y", Failing)).build(),
                );
            });
        }
    }
    let attempt = || -> Val {
        let res = std::panic::catch_unwind(std::panic::AssertUnwindSafe(|| {
            let built;
            let enc: &PatternEncoder = match &prebuilt {
                Some(e) => e,
                None => {
                    built = PatternEncoder::new(&pattern);
                    &built
                }
            };
            if mode == 2 {
                return Val::text("ok");
            }
            let mut cap = Cap { ev: vec![], cur: vec![], intr, calls: 0, budget: if mode == 7 { 300 } else { 0 }, taken: 0 };
            let mut go = |args: std::fmt::Arguments| {
                enc.encode(
                    &mut cap,
                    &log::Record::builder()
                        .level(lvl)
                        .target(&target)
                        .module_path(module.as_deref())
                        .file(file.as_deref())
                        .line(line)
                        .args(args)
                        .build(),
                )
            };
            // A message that is one of these texts is handed over as `format_args!("<the text>")` - a template
            // without arguments, for which Arguments::as_str() is Some (what `info!("a fixed text")` produces) -
            // every other one through `{}` (as_str() is None): the message is the same text either way.
            macro_rules! literal_or_display {
                ($($lit:literal),*) => {
                    match msg.as_str() {
                        $($lit if mode != 6 => go(format_args!($lit)),)*
                        _ => go(format_args!("{}", Reentrant { text: &msg, on: mode == 6 })),
                    }
                };
            }
            let r = literal_or_display!("hello", "", "héllo wörld", "é", " ", "line1\nline2", "xxxxxxxxxxxxxxxxxxxx", "中文", "0");
            cap.flush_text();
            match r {
                Ok(()) => Val::L(cap.ev),
                Err(_) if mode == 7 => Val::L(vec![Val::text("err"), Val::L(cap.ev)]),
                Err(_) => Val::err(1),
            }
        }));
        match res {
            Ok(v) => v,
            Err(_) => Val::panic(),
        }
    };
    // The clock cannot be injected: render the requested formats before and
    // after the encode call.  When a rendering changed in between (sub-second
    // or second directives) its width may also vary (chrono's %+ prints 0/3/6/9
    // fractional digits): retry until before/after have equal widths and two
    // consecutive encodings have the same shape.
    let mut tries = 0;
    let (before, res, after) = loop {
        tries += 1;
        let before: Vec<_> = treqs.iter().map(|f| render(f)).collect();
        let res = attempt();
        let after: Vec<_> = treqs.iter().map(|f| render(f)).collect();
        let unstable = before.iter().zip(after.iter()).any(|(b, a)| b != a);
        let same_width = before.iter().zip(after.iter()).all(|(b, a)| {
            b.1.chars().count() == a.1.chars().count() && b.2.chars().count() == a.2.chars().count()
        });
        let ok = if !unstable {
            true
        } else if !same_width {
            false
        } else {
            let again = attempt();
            shape(&again) == shape(&res)
        };
        if ok || tries >= 6 {
            break (before, res, after);
        }
    };
    if !in_dtor {
        log_mdc::clear();
    }
    let times = before
        .iter()
        .zip(after.iter())
        .map(|(b, a)| {
            Val::L(vec![Val::N(b.0), to_cps(&b.1), to_cps(&a.1), to_cps(&b.2), to_cps(&a.2)])
        })
        .collect();
    Val::L(vec![cls, rt, Val::L(times), res])
}

/// mode 4: the program shape "encode, fork, encode in the child".  The parent
/// first encodes a record with the pid / thread-id formatters (so that anything
/// the crate caches per process is initialised), then forks; the child runs
/// the case as mode 1 (reporting ITS pid / thread id as oracle values), sends
/// the result line over a pipe and _exits.
fn forked(case: &Val) -> Val {
    {
        let warm = PatternEncoder::new("{P} {pid} {I} {thread_id} {i} {tid} {T} {d(%Y)}");
        let mut cap = Cap { ev: vec![], cur: vec![], intr: 0, calls: 0, budget: 0, taken: 0 };
        let _ = warm.encode(
            &mut cap,
            &log::Record::builder().level(log::Level::Info).args(format_args!("warm")).build(),
        );
    }
    let mut items = case.l().to_vec();
    items[0] = Val::N(1);
    let child_case = Val::L(items);
    // the case's encoder is BUILT IN THE PARENT (as an encoder of a logger set up before the fork is) and used in
    // the child: process-related values are those of the process that encodes
    {
        let pattern = cps(&case.l()[1]);
        *PREBUILT.lock().unwrap() = std::panic::catch_unwind(|| PatternEncoder::new(&pattern)).ok();
    }
    let mut fds = [0i32; 2];
    if unsafe { libc::pipe(fds.as_mut_ptr()) } != 0 {
        panic!("pipe");
    }
    let pid = unsafe { libc::fork() };
    if pid < 0 {
        panic!("fork");
    }
    if pid == 0 {
        unsafe { libc::close(fds[0]) };
        let res = run(&child_case);
        let mut out = String::new();
        vh::val::print(&res, &mut out);
        let bytes = out.as_bytes();
        let mut off = 0;
        while off < bytes.len() {
            let n = unsafe {
                libc::write(fds[1], bytes[off..].as_ptr() as *const libc::c_void, bytes.len() - off)
            };
            if n <= 0 {
                break;
            }
            off += n as usize;
        }
        unsafe { libc::_exit(0) };
    }
    unsafe { libc::close(fds[1]) };
    PREBUILT.lock().unwrap().take();
    let mut got = Vec::new();
    let mut buf = [0u8; 4096];
    loop {
        let n = unsafe { libc::read(fds[0], buf.as_mut_ptr() as *mut libc::c_void, buf.len()) };
        if n <= 0 {
            break;
        }
        got.extend_from_slice(&buf[..n as usize]);
    }
    unsafe { libc::close(fds[0]) };
    let mut status = 0i32;
    unsafe { libc::waitpid(pid, &mut status, 0) };
    match String::from_utf8(got) {
        Ok(line) if !line.trim().is_empty() => vh::val::parse(line.trim()),
        _ => Val::text("childdied"),
    }
}

/// set while `body` runs inside a thread-local destructor (mode 8): log_mdc's own thread-local is gone there
static IN_TLS_DTOR: std::sync::atomic::AtomicBool = std::sync::atomic::AtomicBool::new(false);

/// mode 8: the record is encoded while its thread EXITS - from the destructor of a thread-local value of the
/// application - after the same pattern was encoded once on the live thread.  Even turns: the application's
/// thread-local was registered before the thread's first encode (so whatever the crate keeps per thread is
/// destroyed before it), odd turns: after.  Result as mode 1 (that of the encode in the destructor).
fn at_thread_exit(case: &Val) -> Val {
    use std::cell::RefCell;
    use std::sync::mpsc;
    struct Probe {
        case: Val,
        tx: mpsc::Sender<Val>,
    }
    impl Drop for Probe {
        fn drop(&mut self) {
            IN_TLS_DTOR.store(true, std::sync::atomic::Ordering::SeqCst);
            let v = match std::panic::catch_unwind(std::panic::AssertUnwindSafe(|| body(&self.case))) {
                Ok(v) => v,
                Err(_) => Val::panic(),
            };
            IN_TLS_DTOR.store(false, std::sync::atomic::Ordering::SeqCst);
            let _ = self.tx.send(v);
        }
    }
    thread_local!(static PROBE: RefCell<Option<Probe>> = RefCell::new(None));
    static TURN: std::sync::atomic::AtomicUsize = std::sync::atomic::AtomicUsize::new(0);
    let early = TURN.fetch_add(1, std::sync::atomic::Ordering::SeqCst) % 2 == 0;
    let mut items = case.l().to_vec();
    items[0] = Val::N(1);
    let case1 = Val::L(items);
    let (tx, rx) = mpsc::channel();
    let mut b = std::thread::Builder::new();
    if let Some(n) = opt_cps(&case.l()[4]) {
        b = b.name(n);
    }
    let h = b
        .spawn(move || {
            let probe = Probe { case: case1.clone(), tx };
            if early {
                PROBE.with(|p| *p.borrow_mut() = Some(probe));
                let _ = std::panic::catch_unwind(std::panic::AssertUnwindSafe(|| body(&case1)));
            } else {
                let _ = std::panic::catch_unwind(std::panic::AssertUnwindSafe(|| body(&case1)));
                PROBE.with(|p| *p.borrow_mut() = Some(probe));
            }
        })
        .expect("spawn");
    let _ = h.join();
    match rx.recv_timeout(std::time::Duration::from_secs(10)) {
        Ok(v) => v,
        Err(_) => Val::text("no-result-from-the-destructor"),
    }
}

fn run(case: &Val) -> Val {
    if case.l()[0].n() == 3 {
        return body(case);
    }
    if case.l()[0].n() == 8 {
        return at_thread_exit(case);
    }
    if case.l()[0].n() == 4 {
        return forked(case);
    }
    let thread = opt_cps(&case.l()[4]);
    let mut case = case.clone();
    if case.l()[0].n() == 5 {
        // mode 5: the process's time zone changes AFTER the encoder was built (see `body`); the case is
        // handed on as mode 1 with the flag below
        let pattern = cps(&case.l()[1]);
        let built = std::thread::spawn(move || std::panic::catch_unwind(|| PatternEncoder::new(&pattern)).ok())
            .join()
            .ok()
            .flatten();
        *PREBUILT.lock().unwrap() = built;
        switch_tz();
        let mut items = case.l().to_vec();
        items[0] = Val::N(1);
        case = Val::L(items);
    }
    if case.l()[0].n() == 9 {
        POISON.store(true, std::sync::atomic::Ordering::SeqCst);
        let mut items = case.l().to_vec();
        items[0] = Val::N(1);
        case = Val::L(items);
    }
    let mut b = std::thread::Builder::new();
    if let Some(n) = thread {
        b = b.name(n);
    }
    match b.spawn(move || body(&case)).expect("spawn").join() {
        Ok(v) => v,
        Err(_) => Val::panic(),
    }
}

pub fn main() {
    vh::main_loop(run);
}
