//! C07 — fixed-window roller / delete roller on a real directory.
//! case: ( kind b c gz pattern ( (envname envvalue) ... ) file ( (path bytes) ... ) ( op ... ) )
//!   kind 0 FixedWindowRoller(base b, count c, pattern) | 1 DeleteRoller
//!   op (0) roll the file as it is | (1 bytes) write the file, then roll
//! result: ( (status listing) ... ) per op; status 0 Ok / 1 Err; listing = every regular
//! file below the case's directory (relative paths); gzip content is reported as
//! 0x1f 0x8b ++ decompressed bytes.  All paths of a case are relative to a fresh temp
//! directory that is the process's cwd while the case runs.
#[path = "../c07_fsutil.rs"]
mod fsutil;
use fsutil::*;
use log4rs::append::rolling_file::policy::compound::roll::delete::DeleteRoller;
use log4rs::append::rolling_file::policy::compound::roll::fixed_window::FixedWindowRoller;
use log4rs::append::rolling_file::policy::compound::roll::Roll;
use std::path::Path;
use vh::val::Val;

struct Scope {
    env: Vec<String>,
    other_mount: Option<std::path::PathBuf>,
}
impl Drop for Scope {
    fn drop(&mut self) {
        for k in &self.env {
            std::env::remove_var(k);
        }
        let _ = std::env::set_current_dir("/");
        if let Some(d) = self.other_mount.take() {
            let _ = std::fs::remove_dir_all(d);
        }
    }
}

/// Paths below `xm/` live on ANOTHER mount when one is available (a fresh directory under
/// /dev/shm, reached through the symlink `xm`), so that renames between `xm/..` and the rest
/// of the case directory fail with EXDEV and exercise move_file's copy+delete fallback.
/// Without a second mount `xm` is an ordinary directory (same observable behaviour).
fn make_xm(root: &Path) -> Option<std::path::PathBuf> {
    use std::os::unix::fs::MetadataExt;
    let here = std::fs::metadata(root).ok()?.dev();
    if let Ok(m) = std::fs::metadata("/dev/shm") {
        if m.dev() != here {
            if let Ok(d) = tempfile::Builder::new().prefix("vh-c07-").tempdir_in("/dev/shm") {
                let d = d.into_path();
                if std::os::unix::fs::symlink(&d, root.join("xm")).is_ok() {
                    return Some(d);
                }
                let _ = std::fs::remove_dir_all(&d);
            }
        }
    }
    let _ = std::fs::create_dir_all(root.join("xm"));
    None
}

/// kind 9: ( 9 rounds threads gz ) — `threads` rollers with pairwise DISJOINT archive names that share one
/// not-yet-existing archive directory tree do their first roll at the same moment (barrier); per round
/// a fresh directory.  Result ( failed_rolls misplaced ): rolls that returned Err, and rollers whose
/// file did not end up (whole) at its base archive name.  Both must be 0: rollers do not share names.
fn run_concurrent(c: &[Val]) -> Val {
    let rounds = c[1].u();
    let nthreads = c[2].u();
    let gz = c[3].b();
    let ext = if gz { "gz" } else { "log" };
    let mut failed = 0u128;
    let mut misplaced = 0u128;
    for round in 0..rounds {
        let tmp = tempfile::tempdir().expect("tempdir");
        let root = tmp.path().to_path_buf();
        // odd rounds: only the LAST directory level is missing (its parent exists); even rounds: three levels
        let shared = if round % 2 == 1 {
            root.join("arch")
        } else {
            root.join("arch").join(format!("y{}", round)).join("deep")
        };
        let barrier = std::sync::Barrier::new(nthreads);
        let results: Vec<(bool, bool)> = std::thread::scope(|sc| {
            let hs: Vec<_> = (0..nthreads)
                .map(|t| {
                    let (root, shared, barrier) = (&root, &shared, &barrier);
                    sc.spawn(move || {
                        let file = root.join(format!("f{}.log", t));
                        let body = format!("thread {} round {}\n", t, round).into_bytes();
                        std::fs::write(&file, &body).expect("write log");
                        let pattern = format!("{}/r{}.{{}}.{}", shared.display(), t, ext);
                        let roller = FixedWindowRoller::builder().build(&pattern, 2).expect("roller");
                        barrier.wait();
                        let ok = roller.roll(&file).is_ok();
                        let dst = shared.join(format!("r{}.0.{}", t, ext));
                        let placed = match std::fs::read(&dst) {
                            Ok(b) if !gz => b == body,
                            Ok(b) => {
                                use std::io::Read;
                                let mut out = Vec::new();
                                flate2::read::GzDecoder::new(&b[..]).read_to_end(&mut out).is_ok() && out == body
                            }
                            Err(_) => false,
                        };
                        (ok, placed && !file.exists())
                    })
                })
                .collect();
            hs.into_iter().map(|h| h.join().unwrap_or((false, false))).collect()
        });
        for (ok, placed) in results {
            if !ok {
                failed += 1;
            }
            if !placed {
                misplaced += 1;
            }
        }
    }
    Val::L(vec![Val::N(failed), Val::N(misplaced)])
}

/// kind 8 (harness built with the crate's `background_rotation` feature only): a roller and a CLONE of it, both kept,
/// roll the same log file in turn without waiting for each other's background rotation; the first rotation is slow
/// (its first step takes 300 ms).  Rotations of one roller - however many clones of it are in use - happen one
/// after the other: result ( overlap final_listing ), overlap = 1 when a rotation began its steps while the
/// previous one had not issued its last step; final_listing = the directory when everything has settled, which
/// must be the synchronous model's directory after the same ops.
fn run_bg_clone(c: &[Val]) -> Val {
    use std::sync::atomic::{AtomicBool, AtomicUsize, Ordering};
    use std::sync::Arc;
    if !cfg!(feature = "background_rotation") {
        return Val::err(8);
    }
    let base = c[1].n();
    let count = c[2].n();
    let pattern = c[4].str();
    let file = c[6].str();
    let tmp = tempfile::tempdir().expect("tempdir");
    let root = tmp.path().to_path_buf();
    std::env::set_current_dir(&root).expect("chdir");
    let mut scope = Scope { env: vec![], other_mount: None };
    for kv in c[5].l() {
        let kv = kv.l();
        std::env::set_var(kv[0].str(), kv[1].str());
        scope.env.push(kv[0].str());
    }
    for pc in c[7].l() {
        let pc = pc.l();
        write_file(&pc[0].str(), pc[1].s());
    }
    let r = match FixedWindowRoller::builder()
        .base(u32::try_from(base).expect("base is a u32"))
        .build(&pattern, u32::try_from(count).expect("count is a u32"))
    {
        Ok(r) => r,
        Err(_) => return Val::err(1),
    };
    let cl = r.clone();
    let overlap = Arc::new(AtomicBool::new(false));
    let calls = Arc::new(AtomicUsize::new(0));
    let last_call = Arc::new(std::sync::Mutex::new(std::time::Instant::now()));
    {
        let (overlap, calls, last_call) = (overlap.clone(), calls.clone(), last_call.clone());
        let mut in_flight = false;
        let steps = count as usize;
        log4rs::verif_hooks::set_rotate_step(Some(Box::new(move |k, _src, _dst| {
            if k == 0 {
                if in_flight {
                    overlap.store(true, Ordering::SeqCst);
                }
                in_flight = true;
            }
            if k + 1 == steps {
                in_flight = false;
            }
            if calls.fetch_add(1, Ordering::SeqCst) == 0 {
                std::thread::sleep(std::time::Duration::from_millis(300));
            }
            *last_call.lock().unwrap() = std::time::Instant::now();
            Ok(())
        })));
    }
    struct Unhook;
    impl Drop for Unhook {
        fn drop(&mut self) {
            log4rs::verif_hooks::set_rotate_step(None);
        }
    }
    let _unhook = Unhook;
    let mut rolls = 0usize;
    let mut failed = 0u128;
    for (i, op) in c[8].l().iter().enumerate() {
        let op = op.l();
        if op[0].n() != 1 {
            continue;
        }
        write_file(&file, op[1].s());
        let res = if i % 2 == 0 { r.roll(Path::new(&file)) } else { cl.roll(Path::new(&file)) };
        if res.is_err() {
            failed += 1;
        } else {
            rolls += 1;
        }
    }
    // settled: every rotation has made its `count` hook calls and the last of them is 150 ms old
    let t0 = std::time::Instant::now();
    while t0.elapsed() < std::time::Duration::from_secs(10) {
        let done = calls.load(Ordering::SeqCst) >= rolls * count as usize;
        if done && last_call.lock().unwrap().elapsed() > std::time::Duration::from_millis(150) {
            break;
        }
        std::thread::sleep(std::time::Duration::from_millis(5));
    }
    let l = listing(&root);
    drop(scope);
    Val::L(vec![Val::N(overlap.load(Ordering::SeqCst) as u128), Val::N(failed), listing_val(&l)])
}

fn run(case: &Val) -> Val {
    let c = case.l();
    let kind = c[0].n();
    if kind == 9 {
        return run_concurrent(c);
    }
    if kind == 8 {
        return run_bg_clone(c);
    }
    let base = c[1].n();
    let count = c[2].n();
    let pattern = c[4].str();
    let file = c[6].str();
    let tmp = tempfile::tempdir().expect("tempdir");
    let root = tmp.path().to_path_buf();
    std::env::set_current_dir(&root).expect("chdir");
    let mut scope = Scope { env: vec![], other_mount: None };
    if pattern.starts_with("xm/") || file.starts_with("xm/") {
        scope.other_mount = make_xm(&root);
    }
    for kv in c[5].l() {
        let kv = kv.l();
        std::env::set_var(kv[0].str(), kv[1].str());
        scope.env.push(kv[0].str());
    }
    for pc in c[7].l() {
        let pc = pc.l();
        write_file(&pc[0].str(), pc[1].s());
    }
    // Two things a case does not say and that must not matter (they change with every case of a process):
    //  - the roller in use is the one returned by build(), or a CLONE of it (original dropped, or kept alive);
    //  - the log file's name is the case's, or that name with the byte 0xE9 appended - a name that is not valid
    //    UTF-8, as a Latin-1 file name on a Unix system is (the listing maps it back to the case's name).
    static TURN: std::sync::atomic::AtomicUsize = std::sync::atomic::AtomicUsize::new(0);
    let turn = TURN.fetch_add(1, std::sync::atomic::Ordering::SeqCst);
    let mut _original: Option<FixedWindowRoller> = None;
    // every fifth case a SIBLING is alive: another roller with the same pattern and base and a larger count, never
    // rolled (as after a configuration reload that changed `count`): a roller's window is its own
    let _sibling: Option<FixedWindowRoller> = if kind == 0 && turn % 5 == 4 {
        FixedWindowRoller::builder()
            .base(u32::try_from(base).expect("base is a u32"))
            .build(&pattern, u32::try_from(count).expect("count is a u32").saturating_add(3))
            .ok()
    } else {
        None
    };
    // every seventh case the roller is DECLARED: `kind: fixed_window` with pattern / count / base in a configuration
    // document, built by the deserializer registered for that kind (same pattern text, same numbers)
    let declared = kind == 0 && turn % 7 == 5;
    let roller: Box<dyn Roll> = if declared {
        let doc = format!(
            "{{\"pattern\": {}, \"count\": {}, \"base\": {}}}",
            serde_json::to_string(&pattern).expect("json string"),
            count,
            base
        );
        let tree = if turn % 2 == 0 { serde_yaml::from_str(&doc).expect("document") } else { serde_json::from_str(&doc).expect("document") };
        match log4rs::config::Deserializers::default().deserialize::<dyn Roll>("fixed_window", tree) {
            Ok(r) => r,
            Err(_) => return Val::err(1),
        }
    } else if kind == 0 {
        match FixedWindowRoller::builder()
            .base(u32::try_from(base).expect("base is a u32"))
            .build(&pattern, u32::try_from(count).expect("count is a u32"))
        {
            Ok(r) => match turn % 4 {
                1 => Box::new(r.clone()),
                3 => {
                    let cl = r.clone();
                    _original = Some(r);
                    Box::new(cl)
                }
                _ => Box::new(r),
            },
            Err(_) => return Val::err(1),
        }
    } else {
        Box::new(DeleteRoller::new())
    };
    let odd_name = turn % 3 == 2;
    let actual: std::path::PathBuf = if odd_name {
        use std::os::unix::ffi::OsStringExt;
        let mut b = file.clone().into_bytes();
        b.push(0xe9);
        std::ffi::OsString::from_vec(b).into()
    } else {
        std::path::PathBuf::from(&file)
    };
    let lossy = actual.to_string_lossy().into_owned();
    if odd_name && Path::new(&file).is_file() {
        std::fs::rename(&file, &actual).expect("pre-populated log file under its odd name");
    }
    let mut out = vec![];
    for op in c[8].l() {
        let op = op.l();
        if op[0].n() == 2 {
            // the process changes an environment variable between two rolls of the same roller
            std::env::set_var(op[1].str(), op[2].str());
            if !scope.env.contains(&op[1].str()) {
                scope.env.push(op[1].str());
            }
            continue;
        }
        if op[0].n() == 4 {
            // the process changes its working directory (a daemon does after setting up logging): the relative
            // pattern of the roller and the relative log path mean files below the NEW directory from now on
            let d = root.join(op[1].str());
            std::fs::create_dir_all(&d).expect("mkdir");
            std::env::set_current_dir(&d).expect("chdir");
            continue;
        }
        if op[0].n() == 3 {
            // somebody else removes a directory with everything below it (a cleanup job, an unmount)
            let _ = std::fs::remove_dir_all(op[1].str());
            continue;
        }
        if op[0].n() != 0 {
            if odd_name {
                if let Some(parent) = actual.parent() {
                    if !parent.as_os_str().is_empty() {
                        std::fs::create_dir_all(parent).expect("mkdir");
                    }
                }
                std::fs::write(&actual, op[1].s()).expect("write log file");
            } else {
                write_file(&file, op[1].s());
            }
        }
        let r = silenced(|| roller.roll(&actual));
        let mut l = listing(&root);
        if odd_name {
            for e in l.iter_mut() {
                if e.0 == lossy {
                    e.0 = file.clone();
                }
            }
            l.sort();
        }
        out.push(Val::L(vec![Val::N(r.is_err() as u128), listing_val(&l)]));
    }
    drop(scope);
    Val::L(out)
}

fn main() {
    vh::main_loop(run);
}
