//! C13 — ConfigBuilder::build / build_lossy.
//! case: ( (appender-name ...) root_level (root-ref ...) ( (name level (ref ...) additive) ... ) )
//! result: ( lossy_config lossy_errors strict install_ok )
//!   config = ( ((name idx) ...) root_level (ref ...) ((name level (ref ...) additive) ...) )
//!   errors = ( (kind name) ... )  kind: 0 dup appender, 1 nonexistent appender, 2 dup logger, 3 invalid logger
//!   strict = () on Err | ( config ) on Ok
//!   install_ok = 1 when Logger::new + a log/enabled sweep over the lossy (and strict) config did not panic
use log::Log;
use log4rs::config::runtime::ConfigError;
use log4rs::config::{Appender, Config, Logger, Root};
use vh::util::*;
use vh::val::Val;

fn builder(case: &Val, rec: &Rec) -> (log4rs::config::runtime::ConfigBuilder, Root) {
    let c = case.l();
    let apps = c[0]
        .l()
        .iter()
        .enumerate()
        .map(|(i, a)| Appender::builder().build(a.str(), Box::new(RecAppender { idx: i, fails: false, rec: rec.clone() })))
        .collect();
    let loggers = c[3]
        .l()
        .iter()
        .map(|l| {
            let l = l.l();
            (l[0].str(), level_filter(l[1].n()), l[3].b(), l[2].l().iter().map(|r| r.str()).collect())
        })
        .collect();
    assemble(apps, loggers, level_filter(c[1].n()), c[2].l().iter().map(|r| r.str()).collect())
}

fn enc_config(cfg: &Config) -> Val {
    let apps = cfg
        .appenders()
        .iter()
        .map(|a| {
            // RecAppender's Debug output carries its index
            let dbg = format!("{:?}", a.appender());
            let idx: u128 = dbg
                .split("idx: ")
                .nth(1)
                .and_then(|s| s.split(',').next())
                .and_then(|s| s.trim().parse().ok())
                .unwrap_or(9999);
            Val::L(vec![Val::text(a.name()), Val::N(idx)])
        })
        .collect();
    let refs = |v: &[String]| Val::L(v.iter().map(|s| Val::text(s)).collect());
    let loggers = cfg
        .loggers()
        .iter()
        .map(|l| {
            Val::L(vec![
                Val::text(l.name()),
                Val::N(level_filter_n(l.level())),
                refs(l.appenders()),
                Val::bool(l.additive()),
            ])
        })
        .collect();
    Val::L(vec![
        Val::L(apps),
        Val::N(level_filter_n(cfg.root().level())),
        refs(cfg.root().appenders()),
        Val::L(loggers),
    ])
}

fn enc_errors(errs: &[ConfigError]) -> Val {
    Val::L(
        errs.iter()
            .map(|e| {
                let (k, n) = match e {
                    ConfigError::DuplicateAppenderName(n) => (0, n.clone()),
                    ConfigError::NonexistentAppender(n) => (1, n.clone()),
                    ConfigError::DuplicateLoggerName(n) => (2, n.clone()),
                    ConfigError::InvalidLoggerName(n) => (3, n.clone()),
                    _ => (9, String::new()),
                };
                Val::L(vec![Val::N(k), Val::text(&n)])
            })
            .collect(),
    )
}

/// Install the config in a (non-global) Logger and log through it.
fn install_sweep(cfg: Config, targets: &[String]) -> bool {
    std::panic::catch_unwind(std::panic::AssertUnwindSafe(|| {
        let logger = log4rs::Logger::new(cfg);
        for t in targets {
            for l in 1..=5u128 {
                let md = log::Metadata::builder().level(level(l)).target(t).build();
                let _ = logger.enabled(&md);
                logger.log(
                    &log::Record::builder()
                        .level(level(l))
                        .target(t)
                        .args(format_args!("m"))
                        .build(),
                );
            }
        }
        let _ = logger.max_log_level();
    }))
    .is_ok()
}

/// A build that was INTERRUPTED earlier on this thread must not matter: a configuration with the case's own names in
/// which one appender name is declared twice and the discarded duplicate panics when it is dropped - the panic
/// unwinds out of the builder and is caught by the caller (run before every case).
fn interrupted_build(case: &Val) {
    #[derive(Debug)]
    struct PanicsOnDrop;
    impl log4rs::append::Append for PanicsOnDrop {
        fn append(&self, _r: &log::Record) -> anyhow::Result<()> {
            Ok(())
        }
        fn flush(&self) {}
    }
    impl Drop for PanicsOnDrop {
        fn drop(&mut self) {
            if !std::thread::panicking() {
                panic!("an appender that panics when dropped");
            }
        }
    }
    let c = case.l();
    let mut names: Vec<String> = c[0].l().iter().map(|a| a.str()).collect();
    names.extend(c[3].l().iter().map(|l| l.l()[0].str()));
    names.push("spare".to_string());
    let first = names[0].clone();
    let _ = std::panic::catch_unwind(std::panic::AssertUnwindSafe(|| {
        let mut b = Config::builder();
        for n in &names {
            b = b.appender(Appender::builder().build(n.clone(), Box::new(RecAppender { idx: 0, fails: false, rec: new_rec() })));
            b = b.logger(Logger::builder().build(n.clone(), log::LevelFilter::Info));
        }
        b = b.appender(Appender::builder().build(first.clone(), Box::new(PanicsOnDrop)));
        let _ = b.build_lossy(Root::builder().build(log::LevelFilter::Info));
    }));
}

fn run(case: &Val) -> Val {
    interrupted_build(case);
    let rec = new_rec();
    let mut targets: Vec<String> = case.l()[3].l().iter().map(|l| l.l()[0].str()).collect();
    targets.push(String::new());
    targets.push("zz::top".to_string());
    let extra: Vec<String> = targets.iter().map(|t| format!("{}::x", t)).collect();
    targets.extend(extra);

    let (b, root) = builder(case, &rec);
    let (cfg, errs) = b.build_lossy(root);
    let lossy = enc_config(&cfg);
    let errors = enc_errors(errs.errors());
    let mut ok = install_sweep(cfg, &targets);

    let (b, root) = builder(case, &rec);
    let strict = match b.build(root) {
        Ok(cfg) => {
            let v = enc_config(&cfg);
            ok = install_sweep(cfg, &targets) && ok;
            Val::L(vec![v])
        }
        Err(_) => Val::L(vec![]),
    };
    Val::L(vec![lossy, errors, strict, Val::bool(ok)])
}

fn main() {
    vh::main_loop(run);
}
