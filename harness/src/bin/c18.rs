//! C18 — console output obeys tty_only and colour policy; ANSI sequences well-formed.
//! line mode (stdin):  case (0 text background intense) -> bytes written by one
//!   AnsiWriter::set_style call on a Vec<u8> (text/background 0 = None, 1..8 = Black..White;
//!   intense 0 = None, 1 = false, 2 = true); a panic is reported by main_loop.
//! line mode:  case (2 pattern level message) -> bytes PatternEncoder::encode writes into an
//!   AnsiWriter over a Vec<u8> (colour always on); the pattern text is rendered from the case's
//!   chunk tree by gen/c18.py.
//! child mode:  c18 child <target 0|1> <tty_only 0|1> <pattern hex> <level 1..5> <message hex>
//!   builds a real ConsoleAppender (PatternEncoder) in THIS process -- whose environment and
//!   stdout/stderr (pty or pipe) were arranged by the parent (gen/c18.py) -- appends one
//!   record and then terminates with libc::_exit (0, or 3 if append returned Err) -- i.e.
//!   WITHOUT running std's at-exit flush of stdout: the observable is what has reached the two
//!   streams when append returns (bytes left in a user-space buffer are lost, as under a kill).
use log4rs::append::console::{ConsoleAppender, Target};
use log4rs::append::Append;
use log4rs::encode::pattern::PatternEncoder;
use log4rs::encode::writer::ansi::AnsiWriter;
use log4rs::encode::{Color, Style, Write as EncodeWrite};
use vh::util::*;
use vh::val::Val;

fn color(n: u128) -> Option<Color> {
    match n {
        0 => None,
        1 => Some(Color::Black),
        2 => Some(Color::Red),
        3 => Some(Color::Green),
        4 => Some(Color::Yellow),
        5 => Some(Color::Blue),
        6 => Some(Color::Magenta),
        7 => Some(Color::Cyan),
        8 => Some(Color::White),
        _ => panic!("bad colour {}", n),
    }
}

fn run(case: &Val) -> Val {
    let c = case.l();
    if c[0].n() == 2 {
        let enc = PatternEncoder::new(&c[1].str());
        let msg = c[3].str();
        let mut w = AnsiWriter(Vec::<u8>::new());
        let r = log4rs::encode::Encode::encode(
            &enc,
            &mut w,
            &log::Record::builder().level(level(c[2].n())).target("tgt").args(format_args!("{}", msg)).build(),
        );
        return match r {
            Ok(()) => Val::S(w.0),
            Err(_) => Val::err(1),
        };
    }
    if c[0].n() != 0 {
        return Val::err(9); // process-level cases are run as child processes by gen/c18.py
    }
    let mut st = Style::new();
    if let Some(t) = color(c[1].n()) {
        st.text(t);
    }
    if let Some(b) = color(c[2].n()) {
        st.background(b);
    }
    match c[3].n() {
        0 => {}
        1 => {
            st.intense(false);
        }
        _ => {
            st.intense(true);
        }
    }
    let mut w = AnsiWriter(Vec::<u8>::new());
    match w.set_style(&st) {
        Ok(()) => Val::S(w.0),
        Err(_) => Val::err(1),
    }
}

fn unhex(s: &str) -> Vec<u8> {
    (0..s.len() / 2).map(|i| u8::from_str_radix(&s[2 * i..2 * i + 2], 16).expect("hex")).collect()
}

/// `c18 child 2|3 ...`: TWO console appenders in one process, one per stream, built in the
/// order stdout, stderr (2) or stderr, stdout (3); the record is appended through both in
/// that order.  Each stream must carry what a process with only that appender writes.
fn child_both(args: &[String]) -> i32 {
    let order = if args[0] == "2" { [Target::Stdout, Target::Stderr] } else { [Target::Stderr, Target::Stdout] };
    let tty_only = args[1] != "0";
    let pattern = String::from_utf8(unhex(&args[2])).expect("utf8 pattern");
    let lvl = level(args[3].parse::<u128>().expect("level"));
    let msg = String::from_utf8(unhex(&args[4])).expect("utf8 message");
    let apps: Vec<ConsoleAppender> = order
        .into_iter()
        .map(|t| {
            ConsoleAppender::builder()
                .target(t)
                .tty_only(tty_only)
                .encoder(Box::new(PatternEncoder::new(&pattern)))
                .build()
        })
        .collect();
    let mut code = 0;
    for app in &apps {
        if app
            .append(&log::Record::builder().level(lvl).target("tgt").args(format_args!("{}", msg)).build())
            .is_err()
        {
            code = 3;
        }
    }
    unsafe { libc::_exit(code) }
}

fn child(args: &[String]) -> i32 {
    if args[0] == "2" || args[0] == "3" {
        return child_both(args);
    }
    if args[0] == "6" {
        // one process, the stdout stream RE-POINTED between two appenders: an appender on stdout is built and used,
        // then fd 1 is made a copy of fd 2 (dup2: the other kind of stream), then a NEW appender on stdout is built and
        // used.  Each appender behaves as one built in a process whose stdout has always been what it is now.
        let tty_only = args[1] != "0";
        let pattern = String::from_utf8(unhex(&args[2])).expect("utf8 pattern");
        let lvl = level(args[3].parse::<u128>().expect("level"));
        let msg = String::from_utf8(unhex(&args[4])).expect("utf8 message");
        let mut code = 0;
        for round in 0..2 {
            if round == 1 {
                assert!(unsafe { libc::dup2(2, 1) } >= 0, "dup2");
            }
            let app = ConsoleAppender::builder()
                .target(Target::Stdout)
                .tty_only(tty_only)
                .encoder(Box::new(PatternEncoder::new(&pattern)))
                .build();
            if app
                .append(&log::Record::builder().level(lvl).target("tgt").args(format_args!("{}", msg)).build())
                .is_err()
            {
                code = 3;
            }
        }
        unsafe { libc::_exit(code) }
    }
    if args[0] == "4" || args[0] == "5" {
        // the stream's ConsoleWriter used DIRECTLY as the encoder's writer (no lock()), or the plain stream when
        // there is none: byte for byte what an unrestricted console appender on that stream writes
        use log4rs::encode::writer::console::ConsoleWriter;
        use log4rs::encode::writer::simple::SimpleWriter;
        use log4rs::encode::Encode;
        use std::io::Write as _;
        let pattern = String::from_utf8(unhex(&args[2])).expect("utf8 pattern");
        let lvl = level(args[3].parse::<u128>().expect("level"));
        let msg = String::from_utf8(unhex(&args[4])).expect("utf8 message");
        let enc = PatternEncoder::new(&pattern);
        let cw = if args[0] == "4" { ConsoleWriter::stdout() } else { ConsoleWriter::stderr() };
        let mut w: Box<dyn log4rs::encode::Write> = match cw {
            Some(w) => Box::new(w),
            None if args[0] == "4" => Box::new(SimpleWriter(std::io::stdout())),
            None => Box::new(SimpleWriter(std::io::stderr())),
        };
        let r = enc
            .encode(&mut *w, &log::Record::builder().level(lvl).target("tgt").args(format_args!("{}", msg)).build())
            .and_then(|_| w.flush().map_err(Into::into));
        unsafe { libc::_exit(if r.is_ok() { 0 } else { 3 }) }
    }
    let target = if args[0] == "0" { Target::Stdout } else { Target::Stderr };
    let tty_only = args[1] != "0";
    let pattern = String::from_utf8(unhex(&args[2])).expect("utf8 pattern");
    let lvl = level(args[3].parse::<u128>().expect("level"));
    let msg = String::from_utf8(unhex(&args[4])).expect("utf8 message");
    let app = ConsoleAppender::builder()
        .target(target)
        .tty_only(tty_only)
        .encoder(Box::new(PatternEncoder::new(&pattern)))
        .build();
    let r = app.append(
        &log::Record::builder().level(lvl).target("tgt").args(format_args!("{}", msg)).build(),
    );
    let code = match r {
        Ok(()) => 0,
        Err(_) => 3,
    };
    // no at-exit flush: what append left in user space never reaches the stream
    unsafe { libc::_exit(code) }
}

fn main() {
    let args: Vec<String> = std::env::args().collect();
    if args.len() >= 2 && args[1] == "child" {
        std::process::exit(child(&args[2..]));
    }
    vh::main_loop(run);
}
