//! C08 — a failed or interrupted rotation loses no acknowledged data and is recoverable.
//! Drives the real RollingFileAppender through histories with injected rotation faults
//! (rotate_step hook), crash images taken at every hook call, and a real EISDIR obstacle;
//! case format, observable and driver: ../rolling_c08.rs.
#[path = "../rolling_c08.rs"]
mod rolling_c08;

fn main() {
    vh::main_loop(rolling_c08::run);
}
