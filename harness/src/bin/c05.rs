//! C05 — drives the real RollingFileAppender on a generated history; the case
//! format, the observable and the driver are documented in ../rolling_c05.rs
//! (shared by C05, C06 and C17, which differ in their generators and oracles).
#[path = "../rolling_c05.rs"]
mod rolling;

fn main() {
    rolling::main_loop_private();
}
