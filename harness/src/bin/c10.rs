//! C10 — width / fill / alignment of the pattern encoder on the real crate.
//! case: ( script pieces target items )
//!   script : ( n ... )  bytes the sink accepts at its i-th `write` call, cycled; 0 = all; () = all;
//!            99 = that call fails with ErrorKind::Interrupted (nothing written; write_all retries)
//!   pieces : ( xHEX ... ) the `&str` pieces the message's Display impl writes (one write_str each)
//!   target : xHEX
//!   items  : ( item ... )
//!   item   : (0 params) {m..} | (1 xHEX) literal text | (2 params) {t..} | (3 params) {l..}
//!          | (4 params items) {( items )..}
//!   params : ( mn mx align fill )  mn, mx: 0 = absent, k+1 = width k; align 0 absent, 1 '<', 2 '>';
//!            fill: xHEX of one char, empty = absent
//! result: the bytes that reached the sink | (err 2) when encode returned Err
use log4rs::encode::pattern::PatternEncoder;
use log4rs::encode::Encode;
use std::fmt;
use std::io;
use vh::val::Val;

/// A sink that accepts a scripted number of bytes per `write` call (short writes).
#[derive(Debug)]
struct ScriptSink {
    script: Vec<usize>,
    calls: usize,
    out: Vec<u8>,
}

impl io::Write for ScriptSink {
    fn write(&mut self, buf: &[u8]) -> io::Result<usize> {
        let wish = if self.script.is_empty() {
            0
        } else {
            self.script[self.calls % self.script.len()]
        };
        self.calls += 1;
        if wish == 99 {
            // a signal arrived: nothing was written, the caller (std's write_all) tries again
            return Err(io::Error::new(io::ErrorKind::Interrupted, "EINTR"));
        }
        let k = if wish == 0 { buf.len() } else { wish.min(buf.len()) };
        self.out.extend_from_slice(&buf[..k]);
        Ok(k)
    }
    fn flush(&mut self) -> io::Result<()> {
        Ok(())
    }
}

impl log4rs::encode::Write for ScriptSink {}

/// The record's message: writes the scripted pieces one `write_str` at a time.
struct Pieces<'a>(&'a [String]);

impl<'a> fmt::Display for Pieces<'a> {
    fn fmt(&self, f: &mut fmt::Formatter<'_>) -> fmt::Result {
        for p in self.0 {
            f.write_str(p)?;
        }
        Ok(())
    }
}

fn params_str(p: &Val, out: &mut String) {
    let p = p.l();
    let (mn, mx, al) = (p[0].n(), p[1].n(), p[2].n());
    let fill = p[3].str();
    if mn == 0 && mx == 0 && al == 0 && fill.is_empty() {
        return;
    }
    out.push(':');
    out.push_str(&fill);
    match al {
        1 => out.push('<'),
        2 => out.push('>'),
        _ => {}
    }
    if mn > 0 {
        out.push_str(&(mn - 1).to_string());
    }
    if mx > 0 {
        out.push('.');
        out.push_str(&(mx - 1).to_string());
    }
}

fn items_str(items: &[Val], out: &mut String) {
    for it in items {
        let it = it.l();
        match it[0].n() {
            0 => {
                out.push_str("{m");
                params_str(&it[1], out);
                out.push('}');
            }
            1 => out.push_str(&it[1].str()),
            2 => {
                out.push_str("{t");
                params_str(&it[1], out);
                out.push('}');
            }
            3 => {
                out.push_str("{l");
                params_str(&it[1], out);
                out.push('}');
            }
            4 => {
                out.push_str("{(");
                items_str(it[2].l(), out);
                out.push(')');
                params_str(&it[1], out);
                out.push('}');
            }
            k => panic!("bad item kind {}", k),
        }
    }
}

/// a message that writes some text and then fails (std turns that into a panic of the formatting call)
struct Failing;
impl std::fmt::Display for Failing {
    fn fmt(&self, f: &mut std::fmt::Formatter) -> std::fmt::Result {
        f.write_str("ab\u{20ac}STALE")?;
        Err(std::fmt::Error)
    }
}

fn run(case: &Val) -> Val {
    let c = case.l();
    if c[2].str() == "poison" {
        // target "poison": on this thread records whose message fails half-way inside right-aligned, left-aligned,
        // truncated and nested fields were encoded (the failure caught) before the observed one
        for pat in ["[{m:>40}]", "{({l} {m}):>30.35}|{m:<20}|{m:.50}", "{({m:>25}):>50}"] {
            let _ = std::panic::catch_unwind(|| {
                let enc = PatternEncoder::new(pat);
                let mut sink = ScriptSink { script: vec![], calls: 0, out: Vec::new() };
                let _ = enc.encode(
                    &mut sink,
                    &log::Record::builder().level(log::Level::Warn).args(format_args!("x{}y", Failing)).build(),
                );
            });
        }
    }
    let script: Vec<usize> = c[0].l().iter().map(|v| v.u()).collect();
    let pieces: Vec<String> = c[1].l().iter().map(|v| v.str()).collect();
    let target = c[2].str();
    let mut pattern = String::new();
    items_str(c[3].l(), &mut pattern);

    let encoder = PatternEncoder::new(&pattern);
    let mut sink = ScriptSink { script, calls: 0, out: Vec::new() };
    let msg = Pieces(&pieces);
    let res = encoder.encode(
        &mut sink,
        &log::Record::builder()
            .level(log::Level::Info)
            .target(&target)
            .args(format_args!("{}", msg))
            .build(),
    );
    match res {
        Ok(()) => Val::S(sink.out),
        Err(_) => Val::err(2),
    }
}

fn main() {
    vh::main_loop(run);
}
