//! C03 — filter chains, fan-out isolation, error handler calls.
//! case: ( node_level L ( (fails (filter ...)) ... ) ( attached ... ) )
//! filter: (0 r) scripted (0=Accept 1=Neutral 2=Reject) | (1 lvl) ThresholdFilter behind the recording
//!         wrapper | (2 lvl) ThresholdFilter attached directly (its consultations are not recorded)
//! result: event list — (0 app k) consult, (1 app) deliver, (2 app) handler
use vh::util::*;
use vh::val::Val;
use log::Log;
use log4rs::config::{Appender, Config, Root};
use log4rs::filter::threshold::ThresholdFilter;

// ---------------------------------------------------------------------------
// Re-entrant / unwinding / two-thread histories.
// case: ( 1 apps nodes calls mode )
//   nodes: ( (level (attached ...)) ... )  node 0 = root, node k>0 = non-additive logger "n<k>"
//   call:  ( id by_handler by_app node L (panicking-appender ...) (kid-call ...) )   ids unique
//   mode:  0 = one (fresh) thread issues all top-level calls, each under catch_unwind
//          1 = thread 1 issues the first call and blocks the first time the error handler is
//              entered; thread 2 then issues the other calls; then thread 1 is released
// result: (0 id app k) consult, (1 id app) deliver, (2 id app) handler, (3 id) appender panic
// ---------------------------------------------------------------------------
use std::collections::HashMap;
use std::sync::mpsc::{channel, Receiver, Sender};
use std::sync::{Arc, Mutex, Weak};
use std::time::Duration;

struct Spec {
    node: usize,
    level: log::Level,
    panics: Vec<usize>,
    kids: Vec<(bool, usize, u128)>, // (by_handler, by_app, kid id)
}

struct World {
    table: HashMap<u128, Spec>,
    logger: Mutex<Weak<log4rs::Logger>>,
    rec: Rec,
    // armed in mode 1: (tell main "in handler", wait for release)
    blocker: Mutex<Option<(Sender<u8>, Receiver<()>)>>,
}

impl std::fmt::Debug for World {
    fn fmt(&self, f: &mut std::fmt::Formatter) -> std::fmt::Result {
        write!(f, "World")
    }
}

impl World {
    fn push(&self, v: Vec<u128>) {
        self.rec.lock().unwrap().push(Val::L(v.into_iter().map(Val::N).collect()));
    }
    /// one Logger::log call for the record with this id
    fn issue(&self, id: u128) {
        let s = &self.table[&id];
        let logger = self.logger.lock().unwrap().upgrade().expect("logger alive");
        let target = if s.node == 0 { "elsewhere".to_string() } else { format!("n{}", s.node) };
        logger.log(
            &log::Record::builder()
                .level(s.level)
                .target(&target)
                .args(format_args!("{}", id))
                .build(),
        );
    }
    fn issue_kids(&self, id: u128, by_handler: bool, app: usize) {
        let kids: Vec<u128> = self.table[&id]
            .kids
            .iter()
            .filter(|k| k.0 == by_handler && k.1 == app)
            .map(|k| k.2)
            .collect();
        for k in kids {
            self.issue(k);
        }
    }
}

fn rec_id(record: &log::Record) -> u128 {
    record.args().to_string().parse().unwrap_or(99999)
}

#[derive(Debug)]
struct ReFilter {
    app: usize,
    k: usize,
    inner: Box<dyn log4rs::filter::Filter>,
    w: Arc<World>,
}

impl log4rs::filter::Filter for ReFilter {
    fn filter(&self, record: &log::Record) -> log4rs::filter::Response {
        self.w.push(vec![0, rec_id(record), self.app as u128, self.k as u128]);
        self.inner.filter(record)
    }
}

/// An appender that records the delivery, panics if scripted to, logs the scripted nested
/// records through the same Logger, then returns Ok / Err("app:id").
#[derive(Debug)]
struct ReAppender {
    idx: usize,
    fails: bool,
    w: Arc<World>,
}

impl log4rs::append::Append for ReAppender {
    fn append(&self, record: &log::Record) -> anyhow::Result<()> {
        let id = rec_id(record);
        self.w.push(vec![1, id, self.idx as u128]);
        if self.w.table.get(&id).map_or(false, |s| s.panics.contains(&self.idx)) {
            self.w.push(vec![3, id]);
            panic!("scripted appender panic");
        }
        self.w.issue_kids(id, false, self.idx);
        if self.fails {
            Err(varied_error(format!("{}:{}", self.idx, id)))
        } else {
            Ok(())
        }
    }
    fn flush(&self) {}
}

fn flatten(call: &Val, table: &mut HashMap<u128, Spec>) -> u128 {
    let c = call.l();
    let id = c[0].n();
    let mut kids = vec![];
    for k in c[6].l() {
        let kl = k.l();
        let kid = flatten(k, table);
        kids.push((kl[1].b(), kl[2].n() as usize, kid));
    }
    let spec = Spec {
        node: c[3].n() as usize,
        level: level(c[4].n()),
        panics: c[5].l().iter().map(|p| p.n() as usize).collect(),
        kids,
    };
    assert!(table.insert(id, spec).is_none(), "duplicate call id");
    id
}

fn run_reentrant(c: &[Val]) -> Val {
    let mode = c[4].n();
    let mut table = HashMap::new();
    let tops: Vec<u128> = c[3].l().iter().map(|k| flatten(k, &mut table)).collect();
    let w = Arc::new(World {
        table,
        logger: Mutex::new(Weak::new()),
        rec: new_rec(),
        blocker: Mutex::new(None),
    });
    let mut builder = Config::builder();
    for (i, a) in c[1].l().iter().enumerate() {
        let a = a.l();
        let mut ab = Appender::builder();
        for (k, f) in a[1].l().iter().enumerate() {
            let f = f.l();
            let inner: Box<dyn log4rs::filter::Filter> = match f[0].n() {
                0 => Box::new(FixedFilter(f[1].n() as u8)),
                _ => Box::new(ThresholdFilter::new(level_filter(f[1].n()))),
            };
            ab = ab.filter(Box::new(ReFilter { app: i, k, inner, w: w.clone() }));
        }
        builder = builder.appender(ab.build(
            aname(i),
            Box::new(ReAppender { idx: i, fails: a[0].b(), w: w.clone() }),
        ));
    }
    let mut root = None;
    for (k, nd) in c[2].l().iter().enumerate() {
        let nd = nd.l();
        let atts: Vec<String> = nd[1].l().iter().map(|a| aname(a.u())).collect();
        if k == 0 {
            root = Some(Root::builder().appenders(atts).build(level_filter(nd[0].n())));
        } else {
            builder = builder.logger(
                log4rs::config::Logger::builder()
                    .additive(false)
                    .appenders(atts)
                    .build(format!("n{}", k), level_filter(nd[0].n())),
            );
        }
    }
    let config = match builder.build(root.expect("root node")) {
        Ok(c) => c,
        Err(_) => return Val::err(1),
    };
    let hw = w.clone();
    let logger = Arc::new(log4rs::Logger::new_with_err_handler(
        config,
        Box::new(move |e: &anyhow::Error| {
            let text = e.to_string();
            let mut it = text.split(':');
            let app: u128 = it.next().and_then(|s| s.parse().ok()).unwrap_or(999);
            let id: u128 = it.next().and_then(|s| s.parse().ok()).unwrap_or(99999);
            hw.push(vec![2, id, app]);
            let armed = hw.blocker.lock().unwrap().take();
            if let Some((tell, wait)) = armed {
                let _ = tell.send(1);
                let _ = wait.recv_timeout(Duration::from_secs(20));
            }
            hw.issue_kids(id, true, app as usize);
        }),
    ));
    *w.logger.lock().unwrap() = Arc::downgrade(&logger);

    let issue_all = |w: Arc<World>, ids: Vec<u128>| {
        for id in ids {
            // the application catches a panic that escapes the log call
            let _ = std::panic::catch_unwind(std::panic::AssertUnwindSafe(|| w.issue(id)));
        }
    };
    if mode == 0 || tops.is_empty() {
        let w1 = w.clone();
        std::thread::spawn(move || issue_all(w1, tops)).join().unwrap();
    } else {
        let (tell_tx, tell_rx) = channel::<u8>();
        let (rel_tx, rel_rx) = channel::<()>();
        *w.blocker.lock().unwrap() = Some((tell_tx.clone(), rel_rx));
        let first = vec![tops[0]];
        let others: Vec<u128> = tops[1..].to_vec();
        let w1 = w.clone();
        let t1 = std::thread::spawn(move || {
            issue_all(w1, first);
            let _ = tell_tx.send(0); // finished (possibly after having been released)
        });
        // 1 = thread 1 is inside the handler, 0 = thread 1 finished without entering it
        let _ = tell_rx.recv_timeout(Duration::from_secs(20));
        // disarm (no-op when thread 1 took it)
        let _ = w.blocker.lock().unwrap().take();
        let w2 = w.clone();
        std::thread::spawn(move || issue_all(w2, others)).join().unwrap();
        let _ = rel_tx.send(());
        t1.join().unwrap();
    }
    let ev = w.rec.lock().unwrap().clone();
    drop(logger);
    Val::L(ev)
}

/// Run one history in a forked child so that whatever process-wide or per-thread state a
/// (defective) crate leaves behind cannot leak into the observation of another case: every
/// reported difference is reproducible from its own case line.  The harness process is
/// single-threaded here (all threads of earlier cases have been joined).
fn run_isolated(c: &[Val]) -> Val {
    use std::io::Read;
    use std::os::unix::io::FromRawFd;
    let mut fds = [0i32; 2];
    if unsafe { libc::pipe(fds.as_mut_ptr()) } != 0 {
        return Val::text("nopipe");
    }
    let pid = unsafe { libc::fork() };
    if pid < 0 {
        return Val::text("nofork");
    }
    if pid == 0 {
        unsafe { libc::close(fds[0]) };
        let res = std::panic::catch_unwind(std::panic::AssertUnwindSafe(|| run_reentrant(c)))
            .unwrap_or_else(|_| Val::panic());
        let mut out = String::new();
        vh::val::print(&res, &mut out);
        let bytes = out.as_bytes();
        let mut off = 0;
        while off < bytes.len() {
            let n = unsafe {
                libc::write(fds[1], bytes[off..].as_ptr() as *const libc::c_void, bytes.len() - off)
            };
            if n <= 0 {
                break;
            }
            off += n as usize;
        }
        unsafe { libc::_exit(0) };
    }
    unsafe { libc::close(fds[1]) };
    let mut text = String::new();
    let mut f = unsafe { std::fs::File::from_raw_fd(fds[0]) };
    let _ = f.read_to_string(&mut text);
    let mut status = 0i32;
    unsafe { libc::waitpid(pid, &mut status, 0) };
    if text.trim().is_empty() {
        return Val::text("childabort");
    }
    vh::val::parse(&text)
}

/// An appender supplied as a `log::Log` (blanket `impl<T: Log> Append for T`) whose own
/// `enabled()` refuses everything: the filter chain alone decides whether it receives a record.
#[derive(Debug)]
struct LogSink {
    idx: usize,
    rec: Rec,
}

impl log::Log for LogSink {
    fn enabled(&self, _m: &log::Metadata) -> bool {
        false
    }
    fn log(&self, _record: &log::Record) {
        self.rec.lock().unwrap().push(Val::L(vec![Val::N(1), Val::N(self.idx as u128)]));
    }
    fn flush(&self) {}
}

// ---------------------------------------------------------------------------
// The same plain case DECLARED IN A CONFIGURATION FILE (6-component case: the plain case
// plus ( override 0 )): the appenders and their filter chains are written as YAML, the
// scripted filter / recording appender kinds are registered by the harness
// (`Deserializers::insert`), the text goes through RawConfig::appenders_lossy.  With
// override = 1 the kind `threshold` is registered AGAIN by the harness (a recording
// wrapper around the crate's ThresholdFilter, configured with two extra keys): the kind
// registered last must be the one that is used.
// ---------------------------------------------------------------------------
static FILE_REC: Mutex<Option<Rec>> = Mutex::new(None);

fn file_rec() -> Rec {
    FILE_REC.lock().unwrap().clone().expect("file rec")
}

fn jnum(v: &serde_json::Value, k: &str) -> anyhow::Result<u64> {
    v.get(k).and_then(|x| x.as_u64()).ok_or_else(|| anyhow::anyhow!("missing numeric `{}`", k))
}

struct VRecDeser;
impl log4rs::config::Deserialize for VRecDeser {
    type Trait = dyn log4rs::append::Append;
    type Config = serde_json::Value;
    fn deserialize(
        &self,
        c: serde_json::Value,
        _: &log4rs::config::Deserializers,
    ) -> anyhow::Result<Box<dyn log4rs::append::Append>> {
        let idx = jnum(&c, "idx")? as usize;
        match jnum(&c, "mode")? {
            2 => Ok(Box::new(LogSink { idx, rec: file_rec() })),
            m => Ok(Box::new(RecAppender { idx, fails: m == 1, rec: file_rec() })),
        }
    }
}

struct VScriptDeser;
impl log4rs::config::Deserialize for VScriptDeser {
    type Trait = dyn log4rs::filter::Filter;
    type Config = serde_json::Value;
    fn deserialize(
        &self,
        c: serde_json::Value,
        _: &log4rs::config::Deserializers,
    ) -> anyhow::Result<Box<dyn log4rs::filter::Filter>> {
        Ok(Box::new(SpyFilter {
            app: jnum(&c, "app")? as usize,
            k: jnum(&c, "k")? as usize,
            inner: Box::new(FixedFilter(jnum(&c, "r")? as u8)),
            rec: file_rec(),
        }))
    }
}

/// the harness's own `threshold` kind (registered over the built-in one)
struct VThresholdDeser;
impl log4rs::config::Deserialize for VThresholdDeser {
    type Trait = dyn log4rs::filter::Filter;
    type Config = serde_json::Value;
    fn deserialize(
        &self,
        c: serde_json::Value,
        _: &log4rs::config::Deserializers,
    ) -> anyhow::Result<Box<dyn log4rs::filter::Filter>> {
        Ok(Box::new(SpyFilter {
            app: jnum(&c, "app")? as usize,
            k: jnum(&c, "k")? as usize,
            inner: Box::new(ThresholdFilter::new(level_filter(jnum(&c, "lvl")? as u128))),
            rec: file_rec(),
        }))
    }
}

const LEVEL_NAMES: [&str; 6] = ["off", "error", "warn", "info", "debug", "trace"];

fn run_from_file(c: &[Val]) -> Val {
    let over = c[4].b();
    let lvl = level(c[1].n());
    let rec = new_rec();
    *FILE_REC.lock().unwrap() = Some(rec.clone());
    let mut y = String::from("appenders:\n");
    for (i, a) in c[2].l().iter().enumerate() {
        let a = a.l();
        y.push_str(&format!("  {}:\n    kind: vrec\n    idx: {}\n    mode: {}\n", yq(&aname(i)), i, a[0].n()));
        if !a[1].l().is_empty() {
            y.push_str("    filters:\n");
        }
        for (k, f) in a[1].l().iter().enumerate() {
            let f = f.l();
            if f[0].n() == 0 {
                y.push_str(&format!("      - kind: vscript\n        app: {}\n        k: {}\n        r: {}\n", i, k, f[1].n()));
            } else if over {
                y.push_str(&format!("      - kind: threshold\n        app: {}\n        k: {}\n        lvl: {}\n", i, k, f[1].n()));
            } else {
                y.push_str(&format!("      - kind: threshold\n        level: {}\n", LEVEL_NAMES[f[1].u()]));
            }
        }
    }
    y.push_str(&format!("root:\n  level: {}\n  appenders: [", LEVEL_NAMES[c[0].u()]));
    y.push_str(&c[3].l().iter().map(|at| yq(&aname(at.u()))).collect::<Vec<_>>().join(", "));
    y.push_str("]\n");
    let raw: log4rs::config::RawConfig = match serde_yaml::from_str(&y) {
        Ok(r) => r,
        Err(_) => return Val::err(3),
    };
    let mut d = log4rs::config::Deserializers::default();
    d.insert("vrec", VRecDeser);
    d.insert("vscript", VScriptDeser);
    if over {
        d.insert("threshold", VThresholdDeser);
    }
    let (apps, errs) = raw.appenders_lossy(&d);
    if !errs.is_empty() {
        return Val::err(4);
    }
    let config = match Config::builder().appenders(apps).build(raw.root()) {
        Ok(c) => c,
        Err(_) => return Val::err(1),
    };
    let hrec = rec.clone();
    let logger = log4rs::Logger::new_with_err_handler(
        config,
        Box::new(move |e: &anyhow::Error| {
            let idx: u128 = e.to_string().parse().unwrap_or(999);
            hrec.lock().unwrap().push(Val::L(vec![Val::N(2), Val::N(idx)]));
        }),
    );
    logger.log(&log::Record::builder().level(lvl).target("some::target").args(format_args!("m")).build());
    drop(logger);
    *FILE_REC.lock().unwrap() = None;
    let ev = rec.lock().unwrap().clone();
    Val::L(ev)
}

/// a name as a YAML double-quoted scalar
fn yq(s: &str) -> String {
    serde_json::to_string(s).unwrap()
}

/// Handlers with a life of their own (run before every case on the case's thread; direct expectation):
/// (a) the error handler of logger A reports the error by logging into logger B, whose appender fails too: B's
///     handler gets that error - every appender error reaches the handler of the logger it happened in, once;
/// (b) a handler that panicked once (the panic caught by the caller) is called for the next error like before.
fn handler_history() -> Option<String> {
    use std::sync::atomic::{AtomicUsize, Ordering};
    use std::sync::{Arc, OnceLock};
    #[derive(Debug)]
    struct Fail;
    impl log4rs::append::Append for Fail {
        fn append(&self, _r: &log::Record) -> anyhow::Result<()> {
            Err(varied_error("appender fails".to_string()))
        }
        fn flush(&self) {}
    }
    static HA: AtomicUsize = AtomicUsize::new(0);
    static HB: AtomicUsize = AtomicUsize::new(0);
    static HP: AtomicUsize = AtomicUsize::new(0);
    static B: OnceLock<Arc<log4rs::Logger>> = OnceLock::new();
    static A: OnceLock<Arc<log4rs::Logger>> = OnceLock::new();
    static P: OnceLock<Arc<log4rs::Logger>> = OnceLock::new();
    fn failing_config() -> Config {
        Config::builder()
            .appender(Appender::builder().build("f", Box::new(Fail)))
            .build(Root::builder().appender("f").build(log::LevelFilter::Trace))
            .expect("config")
    }
    let b = B.get_or_init(|| {
        Arc::new(log4rs::Logger::new_with_err_handler(
            failing_config(),
            Box::new(|_e: &anyhow::Error| {
                HB.fetch_add(1, Ordering::SeqCst);
            }),
        ))
    });
    let _ = b;
    let a = A.get_or_init(|| {
        Arc::new(log4rs::Logger::new_with_err_handler(
            failing_config(),
            Box::new(|e: &anyhow::Error| {
                HA.fetch_add(1, Ordering::SeqCst);
                if let Some(b) = B.get() {
                    b.log(&log::Record::builder().level(log::Level::Error).target("audit").args(format_args!("{}", e)).build());
                }
            }),
        ))
    });
    let p = P.get_or_init(|| {
        Arc::new(log4rs::Logger::new_with_err_handler(
            failing_config(),
            Box::new(|_e: &anyhow::Error| {
                if HP.fetch_add(1, Ordering::SeqCst) == 0 {
                    panic!("the handler's first call panics");
                }
            }),
        ))
    });
    let rec = |t: &str| {
        let lg = if t == "a" { a } else { p };
        lg.log(&log::Record::builder().level(log::Level::Info).target(t).args(format_args!("x")).build());
    };
    let (a0, b0) = (HA.load(Ordering::SeqCst), HB.load(Ordering::SeqCst));
    rec("a");
    let (da, db) = (HA.load(Ordering::SeqCst) - a0, HB.load(Ordering::SeqCst) - b0);
    if (da, db) != (1, 1) {
        return Some(format!(
            "logger A's handler logs the error into logger B whose appender fails as well: handler calls (A, B) = ({}, {}), one each is due",
            da, db
        ));
    }
    let p0 = HP.load(Ordering::SeqCst);
    if p0 == 0 {
        let r = std::panic::catch_unwind(std::panic::AssertUnwindSafe(|| rec("p")));
        if r.is_ok() {
            return Some("a panicking error handler did not unwind out of Logger::log".to_string());
        }
    }
    let p1 = HP.load(Ordering::SeqCst);
    rec("p");
    rec("p");
    let dp = HP.load(Ordering::SeqCst) - p1;
    if dp != 2 {
        return Some(format!(
            "after an error handler panicked once (caught by the caller), 2 further appender errors on the thread led to {} handler calls",
            dp
        ));
    }
    None
}

fn run(case: &Val) -> Val {
    if let Some(bad) = handler_history() {
        return Val::L(vec![Val::text(&bad)]);
    }
    next_name_style();
    let c = case.l();
    if c.len() == 5 {
        return run_isolated(&c);
    }
    if c.len() == 6 {
        return run_from_file(&c);
    }
    let node_level = level_filter(c[0].n());
    let lvl = level(c[1].n());
    let rec = new_rec();
    let mut builder = Config::builder();
    for (i, a) in c[2].l().iter().enumerate() {
        let a = a.l();
        let kind = a[0].n(); // 0 succeeds, 1 fails, 2 a log::Log-backed appender (succeeds)
        let fails = kind == 1;
        let mut ab = Appender::builder();
        for (k, f) in a[1].l().iter().enumerate() {
            let f = f.l();
            if f[0].n() == 2 {
                // the crate's ThresholdFilter attached directly (no recording wrapper between the
                // appender and the filter, so nothing a wrapper would hide stays hidden)
                ab = ab.filter(Box::new(ThresholdFilter::new(level_filter(f[1].n()))));
                continue;
            }
            let inner: Box<dyn log4rs::filter::Filter> = match f[0].n() {
                0 => Box::new(FixedFilter(f[1].n() as u8)),
                _ => Box::new(ThresholdFilter::new(level_filter(f[1].n()))),
            };
            ab = ab.filter(Box::new(SpyFilter { app: i, k, inner, rec: rec.clone() }));
        }
        if kind == 2 {
            builder = builder.appender(ab.build(aname(i), Box::new(LogSink { idx: i, rec: rec.clone() })));
            continue;
        }
        builder = builder.appender(ab.build(
            aname(i),
            Box::new(RecAppender { idx: i, fails, rec: rec.clone() }),
        ));
    }
    let mut root = Root::builder();
    for at in c[3].l() {
        root = root.appender(aname(at.u()));
    }
    let config = match builder.build(root.build(node_level)) {
        Ok(c) => c,
        Err(_) => return Val::err(1),
    };
    let hrec = rec.clone();
    let logger = log4rs::Logger::new_with_err_handler(
        config,
        Box::new(move |e: &anyhow::Error| {
            let idx: u128 = e.to_string().parse().unwrap_or(999);
            hrec.lock().unwrap().push(Val::L(vec![Val::N(2), Val::N(idx)]));
        }),
    );
    logger.log(
        &log::Record::builder()
            .level(lvl)
            .target("some::target")
            .args(format_args!("m"))
            .build(),
    );
    let ev = rec.lock().unwrap().clone();
    Val::L(ev)
}

/// `c03 default-handler`: the DEFAULT error handler (Logger::new) with two failing appenders among four,
/// run by the check in a child process whose stderr cannot be written (/dev/full, or a pipe without a
/// reader).  Prints `panicked delivered` for 3 records: the handler's own trouble is nobody else's.
fn default_handler_child() -> i32 {
    std::panic::set_hook(Box::new(|_| {}));
    let rec = new_rec();
    let mut builder = Config::builder();
    for (i, fails) in [false, true, true, false].into_iter().enumerate() {
        builder = builder.appender(
            Appender::builder().build(format!("a{}", i), Box::new(RecAppender { idx: i, fails, rec: rec.clone() })),
        );
    }
    let mut root = Root::builder();
    for i in 0..4 {
        root = root.appender(format!("a{}", i));
    }
    let config = builder.build(root.build(log::LevelFilter::Trace)).expect("config");
    let logger = log4rs::Logger::new(config);
    let mut panicked = 0;
    for n in 0..3 {
        let r = std::panic::catch_unwind(std::panic::AssertUnwindSafe(|| {
            logger.log(
                &log::Record::builder().level(log::Level::Warn).target("t").args(format_args!("{}", n)).build(),
            );
        }));
        if r.is_err() {
            panicked += 1;
        }
    }
    let delivered = rec.lock().unwrap().len();
    println!("{} {}", panicked, delivered);
    0
}

fn main() {
    let args: Vec<String> = std::env::args().collect();
    if args.len() >= 2 && args[1] == "default-handler" {
        std::process::exit(default_handler_child());
    }
    vh::main_loop(run);
}
