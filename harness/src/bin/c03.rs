//! C03 — filter chains, fan-out isolation, error handler calls.
//! case: ( node_level L ( (fails (filter ...)) ... ) ( attached ... ) )
//! filter: (0 r) scripted (0=Accept 1=Neutral 2=Reject) | (1 lvl) ThresholdFilter
//! result: event list — (0 app k) consult, (1 app) deliver, (2 app) handler
use vh::util::*;
use vh::val::Val;
use log::Log;
use log4rs::config::{Appender, Config, Root};
use log4rs::filter::threshold::ThresholdFilter;

fn run(case: &Val) -> Val {
    let c = case.l();
    let node_level = level_filter(c[0].n());
    let lvl = level(c[1].n());
    let rec = new_rec();
    let mut builder = Config::builder();
    for (i, a) in c[2].l().iter().enumerate() {
        let a = a.l();
        let fails = a[0].b();
        let mut ab = Appender::builder();
        for (k, f) in a[1].l().iter().enumerate() {
            let f = f.l();
            let inner: Box<dyn log4rs::filter::Filter> = match f[0].n() {
                0 => Box::new(FixedFilter(f[1].n() as u8)),
                _ => Box::new(ThresholdFilter::new(level_filter(f[1].n()))),
            };
            ab = ab.filter(Box::new(SpyFilter { app: i, k, inner, rec: rec.clone() }));
        }
        builder = builder.appender(ab.build(
            format!("a{}", i),
            Box::new(RecAppender { idx: i, fails, rec: rec.clone() }),
        ));
    }
    let mut root = Root::builder();
    for at in c[3].l() {
        root = root.appender(format!("a{}", at.n()));
    }
    let config = match builder.build(root.build(node_level)) {
        Ok(c) => c,
        Err(_) => return Val::err(1),
    };
    let hrec = rec.clone();
    let logger = log4rs::Logger::new_with_err_handler(
        config,
        Box::new(move |e: &anyhow::Error| {
            let idx: u128 = e.to_string().parse().unwrap_or(999);
            hrec.lock().unwrap().push(Val::L(vec![Val::N(2), Val::N(idx)]));
        }),
    );
    logger.log(
        &log::Record::builder()
            .level(lvl)
            .target("some::target")
            .args(format_args!("m"))
            .build(),
    );
    let ev = rec.lock().unwrap().clone();
    Val::L(ev)
}

fn main() {
    vh::main_loop(run);
}
