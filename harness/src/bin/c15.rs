//! C15 — runtime reconfiguration is atomic; the file reloader keeps the last good config.
//! config : (tag (appname ...) (rootlevel (appname ...)) ((name level additive (appname ...)) ...))
//! case kinds (see coq/Run/C15.v for the model side):
//! (0 configs init reent progs sched)  real threads single-stepped by a controller at the model's
//!      micro-step granularity (gates before each op, inside each append, before a re-entrant
//!      set_config, after log returns) -> trace of events
//! (1 configs probes (loggers swappers min_records swaps))  free-running stress
//!      -> ((probe (tag-shape ...) (idx ...) count) ...) (late panics records swaps probes_bad)
//! (2 configs old new (target level))  every appender of `old` logs a probe from its Drop
//!      while set_config(new) runs -> deliveries ((tag idx) ...) per probe
//! (3 fmt texts (m0 ti0) steps)        VerifReloader single-stepped over a file history
//!      -> (parse-table ((err stopped rate active nset) ...))
//! (4 ...) like 3 but with the real reloader thread: run as `c15 live` child process, stdin =
//!      case line + line with the expected (active nset) per step -> ((active nset) ...)
//! (5 configs seq probes)  GLOBAL logger, run as `c15 facade` child process: init_config(configs[seq[0]]),
//!      then handle.set_config(configs[seq[i]]); after each has returned every probe is logged through
//!      the `log::log!` macro (which consults log::max_level) -> per step, per probe ((tag idx) ...)
use log::Log;
use log4rs::append::Append;
use log4rs::config::{Appender, Config, Deserialize, Deserializers, Logger, Root};
use std::cell::RefCell;
use std::collections::HashMap;
use std::sync::atomic::{AtomicBool, AtomicU64, AtomicUsize, Ordering};
use std::sync::{Arc, Condvar, Mutex};
use std::time::{Duration, Instant};
use vh::util::*;
use vh::val::Val;

thread_local! {
    /// parse results of config texts already shown to the real crate: (fmt, text) -> (tag (rate)) | ()
    static PARSED: RefCell<HashMap<(u128, Vec<u8>), Val>> = RefCell::new(HashMap::new());
    /// deliveries (tag, idx) seen by the current thread since the last drain
    static DELIV: RefCell<Vec<(u64, usize)>> = RefCell::new(Vec::new());
}

fn drain_deliv() -> Vec<(u64, usize)> {
    DELIV.with(|d| std::mem::take(&mut *d.borrow_mut()))
}

type Hook = Arc<dyn Fn(u64, usize, &log::Record) + Send + Sync>;
type DropHook = Arc<dyn Fn(u64, usize) + Send + Sync>;

struct TagAppender {
    tag: u64,
    idx: usize,
    hook: Option<Hook>,
    on_drop: Option<DropHook>,
}

impl std::fmt::Debug for TagAppender {
    fn fmt(&self, f: &mut std::fmt::Formatter<'_>) -> std::fmt::Result {
        write!(f, "TagAppender({}, {})", self.tag, self.idx)
    }
}

/// kind 0 with the 7th case component set: appender 0 of EVERY configuration fails after having done its
/// work (incl. a re-entrant set_config); the logger is built with a recording error handler
static FAIL0: std::sync::atomic::AtomicBool = std::sync::atomic::AtomicBool::new(false);

impl Append for TagAppender {
    fn append(&self, record: &log::Record) -> anyhow::Result<()> {
        match &self.hook {
            Some(h) => h(self.tag, self.idx, record),
            None => DELIV.with(|d| d.borrow_mut().push((self.tag, self.idx))),
        }
        if self.idx == 0 && FAIL0.load(Ordering::SeqCst) {
            anyhow::bail!("{}:{}:{}", record.args(), self.tag, self.idx);
        }
        Ok(())
    }
    fn flush(&self) {}
}

impl Drop for TagAppender {
    fn drop(&mut self) {
        if let Some(h) = &self.on_drop {
            h(self.tag, self.idx);
        }
    }
}

/// Build a real Config from (tag apps root loggers); `tag_override` replaces the tag.
fn build_config(c: &Val, tag_override: Option<u64>, hook: Option<Hook>, on_drop: Option<DropHook>) -> Config {
    let c = c.l();
    let tag = tag_override.unwrap_or(c[0].n() as u64);
    let mut builder = Config::builder();
    for (i, a) in c[1].l().iter().enumerate() {
        builder = builder.appender(Appender::builder().build(
            a.str(),
            Box::new(TagAppender { tag, idx: i, hook: hook.clone(), on_drop: on_drop.clone() }),
        ));
    }
    for lg in c[3].l() {
        let lg = lg.l();
        let mut lb = Logger::builder().additive(lg[2].b());
        for a in lg[3].l() {
            lb = lb.appender(a.str());
        }
        builder = builder.logger(lb.build(lg[0].str(), level_filter(lg[1].n())));
    }
    let r = c[2].l();
    let mut root = Root::builder();
    for a in r[1].l() {
        root = root.appender(a.str());
    }
    builder.build(root.build(level_filter(r[0].n()))).expect("config builds")
}

fn log_to(logger: &dyn Log, target: &str, lvl: u128, msg: std::fmt::Arguments) {
    logger.log(&log::Record::builder().level(level(lvl)).target(target).args(msg).build());
}

// ------------------------------------------------------------------ kind 0

struct SchedState {
    turn: Option<usize>,
    at_gate: Vec<bool>,
    finished: Vec<bool>,
}

struct Sched {
    st: Mutex<SchedState>,
    cv: Condvar,
    events: Mutex<Vec<Val>>,
}

impl Sched {
    fn gate(&self, tid: usize) {
        let mut g = self.st.lock().unwrap();
        g.at_gate[tid] = true;
        self.cv.notify_all();
        while g.turn != Some(tid) {
            g = self.cv.wait(g).unwrap();
        }
        g.turn = None;
        g.at_gate[tid] = false;
        self.cv.notify_all();
    }
    fn finish(&self, tid: usize) {
        let mut g = self.st.lock().unwrap();
        g.finished[tid] = true;
        self.cv.notify_all();
    }
    /// one micro-step of thread `tid`; false on timeout
    fn step(&self, tid: usize) -> bool {
        let deadline = Instant::now() + Duration::from_secs(20);
        let mut g = self.st.lock().unwrap();
        if tid >= g.finished.len() {
            return true;
        }
        while !(g.at_gate[tid] || g.finished[tid]) {
            let (ng, to) = self.cv.wait_timeout(g, Duration::from_millis(200)).unwrap();
            g = ng;
            if to.timed_out() && Instant::now() > deadline {
                return false;
            }
        }
        if g.finished[tid] {
            return true;
        }
        g.turn = Some(tid);
        self.cv.notify_all();
        while !(g.turn.is_none() && (g.at_gate[tid] || g.finished[tid])) {
            let (ng, to) = self.cv.wait_timeout(g, Duration::from_millis(200)).unwrap();
            g = ng;
            if to.timed_out() && Instant::now() > deadline {
                return false;
            }
        }
        true
    }
    fn all_finished(&self) -> bool {
        self.st.lock().unwrap().finished.iter().all(|b| *b)
    }
    fn ev(&self, v: Vec<u128>) {
        self.events.lock().unwrap().push(Val::L(v.into_iter().map(Val::N).collect()));
    }
}

fn parse_rid(record: &log::Record) -> (usize, usize) {
    let s = record.args().to_string();
    let mut it = s.split(':');
    (it.next().unwrap().parse().unwrap(), it.next().unwrap().parse().unwrap())
}

fn run_sched(c: &[Val]) -> Val {
    let cfgs: Arc<Vec<Val>> = Arc::new(c[1].l().to_vec());
    let init = c[2].u();
    let reent: Arc<HashMap<(u64, usize, usize, usize), usize>> = Arc::new(
        c[3].l()
            .iter()
            .map(|e| {
                let e = e.l();
                ((e[0].n() as u64, e[1].u(), e[2].u(), e[3].u()), e[4].u())
            })
            .collect(),
    );
    let progs: Vec<Vec<Val>> = c[4].l().iter().map(|p| p.l().to_vec()).collect();
    let n = progs.len();
    let sched = Arc::new(Sched {
        st: Mutex::new(SchedState { turn: None, at_gate: vec![false; n], finished: vec![false; n] }),
        cv: Condvar::new(),
        events: Mutex::new(Vec::new()),
    });
    // the appender behaviour: gate, record the delivery, maybe gate + set_config re-entrantly
    let handle_slot: Arc<Mutex<Option<log4rs::Handle>>> = Arc::new(Mutex::new(None));
    let hook_cell: Arc<Mutex<Option<Hook>>> = Arc::new(Mutex::new(None));
    let hook: Hook = {
        let sched = sched.clone();
        let reent = reent.clone();
        let cfgs = cfgs.clone();
        let handle_slot = handle_slot.clone();
        let hook_cell = hook_cell.clone();
        Arc::new(move |tag: u64, idx: usize, record: &log::Record| {
            let (tid, k) = parse_rid(record);
            sched.gate(tid);
            sched.ev(vec![1, tid as u128, k as u128, tag as u128, idx as u128]);
            if let Some(ci) = reent.get(&(tag, idx, tid, k)) {
                sched.gate(tid);
                let h = hook_cell.lock().unwrap().clone();
                let cfg = build_config(&cfgs[*ci], None, h, None);
                let handle = handle_slot.lock().unwrap().clone().unwrap();
                handle.set_config(cfg);
                sched.ev(vec![3, cfgs[*ci].l()[0].n()]);
            }
        })
    };
    *hook_cell.lock().unwrap() = Some(hook.clone());
    let fail0 = c.len() > 6 && c[6].n() == 1;
    FAIL0.store(fail0, Ordering::SeqCst);
    let logger = if fail0 {
        // the initial logger has ITS OWN error handler (event (5 tid k tag idx)); configurations installed later
        // through set_config report to the crate's default handler (stderr)
        let hs = sched.clone();
        Arc::new(log4rs::Logger::new_with_err_handler(
            build_config(&cfgs[init], None, Some(hook.clone()), None),
            Box::new(move |e: &anyhow::Error| {
                let t = e.to_string();
                let v: Vec<u128> = t.split(':').filter_map(|x| x.parse().ok()).collect();
                if v.len() == 4 {
                    hs.ev(vec![5, v[0], v[1], v[2], v[3]]);
                } else {
                    hs.ev(vec![5, 999, 999, 999, 999]);
                }
            }),
        ))
    } else {
        Arc::new(log4rs::Logger::new(build_config(&cfgs[init], None, Some(hook.clone()), None)))
    };
    *handle_slot.lock().unwrap() = Some(logger.verif_handle());
    let mut joins = vec![];
    for (tid, prog) in progs.into_iter().enumerate() {
        let sched = sched.clone();
        let logger = logger.clone();
        let cfgs = cfgs.clone();
        let hook = hook.clone();
        joins.push(std::thread::spawn(move || {
            let body = std::panic::catch_unwind(std::panic::AssertUnwindSafe(|| {
                for (k, op) in prog.iter().enumerate() {
                    let op = op.l();
                    sched.gate(tid);
                    if op[0].n() == 0 {
                        sched.ev(vec![0, tid as u128, k as u128]);
                        log_to(&*logger, &op[1].str(), op[2].n(), format_args!("{}:{}", tid, k));
                        sched.gate(tid);
                        sched.ev(vec![2, tid as u128, k as u128]);
                    } else {
                        let ci = op[1].u();
                        let cfg = build_config(&cfgs[ci], None, Some(hook.clone()), None);
                        logger.verif_handle().set_config(cfg);
                        sched.ev(vec![3, cfgs[ci].l()[0].n()]);
                    }
                }
            }));
            if body.is_err() {
                sched.ev(vec![4, tid as u128]);
                // a gate may have been consumed half-way: make sure the controller is not left waiting
                let mut g = sched.st.lock().unwrap();
                g.turn = None;
            }
            sched.finish(tid);
        }));
    }
    let mut ok = true;
    for t in c[5].l() {
        if !sched.step(t.u()) {
            ok = false;
            break;
        }
    }
    let mut rounds = 0;
    while ok && !sched.all_finished() {
        for tid in 0..n {
            if !sched.step(tid) {
                ok = false;
                break;
            }
        }
        rounds += 1;
        if rounds > 100000 {
            ok = false;
        }
    }
    if !ok {
        vh::note_stuck();
        return Val::text("stuck");
    }
    for j in joins {
        let _ = j.join();
    }
    FAIL0.store(false, Ordering::SeqCst);
    // break the logger -> appender -> hook -> handle cycle
    *handle_slot.lock().unwrap() = None;
    *hook_cell.lock().unwrap() = None;
    let ev = sched.events.lock().unwrap().clone();
    Val::L(ev)
}

// ------------------------------------------------------------------ kind 1

const SHAPES: u64 = 64;

fn run_stress(c: &[Val]) -> Val {
    let cfgs: Arc<Vec<Val>> = Arc::new(c[1].l().to_vec());
    let probes: Arc<Vec<(String, u128)>> =
        Arc::new(c[2].l().iter().map(|p| (p.l()[0].str(), p.l()[1].n())).collect());
    let prm = c[3].l();
    let (n_log, n_swap, min_rec, swaps) = (prm[0].u(), prm[1].u(), prm[2].u(), prm[3].u());
    let k = cfgs.len() as u64;
    let logger = Arc::new(log4rs::Logger::new(build_config(&cfgs[0], Some(0), None, None)));
    let started = Arc::new(AtomicU64::new(0));
    let completed = Arc::new(AtomicU64::new(0));
    let swap_lock = Arc::new(Mutex::new(0u64));
    let swappers_left = Arc::new(AtomicUsize::new(n_swap));
    let panics = Arc::new(AtomicUsize::new(0));
    let probes_bad = Arc::new(AtomicUsize::new(0));
    let free_phase = Arc::new(AtomicBool::new(false));
    let barrier = Arc::new(std::sync::Barrier::new(n_swap));
    type Key = (usize, Vec<u64>, Vec<usize>);
    let mut joins: Vec<std::thread::JoinHandle<(HashMap<Key, u64>, u64, u64)>> = vec![];
    for i in 0..n_log {
        let (logger, probes, started, completed, swappers_left, panics, free_phase) = (
            logger.clone(),
            probes.clone(),
            started.clone(),
            completed.clone(),
            swappers_left.clone(),
            panics.clone(),
            free_phase.clone(),
        );
        joins.push(std::thread::spawn(move || {
            let mut seen: HashMap<Key, u64> = HashMap::new();
            let mut late = 0u64;
            let mut n = 0usize;
            while n < min_rec || swappers_left.load(Ordering::SeqCst) > 0 {
                let pi = (n + i) % probes.len();
                let (t, l) = &probes[pi];
                let free = free_phase.load(Ordering::SeqCst);
                let lo = completed.load(Ordering::SeqCst);
                let r = std::panic::catch_unwind(std::panic::AssertUnwindSafe(|| {
                    log_to(&*logger, t, *l, format_args!("{}:{}", i, n));
                }));
                let hi = started.load(Ordering::SeqCst);
                let free = free || free_phase.load(Ordering::SeqCst);
                let d = drain_deliv();
                if r.is_err() {
                    panics.fetch_add(1, Ordering::SeqCst);
                }
                let mut shapes: Vec<u64> = d.iter().map(|x| x.0 % SHAPES).collect();
                shapes.dedup();
                let mut tags: Vec<u64> = d.iter().map(|x| x.0).collect();
                tags.dedup();
                if tags.len() > 1 {
                    // mixture of two configurations of the same shape: make it visible
                    shapes = tags.iter().map(|t| t % SHAPES).collect();
                }
                if !free {
                    if let Some(t) = tags.first() {
                        let seq = t / SHAPES;
                        if seq < lo || seq > hi {
                            late += 1;
                        }
                    }
                }
                *seen.entry((pi, shapes, d.iter().map(|x| x.1).collect())).or_insert(0) += 1;
                n += 1;
            }
            (seen, late, n as u64)
        }));
    }
    let mut sjoins = vec![];
    for j in 0..n_swap {
        let barrier = barrier.clone();
        let (logger, cfgs, probes, started, completed, swap_lock, swappers_left, probes_bad, free_phase, panics) = (
            logger.clone(),
            cfgs.clone(),
            probes.clone(),
            started.clone(),
            completed.clone(),
            swap_lock.clone(),
            swappers_left.clone(),
            probes_bad.clone(),
            free_phase.clone(),
            panics.clone(),
        );
        sjoins.push(std::thread::spawn(move || {
            let handle = logger.verif_handle();
            let mut out: Vec<(usize, u64, Vec<(u64, usize)>)> = vec![];
            let r1 = std::panic::catch_unwind(std::panic::AssertUnwindSafe(|| {
                // phase 1: stores serialised among swappers (not against loggers), with a
                // probe record logged right after set_config returned
                for n in 0..swaps {
                    let mut g = swap_lock.lock().unwrap();
                    *g += 1;
                    let seq = *g;
                    let shape = seq % k;
                    let tag = seq * SHAPES + shape;
                    let cfg = build_config(&cfgs[shape as usize], Some(tag), None, None);
                    started.store(seq, Ordering::SeqCst);
                    handle.set_config(cfg);
                    completed.store(seq, Ordering::SeqCst);
                    let pi = (n + j) % probes.len();
                    drain_deliv();
                    log_to(&*logger, &probes[pi].0, probes[pi].1, format_args!("p"));
                    let d = drain_deliv();
                    if d.iter().any(|x| x.0 != tag) {
                        probes_bad.fetch_add(1, Ordering::SeqCst);
                    }
                    out.push((pi, shape, d));
                    drop(g);
                    if n % 8 == 0 {
                        std::thread::yield_now();
                    }
                }
            }));
            barrier.wait();
            let r = std::panic::catch_unwind(std::panic::AssertUnwindSafe(|| {
                // phase 2: free for all (stores race with stores)
                free_phase.store(true, Ordering::SeqCst);
                for n in 0..swaps {
                    let shape = (n as u64 * 7 + j as u64) % k;
                    let tag = ((1u64 << 40) + (j as u64) * (1 << 30) + n as u64) * SHAPES + shape;
                    handle.set_config(build_config(&cfgs[shape as usize], Some(tag), None, None));
                }
            }));
            if r.is_err() || r1.is_err() {
                panics.fetch_add(1, Ordering::SeqCst);
            }
            swappers_left.fetch_sub(1, Ordering::SeqCst);
            out
        }));
    }
    let mut seen: HashMap<Key, u64> = HashMap::new();
    let mut late = 0u64;
    let mut records = 0u64;
    for j in sjoins {
        for (pi, shape, d) in j.join().unwrap() {
            let mut shapes: Vec<u64> = d.iter().map(|x| x.0 % SHAPES).collect();
            shapes.dedup();
            if shapes.is_empty() {
                // the probe's own config is known even when nothing was delivered
                shapes.push(shape);
            } else if shapes != vec![shape] {
                shapes.push(shape);
            }
            *seen.entry((pi, shapes, d.iter().map(|x| x.1).collect())).or_insert(0) += 1;
        }
    }
    for j in joins {
        let (s, l, n) = j.join().unwrap();
        for (k, v) in s {
            *seen.entry(k).or_insert(0) += v;
        }
        late += l;
        records += n;
    }
    let mut keys: Vec<(Key, u64)> = seen.into_iter().collect();
    keys.sort();
    let obs = keys
        .into_iter()
        .map(|((pi, shapes, idx), cnt)| {
            Val::L(vec![
                Val::N(pi as u128),
                Val::L(shapes.into_iter().map(|s| Val::N(s as u128)).collect()),
                Val::L(idx.into_iter().map(|s| Val::N(s as u128)).collect()),
                Val::N(cnt as u128),
            ])
        })
        .collect();
    Val::L(vec![
        Val::L(obs),
        Val::L(vec![
            Val::N(late as u128),
            Val::N(panics.load(Ordering::SeqCst) as u128),
            Val::N(records as u128),
            Val::N((2 * swaps * n_swap) as u128),
            Val::N(probes_bad.load(Ordering::SeqCst) as u128),
        ]),
    ])
}

// ------------------------------------------------------------------ kind 2

fn run_drop(c: &[Val]) -> Val {
    let cfgs = c[1].l();
    let (old, new) = (c[2].u(), c[3].u());
    let probe = (c[4].l()[0].str(), c[4].l()[1].n());
    let slot: Arc<Mutex<Option<Arc<log4rs::Logger>>>> = Arc::new(Mutex::new(None));
    let armed = Arc::new(AtomicBool::new(false));
    let results: Arc<Mutex<Vec<Val>>> = Arc::new(Mutex::new(Vec::new()));
    let on_drop: DropHook = {
        let (slot, armed, results, probe) = (slot.clone(), armed.clone(), results.clone(), probe.clone());
        Arc::new(move |_tag, _idx| {
            if !armed.load(Ordering::SeqCst) {
                return;
            }
            let lg = slot.lock().unwrap().clone();
            if let Some(lg) = lg {
                drain_deliv();
                log_to(&*lg, &probe.0, probe.1, format_args!("d"));
                let d = drain_deliv();
                results.lock().unwrap().push(Val::L(
                    d.into_iter().map(|(t, i)| Val::L(vec![Val::N(t as u128), Val::N(i as u128)])).collect(),
                ));
            }
        })
    };
    let logger = Arc::new(log4rs::Logger::new(build_config(&cfgs[old], None, None, Some(on_drop))));
    *slot.lock().unwrap() = Some(logger.clone());
    let newcfg = build_config(&cfgs[new], None, None, None);
    armed.store(true, Ordering::SeqCst);
    logger.verif_handle().set_config(newcfg);
    armed.store(false, Ordering::SeqCst);
    *slot.lock().unwrap() = None;
    let r = results.lock().unwrap().clone();
    Val::L(r)
}

// ------------------------------------------------------------------ kinds 3, 4

static CONSTRUCTED: AtomicUsize = AtomicUsize::new(0);

static DURING_LOAD: Mutex<Option<Box<dyn FnOnce() + Send>>> = Mutex::new(None);

struct TagDeser;

impl Deserialize for TagDeser {
    type Trait = dyn Append;
    type Config = serde_json::Value;
    fn deserialize(&self, config: serde_json::Value, _: &Deserializers) -> anyhow::Result<Box<dyn Append>> {
        let tag = config
            .get("tag")
            .and_then(|t| t.as_u64())
            .ok_or_else(|| anyhow::anyhow!("tag appender needs a numeric `tag`"))?;
        CONSTRUCTED.fetch_add(1, Ordering::SeqCst);
        // kind 6, "edit during load": the configuration file is edited while init_file builds the components
        if let Some(edit) = DURING_LOAD.lock().unwrap().take() {
            edit();
        }
        Ok(Box::new(TagAppender { tag, idx: 0, hook: None, on_drop: None }))
    }
}

fn deserializers() -> Deserializers {
    let mut d = Deserializers::default();
    d.insert("tag", TagDeser);
    d
}

const MT_BASE: i64 = 1_700_000_000;

fn set_mtime(path: &std::path::Path, m: u128) {
    use std::os::unix::ffi::OsStrExt;
    let cpath = std::ffi::CString::new(path.as_os_str().as_bytes()).unwrap();
    let ts = libc::timespec { tv_sec: (MT_BASE + m as i64) as libc::time_t, tv_nsec: 0 };
    let times = [ts, ts];
    let rc = unsafe { libc::utimensat(libc::AT_FDCWD, cpath.as_ptr(), times.as_ptr(), 0) };
    assert_eq!(rc, 0, "utimensat");
}

/// make the path show the given file state (atomically: tmp + rename)
fn apply_file(path: &std::path::Path, texts: &[Val], st: &[Val]) {
    let tmp = path.with_extension("tmp");
    match st[0].n() {
        0 => {
            let _ = std::fs::remove_file(path);
        }
        1 => {
            std::fs::write(&tmp, [0xffu8, 0xfe, 0x00, 0xc3, 0x28]).unwrap();
            set_mtime(&tmp, st[1].n());
            std::fs::rename(&tmp, path).unwrap();
        }
        _ => {
            std::fs::write(&tmp, texts[st[2].u()].l()[0].s()).unwrap();
            set_mtime(&tmp, st[1].n());
            std::fs::rename(&tmp, path).unwrap();
        }
    }
}

fn ext(fmt: u128) -> &'static str {
    match fmt {
        0 => "yaml",
        1 => "json",
        _ => "toml",
    }
}

/// the tag of the configuration `logger` currently routes a root Error record to (0 = nobody)
fn active_tag(logger: &dyn Log) -> u128 {
    drain_deliv();
    log_to(logger, "probe", 1, format_args!("a"));
    let d = drain_deliv();
    match d.as_slice() {
        [(t, _)] => *t as u128,
        [] => 0,
        _ => 999_999,
    }
}

fn empty_logger() -> log4rs::Logger {
    log4rs::Logger::new(
        Config::builder().build(Root::builder().build(log::LevelFilter::Off)).unwrap(),
    )
}

fn run_reload(c: &[Val]) -> Val {
    let fmt = c[1].n();
    let texts = c[2].l();
    let init = c[3].l();
    let dir = tempfile::tempdir().unwrap();
    // the parse table as the real crate sees it (memoised per process: texts recur across cases)
    let mut table = vec![];
    for (i, t) in texts.iter().enumerate() {
        let key = (fmt, t.l()[0].s().to_vec());
        if let Some(v) = PARSED.with(|m| m.borrow().get(&key).cloned()) {
            table.push(v);
            continue;
        }
        let p = dir.path().join(format!("t{}.{}", i, ext(fmt)));
        std::fs::write(&p, t.l()[0].s()).unwrap();
        let lg = empty_logger();
        let v = match log4rs::config::VerifReloader::new(&p, deserializers(), lg.verif_handle()) {
            Ok((_, cfg, rate)) => {
                lg.verif_handle().set_config(cfg);
                let rate = match rate {
                    Some(d) => Val::L(vec![Val::N(d.as_millis())]),
                    None => Val::L(vec![]),
                };
                Val::L(vec![Val::N(active_tag(&lg)), rate])
            }
            Err(_) => Val::L(vec![]),
        };
        PARSED.with(|m| m.borrow_mut().insert(key, v.clone()));
        table.push(v);
    }
    let path = dir.path().join(format!("c.{}", ext(fmt)));
    apply_file(&path, texts, &[Val::N(2), init[0].clone(), init[1].clone()]);
    let logger = empty_logger();
    let (mut rel, cfg, rate) =
        log4rs::config::VerifReloader::new(&path, deserializers(), logger.verif_handle()).expect("initial config");
    logger.verif_handle().set_config(cfg);
    let base = CONSTRUCTED.load(Ordering::SeqCst);
    let mut rate = rate.expect("initial rate");
    let mut running = true;
    let mut out = vec![];
    for st in c[4].l() {
        apply_file(&path, texts, st.l());
        let mut err = 0;
        if running {
            match rel.step(rate) {
                Ok(Some(r)) => rate = r,
                Ok(None) => running = false,
                Err(_) => err = 1,
            }
        }
        out.push(Val::L(vec![
            Val::N(err),
            Val::bool(!running),
            Val::N(rate.as_millis()),
            Val::N(active_tag(&logger)),
            Val::N((CONSTRUCTED.load(Ordering::SeqCst) - base) as u128),
        ]));
    }
    Val::L(vec![Val::L(table), Val::L(out)])
}

/// child process: the real `init_file` + reloader thread
fn run_live(c: &[Val], expect: &[Val]) -> Val {
    let fmt = c[1].n();
    let texts = c[2].l();
    let init = c[3].l();
    let dir = tempfile::tempdir().unwrap();
    let path = dir.path().join(format!("c.{}", ext(fmt)));
    apply_file(&path, texts, &[Val::N(2), init[0].clone(), init[1].clone()]);
    log4rs::init_file(&path, deserializers()).expect("init_file");
    let base = CONSTRUCTED.load(Ordering::SeqCst);
    let obs = |base: usize| -> (u128, u128) {
        (active_tag(log::logger()), (CONSTRUCTED.load(Ordering::SeqCst) - base) as u128)
    };
    let mut prev = obs(base);
    let mut out = vec![];
    for (st, ex) in c[4].l().iter().zip(expect.iter()) {
        apply_file(&path, texts, st.l());
        let want = (ex.l()[0].n(), ex.l()[1].n());
        let mut now;
        if want != prev {
            // a change is expected: wait for it (bounded)
            let deadline = Instant::now() + Duration::from_secs(6);
            loop {
                now = obs(base);
                if now == want || Instant::now() > deadline {
                    break;
                }
                std::thread::sleep(Duration::from_millis(5));
            }
            // and let it settle
            std::thread::sleep(Duration::from_millis(60));
            now = obs(base);
        } else {
            // nothing may change: give the reloader several polls to (wrongly) do something
            std::thread::sleep(Duration::from_millis(350));
            now = obs(base);
        }
        prev = now;
        out.push(Val::L(vec![Val::N(now.0), Val::N(now.1)]));
    }
    Val::L(out)
}

/// is there a thread named as ConfigReloader::start names the refresh thread?
fn refresh_thread_alive() -> bool {
    match std::fs::read_dir("/proc/self/task") {
        Ok(rd) => rd.flatten().any(|e| {
            std::fs::read_to_string(e.path().join("comm")).map(|c| c.trim_end() == "log4rs refresh").unwrap_or(false)
        }),
        Err(_) => true,
    }
}

/// child process, kind 6: the real `init_file` and the real refresh thread, polled in lock step.
/// The `reloader_sleep` hook (commit f2da538) replaces the thread's sleep: the thread reports the
/// interval it wants to sleep and blocks until this driver has made the next edit.  Observed per edit:
/// (stopped, interval asked for after the poll (ms), active configuration, #set_config).  A poll
/// is over when the thread asks to sleep again or when it has ended (no task named "log4rs refresh" is left in
/// /proc/self/task): no time-out decides anything (a 20 s watchdog bounds a thread that does neither).
/// `link` = 1: the path given to init_file is a symbolic link, every edit writes a new file and
/// re-points the link (deletion removes the link).
fn run_live2(c: &[Val], expect: &[Val]) -> Val {
    use std::sync::mpsc;
    let fmt = c[1].n();
    let texts = c[2].l();
    let init = c[3].l();
    let flags = if c.len() > 6 { c[6].n() } else { 0 };
    let link = flags & 1 == 1;
    // flag 2: the FIRST edit of the history is made while init_file is building the components (from inside the
    // deserializer of the document's appender), i.e. after init_file read the text and before it returns; the
    // first poll then finds the file as that edit left it
    let during_load = flags & 2 == 2 && !c[4].l().is_empty();
    let dir = tempfile::tempdir().unwrap();
    let path = dir.path().join(format!("c.{}", ext(fmt)));
    let version = Arc::new(AtomicUsize::new(0));
    let edit = {
        let (path, dirp, texts, version) = (path.clone(), dir.path().to_path_buf(), texts.to_vec(), version.clone());
        move |st: &[Val]| {
            if !link {
                apply_file(&path, &texts, st);
                return;
            }
            let v = version.fetch_add(1, Ordering::SeqCst) + 1;
            // the link's TARGET has a name of its own (no extension of a known format): the format is that of the
            // configured path, the link
            let target = dirp.join(format!("version-{}.data", v));
            let _ = std::fs::remove_file(&path);
            if st[0].n() != 0 {
                apply_file(&target, &texts, st);
                std::os::unix::fs::symlink(&target, &path).unwrap();
            }
        }
    };
    edit(&[Val::N(2), init[0].clone(), init[1].clone()]);
    if during_load {
        let (e2, st) = (edit.clone(), c[4].l()[0].l().to_vec());
        *DURING_LOAD.lock().unwrap() = Some(Box::new(move || e2(&st)));
    }
    let (tx_req, rx_req) = mpsc::channel::<Duration>();
    let (tx_rel, rx_rel) = mpsc::channel::<()>();
    let rx_rel = std::sync::Mutex::new(rx_rel);
    let tx_req = std::sync::Mutex::new(tx_req);
    log4rs::verif_hooks::set_reloader_sleep(Some(Arc::new(move |d: Duration| {
        let _ = tx_req.lock().unwrap().send(d);
        let _ = rx_rel.lock().unwrap().recv();
    })));
    log4rs::init_file(&path, deserializers()).expect("init_file");
    let base = CONSTRUCTED.load(Ordering::SeqCst);
    let mut out = vec![];
    // the interval of the first sleep = the document's refresh rate
    let mut running = match rx_req.recv_timeout(Duration::from_secs(20)) {
        Ok(d) => {
            out.push(Val::L(vec![Val::N(0), Val::N(d.as_millis())]));
            true
        }
        Err(_) => {
            out.push(Val::L(vec![Val::N(1), Val::N(0)]));
            false
        }
    };
    for (n, (st, ex)) in c[4].l().iter().zip(expect.iter()).enumerate() {
        if !(during_load && n == 0) {
            edit(st.l());
        }
        let mut asked = 0u128;
        let _ = ex;
        if running {
            let _ = tx_rel.send(());
            // the poll is over when the thread asks to sleep again, or when it is gone (no task of this process
            // is named "log4rs refresh" any more): both are positive signals, the 20 s bound is only a watchdog
            let deadline = Instant::now() + Duration::from_secs(20);
            loop {
                match rx_req.recv_timeout(Duration::from_millis(2)) {
                    Ok(d) => {
                        asked = d.as_millis();
                        break;
                    }
                    Err(_) => {
                        if !refresh_thread_alive() || Instant::now() > deadline {
                            // a request sent just before the thread went away cannot exist: the thread blocks
                            // in the hook until released
                            running = false;
                            break;
                        }
                    }
                }
            }
        } else {
            std::thread::sleep(Duration::from_millis(20));
        }
        out.push(Val::L(vec![
            Val::bool(!running),
            Val::N(asked),
            Val::N(active_tag(log::logger())),
            Val::N((CONSTRUCTED.load(Ordering::SeqCst) - base) as u128),
        ]));
    }
    Val::L(out)
}

/// child process: the global logger behind the `log` facade
fn run_facade(c: &[Val]) -> Val {
    let cfgs = c[1].l();
    let probes: Vec<(String, u128)> = c[3].l().iter().map(|p| (p.l()[0].str(), p.l()[1].n())).collect();
    let mut handle: Option<log4rs::Handle> = None;
    let mut out = vec![];
    for ci in c[2].l() {
        let cfg = build_config(&cfgs[ci.u()], None, None, None);
        match &handle {
            None => handle = Some(log4rs::init_config(cfg).expect("init_config")),
            Some(h) => h.set_config(cfg),
        }
        let mut step = vec![];
        for (t, l) in &probes {
            drain_deliv();
            log::log!(target: t.as_str(), level(*l), "p");
            step.push(Val::L(
                drain_deliv().into_iter().map(|(t, i)| Val::L(vec![Val::N(t as u128), Val::N(i as u128)])).collect(),
            ));
        }
        out.push(Val::L(step));
    }
    Val::L(out)
}

/// Once per process, before the first case: a reconfiguration during which a component of the OUTGOING configuration
/// panics when it is dropped (the panic reaches set_config's caller, who catches it).  The swap itself has happened;
/// the next reconfiguration - through this or any other handle of the process - works like any other.
fn swap_history() -> Option<String> {
    static DONE: AtomicBool = AtomicBool::new(false);
    if DONE.swap(true, Ordering::SeqCst) {
        return None;
    }
    #[derive(Debug)]
    struct PanicsOnDrop;
    impl Append for PanicsOnDrop {
        fn append(&self, _r: &log::Record) -> anyhow::Result<()> {
            Ok(())
        }
        fn flush(&self) {}
    }
    impl Drop for PanicsOnDrop {
        fn drop(&mut self) {
            if !std::thread::panicking() {
                panic!("an appender that panics when dropped");
            }
        }
    }
    static HITS: AtomicUsize = AtomicUsize::new(0);
    #[derive(Debug)]
    struct Count;
    impl Append for Count {
        fn append(&self, _r: &log::Record) -> anyhow::Result<()> {
            HITS.fetch_add(1, Ordering::SeqCst);
            Ok(())
        }
        fn flush(&self) {}
    }
    let mk = |a: Box<dyn Append>| {
        Config::builder()
            .appender(Appender::builder().build("a", a))
            .build(Root::builder().appender("a").build(log::LevelFilter::Trace))
            .expect("config")
    };
    let lg = log4rs::Logger::new(mk(Box::new(PanicsOnDrop)));
    let h = lg.verif_handle();
    let first = std::panic::catch_unwind(std::panic::AssertUnwindSafe(|| h.set_config(mk(Box::new(Count)))));
    let second = std::panic::catch_unwind(std::panic::AssertUnwindSafe(|| h.set_config(mk(Box::new(Count)))));
    if second.is_err() {
        return Some(format!(
            "set_config after a reconfiguration whose outgoing appender panicked in its Drop (first call {}): the second call panicked",
            if first.is_err() { "unwound" } else { "returned" }
        ));
    }
    log_to(&lg, "probe", 1, format_args!("a"));
    if HITS.load(Ordering::SeqCst) != 1 {
        return Some("after such a reconfiguration a record was not delivered once by the newest configuration".to_string());
    }
    // A flush pass during which an appender's own flush() installs a SMALLER configuration (3 appenders -> 1): the
    // pass works on the one configuration it loaded - every appender of it is flushed once, nothing panics - and
    // records logged afterwards follow the new configuration.
    static FLUSHED: AtomicUsize = AtomicUsize::new(0);
    type Slot = Arc<Mutex<Option<(log4rs::Handle, Config)>>>;
    #[derive(Debug)]
    struct Flusher(Slot);
    impl Append for Flusher {
        fn append(&self, _r: &log::Record) -> anyhow::Result<()> {
            Ok(())
        }
        fn flush(&self) {
            FLUSHED.fetch_add(1, Ordering::SeqCst);
            let armed = self.0.lock().unwrap().take();
            if let Some((h, cfg)) = armed {
                h.set_config(cfg);
            }
        }
    }
    #[derive(Debug)]
    struct Plain;
    impl Append for Plain {
        fn append(&self, _r: &log::Record) -> anyhow::Result<()> {
            Ok(())
        }
        fn flush(&self) {
            FLUSHED.fetch_add(16, Ordering::SeqCst);
        }
    }
    for position in 0..3 {
        FLUSHED.store(0, Ordering::SeqCst);
        HITS.store(0, Ordering::SeqCst);
        let slot: Slot = Arc::new(Mutex::new(None));
        let mut b = Config::builder();
        let mut root = Root::builder();
        for i in 0..3 {
            let a: Box<dyn Append> = if i == position { Box::new(Flusher(slot.clone())) } else { Box::new(Plain) };
            b = b.appender(Appender::builder().build(format!("w{}", i), a));
            root = root.appender(format!("w{}", i));
        }
        let lg = log4rs::Logger::new(b.build(root.build(log::LevelFilter::Trace)).expect("config"));
        *slot.lock().unwrap() = Some((lg.verif_handle(), mk(Box::new(Count))));
        let pass = std::panic::catch_unwind(std::panic::AssertUnwindSafe(|| if position == 1 { Append::flush(&lg) } else { Log::flush(&lg) }));
        if pass.is_err() {
            return Some(format!(
                "Logger::flush panicked: appender {} of 3 installs a configuration with one appender from inside its flush()",
                position
            ));
        }
        if FLUSHED.load(Ordering::SeqCst) != 33 {
            return Some(format!(
                "a flush pass during which appender {} of 3 installs a smaller configuration did not flush each appender of the configuration it started with once (flusher x1 + plain x16 = {}, expected 33)",
                position,
                FLUSHED.load(Ordering::SeqCst)
            ));
        }
        log_to(&lg, "probe", 1, format_args!("b"));
        if HITS.load(Ordering::SeqCst) != 1 {
            return Some("after a configuration installed from inside flush() a record was not delivered once by it".to_string());
        }
    }
    None
}

/// kind 7: ( 7 tag0 n ( (pos kind tag m) ... ) ) - a flush pass over a configuration of `n` appenders (table `tag0`);
/// while appender `pos` is flushed a configuration of `m` appenders (table `tag`) is installed: kind 0 by that
/// appender's own flush(), kind 1 by ANOTHER thread before the appender's flush() returns.  Then a second pass.
/// Result ( ((tag i) ...) ((tag i) ...) ): the flush calls of the first and of the second pass, in order.
fn run_flush(c: &[Val]) -> Val {
    type Events = Arc<Mutex<Vec<(u128, u128)>>>;
    type Slot = Arc<Mutex<Option<log4rs::Handle>>>;
    #[derive(Debug)]
    struct FA {
        tag: u128,
        i: u128,
        ev: Events,
        slot: Slot,
        install: Mutex<Option<(bool, Config)>>,
    }
    impl Append for FA {
        fn append(&self, _r: &log::Record) -> anyhow::Result<()> {
            Ok(())
        }
        fn flush(&self) {
            self.ev.lock().unwrap().push((self.tag, self.i));
            let armed = self.install.lock().unwrap().take();
            if let Some((foreign, cfg)) = armed {
                let h = self.slot.lock().unwrap().clone().expect("handle");
                if foreign {
                    std::thread::spawn(move || h.set_config(cfg)).join().expect("foreign set_config");
                } else {
                    h.set_config(cfg);
                }
            }
        }
    }
    let ev: Events = Arc::new(Mutex::new(vec![]));
    let slot: Slot = Arc::new(Mutex::new(None));
    let mk = |tag: u128, n: usize, insts_taken: &mut Vec<Option<(bool, Config)>>| -> Config {
        let mut b = Config::builder();
        let mut root = Root::builder();
        for i in 0..n {
            let install = if i < insts_taken.len() { insts_taken[i].take() } else { None };
            let a = FA { tag, i: i as u128, ev: ev.clone(), slot: slot.clone(), install: Mutex::new(install) };
            b = b.appender(Appender::builder().build(format!("w{}", i), Box::new(a)));
            root = root.appender(format!("w{}", i));
        }
        b.build(root.build(log::LevelFilter::Trace)).expect("config")
    };
    let tag0 = c[1].n();
    let n = c[2].u();
    // the configurations to be installed (plain appenders: they install nothing themselves)
    let mut per_pos: Vec<Option<(bool, Config)>> = (0..n).map(|_| None).collect();
    for inst in c[3].l() {
        let inst = inst.l();
        let (pos, foreign, tag, m) = (inst[0].u(), inst[1].n() == 1, inst[2].n(), inst[3].u());
        let cfg = mk(tag, m, &mut vec![]);
        if pos < n && per_pos[pos].is_none() {
            per_pos[pos] = Some((foreign, cfg));
        }
    }
    let lg = log4rs::Logger::new(mk(tag0, n, &mut per_pos));
    *slot.lock().unwrap() = Some(lg.verif_handle());
    let p1 = std::panic::catch_unwind(std::panic::AssertUnwindSafe(|| Log::flush(&lg)));
    let cut = ev.lock().unwrap().len();
    let p2 = std::panic::catch_unwind(std::panic::AssertUnwindSafe(|| Log::flush(&lg)));
    if p1.is_err() || p2.is_err() {
        return Val::panic();
    }
    let all = ev.lock().unwrap().clone();
    let enc = |xs: &[(u128, u128)]| Val::L(xs.iter().map(|(t, i)| Val::L(vec![Val::N(*t), Val::N(*i)])).collect());
    Val::L(vec![enc(&all[..cut]), enc(&all[cut..])])
}

fn run(case: &Val) -> Val {
    if let Some(bad) = swap_history() {
        return Val::L(vec![Val::text(&bad)]);
    }
    let c = case.l();
    match c[0].n() {
        0 => run_sched(c),
        1 => run_stress(c),
        2 => run_drop(c),
        3 => run_reload(c),
        7 => run_flush(c),
        _ => Val::text("live-case-needs-child"),
    }
}

fn main() {
    let args: Vec<String> = std::env::args().collect();
    if args.len() > 1 && args[1] == "live" {
        std::panic::set_hook(Box::new(|_| {}));
        let mut lines = vec![];
        for l in std::io::stdin().lines() {
            lines.push(l.unwrap());
        }
        let case = vh::val::parse(&lines[0]);
        let expect = vh::val::parse(&lines[1]);
        let res = match std::panic::catch_unwind(|| run_live(case.l(), expect.l())) {
            Ok(v) => v,
            Err(_) => Val::panic(),
        };
        let mut buf = String::new();
        vh::val::print(&res, &mut buf);
        println!("{}", buf);
        // the reloader thread may still be running
        std::process::exit(0);
    }
    if args.len() > 1 && args[1] == "live2" {
        std::panic::set_hook(Box::new(|_| {}));
        let mut lines = vec![];
        for l in std::io::stdin().lines() {
            lines.push(l.unwrap());
        }
        let case = vh::val::parse(&lines[0]);
        let expect = vh::val::parse(&lines[1]);
        let res = match std::panic::catch_unwind(|| run_live2(case.l(), expect.l())) {
            Ok(v) => v,
            Err(_) => Val::panic(),
        };
        let mut buf = String::new();
        vh::val::print(&res, &mut buf);
        println!("{}", buf);
        // the refresh thread may be blocked in the hook
        std::process::exit(0);
    }
    if args.len() > 1 && args[1] == "facade" {
        std::panic::set_hook(Box::new(|_| {}));
        let mut line = String::new();
        std::io::stdin().read_line(&mut line).unwrap();
        let case = vh::val::parse(&line);
        let res = match std::panic::catch_unwind(|| run_facade(case.l())) {
            Ok(v) => v,
            Err(_) => Val::panic(),
        };
        let mut buf = String::new();
        vh::val::print(&res, &mut buf);
        println!("{}", buf);
        std::process::exit(0);
    }
    vh::main_loop(run);
}
