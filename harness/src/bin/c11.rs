//! C11 — same driver as C09 (pattern construction + encoding under
//! catch_unwind); see c09.rs for the case format.
#[path = "c09.rs"]
mod c09;

fn main() {
    c09::main()
}
