//! C04 — file appender: acknowledged records are visible, whole, ordered, not interleaved.
//! kind 0  (0 enc a pre (op ...))      sequential history; fs::read after the build and after EVERY op
//!         enc 0: scripted multi-chunk encoder, 1: real PatternEncoder "{m}{n}"
//!         a: 1 append / 0 truncate; pre: (0) no file | (1 bytes)
//!         op: (0 (chunk ...)) append | (1 a) drop the appender, build a new one on the same path
//!         result ((ok file) ...)
//! kind 1  (1 a pre yield ((record ...) per thread))   concurrent run on ONE real FileAppender
//!         record = (chunk ...); yield: 0 none, 1 yield_now, 2 sleep 30us between the chunks
//!         result (final-file not-visible-after-return-count)
//! kind 2  (2 cap (resp ...) (op ...))  std BufWriter over a scripted short-writing writer
//!         result ((res inner buffered) ...)
//! kind 3  (3 pre (op ...))   several O_APPEND writers on one path; file read after every op
//!         op: (0 h (chunk ...)) append through appender h | (1 d) external OpenOptions::append write
//!             | (2 h) build appender h in append mode (a previous one in slot h is dropped first)
//!         result (file ...)
use log::Record;
use log4rs::append::file::FileAppender;
use log4rs::append::Append;
use log4rs::encode::pattern::PatternEncoder;
use log4rs::encode::{self, Encode};
use std::cell::RefCell;
use std::io::Write;
use std::path::{Path, PathBuf};
use std::rc::Rc;
use std::sync::{Arc, Barrier};
use vh::val::Val;

/// Encoder that writes, for the record whose message is "t:s", the scripted
/// chunks table[t][s], one write_all per chunk, optionally yielding between them.
#[derive(Debug)]
struct ScriptEncoder {
    table: Arc<Vec<Vec<Vec<Vec<u8>>>>>,
    yield_mode: u8,
}

impl Encode for ScriptEncoder {
    fn encode(&self, w: &mut dyn encode::Write, record: &Record) -> anyhow::Result<()> {
        let msg = record.args().to_string();
        let mut it = msg.split(':');
        let (t, s): (usize, usize) =
            (it.next().expect("t").parse().unwrap(), it.next().expect("s").parse().unwrap());
        let chunks = &self.table[t][s];
        for (i, c) in chunks.iter().enumerate() {
            if i > 0 {
                match self.yield_mode {
                    1 => std::thread::yield_now(),
                    2 => std::thread::sleep(std::time::Duration::from_micros(30)),
                    _ => {}
                }
            }
            if msg.ends_with(":fail") || self.yield_mode == 9 {
                // what a FAILED record leaves on disk is BufWriter's business (Model/BufW.v models write_all)
                w.write_all(c)?;
            } else {
                vh::util::write_varied(w, c, t + s + i)?;
            }
        }
        if msg.ends_with(":fail") {
            // a record that cannot be rendered to its end (sequential histories, op kind 2)
            return Err(vh::util::varied_error("scripted encoder failure".to_string()));
        }
        Ok(())
    }
}

fn chunks_of(v: &Val) -> Vec<Vec<u8>> {
    v.l().iter().map(|c| c.s().to_vec()).collect()
}

fn build(path: &Path, a: bool, enc: Box<dyn Encode>) -> FileAppender {
    FileAppender::builder().encoder(enc).append(a).build(path).expect("build")
}

fn prepare_path(dir: &Path, pre: &Val) -> PathBuf {
    let pre = pre.l();
    if pre[0].n() == 0 {
        // no file, and no directory either: build() must create both
        dir.join("logs").join("nested").join("app.log")
    } else {
        let p = dir.join("app.log");
        std::fs::write(&p, pre[1].s()).unwrap();
        p
    }
}

fn snapshot(ok: bool, path: &Path) -> Val {
    Val::L(vec![Val::bool(ok), Val::S(std::fs::read(path).expect("read log file"))])
}

fn do_append(app: &FileAppender, msg: &str) -> bool {
    app.append(
        &Record::builder()
            .level(log::Level::Info)
            .target("c04")
            .args(format_args!("{}", msg))
            .build(),
    )
    .is_ok()
}

/// the appender of a sequential history: built with the builder, or - every other case with the
/// real pattern encoder - declared in a configuration document (`kind: file`, through
/// FileAppenderDeserializer) and driven through the Logger built from that document
enum SeqApp {
    Direct(FileAppender),
    Declared(log4rs::Logger, Arc<std::sync::atomic::AtomicBool>),
}

impl SeqApp {
    fn declared(path: &Path, a: bool) -> SeqApp {
        let y = format!(
            "appenders:\n  f:\n    kind: file\n    path: {}\n    append: {}\n    encoder:\n      kind: pattern\n      pattern: \"{{m}}{{n}}\"\nroot:\n  level: trace\n  appenders: [f]\n",
            serde_json::to_string(&path.to_string_lossy()).unwrap(),
            a
        );
        let raw: log4rs::config::RawConfig = serde_yaml::from_str(&y).expect("document");
        let (appenders, errors) = raw.appenders_lossy(&log4rs::config::Deserializers::default());
        assert!(errors.is_empty(), "declared file appender was not built");
        let config = log4rs::config::Config::builder()
            .appenders(appenders)
            .build(raw.root())
            .expect("config");
        let failed = Arc::new(std::sync::atomic::AtomicBool::new(false));
        let f2 = failed.clone();
        SeqApp::Declared(
            log4rs::Logger::new_with_err_handler(
                config,
                Box::new(move |_e: &anyhow::Error| f2.store(true, std::sync::atomic::Ordering::SeqCst)),
            ),
            failed,
        )
    }

    fn append(&self, msg: &str) -> bool {
        match self {
            SeqApp::Direct(app) => do_append(app, msg),
            SeqApp::Declared(logger, failed) => {
                use log::Log;
                failed.store(false, std::sync::atomic::Ordering::SeqCst);
                logger.log(&Record::builder().level(log::Level::Info).target("c04").args(format_args!("{}", msg)).build());
                !failed.load(std::sync::atomic::Ordering::SeqCst)
            }
        }
    }
}

fn run_seq(c: &[Val]) -> Val {
    static TURN: std::sync::atomic::AtomicUsize = std::sync::atomic::AtomicUsize::new(0);
    let turn = TURN.fetch_add(1, std::sync::atomic::Ordering::SeqCst);
    let pattern = c[1].n() != 0;
    let declared = pattern && turn % 2 == 1;
    let a = c[2].b();
    let dir = tempfile::tempdir().unwrap();
    let path = prepare_path(dir.path(), &c[3]);
    // The file is read back through a SECOND NAME of it (a hard link made before the appender exists, or
    // right after the build when the appender creates the file) in two cases out of three: "readable by any
    // other reader" includes a reader that knows the file by another name or had it open already; truncate
    // mode empties the file, it does not replace it.
    let alias = dir.path().join("alias-of-the-log");
    let use_alias = turn % 3 != 0;
    if use_alias && path.exists() {
        std::fs::hard_link(&path, &alias).expect("hard link");
    }
    let ops = c[4].l();
    let mut recs: Vec<Vec<Vec<u8>>> = Vec::new();
    for op in ops {
        let op = op.l();
        if op[0].n() == 0 || op[0].n() == 2 {
            recs.push(chunks_of(&op[1]));
        }
    }
    let table = Arc::new(vec![recs.clone()]);
    let mk = |a: bool| -> SeqApp {
        if declared {
            return SeqApp::declared(&path, a);
        }
        let enc: Box<dyn Encode> = if pattern {
            Box::new(PatternEncoder::new("{m}{n}"))
        } else {
            Box::new(ScriptEncoder { table: table.clone(), yield_mode: 0 })
        };
        SeqApp::Direct(build(&path, a, enc))
    };
    let mut out = Vec::new();
    let mut app = Some(mk(a));
    if use_alias && !alias.exists() {
        std::fs::hard_link(&path, &alias).expect("hard link");
    }
    let seen = if use_alias { alias.clone() } else { path.clone() };
    out.push(snapshot(true, &seen));
    let mut seq = 0usize;
    let mut moved = 0usize;
    for op in ops {
        let op = op.l();
        if op[0].n() == 0 {
            let msg = if pattern {
                String::from_utf8(recs[seq].concat()).expect("ascii message")
            } else {
                format!("0:{}", seq)
            };
            let ok = app.as_ref().unwrap().append(&msg);
            seq += 1;
            out.push(snapshot(ok, &seen));
        } else if op[0].n() == 2 {
            // the scripted encoder writes the chunks, then returns Err (scripted encoder only)
            let ok = app.as_ref().unwrap().append(&format!("0:{}:fail", seq));
            seq += 1;
            out.push(snapshot(ok, &seen));
        } else if op[0].n() == 3 {
            // external rotation, then a reload: the file is renamed away, a new appender is built on the path
            // while the old one is still alive, then the old one is dropped
            moved += 1;
            std::fs::rename(&path, dir.path().join(format!("moved-away-{}", moved))).expect("external rotation");
            let fresh = mk(op[1].b());
            drop(app.take());
            app = Some(fresh);
            if use_alias {
                let _ = std::fs::remove_file(&alias);
                std::fs::hard_link(&path, &alias).expect("hard link");
            }
            out.push(snapshot(true, &seen));
        } else {
            drop(app.take());
            app = Some(mk(op[1].b()));
            out.push(snapshot(true, &seen));
        }
    }
    drop(app);
    Val::L(out)
}

fn contains(hay: &[u8], needle: &[u8]) -> bool {
    if needle.is_empty() {
        return true;
    }
    if hay.len() < needle.len() {
        return false;
    }
    let first = needle[0];
    let last = hay.len() - needle.len();
    let mut i = 0;
    while i <= last {
        if hay[i] == first && &hay[i..i + needle.len()] == needle {
            return true;
        }
        i += 1;
    }
    false
}

fn run_conc(c: &[Val]) -> Val {
    let a = c[1].b();
    let dir = tempfile::tempdir().unwrap();
    let path = prepare_path(dir.path(), &c[2]);
    let yield_mode = c[3].n() as u8;
    let table: Vec<Vec<Vec<Vec<u8>>>> =
        c[4].l().iter().map(|t| t.l().iter().map(chunks_of).collect()).collect();
    let table = Arc::new(table);
    let n = table.len();
    let app = Arc::new(build(&path, a, Box::new(ScriptEncoder { table: table.clone(), yield_mode })));
    let barrier = Arc::new(Barrier::new(n));
    let mut hs = Vec::new();
    for t in 0..n {
        let app = app.clone();
        let table = table.clone();
        let barrier = barrier.clone();
        let path = path.clone();
        hs.push(std::thread::spawn(move || -> u128 {
            let mut bad = 0u128;
            let cnt = table[t].len();
            barrier.wait();
            for s in 0..cnt {
                if !do_append(&app, &format!("{}:{}", t, s)) {
                    bad += 1;
                    continue;
                }
                // acknowledged => readable by any other reader (sampled)
                if s % 16 == 0 || s + 1 == cnt {
                    let whole = table[t][s].concat();
                    let file = std::fs::read(&path).expect("read");
                    if !contains(&file, &whole) {
                        bad += 1;
                    }
                }
            }
            bad
        }));
    }
    let mut bad = 0u128;
    for h in hs {
        bad += h.join().expect("writer thread");
    }
    let file = std::fs::read(&path).expect("read final");
    drop(app);
    Val::L(vec![Val::S(file), Val::N(bad)])
}

/// io::Write that accepts scripted lengths (short writes, Ok(0), errors);
/// an exhausted script accepts everything; empty data never consumes an entry.
struct ShortWriter {
    script: std::collections::VecDeque<Option<usize>>,
    out: Rc<RefCell<Vec<u8>>>,
}

impl Write for ShortWriter {
    fn write(&mut self, buf: &[u8]) -> std::io::Result<usize> {
        if buf.is_empty() {
            return Ok(0);
        }
        match self.script.pop_front() {
            None => {
                self.out.borrow_mut().extend_from_slice(buf);
                Ok(buf.len())
            }
            Some(None) => Err(std::io::Error::new(std::io::ErrorKind::Other, "scripted")),
            Some(Some(k)) => {
                let n = k.min(buf.len());
                self.out.borrow_mut().extend_from_slice(&buf[..n]);
                Ok(n)
            }
        }
    }
    fn flush(&mut self) -> std::io::Result<()> {
        Ok(())
    }
}

fn run_bufw(c: &[Val]) -> Val {
    let cap = c[1].u();
    let script = c[2]
        .l()
        .iter()
        .map(|r| {
            let r = r.l();
            if r[0].n() == 0 { Some(r[1].u()) } else { None }
        })
        .collect();
    let out = Rc::new(RefCell::new(Vec::new()));
    let mut bw = std::io::BufWriter::with_capacity(cap, ShortWriter { script, out: out.clone() });
    let mut res = Vec::new();
    for op in c[3].l() {
        let op = op.l();
        let code = match op[0].n() {
            0 => Val::L(vec![Val::bool(bw.write_all(op[1].s()).is_ok())]),
            1 => match bw.write(op[1].s()) {
                Ok(n) => Val::L(vec![Val::N(1), Val::N(n as u128)]),
                Err(_) => Val::L(vec![Val::N(0)]),
            },
            _ => Val::L(vec![Val::bool(bw.flush().is_ok())]),
        };
        res.push(Val::L(vec![code, Val::S(out.borrow().clone()), Val::S(bw.buffer().to_vec())]));
    }
    // the scripted writer would also be hit by BufWriter::drop; detach it
    let (_inner, _buffered) = bw.into_parts();
    Val::L(res)
}

fn run_shared(c: &[Val]) -> Val {
    let dir = tempfile::tempdir().unwrap();
    let path = prepare_path(dir.path(), &c[1]);
    let ops = c[2].l();
    let mut recs: Vec<Vec<Vec<u8>>> = Vec::new();
    for op in ops {
        let op = op.l();
        if op[0].n() == 0 {
            recs.push(chunks_of(&op[2]));
        }
    }
    let table = Arc::new(vec![recs]);
    let mut apps: Vec<Option<FileAppender>> = Vec::new();
    let mut out = Vec::new();
    let mut seq = 0usize;
    for op in ops {
        let op = op.l();
        match op[0].n() {
            0 => {
                let h = op[1].u();
                let ok = do_append(apps[h].as_ref().expect("appender built"), &format!("0:{}", seq));
                assert!(ok, "append failed");
                seq += 1;
            }
            1 => {
                let mut f = std::fs::OpenOptions::new().append(true).open(&path).expect("external open");
                f.write_all(op[1].s()).expect("external write");
            }
            _ => {
                let h = op[1].u();
                while apps.len() <= h {
                    apps.push(None);
                }
                drop(apps[h].take());
                apps[h] = Some(build(&path, true, Box::new(ScriptEncoder { table: table.clone(), yield_mode: 0 })));
            }
        }
        out.push(Val::S(std::fs::read(&path).expect("read log file")));
    }
    drop(apps);
    Val::L(out)
}

/// RLIMIT_FSIZE soft limit (SIGXFSZ ignored): a write beyond it fails with EFBIG - the disk is full; restored on drop
struct FsizeLimit {
    old: libc::rlimit,
}
impl FsizeLimit {
    fn set(bytes: u64) -> FsizeLimit {
        unsafe {
            libc::signal(libc::SIGXFSZ, libc::SIG_IGN);
            let mut old = libc::rlimit { rlim_cur: 0, rlim_max: 0 };
            assert_eq!(libc::getrlimit(libc::RLIMIT_FSIZE, &mut old), 0);
            let new = libc::rlimit { rlim_cur: bytes as libc::rlim_t, rlim_max: old.rlim_max };
            assert_eq!(libc::setrlimit(libc::RLIMIT_FSIZE, &new), 0);
            FsizeLimit { old }
        }
    }
}
impl Drop for FsizeLimit {
    fn drop(&mut self) {
        unsafe {
            libc::setrlimit(libc::RLIMIT_FSIZE, &self.old);
        }
    }
}

/// kind 5  (5 a pre room n_full (record ...))   a disk that is FULL for a while, on the real FileAppender:
///   the appender is built (mode a) over `pre`; while the file may grow by only `room` more bytes the first n_full
///   records are appended (some calls fail), then the limit is lifted and the rest is appended.
///   result ( (ok ...) final-file )  - judged directly: every record whose append returned Ok is in the file, whole,
///   in call order (gen/c04.py `full_disk_oracle`); what a FAILED call leaves behind is not constrained.
fn run_full_disk(c: &[Val]) -> Val {
    let a = c[1].b();
    let dir = tempfile::tempdir().unwrap();
    let path = prepare_path(dir.path(), &c[2]);
    let recs: Vec<Vec<Vec<u8>>> = c[5].l().iter().map(chunks_of).collect();
    let table = Arc::new(vec![recs.clone()]);
    // (yield_mode 9: one write_all per chunk - what a failing call leaves in the BufWriter depends on the size of the
    //  writes, and Model/BufW.v is run on these histories chunk for chunk)
    let app = build(&path, a, Box::new(ScriptEncoder { table, yield_mode: 9 }));
    let size = std::fs::metadata(&path).map(|m| m.len()).unwrap_or(0);
    let mut oks = vec![];
    {
        let _full = FsizeLimit::set(size + c[3].n() as u64);
        for i in 0..c[4].u().min(recs.len()) {
            oks.push(Val::bool(do_append(&app, &format!("0:{}", i))));
        }
    }
    for i in c[4].u().min(recs.len())..recs.len() {
        oks.push(Val::bool(do_append(&app, &format!("0:{}", i))));
    }
    drop(app);
    Val::L(vec![Val::L(oks), Val::S(std::fs::read(&path).expect("read log file"))])
}

fn run(case: &Val) -> Val {
    let c = case.l();
    match c[0].n() {
        0 => run_seq(c),
        5 => run_full_disk(c),
        1 => run_conc(c),
        3 => run_shared(c),
        _ => run_bufw(c),
    }
}

fn main() {
    vh::main_loop(run);
}
