//! C14 — configuration files (YAML / JSON / TOML) vs the equivalent programmatic configuration.
//! case:   ( docs probes files prog )
//!   docs   = ( (ext text) ... )   text carries the placeholder @D@ for the per-load scratch directory
//!   probes = ( (target level msg) ... )          records logged through a non-global Logger::new(config)
//!   files  = ( relpath ... )                     pre-populated with "OLD-CONTENT\n" before every load
//!   prog   = () | ( lconfig )                    the logical configuration to build with the builders
//!   lconfig  = ( refresh root_level (root_app ...) (logger ...) (appender ...) )
//!   logger   = ( name level (app ...) additive )
//!   appender = ( name (threshold_level ...) comp )
//!   comp     = (0 target tty_only enc) | (1 path append enc) | (2 path append enc policy)
//!   enc      = (0 pattern) | (1)                 policy = (0 trigger roller)
//!   trigger  = (0 limit) | (1 unit n modulate delay) | (2 min_size)      roller = (0) | (1 pattern base count)
//! result: ( doc_result ... prog_result )
//!   doc_result  = ( status accessors nerr behaviour refresh strict lossy2 )
//!     status    = 0 load_config_file returned Err | 1 Ok | 2 panicked while loading | 3 panicked while logging
//!     accessors = ( ((appender_name nfilters debug_text) ... sorted) root_level (root_app ...) ((name level (app ...) additive) ... sorted) )
//!     nerr      = number of `log4rs: ` lines the load wrote to stderr (the lossy path's error reports)
//!     behaviour = ( (relpath contents) ... sorted )    files below the scratch directory after logging + drop
//!     refresh   = (0) none | (1 secs nanos) | (2) Err | (3) panic      — VerifReloader::new in a fresh directory
//!     strict    = 0 Err | 1 Ok | 2 panic | 3 not available (TOML: no public strict entry point)
//!                 (serde parse of RawConfig + log4rs::config::create_raw_config in a fresh directory)
//!     lossy2    = () | ( parse_ok n_deser_errs ((kind name) ...) )  RawConfig::appenders_lossy + build_lossy
//!   prog_result = ( status accessors 0 behaviour )
use std::io::Read;
use std::path::{Path, PathBuf};

use log::Log;
use log4rs::append::console::{ConsoleAppender, Target};
use log4rs::append::file::FileAppender;
use log4rs::append::rolling_file::policy::compound::roll::delete::DeleteRoller;
use log4rs::append::rolling_file::policy::compound::roll::fixed_window::FixedWindowRoller;
use log4rs::append::rolling_file::policy::compound::roll::Roll;
use log4rs::append::rolling_file::policy::compound::trigger::onstartup::OnStartUpTrigger;
use log4rs::append::rolling_file::policy::compound::trigger::size::SizeTrigger;
use log4rs::append::rolling_file::policy::compound::trigger::time::{TimeTrigger, TimeTriggerConfig};
use log4rs::append::rolling_file::policy::compound::trigger::Trigger;
use log4rs::append::rolling_file::policy::compound::CompoundPolicy;
use log4rs::append::rolling_file::RollingFileAppender;
use log4rs::append::Append;
use log4rs::config::runtime::ConfigError;
use log4rs::config::{Appender, Config, Deserializers, Logger, RawConfig, Root};
use log4rs::encode::json::JsonEncoder;
use log4rs::encode::pattern::PatternEncoder;
use log4rs::encode::Encode;
use log4rs::filter::threshold::ThresholdFilter;
use vh::util::*;
use vh::val::Val;

const OLD: &[u8] = b"OLD-CONTENT\n";

fn catch<T>(f: impl FnOnce() -> T) -> Option<T> {
    std::panic::catch_unwind(std::panic::AssertUnwindSafe(f)).ok()
}

/// Runs `f` with file descriptor `fd` redirected into `file`; returns f's result and the captured bytes.
fn with_fd<T>(fd: i32, file: &Path, f: impl FnOnce() -> T) -> (T, Vec<u8>) {
    use std::io::Write;
    use std::os::unix::io::AsRawFd;
    let out = std::fs::File::create(file).expect("capture file");
    let saved = unsafe { libc::dup(fd) };
    unsafe { libc::dup2(out.as_raw_fd(), fd) };
    let r = catch(f);
    let _ = std::io::stdout().flush();
    unsafe {
        libc::dup2(saved, fd);
        libc::close(saved);
    }
    drop(out);
    let mut bytes = Vec::new();
    let _ = std::fs::File::open(file).and_then(|mut f| f.read_to_end(&mut bytes));
    match r {
        Some(v) => (v, bytes),
        None => std::panic::resume_unwind(Box::new("inner")),
    }
}

fn with_stderr<T>(file: &Path, f: impl FnOnce() -> T) -> (T, Vec<u8>) {
    with_fd(2, file, f)
}

fn count_reports(bytes: &[u8]) -> u128 {
    String::from_utf8_lossy(bytes)
        .lines()
        .filter(|l| l.starts_with("log4rs: "))
        .count() as u128
}

fn prepare(dir: &Path, files: &[Val]) {
    std::fs::create_dir_all(dir).unwrap();
    for f in files {
        let p = dir.join(f.str());
        if let Some(parent) = p.parent() {
            std::fs::create_dir_all(parent).unwrap();
        }
        std::fs::write(&p, OLD).unwrap();
    }
}

fn walk(base: &Path, dir: &Path, out: &mut Vec<(String, Vec<u8>)>) {
    let rd = match std::fs::read_dir(dir) {
        Ok(r) => r,
        Err(_) => return,
    };
    for e in rd.flatten() {
        let p = e.path();
        if p.is_dir() {
            walk(base, &p, out);
        } else {
            let rel = p.strip_prefix(base).unwrap().to_string_lossy().to_string();
            let mut bytes = std::fs::read(&p).unwrap_or_default();
            if rel.ends_with(".gz") {
                let mut dec = Vec::new();
                if flate2::read::GzDecoder::new(&bytes[..]).read_to_end(&mut dec).is_ok() {
                    bytes = dec;
                }
            }
            out.push((rel, bytes));
        }
    }
}

fn behaviour(dir: &Path) -> Val {
    let mut v = Vec::new();
    walk(dir, dir, &mut v);
    v.sort();
    let ds = dir.to_string_lossy().to_string();
    Val::L(v.into_iter()
        .map(|(n, b)| {
            // contents never mention the scratch directory unless a pattern literal does
            let txt = String::from_utf8_lossy(&b).replace(&ds, "@D@");
            Val::L(vec![Val::text(&n), Val::S(txt.into_bytes())])
        })
        .collect())
}

fn accessors(cfg: &Config, dir: &Path) -> Val {
    let ds = dir.to_string_lossy().to_string();
    // the Debug rendering of the built component and filters is carried along so that the file-loaded
    // objects can be compared with the programmatically built ones (two objects printed by the same
    // binary: no expectation about the Debug text itself is involved)
    let mut apps: Vec<(String, usize, String)> = cfg
        .appenders()
        .iter()
        .map(|a| {
            (
                a.name().to_string(),
                a.filters().len(),
                format!("{:?} {:?}", a.appender(), a.filters()).replace(&ds, "@D@"),
            )
        })
        .collect();
    apps.sort();
    let refs = |v: &[String]| Val::L(v.iter().map(|s| Val::text(s)).collect());
    let mut ls: Vec<&Logger> = cfg.loggers().iter().collect();
    ls.sort_by(|a, b| a.name().cmp(b.name()));
    Val::L(vec![
        Val::L(apps.iter()
            .map(|(n, k, d)| Val::L(vec![Val::text(n), Val::N(*k as u128), Val::text(d)]))
            .collect()),
        Val::N(level_filter_n(cfg.root().level())),
        refs(cfg.root().appenders()),
        Val::L(ls.iter()
            .map(|l| {
                Val::L(vec![
                    Val::text(l.name()),
                    Val::N(level_filter_n(l.level())),
                    refs(l.appenders()),
                    Val::bool(l.additive()),
                ])
            })
            .collect()),
    ])
}

/// Install in a non-global Logger, log the probes, drop; false when anything panicked.
/// stdout / stderr are captured into `@stdout` / `@stderr` below `dir` (console appenders, error handler),
/// which also keeps the harness protocol on stdout clean.
fn drive(cfg: Config, probes: &[Val], dir: &Path) -> bool {
    catch(|| {
        with_fd(1, &dir.join("@stdout"), || {
            with_fd(2, &dir.join("@stderr"), || {
                let logger = log4rs::Logger::new(cfg);
                for p in probes {
                    let p = p.l();
                    let t = p[0].str();
                    let m = p[2].str();
                    logger.log(
                        &log::Record::builder()
                            .level(level(p[1].n()))
                            .target(&t)
                            .args(format_args!("{}", m))
                            .build(),
                    );
                }
                Log::flush(&logger);
                drop(logger);
            })
        })
    })
    .is_some()
}

fn enc_build_errors(errs: &[ConfigError]) -> Val {
    Val::L(errs.iter()
        .map(|e| {
            let (k, n) = match e {
                ConfigError::DuplicateAppenderName(n) => (0, n.clone()),
                ConfigError::NonexistentAppender(n) => (1, n.clone()),
                ConfigError::DuplicateLoggerName(n) => (2, n.clone()),
                ConfigError::InvalidLoggerName(n) => (3, n.clone()),
                _ => (9, String::new()),
            };
            Val::L(vec![Val::N(k), Val::text(&n)])
        })
        .collect())
}

fn parse_raw(ext: &str, text: &str) -> Option<Result<RawConfig, ()>> {
    match ext {
        "yaml" | "yml" => Some(serde_yaml::from_str::<RawConfig>(text).map_err(|_| ())),
        "json" => Some(serde_json::from_str::<RawConfig>(text).map_err(|_| ())),
        _ => None,
    }
}

fn run_doc(root: &Path, k: usize, ext: &str, text: &str, probes: &[Val], files: &[Val]) -> Val {
    let sub = |tag: &str| -> (PathBuf, PathBuf, String) {
        let dir = root.join(format!("d{}{}", k, tag));
        prepare(&dir, files);
        let cfgp = root.join(format!("c{}{}.{}", k, tag, ext));
        let t = text.replace("@D@", &dir.to_string_lossy());
        // every fourth document is reached through a symbolic link whose target's name says nothing (or something
        // else) about the format: the format is that of the path the caller names
        static TURN: std::sync::atomic::AtomicUsize = std::sync::atomic::AtomicUsize::new(0);
        // (counted over the documents that are LOADED FROM THE PATH, tag "a": load_config_file)
        let turn = if tag == "a" { TURN.fetch_add(1, std::sync::atomic::Ordering::SeqCst) % 8 } else { 0 };
        match turn {
            3 => {
                let real = root.join(format!("blob{}{}", k, tag));
                std::fs::write(&real, &t).unwrap();
                std::os::unix::fs::symlink(&real, &cfgp).unwrap();
            }
            7 => {
                let other = if ext == "json" { "yaml" } else { "json" };
                let real = root.join(format!("blob{}{}.{}", k, tag, other));
                std::fs::write(&real, &t).unwrap();
                std::os::unix::fs::symlink(&real, &cfgp).unwrap();
            }
            5 if tag == "a" => {
                // the configured path is a named pipe (a generated configuration, a secrets mount): the document
                // is what can be READ from the path, whatever size the file system reports for it
                use std::os::unix::ffi::OsStrExt;
                let cpath = std::ffi::CString::new(cfgp.as_os_str().as_bytes()).unwrap();
                assert_eq!(unsafe { libc::mkfifo(cpath.as_ptr(), 0o600) }, 0, "mkfifo");
                let (p2, t2) = (cfgp.clone(), t.clone());
                std::thread::spawn(move || {
                    use std::io::Write as _;
                    if let Ok(mut f) = std::fs::OpenOptions::new().write(true).open(&p2) {
                        let _ = f.write_all(t2.as_bytes());
                    }
                });
            }
            _ => std::fs::write(&cfgp, &t).unwrap(),
        }
        (dir, cfgp, t)
    };

    // A: the lossy path proper
    let (dir, cfgp, _) = sub("a");
    let errfile = root.join("stderr.txt");
    let loaded = catch(|| {
        with_stderr(&errfile, || log4rs::config::load_config_file(&cfgp, Deserializers::default()))
    });
    let (status, acc, nerr, beh) = match loaded {
        None => (2u128, Val::L(vec![]), 0, Val::L(vec![])),
        Some((Err(_), _)) => (0, Val::L(vec![]), 0, Val::L(vec![])),
        Some((Ok(cfg), bytes)) => {
            let acc = accessors(&cfg, &dir);
            let ok = drive(cfg, probes, &dir);
            (if ok { 1 } else { 3 }, acc, count_reports(&bytes), behaviour(&dir))
        }
    };

    // B/C: refresh rate, strict path and typed lossy errors, in one further scratch directory.
    // YAML / JSON: the serde front-ends are available to the harness, so RawConfig is parsed directly
    // (RawConfig::refresh_rate, create_raw_config, appenders_lossy + build_lossy).  TOML: the `toml` crate is
    // not a dependency of the harness; the reloader constructor (same parse + deserialize code as
    // load_config_file) yields the refresh rate, and there is no public strict entry point.
    let (_dirb, cfgb, textb) = sub("b");
    let enc_refresh = |r: Option<std::time::Duration>| match r {
        None => Val::L(vec![Val::N(0)]),
        Some(d) => Val::L(vec![Val::N(1), Val::N(d.as_secs() as u128), Val::N(d.subsec_nanos() as u128)]),
    };
    let (refresh, strict, lossy2) = match catch(|| {
        with_stderr(&errfile, || match parse_raw(ext, &textb) {
            None => {
                let dummy = log4rs::Logger::new(
                    Config::builder().build(Root::builder().build(log::LevelFilter::Off)).unwrap(),
                );
                let r = match log4rs::config::VerifReloader::new(&cfgb, Deserializers::default(), dummy.verif_handle()) {
                    Ok((_, _, r)) => enc_refresh(r),
                    Err(_) => Val::L(vec![Val::N(2)]),
                };
                (r, 3u128, None)
            }
            Some(Err(())) => (Val::L(vec![Val::N(2)]), 0, Some(None)),
            Some(Ok(raw)) => {
                let r = enc_refresh(raw.refresh_rate());
                let (apps, mut errs) = raw.appenders_lossy(&Deserializers::default());
                errs.handle();
                let (cfg, berrs) = Config::builder()
                    .appenders(apps)
                    .loggers(raw.loggers())
                    .build_lossy(raw.root());
                drop(cfg);
                let be = enc_build_errors(berrs.errors());
                let strict = match log4rs::config::create_raw_config(raw) {
                    Ok(logger) => {
                        drop(logger);
                        1
                    }
                    Err(_) => 0,
                };
                (r, strict, Some(Some(be)))
            }
        })
    }) {
        None => (Val::L(vec![Val::N(3)]), 2, Val::L(vec![Val::N(2)])),
        Some(((r, st, None), _)) => (r, st, Val::L(vec![])),
        Some(((r, st, Some(None)), _)) => (r, st, Val::L(vec![Val::N(0), Val::N(0), Val::L(vec![])])),
        Some(((r, st, Some(Some(be))), bytes)) => {
            // create_raw_config does not report to stderr: the `log4rs: ` lines are those of errs.handle()
            (r, st, Val::L(vec![Val::N(1), Val::N(count_reports(&bytes)), be]))
        }
    };

    // The other strict entry point, `log4rs::init_raw_config` (once per process: a child process), must take the
    // same decision as create_raw_config; every third document.  A disagreement is reported as strict = 10 + the
    // child's answer (0 Err, 1 Ok, 2 died).
    static TURN: std::sync::atomic::AtomicUsize = std::sync::atomic::AtomicUsize::new(0);
    let mut strict = strict;
    if (strict == 0 || strict == 1) && TURN.fetch_add(1, std::sync::atomic::Ordering::SeqCst) % 3 == 0 {
        let me = std::env::current_exe().expect("own path");
        let child = std::process::Command::new(me)
            .arg("init-raw")
            .arg(ext)
            .arg(&cfgb)
            .stdin(std::process::Stdio::null())
            .stderr(std::process::Stdio::null())
            .output();
        let answer = match child {
            Ok(o) if o.stdout.starts_with(b"init-raw 1") => 1,
            Ok(o) if o.stdout.starts_with(b"init-raw 0") => 0,
            _ => 2,
        };
        if answer != strict {
            strict = 10 + answer;
        }
    }

    Val::L(vec![Val::N(status), acc, Val::N(nerr), beh, refresh, Val::N(strict), lossy2])
}

/// `c14 init-raw <ext> <file>`: the process-global strict entry point
fn init_raw_child(ext: &str, file: &str) -> i32 {
    std::panic::set_hook(Box::new(|_| {}));
    let text = std::fs::read_to_string(file).expect("document");
    let r = std::panic::catch_unwind(|| match parse_raw(ext, &text) {
        Some(Ok(raw)) => {
            if log4rs::init_raw_config(raw).is_ok() {
                1
            } else {
                0
            }
        }
        _ => 0,
    });
    match r {
        Ok(a) => println!("init-raw {}", a),
        Err(_) => println!("init-raw 2"),
    }
    unsafe { libc::_exit(0) }
}

// ---------------------------------------------------------------------------------------------
// the programmatic equivalent

fn mk_encoder(v: &Val, dir: &str) -> Box<dyn Encode> {
    let v = v.l();
    match v[0].n() {
        0 => Box::new(PatternEncoder::new(&v[1].str().replace("@D@", dir))),
        _ => Box::new(JsonEncoder::new()),
    }
}

fn mk_trigger(v: &Val) -> Box<dyn Trigger> {
    let v = v.l();
    match v[0].n() {
        0 => Box::new(SizeTrigger::new(v[1].n() as u64)),
        1 => {
            // TimeTriggerConfig has private fields and no constructor: serde is the only public way
            let unit = ["second", "minute", "hour", "day", "week", "month", "year"][v[1].u()];
            let yaml = format!(
                "interval: \"{} {}\"\nmodulate: {}\nmax_random_delay: {}\n",
                v[2].n(),
                unit,
                v[3].b(),
                v[4].n()
            );
            let cfg: TimeTriggerConfig = serde_yaml::from_str(&yaml).expect("time trigger config");
            Box::new(TimeTrigger::new(cfg))
        }
        _ => Box::new(OnStartUpTrigger::new(v[1].n() as u64)),
    }
}

fn mk_roller(v: &Val, dir: &str) -> anyhow::Result<Box<dyn Roll>> {
    let v = v.l();
    match v[0].n() {
        0 => Ok(Box::new(DeleteRoller::new())),
        _ => Ok(Box::new(
            FixedWindowRoller::builder()
                .base(v[2].n() as u32)
                .build(&v[1].str().replace("@D@", dir), v[3].n() as u32)?,
        )),
    }
}

fn mk_appender(v: &Val, dir: &str) -> anyhow::Result<Box<dyn Append>> {
    let v = v.l();
    match v[0].n() {
        0 => Ok(Box::new(
            ConsoleAppender::builder()
                .target(if v[1].n() == 0 { Target::Stdout } else { Target::Stderr })
                .tty_only(v[2].b())
                .encoder(mk_encoder(&v[3], dir))
                .build(),
        )),
        1 => Ok(Box::new(
            FileAppender::builder()
                .append(v[2].b())
                .encoder(mk_encoder(&v[3], dir))
                .build(v[1].str().replace("@D@", dir))?,
        )),
        _ => {
            let pol = v[4].l();
            let policy = CompoundPolicy::new(mk_trigger(&pol[1]), mk_roller(&pol[2], dir)?);
            Ok(Box::new(
                RollingFileAppender::builder()
                    .append(v[2].b())
                    .encoder(mk_encoder(&v[3], dir))
                    .build(v[1].str().replace("@D@", dir), Box::new(policy))?,
            ))
        }
    }
}

fn run_prog(root: &Path, lc: &Val, probes: &[Val], files: &[Val]) -> Val {
    let dir = root.join("dpp"); // same length as the per-document directories (paths may appear in output)
    prepare(&dir, files);
    let ds = dir.to_string_lossy().to_string();
    let lc = lc.l();
    let built = catch(|| -> anyhow::Result<Config> {
        let mut b = Config::builder();
        for a in lc[4].l() {
            let a = a.l();
            let mut ab = Appender::builder();
            for f in a[1].l() {
                ab = ab.filter(Box::new(ThresholdFilter::new(level_filter(f.n()))));
            }
            b = b.appender(ab.build(a[0].str(), mk_appender(&a[2], &ds)?));
        }
        for l in lc[3].l() {
            let l = l.l();
            let mut lb = Logger::builder().additive(l[3].b());
            for r in l[2].l() {
                lb = lb.appender(r.str());
            }
            b = b.logger(lb.build(l[0].str(), level_filter(l[1].n())));
        }
        let mut rb = Root::builder();
        for r in lc[2].l() {
            rb = rb.appender(r.str());
        }
        Ok(b.build(rb.build(level_filter(lc[1].n())))?)
    });
    match built {
        None => Val::L(vec![Val::N(2), Val::L(vec![]), Val::N(0), Val::L(vec![])]),
        Some(Err(_)) => Val::L(vec![Val::N(0), Val::L(vec![]), Val::N(0), Val::L(vec![])]),
        Some(Ok(cfg)) => {
            let acc = accessors(&cfg, &dir);
            let ok = drive(cfg, probes, &dir);
            Val::L(vec![Val::N(if ok { 1 } else { 3 }), acc, Val::N(0), behaviour(&dir)])
        }
    }
}

fn run(case: &Val) -> Val {
    let c = case.l();
    let root = tempfile::tempdir().expect("tempdir");
    // defensive: a relative path in a document must not escape the scratch area
    let _ = std::env::set_current_dir(root.path());
    let probes = c[1].l();
    let files = c[2].l();
    let mut out = Vec::new();
    for (k, d) in c[0].l().iter().enumerate() {
        let d = d.l();
        out.push(run_doc(root.path(), k, &d[0].str(), &d[1].str(), probes, files));
    }
    if let Some(lc) = c[3].l().first() {
        out.push(run_prog(root.path(), lc, probes, files));
    } else {
        out.push(Val::L(vec![]));
    }
    Val::L(out)
}

fn main() {
    let args: Vec<String> = std::env::args().collect();
    if args.len() == 4 && args[1] == "init-raw" {
        std::process::exit(init_raw_child(&args[2], &args[3]));
    }
    vh::main_loop(run);
}
