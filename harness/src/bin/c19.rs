//! C19 — $ENV{NAME} expansion observed through the three public call sites.
//! case: ( site path env pattern more rolls )      (the model's copy carries a 7th field, see below)
//!   site 0: FileAppender::builder().build(root/path)
//!   site 1: RollingFileAppender::builder().build(root/path, no-op policy)
//!   site 2: FixedWindowRoller::builder().build(root/pattern, count) with count = 1 + len(more), then
//!           `rolls` successive roll(file) calls, the j-th on a fresh file whose content is the
//!           number j.  Archive i goes to expand(pattern with "{}" -> i); `path` is that text for
//!           i = 0 and `more` lists it for i = 1 .. count-1 (used by the model only)
//!   site 10, 11, 12: the same call sites with the path handed over RELATIVE (no temp-root prefix; the
//!           working directory is the temp root during the call), so that the text reaching
//!           expand_env_vars starts with the generated path itself.  The generator uses these only for
//!           cases without any '/' in path and values (nothing can then leave the temp root).
//!   path, pattern: code point lists;  env: ( (name value) ... ) the variables that are set
//! Every variable of the process environment is removed at start-up (TMPDIR excepted), the
//! case's variables are set before and removed after the call.
//! result: ( alnum obs )
//!   alnum: the non-ASCII code points of path/pattern that char::is_alphanumeric accepts
//!          (the oracle the model is run with)
//!   obs: (1 relpath) exactly one regular file below the temp root, at relpath (code points)
//!        (0 n)       n != 1 files appeared
//!        (2)         the builder / a roll returned an error
//!        site 2: (3 ((relpath j) ...)) every regular file below the temp root with the number
//!                it contains (0 if it is not a number), sorted by relpath
use std::path::Path;
use vh::val::Val;

use log4rs::append::file::FileAppender;
use log4rs::append::rolling_file::policy::compound::roll::fixed_window::FixedWindowRoller;
use log4rs::append::rolling_file::policy::compound::roll::Roll;
use log4rs::append::rolling_file::policy::Policy;
use log4rs::append::rolling_file::{LogFile, RollingFileAppender};

#[derive(Debug)]
struct NoPolicy;
impl Policy for NoPolicy {
    fn process(&self, _log: &mut LogFile) -> anyhow::Result<()> {
        Ok(())
    }
    fn is_pre_process(&self) -> bool {
        false
    }
}

fn text_of(cps: &Val) -> String {
    cps.l()
        .iter()
        .map(|c| char::from_u32(c.n() as u32).expect("scalar value"))
        .collect()
}

fn cps_of(s: &str) -> Val {
    Val::L(s.chars().map(|c| Val::N(c as u128)).collect())
}

fn list_files(dir: &Path, out: &mut Vec<std::path::PathBuf>) {
    if let Ok(rd) = std::fs::read_dir(dir) {
        for e in rd.flatten() {
            let p = e.path();
            match e.file_type() {
                Ok(t) if t.is_dir() => list_files(&p, out),
                _ => out.push(p),
            }
        }
    }
}

struct EnvGuard(Vec<String>);
impl Drop for EnvGuard {
    fn drop(&mut self) {
        for n in &self.0 {
            std::env::remove_var(n);
        }
    }
}

/// `( 20 path env .. )`: site 0 (FileAppender) built 200 times, each in a fresh directory, while two OTHER threads keep
/// setting (to the case's value) and removing the FIRST variable of `env`.  Result ( 5 ( relpath ... ) ): the distinct
/// locations at which the file appeared (or "?" where none / several did).
fn run_flapping(c: &[Val]) -> Val {
    use std::sync::atomic::{AtomicBool, Ordering};
    let path = text_of(&c[1]);
    let mut names = vec![];
    for kv in c[2].l() {
        let kv = kv.l();
        std::env::set_var(text_of(&kv[0]), text_of(&kv[1]));
        names.push(text_of(&kv[0]));
    }
    let first = c[2].l()[0].l();
    let (fk, fv) = (text_of(&first[0]), text_of(&first[1]));
    let _guard = EnvGuard(names);
    let stop = std::sync::Arc::new(AtomicBool::new(false));
    let st = stop.clone();
    // two threads: whatever the scheduler does, the variable changes state many times during one expansion
    let flappers: Vec<_> = (0..2)
        .map(|_| {
            let (st, fk, fv) = (st.clone(), fk.clone(), fv.clone());
            std::thread::spawn(move || {
                while !st.load(Ordering::Relaxed) {
                    std::env::remove_var(&fk);
                    std::env::set_var(&fk, &fv);
                }
            })
        })
        .collect();
    let mut seen: Vec<String> = vec![];
    for _ in 0..200 {
        let root = tempfile::tempdir().expect("tempdir");
        let full = format!("{}/{}", root.path().to_str().expect("utf8 temp root"), path);
        let built = FileAppender::builder().build(full);
        drop(built);
        let mut files = vec![];
        list_files(root.path(), &mut files);
        let at = if files.len() == 1 {
            files[0].strip_prefix(root.path()).expect("below root").to_str().unwrap_or("?").to_string()
        } else {
            "?".to_string()
        };
        if !seen.contains(&at) {
            seen.push(at);
        }
    }
    stop.store(true, Ordering::Relaxed);
    for f in flappers {
        let _ = f.join();
    }
    seen.sort();
    Val::L(vec![Val::N(5), Val::L(seen.iter().map(|p| cps_of(p)).collect())])
}

fn run(case: &Val) -> Val {
    let c = case.l();
    if c[0].n() == 20 {
        return run_flapping(c);
    }
    let rel = c[0].n() >= 10;
    let site = c[0].n() % 10;
    let path = text_of(&c[1]);
    let pattern = text_of(&c[3]);
    let mut alnum: Vec<u32> = path
        .chars()
        .chain(pattern.chars())
        .filter(|ch| !ch.is_ascii() && ch.is_alphanumeric())
        .map(|ch| ch as u32)
        .collect();
    alnum.sort();
    alnum.dedup();
    let alnum = Val::L(alnum.into_iter().map(|u| Val::N(u as u128)).collect());

    let mut names = vec![];
    for kv in c[2].l() {
        let kv = kv.l();
        let (k, v) = (text_of(&kv[0]), text_of(&kv[1]));
        std::env::set_var(&k, &v);
        names.push(k);
    }
    // 7th field: variables whose value is not valid UTF-8 (`std::env::var` fails on them: not set, for the crate)
    if c.len() > 6 {
        use std::os::unix::ffi::OsStrExt;
        for nm in c[6].l() {
            let k = text_of(nm);
            std::env::set_var(&k, std::ffi::OsStr::from_bytes(b"raw\xffvalue"));
            names.push(k);
        }
    }
    let _guard = EnvGuard(names);

    let root = tempfile::tempdir().expect("tempdir");
    let root_s = root.path().to_str().expect("utf8 temp root").to_string();
    let at = |p: &str| if rel { p.to_string() } else { format!("{}/{}", root_s, p) };
    struct CwdGuard(bool);
    impl Drop for CwdGuard {
        fn drop(&mut self) {
            if self.0 {
                let _ = std::env::set_current_dir("/");
            }
        }
    }
    if rel {
        assert!(!path.contains('/') && !pattern.contains('/'), "relative mode: no separators");
        std::env::set_current_dir(root.path()).expect("chdir into temp root");
    }
    let _cwd = CwdGuard(rel);
    // What a case does not say and must not matter: the appender / roller is built by its builder, or DECLARED in a
    // configuration document and built by the deserializer registered for its kind (every third case): the same
    // path text, expanded the same single time.
    static TURN: std::sync::atomic::AtomicUsize = std::sync::atomic::AtomicUsize::new(0);
    let declared = TURN.fetch_add(1, std::sync::atomic::Ordering::SeqCst) % 3 == 1;
    let jstr = |t: &str| serde_json::to_string(t).expect("json string");
    let ok = match site {
        0 if declared => {
            let doc = format!("{{\"path\": {}}}", jstr(&at(&path)));
            log4rs::config::Deserializers::default()
                .deserialize::<dyn log4rs::append::Append>("file", serde_json::from_str(&doc).expect("document"))
                .is_ok()
        }
        1 if declared => {
            let doc = format!(
                "{{\"path\": {}, \"policy\": {{\"trigger\": {{\"kind\": \"size\", \"limit\": \"1 gb\"}}, \"roller\": {{\"kind\": \"delete\"}}}}}}",
                jstr(&at(&path))
            );
            log4rs::config::Deserializers::default()
                .deserialize::<dyn log4rs::append::Append>("rolling_file", serde_yaml::from_str(&doc).expect("document"))
                .is_ok()
        }
        0 => FileAppender::builder()
            .build(at(&path))
            .is_ok(),
        1 => RollingFileAppender::builder()
            .build(at(&path), Box::new(NoPolicy))
            .is_ok(),
        _ => {
            let count = 1 + c[4].l().len() as u32;
            let rolls = c[5].n();
            let src_dir = tempfile::tempdir().expect("tempdir");
            let src = src_dir.path().join("active.log");
            // the pattern is expanded when the roller ROLLS: while it is built the variables hold other values
            let pairs: Vec<(String, String)> =
                c[2].l().iter().map(|kv| (text_of(&kv.l()[0]), text_of(&kv.l()[1]))).collect();
            for (k, _) in &pairs {
                std::env::set_var(k, "decoy-at-build-time");
            }
            let built: anyhow::Result<Box<dyn log4rs::append::rolling_file::policy::compound::roll::Roll>> = if declared {
                let doc = format!("{{\"pattern\": {}, \"count\": {}}}", jstr(&at(&pattern)), count);
                log4rs::config::Deserializers::default().deserialize("fixed_window", serde_json::from_str(&doc).expect("document"))
            } else {
                FixedWindowRoller::builder().build(&at(&pattern), count).map(|r| Box::new(r) as _)
            };
            for (k, v) in &pairs {
                std::env::set_var(k, v);
            }
            match built {
                Ok(r) => {
                    let mut ok = true;
                    for j in 1..=rolls {
                        std::fs::write(&src, format!("{}", j)).expect("write source");
                        if r.roll(&src).is_err() {
                            ok = false;
                            break;
                        }
                        // `background_rotation` build: roll() has moved the file to a temporary name next to it and
                        // a thread does the rest; that thread's last action moves the temporary file away
                        if cfg!(feature = "background_rotation") {
                            let t0 = std::time::Instant::now();
                            while std::fs::read_dir(src_dir.path()).map(|d| d.count()).unwrap_or(0) > 0
                                && t0.elapsed() < std::time::Duration::from_secs(5)
                            {
                                std::thread::sleep(std::time::Duration::from_micros(200));
                            }
                        }
                    }
                    ok
                }
                Err(_) => false,
            }
        }
    };
    let obs = if !ok {
        Val::L(vec![Val::N(2)])
    } else if site == 2 {
        let mut files = vec![];
        list_files(root.path(), &mut files);
        let mut items: Vec<(String, u128)> = files
            .iter()
            .map(|f| {
                let rel = f.strip_prefix(root.path()).expect("below root");
                let n = std::fs::read_to_string(f)
                    .ok()
                    .and_then(|t| t.trim().parse::<u128>().ok())
                    .unwrap_or(0);
                (rel.to_str().expect("utf8 file name").to_string(), n)
            })
            .collect();
        items.sort();
        Val::L(vec![
            Val::N(3),
            Val::L(items.iter().map(|(p, n)| Val::L(vec![cps_of(p), Val::N(*n)])).collect()),
        ])
    } else {
        let mut files = vec![];
        list_files(root.path(), &mut files);
        if files.len() == 1 {
            let rel = files[0].strip_prefix(root.path()).expect("below root");
            Val::L(vec![Val::N(1), cps_of(rel.to_str().expect("utf8 file name"))])
        } else {
            Val::L(vec![Val::N(0), Val::N(files.len() as u128)])
        }
    };
    Val::L(vec![alnum, obs])
}

fn main() {
    let keep = ["TMPDIR"];
    let all: Vec<_> = std::env::vars_os().map(|(k, _)| k).collect();
    for k in all {
        if !keep.iter().any(|x| k == std::ffi::OsStr::new(x)) {
            std::env::remove_var(&k);
        }
    }
    // an unrelated variable whose VALUE is not valid Unicode (and one whose NAME is not): the expansion looks
    // up the variables a path names, it has no business with the rest of the environment
    {
        use std::os::unix::ffi::OsStrExt;
        std::env::set_var("C19_OPAQUE", std::ffi::OsStr::from_bytes(b"\xff\xfe bytes"));
        std::env::set_var(std::ffi::OsStr::from_bytes(b"C19_\xe9_NAME"), "v");
    }
    vh::main_loop(run);
}
