//! C19 — $ENV{NAME} expansion observed through the three public call sites.
//! case: ( site path env pattern )      (the model's copy carries a 5th field, see below)
//!   site 0: FileAppender::builder().build(root/path)
//!   site 1: RollingFileAppender::builder().build(root/path, no-op policy)
//!   site 2: FixedWindowRoller::builder().build(root/pattern, 1) then roll(file): the archive
//!           goes to expand(pattern with "{}" -> "0"); `path` is that substituted text
//!   path, pattern: code point lists;  env: ( (name value) ... ) the variables that are set
//! Every variable of the process environment is removed at start-up (TMPDIR excepted), the
//! case's variables are set before and removed after the call.
//! result: ( alnum obs )
//!   alnum: the non-ASCII code points of path/pattern that char::is_alphanumeric accepts
//!          (the oracle the model is run with)
//!   obs: (1 relpath) exactly one regular file below the temp root, at relpath (code points)
//!        (0 n)       n != 1 files appeared
//!        (2)         the builder / roll returned an error
use std::path::Path;
use vh::val::Val;

use log4rs::append::file::FileAppender;
use log4rs::append::rolling_file::policy::compound::roll::fixed_window::FixedWindowRoller;
use log4rs::append::rolling_file::policy::compound::roll::Roll;
use log4rs::append::rolling_file::policy::Policy;
use log4rs::append::rolling_file::{LogFile, RollingFileAppender};

#[derive(Debug)]
struct NoPolicy;
impl Policy for NoPolicy {
    fn process(&self, _log: &mut LogFile) -> anyhow::Result<()> {
        Ok(())
    }
    fn is_pre_process(&self) -> bool {
        false
    }
}

fn text_of(cps: &Val) -> String {
    cps.l()
        .iter()
        .map(|c| char::from_u32(c.n() as u32).expect("scalar value"))
        .collect()
}

fn cps_of(s: &str) -> Val {
    Val::L(s.chars().map(|c| Val::N(c as u128)).collect())
}

fn list_files(dir: &Path, out: &mut Vec<std::path::PathBuf>) {
    if let Ok(rd) = std::fs::read_dir(dir) {
        for e in rd.flatten() {
            let p = e.path();
            match e.file_type() {
                Ok(t) if t.is_dir() => list_files(&p, out),
                _ => out.push(p),
            }
        }
    }
}

struct EnvGuard(Vec<String>);
impl Drop for EnvGuard {
    fn drop(&mut self) {
        for n in &self.0 {
            std::env::remove_var(n);
        }
    }
}

fn run(case: &Val) -> Val {
    let c = case.l();
    let site = c[0].n();
    let path = text_of(&c[1]);
    let pattern = text_of(&c[3]);
    let mut alnum: Vec<u32> = path
        .chars()
        .chain(pattern.chars())
        .filter(|ch| !ch.is_ascii() && ch.is_alphanumeric())
        .map(|ch| ch as u32)
        .collect();
    alnum.sort();
    alnum.dedup();
    let alnum = Val::L(alnum.into_iter().map(|u| Val::N(u as u128)).collect());

    let mut names = vec![];
    for kv in c[2].l() {
        let kv = kv.l();
        let (k, v) = (text_of(&kv[0]), text_of(&kv[1]));
        std::env::set_var(&k, &v);
        names.push(k);
    }
    let _guard = EnvGuard(names);

    let root = tempfile::tempdir().expect("tempdir");
    let root_s = root.path().to_str().expect("utf8 temp root").to_string();
    let ok = match site {
        0 => FileAppender::builder()
            .build(format!("{}/{}", root_s, path))
            .is_ok(),
        1 => RollingFileAppender::builder()
            .build(format!("{}/{}", root_s, path), Box::new(NoPolicy))
            .is_ok(),
        _ => {
            let src_dir = tempfile::tempdir().expect("tempdir");
            let src = src_dir.path().join("active.log");
            std::fs::write(&src, b"x\n").expect("write source");
            match FixedWindowRoller::builder().build(&format!("{}/{}", root_s, pattern), 1) {
                Ok(r) => r.roll(&src).is_ok(),
                Err(_) => false,
            }
        }
    };
    let obs = if !ok {
        Val::L(vec![Val::N(2)])
    } else {
        let mut files = vec![];
        list_files(root.path(), &mut files);
        if files.len() == 1 {
            let rel = files[0].strip_prefix(root.path()).expect("below root");
            Val::L(vec![Val::N(1), cps_of(rel.to_str().expect("utf8 file name"))])
        } else {
            Val::L(vec![Val::N(0), Val::N(files.len() as u128)])
        }
    };
    Val::L(vec![alnum, obs])
}

fn main() {
    let keep = ["TMPDIR"];
    let all: Vec<_> = std::env::vars_os().map(|(k, _)| k).collect();
    for k in all {
        if !keep.iter().any(|x| k == std::ffi::OsStr::new(x)) {
            std::env::remove_var(&k);
        }
    }
    vh::main_loop(run);
}
