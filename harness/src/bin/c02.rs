//! C02 — level gating through the REAL global plumbing of the `log` facade.
//! case: ( (cfg ...) ((target level) ...) )
//!       cfg = ( (appname ...) (rootlevel (appname ...)) ((name level additive (appname ...)) ...) )
//! The first cfg is installed with `log4rs::init_config` (global logger, once per
//! process), every further one with `handle.set_config`.  After EVERY step:
//!   log::max_level(), Logger::max_log_level() of a logger built from the same cfg,
//!   and per probe: log::logger().enabled(..), log_enabled!(target: ..), and the
//!   appenders reached by log!(target: .., level, ..).
//! result: per step ( global_max reported_max ( (logger_enabled macro_enabled (idx ...)) ... ) );
//!         ("err" 1) when a cfg does not build, ("err" 2) when the global logger was
//!         already installed in this process.
//!
//! The global logger can be installed once per process: `c02 --one` handles exactly
//! one case line; without arguments every input line is handed to a fresh
//! `c02 --one` child (gen/c02.py spawns the children itself, in parallel).
use log4rs::config::{Appender, Config, Logger, Root};
use std::io::{BufRead, Write};
use std::process::{Command, Stdio};
use vh::util::*;
use vh::val::{self, Val};

fn build_config(c: &Val, rec: &Rec) -> Option<Config> {
    let c = c.l();
    let mut builder = Config::builder();
    for (i, a) in c[0].l().iter().enumerate() {
        builder = builder.appender(Appender::builder().build(
            a.str(),
            Box::new(RecAppender { idx: i, fails: false, rec: rec.clone() }),
        ));
    }
    for lg in c[2].l() {
        let lg = lg.l();
        let mut lb = Logger::builder().additive(lg[2].b());
        for a in lg[3].l() {
            lb = lb.appender(a.str());
        }
        builder = builder.logger(lb.build(lg[0].str(), level_filter(lg[1].n())));
    }
    let r = c[1].l();
    let mut root = Root::builder();
    for a in r[1].l() {
        root = root.appender(a.str());
    }
    builder.build(root.build(level_filter(r[0].n()))).ok()
}

fn run(case: &Val) -> Val {
    let c = case.l();
    let probes = c[1].l();
    let rec = new_rec();
    let sink = new_rec();
    let mut handle: Option<log4rs::Handle> = None;
    let mut out = vec![];
    for cfg in c[0].l() {
        let config = match build_config(cfg, &rec) {
            Some(c) => c,
            None => return Val::err(1),
        };
        // what the logger itself reports for this configuration (not installed)
        let reported = match build_config(cfg, &sink) {
            Some(c) => level_filter_n(log4rs::Logger::new(c).max_log_level()),
            None => return Val::err(1),
        };
        match &handle {
            None => match log4rs::init_config(config) {
                Ok(h) => handle = Some(h),
                Err(_) => return Val::err(2),
            },
            Some(h) => h.set_config(config),
        }
        let gmax = level_filter_n(log::max_level());
        let mut obs = vec![];
        for p in probes {
            let p = p.l();
            let target = p[0].str();
            let lvl = level(p[1].n());
            let le = log::logger().enabled(&log::Metadata::builder().level(lvl).target(&target).build());
            let me = log::log_enabled!(target: &target, lvl);
            rec.lock().unwrap().clear();
            log::log!(target: &target, lvl, "m");
            let ev = rec.lock().unwrap();
            obs.push(Val::L(vec![
                Val::bool(le),
                Val::bool(me),
                Val::L(ev.iter().map(|e| e.l()[1].clone()).collect()),
            ]));
        }
        out.push(Val::L(vec![Val::N(gmax), Val::N(reported), Val::L(obs)]));
    }
    Val::L(out)
}

fn main() {
    if std::env::args().any(|a| a == "--one") {
        vh::main_loop(run);
        return;
    }
    // one fresh process per case
    let exe = std::env::current_exe().expect("current_exe");
    let stdin = std::io::stdin();
    let stdout = std::io::stdout();
    for line in stdin.lock().lines() {
        let line = line.expect("stdin");
        if line.trim().is_empty() {
            continue;
        }
        let mut child = Command::new(&exe)
            .arg("--one")
            .stdin(Stdio::piped())
            .stdout(Stdio::piped())
            .stderr(Stdio::null())
            .spawn()
            .expect("spawn");
        child.stdin.take().unwrap().write_all(format!("{}\n", line).as_bytes()).ok();
        let o = child.wait_with_output().expect("wait");
        let text = String::from_utf8_lossy(&o.stdout);
        let first = text.lines().next().unwrap_or("");
        let mut lock = stdout.lock();
        if first.is_empty() {
            let mut buf = String::new();
            val::print(&Val::S(b"abort".to_vec()), &mut buf);
            writeln!(lock, "{}", buf).unwrap();
        } else {
            writeln!(lock, "{}", first).unwrap();
        }
        lock.flush().unwrap();
    }
}
