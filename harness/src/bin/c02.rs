//! C02 — level gating through the REAL global plumbing of the `log` facade.
//! case: ( (step ...) ((target level) ...) )
//!       step = ( (appname ...) (rootlevel (appname ...)) ((name level additive (appname ...)) ...)
//!                tweak dropprobe )
//!       tweak     = () | (level): after `build()`, `config.root_mut().set_level(level)` (the only
//!                   post-build mutator of the public API) before the config is installed
//!       dropprobe = () | (target level): appender 0 of this step's config logs this record through
//!                   `log!` from its `Drop` — that runs inside the NEXT step's `set_config`, when the
//!                   previous SharedLogger is released (same-thread re-entrancy)
//! The first step is installed with `log4rs::init_config` (global logger, once per
//! process), every further one with `handle.set_config`.  After EVERY step:
//!   log::max_level(), Logger::max_log_level() of a logger built from the same cfg,
//!   and per probe: log::logger().enabled(..), log_enabled!(target: ..), and the
//!   appenders reached by log!(target: .., level, ..).
//! result: per step ( global_max reported_max ( (logger_enabled macro_enabled (idx ...)) ... ) drop );
//!         drop = () | ((idx ...)) what the previous step's drop probe reached;
//!         ("err" 1) when a cfg does not build, ("err" 2) when the global logger was
//!         already installed in this process.
//!
//! The global logger can be installed once per process: `c02 --one` handles exactly
//! one case line; without arguments every input line is handed to a fresh
//! `c02 --one` child (gen/c02.py spawns the children itself, in parallel).
use log4rs::config::{Appender, Config, Logger, Root};
use std::io::{BufRead, Write};
use std::process::{Command, Stdio};
use std::sync::{Arc, Mutex};
use vh::util::*;
use vh::val::{self, Val};

type DropLog = Arc<Mutex<Vec<Vec<Val>>>>;

/// Records each `append` as its index; when it carries a probe it logs that probe
/// through the `log!` macro from its `Drop` and notes which appenders the probe reached.
#[derive(Debug)]
struct ProbeAppender {
    idx: usize,
    rec: Rec,
    probe: Option<(String, log::Level)>,
    drops: DropLog,
}

impl log4rs::append::Append for ProbeAppender {
    fn append(&self, _record: &log::Record) -> anyhow::Result<()> {
        self.rec.lock().unwrap().push(Val::N(self.idx as u128));
        Ok(())
    }
    fn flush(&self) {}
}

impl Drop for ProbeAppender {
    fn drop(&mut self) {
        if let Some((target, lvl)) = self.probe.take() {
            let before = self.rec.lock().unwrap().len();
            log::log!(target: &target, lvl, "drop-probe");
            let got: Vec<Val> = self.rec.lock().unwrap()[before..].to_vec();
            self.drops.lock().unwrap().push(got);
        }
    }
}

/// `with_probe`: None = plain recording appenders (for the not-installed twin logger).
fn build_config(c: &Val, rec: &Rec, drops: Option<&DropLog>) -> Option<Config> {
    let c = c.l();
    let probe = match (drops, c.get(4)) {
        (Some(_), Some(p)) if p.l().len() == 2 => Some((p.l()[0].str(), level(p.l()[1].n()))),
        _ => None,
    };
    let dl: DropLog = drops.cloned().unwrap_or_else(|| Arc::new(Mutex::new(vec![])));
    let apps = c[0]
        .l()
        .iter()
        .enumerate()
        .map(|(i, a)| {
            Appender::builder().build(
                a.str(),
                Box::new(ProbeAppender {
                    idx: i,
                    rec: rec.clone(),
                    probe: if i == 0 { probe.clone() } else { None },
                    drops: dl.clone(),
                }),
            )
        })
        .collect();
    let loggers = c[2]
        .l()
        .iter()
        .map(|lg| {
            let lg = lg.l();
            (lg[0].str(), level_filter(lg[1].n()), lg[2].b(), lg[3].l().iter().map(|a| a.str()).collect())
        })
        .collect();
    let r = c[1].l();
    let (builder, root) = assemble(apps, loggers, level_filter(r[0].n()), r[1].l().iter().map(|a| a.str()).collect());
    let mut config = builder.build(root).ok()?;
    // post-build mutation through the public API
    if let Some(t) = c.get(3) {
        if let Some(l) = t.l().first() {
            config.root_mut().set_level(level_filter(l.n()));
        }
    }
    Some(config)
}

fn run(case: &Val) -> Val {
    let c = case.l();
    let probes = c[1].l();
    let rec = new_rec();
    let sink = new_rec();
    let drops: DropLog = Arc::new(Mutex::new(vec![]));
    let mut handle: Option<log4rs::Handle> = None;
    let mut out = vec![];
    for cfg in c[0].l() {
        let config = match build_config(cfg, &rec, Some(&drops)) {
            Some(c) => c,
            None => return Val::err(1),
        };
        // what the logger itself reports for this configuration (not installed)
        let reported = match build_config(cfg, &sink, None) {
            Some(c) => level_filter_n(log4rs::Logger::new(c).max_log_level()),
            None => return Val::err(1),
        };
        drops.lock().unwrap().clear();
        match &handle {
            None => {
                // whatever the facade's global maximum was before log4rs is initialised (another library, user code,
                // an earlier logger's leftover): initialisation installs the configuration's own maximum
                let lgs = cfg.l()[2].l().len() + probes.len();
                log::set_max_level(
                    [log::LevelFilter::Off, log::LevelFilter::Error, log::LevelFilter::Warn, log::LevelFilter::Trace, log::LevelFilter::Info]
                        [lgs % 5],
                );
                match log4rs::init_config(config) {
                    Ok(h) => handle = Some(h),
                    Err(_) => return Val::err(2),
                }
            }
            Some(h) => {
                // a foreign write to the facade's global maximum (another library, user code) right
                // before the reconfiguration: set_config installs the new configuration's own maximum
                // whatever the value was
                log::set_max_level(if out.len() % 2 == 0 { log::LevelFilter::Off } else { log::LevelFilter::Trace });
                h.set_config(config)
            }
        }
        // drop probes of the previous configuration ran inside set_config
        let dropped = Val::L(drops.lock().unwrap().iter().map(|d| Val::L(d.clone())).collect());
        let gmax = level_filter_n(log::max_level());
        let mut obs = vec![];
        for p in probes {
            let p = p.l();
            let target = p[0].str();
            let lvl = level(p[1].n());
            let le = log::logger().enabled(&log::Metadata::builder().level(lvl).target(&target).build());
            let me = log::log_enabled!(target: &target, lvl);
            rec.lock().unwrap().clear();
            log::log!(target: &target, lvl, "m");
            let ev = rec.lock().unwrap().clone();
            // the same (target, level) as a hand-built record whose OTHER metadata name configured loggers (module
            // path = the name of a configured logger, file and line set): only target and level decide
            let lgs = cfg.l()[2].l();
            let decoy: Option<String> = lgs.get(obs.len() % lgs.len().max(1)).map(|lg| lg.l()[0].str());
            rec.lock().unwrap().clear();
            if (lvl as usize) <= (log::max_level() as usize) {
                log::logger().log(
                    &log::Record::builder()
                        .level(lvl)
                        .target(&target)
                        .module_path(decoy.as_deref())
                        .file(decoy.as_deref())
                        .line(Some(7))
                        .args(format_args!("m"))
                        .build(),
                );
            }
            let ev2 = rec.lock().unwrap().clone();
            let mut ev = ev;
            if ev2 != ev {
                // shows up as a delivery the model does not know
                ev.push(Val::text("a record with the same target and level but another module path was delivered differently"));
            }
            obs.push(Val::L(vec![Val::bool(le), Val::bool(me), Val::L(ev.clone())]));
        }
        out.push(Val::L(vec![Val::N(gmax), Val::N(reported), Val::L(obs), dropped]));
    }
    Val::L(out)
}

fn main() {
    if std::env::args().any(|a| a == "--one") {
        vh::main_loop(run);
        return;
    }
    // one fresh process per case
    let exe = std::env::current_exe().expect("current_exe");
    let stdin = std::io::stdin();
    let stdout = std::io::stdout();
    for line in stdin.lock().lines() {
        let line = line.expect("stdin");
        if line.trim().is_empty() {
            continue;
        }
        let mut child = Command::new(&exe)
            .arg("--one")
            .stdin(Stdio::piped())
            .stdout(Stdio::piped())
            .stderr(Stdio::null())
            .spawn()
            .expect("spawn");
        child.stdin.take().unwrap().write_all(format!("{}\n", line).as_bytes()).ok();
        let o = child.wait_with_output().expect("wait");
        let text = String::from_utf8_lossy(&o.stdout);
        let first = text.lines().next().unwrap_or("");
        let mut lock = stdout.lock();
        if first.is_empty() {
            let mut buf = String::new();
            val::print(&Val::S(b"abort".to_vec()), &mut buf);
            writeln!(lock, "{}", buf).unwrap();
        } else {
            writeln!(lock, "{}", first).unwrap();
        }
        lock.flush().unwrap();
    }
}
