//! C11 driver (not yet implemented).
use crate::val::Val;

pub fn run(_case: &Val) -> Val {
    Val::S(b"unimplemented".to_vec())
}
