//! vh — harness driving the real log4rs crate (path dependency on /repo) on
//! generated cases. `vh <prop>` reads one case per line on stdin and prints
//! one observation per line on stdout, in the shared value syntax.
mod val;
mod util;
mod c01; mod c02; mod c03; mod c04; mod c05; mod c06; mod c07; mod c08; mod c09; mod c10;
mod c11; mod c12; mod c13; mod c14; mod c15; mod c16; mod c17; mod c18; mod c19; mod c20;

use std::io::{BufRead, Write};
use val::Val;

fn main() {
    let args: Vec<String> = std::env::args().collect();
    if args.len() < 2 {
        eprintln!("usage: vh <prop> [args]");
        std::process::exit(2);
    }
    // quiet panics: they are observations, reported in the result value
    std::panic::set_hook(Box::new(|_| {}));
    let f: fn(&Val) -> Val = match args[1].as_str() {
        "c01" => c01::run, "c02" => c02::run, "c03" => c03::run, "c04" => c04::run,
        "c05" => c05::run, "c06" => c06::run, "c07" => c07::run, "c08" => c08::run,
        "c09" => c09::run, "c10" => c10::run, "c11" => c11::run, "c12" => c12::run,
        "c13" => c13::run, "c14" => c14::run, "c15" => c15::run, "c16" => c16::run,
        "c17" => c17::run, "c18" => c18::run, "c19" => c19::run, "c20" => c20::run,
        other => {
            eprintln!("unknown property {}", other);
            std::process::exit(2);
        }
    };
    let stdin = std::io::stdin();
    let stdout = std::io::stdout();
    let mut out = std::io::BufWriter::new(stdout.lock());
    let mut buf = String::new();
    for line in stdin.lock().lines() {
        let line = line.expect("stdin");
        if line.trim().is_empty() {
            continue;
        }
        let case = val::parse(&line);
        let res = match std::panic::catch_unwind(std::panic::AssertUnwindSafe(|| f(&case))) {
            Ok(v) => v,
            Err(_) => Val::panic(),
        };
        buf.clear();
        val::print(&res, &mut buf);
        writeln!(out, "{}", buf).unwrap();
        out.flush().unwrap();
    }
}
