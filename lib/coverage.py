#!/usr/bin/env python3
"""coverage.py Cxx [...] — how much of the ANCHORED source of a property does the correspondence
run of its check actually execute?  Builds the property's harness binary with
`-C instrument-coverage` (nightly toolchain, own target dir), replays the quick-tier cases of
gen/cxx.py through it, and reports line coverage of /repo/src for the line ranges named in the
property's anchors (properties.jsonl: anchors.mechanism[].where / anchors.state[].where).
Writes coverage/Cxx.json.  This measures the tie between model and code (which code the
differential run exercises); it is not part of the registered checks and proves nothing."""
import glob
import importlib
import json
import os
import re
import shutil
import subprocess
import sys

ROOT = os.path.dirname(os.path.dirname(os.path.abspath(__file__)))
sys.path.insert(0, os.path.join(ROOT, "lib"))
sys.path.insert(0, ROOT)
import vcommon as vc  # noqa: E402

TOOLS = os.path.expanduser("~/.rustup/toolchains/nightly-x86_64-unknown-linux-gnu/lib/rustlib/x86_64-unknown-linux-gnu/bin")
TARGET = os.path.join(vc.CACHE, "target-cov")


def anchors(pid):
    for line in open(os.path.join(ROOT, "properties.jsonl")):
        d = json.loads(line)
        if d["id"] == pid:
            out = []
            a = d["anchors"]
            for item in a.get("mechanism", []) + a.get("state", []):
                for part in str(item.get("where", "")).split(";"):
                    m = re.match(r"\s*(src/[\w/\.]+):([\d,\-\s]+)", part)
                    if not m:
                        continue
                    for rng in m.group(2).split(","):
                        rng = rng.strip()
                        if not rng:
                            continue
                        lo, _, hi = rng.partition("-")
                        out.append((m.group(1), int(lo), int(hi or lo), item.get("name", "")))
            return out
    return []


BASE = "19d97c6"  # the pinned snapshot the anchors' line numbers refer to


def line_map(f):
    """old line number (at BASE) -> line number in the current working tree, for unchanged lines"""
    try:
        old_n = len(subprocess.check_output(["git", "-C", vc.REPO, "show", "%s:%s" % (BASE, f)]).decode("utf-8", "replace").split("\n"))
    except subprocess.CalledProcessError:
        return {}
    diff = subprocess.run(["git", "-C", vc.REPO, "diff", "-U0", BASE, "--", f], stdout=subprocess.PIPE).stdout.decode("utf-8", "replace")
    mp = {}
    shift = 0
    pos = 1
    for m in re.finditer(r"^@@ -(\d+)(?:,(\d+))? \+(\d+)(?:,(\d+))? @@", diff, re.M):
        o, on, n, nn = int(m.group(1)), int(m.group(2) or 1), int(m.group(3)), int(m.group(4) or 1)
        end_unchanged = o if on else o + 1   # with on == 0 the hunk inserts AFTER old line o
        for l in range(pos, end_unchanged):
            mp[l] = l + shift
        pos = o + on if on else o + 1
        shift += nn - on
    for l in range(pos, old_n + 1):
        mp[l] = l + shift
    return mp


def main(pid):
    low = pid.lower()
    mod = importlib.import_module("gen." + low)
    env = dict(vc.ENV, RUSTUP_TOOLCHAIN="nightly", CARGO_TARGET_DIR=TARGET,
               RUSTFLAGS="--cfg log4rs_verif -C instrument-coverage")
    # which binaries does this property use?  default: its own; custom prepare() may build more
    bins = sorted(set([low] + re.findall(r"build_harness\(\s*[\"'](\w+)[\"']", open(os.path.join(ROOT, "gen", low + ".py")).read())))
    for b in bins:
        rc, out = vc.sh(["cargo", "build", "--offline", "--quiet", "--bin", b], cwd=vc.HARNESS, env=env, timeout=3000)
        if rc != 0:
            print(out[-2000:])
            raise SystemExit("coverage build failed")
    prof = os.path.join(vc.CACHE, "cov", low)
    shutil.rmtree(prof, ignore_errors=True)
    os.makedirs(prof)
    # route every harness invocation of this run to the instrumented binaries
    real_build = vc.build_harness

    def cov_build(binname, release=False, features=None):
        return os.path.join(TARGET, "debug", binname)
    vc.build_harness = cov_build
    vc.ENV["LLVM_PROFILE_FILE"] = os.path.join(prof, "%p-%m.profraw")
    os.environ["LLVM_PROFILE_FILE"] = vc.ENV["LLVM_PROFILE_FILE"]
    drv = vc.build_driver(pid)
    ctx = {"pid": pid, "tier": "quick", "seed": 1, "drv": drv, "vc": vc, "known": vc.load_known()}
    if hasattr(mod, "prepare"):
        mod.prepare(ctx)
    else:
        ctx["vh"] = cov_build(low)
    rng = vc.Rng(1)
    cases = (list(mod.corpus()) if hasattr(mod, "corpus") else []) + list(mod.cases(rng, "quick"))
    lines = [vc.show(c) for c in cases]
    if hasattr(mod, "run_impl"):
        mod.run_impl(ctx, cases, lines)
    else:
        vc.run_lines([ctx["vh"]], lines, timeout_per_batch=1800)
    vc.build_harness = real_build
    raws = glob.glob(os.path.join(prof, "*.profraw"))
    if not raws:
        raise SystemExit("no profile data written")
    pd = os.path.join(prof, "merged.profdata")
    subprocess.check_call([os.path.join(TOOLS, "llvm-profdata"), "merge", "-sparse", "-o", pd] + raws)
    objs = [os.path.join(TARGET, "debug", bins[0])]
    for b in bins[1:]:
        objs += ["-object", os.path.join(TARGET, "debug", b)]
    exp = subprocess.run([os.path.join(TOOLS, "llvm-cov"), "export", "-format=lcov", "-instr-profile", pd] + objs,
                         stdout=subprocess.PIPE, stderr=subprocess.PIPE)
    if exp.returncode != 0:
        raise SystemExit(exp.stderr.decode()[-1500:])
    hits = {}
    cur = None
    for ln in exp.stdout.decode().split("\n"):
        if ln.startswith("SF:"):
            p = ln[3:]
            cur = p[len(vc.REPO) + 1:] if p.startswith(vc.REPO + "/") else None
        elif ln.startswith("DA:") and cur:
            a, b = ln[3:].split(",")[:2]
            hits.setdefault(cur, {})
            hits[cur][int(a)] = max(hits[cur].get(int(a), 0), int(b))
    rep = {"property_id": pid, "cases": len(cases), "binaries": bins, "anchored_ranges": [], "files": {}}
    tot = cov = 0
    maps = {}
    for (f, lo, hi, name) in anchors(pid):
        h = hits.get(f, {})
        mp = maps.setdefault(f, line_map(f))
        cur_lines = sorted(set(mp[l] for l in range(lo, hi + 1) if l in mp))
        if cur_lines:   # also lines inserted inside the range since the snapshot (fix commits)
            cur_lines = list(range(cur_lines[0], cur_lines[-1] + 1))
        inst = [l for l in cur_lines if l in h]
        miss = [l for l in inst if h[l] == 0]
        tot += len(inst)
        cov += len(inst) - len(miss)
        rep["anchored_ranges"].append({"file": f, "lines": "%d-%d" % (lo, hi), "what": name,
                                       "current_lines": "%d-%d" % (cur_lines[0], cur_lines[-1]) if cur_lines else "",
                                       "instrumented_lines": len(inst), "executed": len(inst) - len(miss),
                                       "not_executed": miss})
    for f in sorted(set(a[0] for a in anchors(pid))):
        h = hits.get(f, {})
        rep["files"][f] = {"instrumented_lines": len(h), "executed": sum(1 for v in h.values() if v > 0)}
    rep["anchored_lines_instrumented"] = tot
    rep["anchored_lines_executed"] = cov
    os.makedirs(os.path.join(ROOT, "coverage"), exist_ok=True)
    json.dump(rep, open(os.path.join(ROOT, "coverage", pid + ".json"), "w"), indent=1)
    print("%s: anchored lines executed %d / %d; not executed: %s" % (
        pid, cov, tot, {r["file"] + ":" + r["lines"]: r["not_executed"] for r in rep["anchored_ranges"] if r["not_executed"]}))


if __name__ == "__main__":
    for p in sys.argv[1:]:
        main(p.upper())
