"""Per-property manifest texts. CLAIMED: properties with a working check."""
HOOK_COMMITS = ["ae0ec72", "72101b2", "987f3d6"]

NOT_CLAIMED = {}

CLAIMED = {
 "C03": {
  "text": "Proof: the filter loop, fan-out and error-handler model (coq/Model/Filters.v, a line-by-line transcription of lib.rs Appender::append / ConfiguredLogger::log / Log::log and filter/threshold.rs) is proved, for every chain, every attachment list and every level, to consult exactly the prefix up to the first decisive filter, deliver iff it accepts, keep each appender's observations independent of all others, and call the handler exactly once per failing delivery (7 theorems, closed under the global context). Tie to the code: the extracted model and the real Logger (scripted/spy filters, real ThresholdFilter, recording appenders, recording error handler) are run on all chains of length <= 4 plus random fan-outs and the full event logs must be equal.",
  "note": "Trusted: Coq kernel, extraction (ExtrOcamlBasic), OCaml driver, Rust harness, Python generators. The model is hand-written; agreement with the crate is established on the explored cases (exhaustive for chains <= 4 on one appender).",
 },
 "C13": {
  "text": "Proof: the model of config/runtime.rs (check_logger_name's streak automaton, build_lossy, build) is proved, for all inputs, (a) to accept exactly the names that are non-empty, do not end in ':', contain no three consecutive colons and no colon without a colon neighbour; (b) to return, in lossy mode, exactly the first occurrence of every appender name, the loggers whose name is new and well-formed, references filtered to existing appenders, all in original order, with exactly one error per offending item; (c) strict build succeeds iff names are unique, well-formed and all references resolve, and then returns the input unchanged; (d) every returned configuration is valid (NoDup names, resolving references) — what Logger::new relies on. Tie to the code: extracted model vs the real ConfigBuilder on every logger name over {a,:} up to length 7 (10 thorough), exhaustive small appender multisets and random mixes; kept items, first-occurrence identity, error multiset and Ok/Err compared, and every returned Config is installed in a Logger and logged through under catch_unwind.",
  "note": "Trusted: Coq kernel, extraction (ExtrOcamlBasic), OCaml driver, Rust harness, Python generator. HashSet<String> is modelled by list membership. Error order is not constrained by the property and is compared as a multiset. Interpretation (DESIGN.md C13): a dangling reference held by a logger that is itself dropped is not reported separately.",
 },
}
