"""Per-property manifest texts. CLAIMED: properties with a working check."""
HOOK_COMMITS = ["ae0ec72", "72101b2", "987f3d6"]

NOT_CLAIMED = {}

CLAIMED = {
 "C03": {
  "text": "Proof: the filter loop, fan-out and error-handler model (coq/Model/Filters.v, a line-by-line transcription of lib.rs Appender::append / ConfiguredLogger::log / Log::log and filter/threshold.rs) is proved, for every chain, every attachment list and every level, to consult exactly the prefix up to the first decisive filter, deliver iff it accepts, keep each appender's observations independent of all others, and call the handler exactly once per failing delivery (7 theorems, closed under the global context). Tie to the code: the extracted model and the real Logger (scripted/spy filters, real ThresholdFilter, recording appenders, recording error handler) are run on all chains of length <= 4 plus random fan-outs and the full event logs must be equal.",
  "note": "Trusted: Coq kernel, extraction (ExtrOcamlBasic), OCaml driver, Rust harness, Python generators. The model is hand-written; agreement with the crate is established on the explored cases (exhaustive for chains <= 4 on one appender).",
 },
}
