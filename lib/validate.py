#!/opt/veriftools/pyvenv/bin/python
"""Validate MANIFEST.json and every evidence file against the given schemas."""
import glob, json, sys, jsonschema
ok = True
try:
    jsonschema.validate(json.load(open("/verif/MANIFEST.json")), json.load(open("/root/.vp/MANIFEST.schema.json")))
    print("MANIFEST ok")
except Exception as e:
    ok = False; print("MANIFEST INVALID", str(e)[:500])
es = json.load(open("/root/.vp/EVIDENCE.schema.json"))
man = json.load(open("/verif/MANIFEST.json"))
for c in man["checks"]:
    f = c["evidence_file"]
    try:
        jsonschema.validate(json.load(open(f)), es); print(f, "ok")
    except Exception as e:
        ok = False; print(f, "INVALID", str(e)[:300])
sys.exit(0 if ok else 1)
