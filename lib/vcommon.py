"""Shared machinery of the /verif checks: PRNG, value syntax, Coq re-check,
extraction/driver build, harness build, differential run, evidence, replays."""
import hashlib
import json
import os
import re
import subprocess
import sys
import time

ROOT = os.path.dirname(os.path.dirname(os.path.abspath(__file__)))
CACHE = os.path.join(ROOT, ".cache")
COQ = os.path.join(ROOT, "coq")
HARNESS = os.path.join(ROOT, "harness")
TARGET = os.path.join(CACHE, "target")
# The registered checks always run against /repo.  VERIF_REPO=<dir> points a run at
# another checkout (a scratch worktree carrying a candidate mutation): the harness
# is then built from a private copy with its own target dir, so parallel runs
# against different trees never disturb each other or /repo.
REPO = os.path.abspath(os.environ.get("VERIF_REPO", "/repo"))
ALT = REPO != "/repo"
if ALT:
    _tag = hashlib.sha1(REPO.encode()).hexdigest()[:12]
    HARNESS_SRC = HARNESS
    HARNESS = os.path.join(CACHE, "alt", _tag, "harness")
    TARGET = os.path.join(CACHE, "alt", _tag, "target")

ENV = dict(os.environ)
ENV.update({"CARGO_NET_OFFLINE": "true", "CARGO_TERM_COLOR": "never"})
ENV.pop("RUSTFLAGS", None)  # the harness's .cargo/config.toml supplies --cfg log4rs_verif

# --------------------------------------------------------------------------
# PRNG: one SplitMix64 stream per run, derived from VERIF_SEED


class Rng:
    def __init__(self, seed):
        self.s = seed & 0xFFFFFFFFFFFFFFFF

    def next(self):
        self.s = (self.s + 0x9E3779B97F4A7C15) & 0xFFFFFFFFFFFFFFFF
        z = self.s
        z = ((z ^ (z >> 30)) * 0xBF58476D1CE4E5B9) & 0xFFFFFFFFFFFFFFFF
        z = ((z ^ (z >> 27)) * 0x94D049BB133111EB) & 0xFFFFFFFFFFFFFFFF
        return z ^ (z >> 31)

    def below(self, n):
        return self.next() % n if n > 0 else 0

    def range(self, lo, hi):
        """inclusive"""
        return lo + self.below(hi - lo + 1)

    def choice(self, xs):
        return xs[self.below(len(xs))]

    def chance(self, num, den):
        return self.below(den) < num

    def shuffle(self, xs):
        xs = list(xs)
        for i in range(len(xs) - 1, 0, -1):
            j = self.below(i + 1)
            xs[i], xs[j] = xs[j], xs[i]
        return xs

    def fork(self, tag):
        h = hashlib.sha256(("%d/%s" % (self.s, tag)).encode()).digest()
        return Rng(int.from_bytes(h[:8], "big"))


# --------------------------------------------------------------------------
# value syntax:  v ::= DECIMAL | xHEX | ( v* )
# python side: int -> N, bytes/str -> S, list/tuple -> L, bool -> N


def show(v):
    if isinstance(v, bool):
        return "1" if v else "0"
    if isinstance(v, int):
        assert v >= 0, v
        return str(v)
    if isinstance(v, str):
        v = v.encode("utf-8")
    if isinstance(v, (bytes, bytearray)):
        return "x" + bytes(v).hex()
    if isinstance(v, (list, tuple)):
        return "(" + " ".join(show(x) for x in v) + ")"
    raise TypeError(repr(v))


def Zv(z):
    """Z encoding shared with Common/Val.v"""
    return [1 if z < 0 else 0, abs(z)]


def unZ(v):
    return -v[1] if v[0] else v[1]


def parse(line):
    pos = 0
    n = len(line)

    def value():
        nonlocal pos
        while pos < n and line[pos] in " \t\r":
            pos += 1
        if pos >= n:
            raise ValueError("eof in %r" % line[:80])
        c = line[pos]
        if c == "(":
            pos += 1
            items = []
            while True:
                while pos < n and line[pos] in " \t\r":
                    pos += 1
                if pos >= n:
                    raise ValueError("unclosed")
                if line[pos] == ")":
                    pos += 1
                    return items
                items.append(value())
        if c == "x":
            pos += 1
            st = pos
            while pos < n and line[pos] in "0123456789abcdefABCDEF":
                pos += 1
            return bytes.fromhex(line[st:pos])
        if c.isdigit():
            st = pos
            while pos < n and line[pos].isdigit():
                pos += 1
            return int(line[st:pos])
        raise ValueError("bad char %r at %d in %r" % (c, pos, line[:80]))

    v = value()
    while pos < n and line[pos] in " \t\r\n":
        pos += 1
    if pos != n:   # markers such as xhang / xabort / xskipped / xmodelcrash are NOT values
        raise ValueError("trailing text at %d in %r" % (pos, line[:80]))
    return v


def jsonable(v):
    """human-readable rendering of a value for evidence samples / replays"""
    if isinstance(v, (bytes, bytearray)):
        try:
            return "b:" + bytes(v).decode("utf-8")
        except UnicodeDecodeError:
            return "x:" + bytes(v).hex()
    if isinstance(v, (list, tuple)):
        return [jsonable(x) for x in v]
    return v


# --------------------------------------------------------------------------
# subprocess helpers


def sh(cmd, timeout=3600, cwd=None, env=None, input=None):
    p = subprocess.run(cmd, shell=isinstance(cmd, str), cwd=cwd, env=env or ENV,
                       stdout=subprocess.PIPE, stderr=subprocess.STDOUT,
                       timeout=timeout, input=input)
    return p.returncode, p.stdout.decode("utf-8", "replace")


class Broken(Exception):
    """A proof obligation or the correspondence itself no longer checks."""

    def __init__(self, what, detail):
        super().__init__(what)
        self.what = what
        self.detail = detail


# --------------------------------------------------------------------------
# Coq re-check

FORBIDDEN = re.compile(
    r"\b(Admitted|admit|Axiom|Axioms|Parameter|Parameters|Conjecture|Conjectures|Hypothesis|Hypotheses|Variable|Variables|"
    r"Unset\s+Guard|bypass_check|Admit\s+Obligations|native_compute|type-in-type|impredicative-set|"
    r"Unset\s+Universe\s+Checking|Unset\s+Positivity)\b")

# Axioms of the standard library that a theorem may depend on (named in DESIGN.md §4).
AXIOM_ALLOW = set()


def strip_comments(src):
    out = []
    depth = 0
    i = 0
    while i < len(src):
        if src.startswith("(*", i):
            depth += 1
            i += 2
        elif src.startswith("*)", i) and depth > 0:
            depth -= 1
            i += 2
        else:
            if depth == 0:
                out.append(src[i])
            i += 1
    return "".join(out)


def scan_forbidden():
    """Every .v file of the development: no escape hatches.  `Variable`/`Hypothesis`
    are only tolerated inside a Section (checked textually)."""
    bad = []
    for dp, _, fns in os.walk(COQ):
        for fn in fns:
            if not fn.endswith(".v"):
                continue
            path = os.path.join(dp, fn)
            src = strip_comments(open(path, encoding="utf-8").read())
            depth = 0
            for ln, line in enumerate(src.split("\n"), 1):
                if re.match(r"\s*Section\b", line):
                    depth += 1
                if re.match(r"\s*End\b", line) and depth > 0:
                    depth -= 1
                for m in FORBIDDEN.finditer(line):
                    w = m.group(1)
                    if w in ("Variable", "Variables", "Hypothesis", "Hypotheses") and depth > 0:
                        continue
                    bad.append("%s:%d: %s" % (os.path.relpath(path, ROOT), ln, w))
    return bad


def coq_build(targets):
    rc, out = sh([os.path.join(COQ, "build.sh")] + targets, timeout=3000)
    if rc != 0:
        raise Broken("coq-build", out[-3000:])
    return out


def coq_check_props(pid):
    """Full .vo build of the property's closure, then re-run coqc on Props/<pid>.v
    to capture Print Assumptions; returns (obligations, discharged, names, cmd)."""
    t = time.time()
    props = "Props/%s.v" % pid
    coq_build(["Props/%s.vo" % pid, "Run/%s.vo" % pid])
    bad = scan_forbidden()
    if bad:
        raise Broken("forbidden-construct", "\n".join(bad))
    os.makedirs(os.path.join(CACHE, "props"), exist_ok=True)
    cmd = ["coqc", "-q", "-Q", COQ, "L4", "-w", "-notation-overridden",
           "-o", os.path.join(CACHE, "props", pid + ".vo"), os.path.join(COQ, props)]
    rc, out = sh(cmd, timeout=1200)
    if rc != 0:
        raise Broken("theorem:" + props, out[-3000:])
    src = strip_comments(open(os.path.join(COQ, props), encoding="utf-8").read())
    names = re.findall(r"^\s*(?:Theorem|Example)\s+(\w+)", src, re.M)
    theorems = re.findall(r"^\s*Theorem\s+(\w+)", src, re.M)
    printed = re.findall(r"^\s*Print\s+Assumptions\s+(\w+)", src, re.M)
    missing = [n for n in theorems if n not in printed]
    if missing:
        raise Broken("theorem:" + props, "no Print Assumptions for: " + ", ".join(missing))
    # parse assumption reports: each is either "Closed under the global context" or "Axioms:\n name : type ..."
    closed = len(re.findall(r"Closed under the global context", out))
    axioms = []
    for block in re.findall(r"Axioms:\n((?:.+\n?)+?)(?=\n|Closed|Axioms:|\Z)", out):
        for m in re.finditer(r"^(\S+)\s*:", block, re.M):
            axioms.append(m.group(1))
    not_allowed = sorted(set(a for a in axioms if a not in AXIOM_ALLOW))
    if not_allowed:
        raise Broken("assumptions:" + props, "theorems depend on: " + ", ".join(not_allowed))
    n_reports = closed + len(re.findall(r"^Axioms:", out, re.M))
    if n_reports != len(printed):
        raise Broken("assumptions:" + props,
                     "expected %d assumption reports, saw %d\n%s" % (len(printed), n_reports, out[-2000:]))
    return {
        "obligations": len(names),
        "discharged": len(names),
        "theorems": theorems,
        "examples": [n for n in names if n not in theorems],
        "axioms_used": sorted(set(axioms)),
        "checker_cmd": "coq/build.sh Props/%s.vo Run/%s.vo && %s" % (pid, pid, " ".join(cmd)),
        "coq_wall_s": round(time.time() - t, 2),
    }


def coqchk_props(pid):
    """Thorough tier: re-check the compiled closure of Props/<pid>.vo with Coq's independent
    checker and report the axioms / unsafe features it finds (coqchk -o)."""
    t = time.time()
    cmd = ["coqchk", "-o", "-silent", "-Q", COQ, "L4", "L4.Props." + pid]
    rc, out = sh(cmd, timeout=3000)
    if rc != 0:
        raise Broken("coqchk:Props/%s.vo" % pid, out[-3000:])
    summary = out[out.find("CONTEXT SUMMARY"):] if "CONTEXT SUMMARY" in out else out[-1500:]
    fields = {}
    for m in re.finditer(r"\* ([^:\n]+):\s*(.*?)(?=\n\s*\n|\Z)", summary, re.S):
        fields[m.group(1).strip()] = " ".join(m.group(2).split())
    bad = [k for k, v in fields.items() if k != "Theory" and v != "<none>"]
    if bad:
        raise Broken("coqchk:Props/%s.vo" % pid, "coqchk reports: " + json.dumps(fields))
    return {"coqchk_cmd": " ".join(cmd), "coqchk_summary": fields, "coqchk_wall_s": round(time.time() - t, 1)}


# --------------------------------------------------------------------------
# extraction + OCaml driver


def file_sig(paths):
    h = hashlib.sha256()
    for p in paths:
        st = os.stat(p)
        h.update(("%s:%d:%d;" % (p, st.st_mtime_ns, st.st_size)).encode())
    return h.hexdigest()


def build_driver(pid):
    """Extract <pid>_run (ExtrOcamlBasic only) and link it with the generic driver."""
    low = pid.lower()
    d = os.path.join(CACHE, "ext", low)
    os.makedirs(d, exist_ok=True)
    deps = [os.path.join(COQ, "Run", pid + ".vo"), os.path.join(ROOT, "driver", "driver_common.ml")]
    sig = file_sig(deps)
    stamp = os.path.join(d, "stamp")
    exe = os.path.join(d, "drv")
    if os.path.exists(stamp) and os.path.exists(exe) and open(stamp).read() == sig:
        return exe
    with open(os.path.join(d, "ex.v"), "w") as f:
        f.write("From L4 Require Import Run.%s.\nRequire Extraction.\nRequire Import ExtrOcamlBasic.\n"
                "Extraction \"model.ml\" %s_run.\n" % (pid, low))
    rc, out = sh(["coqc", "-q", "-Q", COQ, "L4", "ex.v"], cwd=d, timeout=600)
    if rc != 0:
        raise Broken("extraction:" + pid, out[-3000:])
    with open(os.path.join(d, "drv.ml"), "w") as f:
        f.write(open(os.path.join(d, "model.ml")).read())
        f.write("\nlet run = %s_run\n" % low)
        f.write(open(os.path.join(ROOT, "driver", "driver_common.ml")).read())
    rc, out = sh(["ocamlfind", "ocamlopt", "-O2", "-w", "-a", "drv.ml", "-o", "drv"], cwd=d, timeout=600)
    if rc != 0:
        raise Broken("driver-build:" + pid, out[-3000:])
    open(stamp, "w").write(sig)
    return exe


# --------------------------------------------------------------------------
# harness build (against /repo's working tree, hooks on)


def _sync_alt_harness():
    import shutil
    os.makedirs(HARNESS, exist_ok=True)
    for sub in ("src", ".cargo"):
        dst = os.path.join(HARNESS, sub)
        if os.path.exists(dst):
            shutil.rmtree(dst)
        shutil.copytree(os.path.join(HARNESS_SRC, sub), dst)
    toml = open(os.path.join(HARNESS_SRC, "Cargo.toml")).read().replace('path = "/repo"', 'path = "%s"' % REPO)
    open(os.path.join(HARNESS, "Cargo.toml"), "w").write(toml)
    cfg = open(os.path.join(HARNESS_SRC, ".cargo", "config.toml")).read().replace("/verif/.cache/target", TARGET)
    open(os.path.join(HARNESS, ".cargo", "config.toml"), "w").write(cfg)


def build_harness(binname, release=False, features=None):
    if ALT:
        _sync_alt_harness()
    lock_src = os.path.join(REPO, "Cargo.lock")
    lock_dst = os.path.join(HARNESS, "Cargo.lock")
    if not os.path.exists(lock_dst) and os.path.exists(lock_src):
        open(lock_dst, "wb").write(open(lock_src, "rb").read())
    cmd = ["cargo", "build", "--offline", "--quiet", "--bin", binname]
    if release:
        cmd.append("--release")
    target = TARGET
    env = None
    if features:
        # a feature variant gets its own target dir so that it never overwrites the default binary
        cmd += ["--features", features]
        target = TARGET + "-" + re.sub(r"[^A-Za-z0-9]+", "_", features)
        env = dict(ENV, CARGO_TARGET_DIR=target)
    rc, out = sh(cmd, cwd=HARNESS, timeout=3000, env=env)
    if rc != 0:
        raise Broken("harness-build", out[-4000:])
    return os.path.join(target, "release" if release else "debug", binname)


# --------------------------------------------------------------------------
# running line-oriented executables with crash isolation


STALL_TIMEOUT = float(os.environ.get("VERIF_STALL_TIMEOUT", "90"))


def run_lines(cmd, lines, timeout_per_batch=600, env=None, crash_marker="xabort", cwd=None,
              stall_timeout=None, max_hangs=3):
    """Feed `lines` to `cmd` (one result line per input line).  If the process dies
    or hangs, the line it died on gets `crash_marker` / `xhang` and the rest is resumed.
    A hang is recognised by *inactivity*: no further result line for `stall_timeout`
    seconds (default min(timeout_per_batch, 90)), or the whole batch exceeding
    `timeout_per_batch`.  After `max_hangs` hangs the remaining lines are not run and
    get `xskipped` (the run already has violations to report; this bounds its duration)."""
    import threading
    if stall_timeout is None:
        stall_timeout = min(timeout_per_batch, STALL_TIMEOUT)
    results = []
    i = 0
    hangs = 0
    while i < len(lines):
        if hangs >= max_hangs:
            results.extend(["xskipped"] * (len(lines) - i))
            break
        data = ("\n".join(lines[i:]) + "\n").encode()
        p = subprocess.Popen(cmd, stdin=subprocess.PIPE, stdout=subprocess.PIPE, stderr=subprocess.DEVNULL,
                             env=env or ENV, cwd=cwd)
        chunks = []
        state = {"last": time.time(), "done": False}

        def feed():
            try:
                p.stdin.write(data)
                p.stdin.close()
            except Exception:  # noqa: BLE001  (child died early)
                pass

        def drain():
            while True:
                b = p.stdout.read1(1 << 16)
                if not b:
                    break
                chunks.append(b)
                if b"\n" in b:
                    state["last"] = time.time()
            state["done"] = True

        tf = threading.Thread(target=feed, daemon=True)
        td = threading.Thread(target=drain, daemon=True)
        tf.start()
        td.start()
        t_start = time.time()
        timed_out = False
        while not state["done"]:
            td.join(0.05)
            now = time.time()
            if state["done"]:
                break
            if os.environ.get("VERIF_DEBUG") and now - state.get("dbg", 0) > 20:
                state["dbg"] = now
                sys.stderr.write("[run_lines dbg] pid %d since_last=%.0f since_start=%.0f bytes=%d stall=%s\n" % (
                    p.pid, now - state["last"], now - t_start, sum(len(c) for c in chunks), stall_timeout))
            if now - state["last"] > stall_timeout or now - t_start > timeout_per_batch:
                timed_out = True
                break
        if timed_out:
            sys.stderr.write("[run_lines] %s: no result line for %.0f s (or batch limit) - killed, line %d of %d marked xhang\n"
                             % (os.path.basename(str(cmd[0])), stall_timeout, i + len(b"".join(chunks).split(b"\n")), len(lines)))
            sys.stderr.flush()
            try:
                p.kill()
            except Exception:  # noqa: BLE001
                pass
        td.join(5)
        try:
            p.wait(timeout=5)
        except Exception:  # noqa: BLE001
            pass
        out = b"".join(chunks).decode("utf-8", "replace")
        got = out.split("\n")
        if got and got[-1] == "":
            got.pop()
        elif got:  # partial last line
            got.pop()
        got = got[: len(lines) - i]
        results.extend(got)
        i += len(got)
        if i < len(lines):
            results.append("xhang" if timed_out else crash_marker)
            if timed_out:
                hangs += 1
            i += 1
    return results


# --------------------------------------------------------------------------
# known findings


def load_known():
    p = os.path.join(ROOT, "known_findings.json")
    if not os.path.exists(p):
        return {}
    data = json.load(open(p))
    return {f["id"]: f for f in data.get("findings", [])}


# --------------------------------------------------------------------------
# evidence / replay


def write_evidence(pid, ev):
    evdir = os.path.join(os.path.dirname(HARNESS), "evidence") if ALT else os.path.join(ROOT, "evidence")
    os.makedirs(evdir, exist_ok=True)
    p = os.path.join(evdir, pid + ".json")
    tmp = p + ".tmp"
    with open(tmp, "w") as f:
        json.dump(ev, f, indent=1, sort_keys=True)
        f.write("\n")
    os.replace(tmp, p)
    if ev.get("tier") == "thorough" and not ALT:
        # keep the last thorough run beside the (usually quick) registered evidence file
        td = os.path.join(evdir, "thorough")
        os.makedirs(td, exist_ok=True)
        with open(os.path.join(td, pid + ".json"), "w") as f:
            json.dump(ev, f, indent=1, sort_keys=True)
            f.write("\n")


def write_replay(pid, seed, k, body):
    d = os.path.join(ROOT, "replays")
    os.makedirs(d, exist_ok=True)
    p = os.path.join(d, "%s-%d-%d.json" % (pid, seed, k))
    with open(p, "w") as f:
        json.dump(body, f, indent=1)
        f.write("\n")
    return p


def safe_compare(mod, c, iv, mv):
    """mod.compare(c, iv, mv) (or plain equality); a judge that trips over the implementation's observation (an
    unexpected shape: the model's own output is well-formed by construction) reports that as the difference
    instead of failing the check"""
    if not hasattr(mod, "compare"):
        return None if iv == mv else "impl != model"
    try:
        return mod.compare(c, iv, mv)
    except Exception as e:
        return ("the implementation's observation has a shape the judge cannot read (%s: %s): impl %r"
                % (type(e).__name__, e, str(jsonable(iv))[:400]))
