#!/usr/bin/env python3
"""Regenerates MANIFEST.json from lib/props_meta.py (kept in one place so it stays valid)."""
import json, os, sys
ROOT = os.path.dirname(os.path.dirname(os.path.abspath(__file__)))
sys.path.insert(0, os.path.join(ROOT, "lib"))
import props_meta as pm

checks = []
for pid, m in sorted(pm.CLAIMED.items()):
    checks.append({
        "property_id": pid,
        "quick_cmd": "./check %s --tier quick" % pid,
        "thorough_cmd": "./check %s --tier thorough" % pid,
        "evidence_file": "/verif/evidence/%s.json" % pid,
        "replay_cmd_template": "./check %s --replay {path}" % pid,
        "engine": "rocq-proof+correspondence",
        "level_claimed": {"category": "proof", "text": m["text"], "design_ref": m.get("design_ref", "DESIGN.md §5 " + pid)},
        "level_note": m["note"],
        "technique": m.get("technique", "Rocq (Coq 8.16) theorems over a hand-written Gallina model + differential correspondence run of the extracted model against the real crate"),
    })
all_ids = ["C%02d" % i for i in range(1, 21)]
na = [{"property_id": i, "reason": pm.NOT_CLAIMED.get(i, "not yet built: model, theorems and correspondence harness for this property are still under construction (see DESIGN.md §8 build order)")}
      for i in all_ids if i not in pm.CLAIMED]
man = {
    "version": 1,
    "setup_cmd": "./setup.sh",
    "hooks": {
        "guard": "--cfg log4rs_verif",
        "enable": "harness/.cargo/config.toml passes rustflags = [\"--cfg\", \"log4rs_verif\"] for every harness build (path dependency on /repo)",
        "baseline_off_cmd": "cd /repo && cargo test --workspace --no-fail-fast --offline",
        "source_commits": pm.HOOK_COMMITS,
        "add_only": True,
    },
    "engines": [{
        "name": "rocq-proof+correspondence",
        "path": "/verif/check",
        "serves_properties": sorted(pm.CLAIMED.keys()),
        "kind_free_text": "Coq 8.16.1 theorems (coq/Props/Cxx.v over coq/Model, coq/Proofs), re-checked each run with Print Assumptions; the model (extracted to OCaml, coq/Run/Cxx.v) and the real crate (harness/, rebuilt from /repo) are run on the same generated cases (gen/cxx.py) and diffed",
    }],
    "checks": checks,
    "not_applicable": na,
    "notes": "Every check first rebuilds and re-checks the property's Coq closure (full .vo), scans for Admitted/Axiom/etc., then rebuilds harness/ against /repo's working tree with --cfg log4rs_verif and runs the differential correspondence. known_findings.json lists genuine defects (open/fixed).",
}
json.dump(man, open(os.path.join(ROOT, "MANIFEST.json"), "w"), indent=1)
print("MANIFEST.json:", len(checks), "claimed,", len(na), "not claimed")
