#!/bin/bash
# Offline build of the whole framework from files on disk:
#  - full .vo build of the Coq development (models, proofs, property theorems)
#  - extraction + OCaml model drivers for every property that has a Run/Cxx.v
#  - the Rust harness against /repo's working tree (hooks on)
set -e
cd "$(dirname "$0")"
export CARGO_NET_OFFLINE=true
mkdir -p .cache evidence replays
coq/build.sh
[ -f harness/Cargo.lock ] || cp /repo/Cargo.lock harness/Cargo.lock
(cd harness && cargo build --offline --quiet --bins)
python3 - <<'PY'
import sys, os, glob
sys.path.insert(0, "lib")
import vcommon as vc
for f in sorted(glob.glob("coq/Run/C*.v")):
    pid = os.path.basename(f)[:-2]
    vc.build_driver(pid)
    print("driver", pid, "ok")
PY
echo setup ok
