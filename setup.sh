#!/bin/bash
# Offline build of the framework from files on disk, for every property claimed
# in MANIFEST.json:
#  - full .vo build of the property's Coq closure (models, proofs, theorems)
#  - extraction + OCaml model driver
#  - the Rust harness binary against /repo's working tree (hooks on)
set -e
cd "$(dirname "$0")"
export CARGO_NET_OFFLINE=true
mkdir -p .cache evidence replays
IDS=$(python3 -c "import json; print(' '.join(c['property_id'] for c in json.load(open('MANIFEST.json'))['checks']))")
TARGETS=""
for id in $IDS; do TARGETS="$TARGETS Props/$id.vo Run/$id.vo"; done
coq/build.sh $TARGETS
[ -f harness/Cargo.lock ] || cp /repo/Cargo.lock harness/Cargo.lock
python3 - $IDS <<'PY'
import sys, os
sys.path.insert(0, "lib")
sys.path.insert(0, ".")
import importlib
import vcommon as vc
for pid in sys.argv[1:]:
    vc.build_driver(pid)
    mod = importlib.import_module("gen." + pid.lower())
    ctx = {"pid": pid, "tier": "quick", "seed": 1, "vc": vc, "known": {}, "setup": True}
    if hasattr(mod, "prepare"):
        mod.prepare(ctx)
    else:
        vc.build_harness(pid.lower())
    for feat in getattr(mod, "SETUP_FEATURE_BUILDS", []):
        vc.build_harness(pid.lower(), features=feat)          # feature variants a check builds on demand
    if getattr(mod, "RELEASE_TOO", False):
        vc.build_harness(pid.lower(), release=True)      # the release-profile pass of ./check
    print("built", pid)
PY
echo setup ok
