"""C15 — runtime reconfiguration is atomic; the file reloader keeps the last good config.
config : [tag, [appname..], [rootlevel, [appname..]], [[name, level, additive, [appname..]]..]]
kind 0  [0, configs, init, reent, progs, sched]   real threads single-stepped along a model schedule
kind 1  [1, configs, probes, [loggers, swappers, min_records, swaps]]   free-running stress
kind 2  [2, configs, old, new, [target, level]]   probe logged from Drop of the old appenders during set_config
kind 3  [3, fmt, texts, [m0, ti0], steps]         VerifReloader stepped over a file history
kind 4  [4, fmt, texts, [m0, ti0], steps]         the real reloader thread (child process per scenario)
kind 5  [5, configs, seq, probes]                 GLOBAL logger behind the log facade (child process per scenario):
                                                  init_config, then set_config per seq entry, probes through log!"""
import itertools
import os
import subprocess
from concurrent.futures import ThreadPoolExecutor

RULE = ("Part A. kind 0: real threads driven by a controller that releases one thread at a time for exactly one "
        "model micro-step (Load / Deliver / re-entrant Store / Ret / Store): (i) deterministic re-entrancy: for "
        "every ordered pair of 5 structurally different configs, every probe and every appender position, the "
        "appender at that position calls set_config(next) in the middle of the fan-out, then a second record is "
        "logged; (ii) every position of another thread's set_config (+ a following record) inside a 3..4-appender "
        "fan-out, exhaustively; (iii) random programs of 1-3 threads x 1-4 ops with random re-entrant swaps and "
        "random schedules. kind 2: a record logged from the Drop of each old appender while set_config runs. "
        "kind 1: stress, 4 logging x 2 swapping threads, >= 10^4 records (quick) / 10^5 (thorough) per run, "
        "phase 1 swaps serialised among swappers with a probe record after set_config returns and a real-time "
        "window check per record, phase 2 stores racing each other. Part B. kind 3: every history over the 8 "
        "actions {valid change, no change, touch only, syntax/schema error, deletion, rate change, rate removal, "
        "revert} of length 4 (quick) / 6 (thorough) in YAML, plus random histories up to length 8 that add "
        "{unreadable (invalid UTF-8), same-mtime edit, valid change carrying an undeserialisable extra appender, rate change / "
        "rate removal in the SAME edit as such an appender, a changed version carrying an OLDER mtime (rollback)} "
        "in YAML/JSON/TOML; mtimes set with utimensat. kind 4: the "
        "real init_file reloader thread over hand-picked and random histories. kind 5: the GLOBAL logger "
        "(init_config in a child process), every ordered pair of 7 configs (equal and different root levels, "
        "child loggers more / less verbose than the old tree's maximum, root off) plus random longer sequences; "
        "after each set_config returned a 5 targets x 5 levels grid is logged through the log! macro (which "
        "consults log::max_level) and must be delivered along the NEW configuration's route only. "
        "non-trivial = a scenario with a swap (kind 0/1/2) or a history with a change of the file (kind 3/4); "
        "distinct = distinct case line")
ASSUMPTIONS = [
    "arc_swap's load/store are linearisable (modelled as one cell), std Mutex/Condvar of the harness work",
    "an edit that leaves the mtime bit-identical is invisible to the reloader by construction; 'changed file' "
    "means the mtime changed (the model follows the code on same-mtime edits and they are exercised)",
    "'unparsable' = the serde front-end rejects the text as a RawConfig (syntax or schema error); appender-level "
    "errors are non-fatal by the crate's documented design and install the rest of the configuration",
    "configs handed to set_config come from Config::builder().build (all appender references resolve)",
    "kind 0 gates sit inside the harness's appenders and around log(): the two loads of a double-load mutant "
    "that are adjacent instructions cannot be separated by the controller, only by the stress run",
    "kind 4 observes the live reloader thread through bounded waits (a missing expected change is reported "
    "after 6 s; an unexpected change is only seen if it happens within 350 ms = >= 7 polling periods)",
]
RELEASE_TOO = True          # the cases also run through the release-profile harness (see ./check)
EXHAUSTIVE = {"quick": False, "thorough": False}
TRUSTED = ["harness scheduler (Mutex/Condvar gates) that maps model micro-steps to real thread progress",
           "libc utimensat for explicit mtimes; tmp+rename for atomic file replacement"]

# ----------------------------------------------------------------------------- Part A data
PROBE_T = ["", "x", "x::y", "x::y::z", "q"]
PROBES = [[t, l] for t in PROBE_T for l in (1, 3, 5)]


def cfg_pool():
    return [
        [1, ["a", "b", "c"], [5, ["a", "b"]], [["x", 5, 1, ["c"]], ["x::y", 3, 0, ["b", "a"]]]],
        [2, ["p", "q"], [4, ["q"]], [["x", 2, 1, ["p", "q"]]]],
        [3, ["a"], [0, ["a"]], [["x::y", 5, 1, ["a", "a"]]]],
        [4, ["u", "v", "w", "z"], [5, ["u", "v", "w", "z"]], []],
        [5, ["a", "b", "c"], [5, ["c", "b", "a"]], [["x", 5, 0, ["a", "c"]], ["q", 1, 1, ["b"]]]],
    ]


def rand_cfg(rng, tag):
    na = rng.range(1, 4)
    apps = ["a%d" % i for i in range(na)]
    names = rng.shuffle(["x", "x::y", "x::y::z", "q", "x::w"])[: rng.range(0, 3)]
    loggers = [[n, rng.choice([1, 3, 5, 5]), rng.below(2), [rng.choice(apps) for _ in range(rng.range(0, 3))]]
               for n in names]
    return [tag, apps, [rng.choice([0, 3, 5, 5]), [rng.choice(apps) for _ in range(rng.range(0, 3))]], loggers]


def reentrant_cases():
    out = []
    pool = cfg_pool()
    for oi, old in enumerate(pool):
        for ni, new in enumerate(pool):
            if oi == ni:
                continue
            for t in PROBE_T:
                for pos in range(len(old[1])):
                    reent = [[old[0], pos, 0, 0, ni]]
                    prog = [[0, t, 1], [0, t, 1]]
                    out.append([0, pool, oi, reent, [prog], []])
    return out


def position_cases():
    """another thread's set_config at every position of a fan-out"""
    out = []
    pool = cfg_pool()
    for oi in (0, 3, 4):
        for ni in range(len(pool)):
            if ni == oi:
                continue
            for t in ("", "x"):
                for k in range(0, 8):
                    for second in (0, 1):
                        t1 = [[1, ni]] + ([[0, t, 1]] if second else [])
                        sched = [0] * k + [1] * (3 if second else 1)
                        out.append([0, pool, oi, [], [[[0, t, 1], [0, t, 2]], t1], sched])
    return out


def random_sched(rng):
    pool = cfg_pool() + [rand_cfg(rng, 6), rand_cfg(rng, 7)]
    nt = rng.range(1, 3)
    init = rng.below(len(pool))
    progs = []
    for _t in range(nt):
        prog = []
        for _k in range(rng.range(1, 4)):
            if rng.chance(2, 3):
                p = rng.choice(PROBES)
                prog.append([0, p[0], p[1]])
            else:
                prog.append([1, rng.below(len(pool))])
        progs.append(prog)
    reent = []
    for _ in range(rng.range(0, 3)):
        tid = rng.below(nt)
        k = rng.below(len(progs[tid]))
        src = pool[init] if rng.chance(2, 3) else rng.choice(pool)
        e = [src[0], rng.below(len(src[1])), tid, k, rng.below(len(pool))]
        if not any(x[:4] == e[:4] for x in reent):
            reent.append(e)
    sched = [rng.below(nt + (1 if rng.chance(1, 10) else 0)) for _ in range(rng.range(0, 30))]
    return [0, pool, init, reent, progs, sched]


def drop_cases():
    pool = cfg_pool()
    out = []
    for oi in range(len(pool)):
        for ni in range(len(pool)):
            if oi != ni:
                for p in (["", 1], ["x::y", 2]):
                    out.append([2, pool, oi, ni, p])
    return out


def stress_case(rng, tier, n):
    # every probe reaches >= 1 appender in every shape (so a record delivered nowhere is a finding)
    shapes = [
        [0, ["a", "b", "c"], [5, ["a", "b"]], [["x", 5, 1, ["c"]], ["x::y", 5, 1, ["b"]]]],
        [1, ["p", "q"], [5, ["q", "p", "q"]], [["x", 5, 0, ["p"]]]],
        [2, ["a", "b", "c", "d"], [5, ["d"]], [["x::y", 5, 1, ["a", "b", "c"]], ["q", 5, 0, ["c", "a"]]]],
        [3, ["a", "b", "c"], [5, ["c", "a"]], [["x", 5, 1, ["b", "b"]], ["x::y", 5, 0, ["a", "b", "c"]]]],
    ]
    shapes = shapes[: rng.range(3, 4)]
    min_rec = 3000 if tier == "quick" else 30000
    swaps = 600 if tier == "quick" else 5000
    return [1, shapes, [[t, 1] for t in PROBE_T], [4, 2, min_rec, swaps, n]]


def stress_levels_case(rng, tier, n):
    """as stress_case, but the configurations differ in their THRESHOLDS and the probes cover three levels:
    a record whose level is judged by one configuration and whose fan-out comes from another one shows up
    as a delivery that is the route of neither (e.g. an enabled() pre-check with its own snapshot load)"""
    shapes = [
        [0, ["a", "b", "c"], [5, ["a"]], [["x", 1, 1, ["b"]], ["x::y", 5, 1, ["c"]]]],
        [1, ["a", "b", "c"], [1, ["b"]], [["x", 5, 0, ["c"]], ["q", 3, 1, ["a"]]]],
        [2, ["a", "b", "c"], [3, ["c", "a"]], [["x", 3, 1, ["a"]], ["x::y", 1, 0, ["b"]]]],
    ]
    min_rec = 3000 if tier == "quick" else 30000
    swaps = 600 if tier == "quick" else 5000
    return [1, shapes, [list(p) for p in PROBES], [4, 2, min_rec, swaps, n]]


# ----------------------------------------------------------------------------- Part B data
RATES = [20, 35, 50]
LOCKSTEP_RATES = [[0, 20, 86400000], [1000, 0, 7], [86400000, 1, 0], [30, 31, 32]]


def text_of(fmt, tag, rate, variant=0):
    if variant == 1:
        # a second appender of an unknown kind: reported and dropped (lossy), the rest is installed
        if fmt == 0:
            s = "refresh_rate: %dms\n" % rate if rate is not None else ""
            return s + ("appenders:\n  a:\n    kind: tag\n    tag: %d\n  b:\n    kind: nosuchkind\n"
                        "root:\n  level: trace\n  appenders:\n    - a\n    - b\n" % tag)
        if fmt == 1:
            r = '"refresh_rate":"%dms",' % rate if rate is not None else ""
            return ('{%s"appenders":{"a":{"kind":"tag","tag":%d},"b":{"kind":"nosuchkind"}},'
                    '"root":{"level":"trace","appenders":["a","b"]}}' % (r, tag))
        r = 'refresh_rate = "%dms"\n' % rate if rate is not None else ""
        return ('%s[appenders.a]\nkind = "tag"\ntag = %d\n[appenders.b]\nkind = "nosuchkind"\n'
                '[root]\nlevel = "trace"\nappenders = ["a", "b"]\n' % (r, tag))
    if fmt == 0:
        s = ""
        if rate is not None:
            s += "refresh_rate: %dms\n" % rate
        s += "appenders:\n  a:\n    kind: tag\n    tag: %d\nroot:\n  level: trace\n  appenders:\n    - a\n" % tag
        return s
    if fmt == 1:
        r = '"refresh_rate":"%dms",' % rate if rate is not None else ""
        return '{%s"appenders":{"a":{"kind":"tag","tag":%d}},"root":{"level":"trace","appenders":["a"]}}' % (r, tag)
    r = 'refresh_rate = "%dms"\n' % rate if rate is not None else ""
    return '%s[appenders.a]\nkind = "tag"\ntag = %d\n[root]\nlevel = "trace"\nappenders = ["a"]\n' % (r, tag)


BROKEN = {
    0: ["appenders: [unclosed\n", "root:\n  level: nosuchlevel\n", "bogus_field: 1\n", "refresh_rate: soon\n",
        "appenders:\n  a:\n    tag: 3\n"],
    1: ["{", '{"root":{"level":"nosuchlevel"}}', '{"bogus_field":1}', '{"refresh_rate":"soon"}', "[1,2"],
    2: ["= =", '[root]\nlevel = "nosuchlevel"\n', "bogus_field = 1\n", 'refresh_rate = "soon"\n', "[root"],
}

ACTIONS = ["valid-change", "no-change", "touch-only", "syntax-error", "deletion", "rate-change", "rate-removal",
           "revert", "unreadable", "same-mtime-edit", "valid-change-with-undeserialisable-extra-appender",
           "rate-change-with-undeserialisable-extra-appender", "rate-removal-with-undeserialisable-extra-appender",
           "valid-change-carrying-an-OLDER-mtime (rollback / timestamp-preserving copy)"]


def build_history(fmt, actions, kind=3, RATES=None, link=0):
    """turn abstract edit actions into concrete file states + the parse table"""
    RATES = RATES or globals()["RATES"]
    texts = []      # [bytes, ok, tag, hasrate, rate]

    def tid_of(s, ok, tag, rate):
        b = s.encode()
        for i, t in enumerate(texts):
            if t[0] == b:
                return i
        texts.append([b, 1 if ok else 0, tag if ok else 0, 1 if (ok and rate is not None) else 0,
                      rate if (ok and rate is not None) else 0])
        return len(texts) - 1

    tag, rate = 1, RATES[0]
    t0 = tid_of(text_of(fmt, tag, rate), True, tag, rate)
    m = 1
    cur = [2, m, t0]          # current file state
    next_tag = 2
    nbroken = 0
    steps = []
    for a in actions:
        if a == 0 or (a == 9 and cur[0] != 2):
            tag = next_tag
            next_tag += 1
            m += 1
            cur = [2, m, tid_of(text_of(fmt, tag, rate), True, tag, rate)]
        elif a == 1:
            pass
        elif a == 2:
            if cur[0] != 0:
                m += 1
                cur = [cur[0], m] + cur[2:]
        elif a == 3:
            s = BROKEN[fmt][nbroken % len(BROKEN[fmt])]
            nbroken += 1
            m += 1
            cur = [2, m, tid_of(s, False, 0, None)]
        elif a == 4:
            cur = [0]
        elif a == 5:
            rate = RATES[(RATES.index(rate) + 1) % len(RATES)] if rate is not None else RATES[1]
            m += 1
            cur = [2, m, tid_of(text_of(fmt, tag, rate), True, tag, rate)]
        elif a == 6:
            rate = None
            m += 1
            cur = [2, m, tid_of(text_of(fmt, tag, rate), True, tag, rate)]
        elif a == 7:
            tag, rate = 1, RATES[0]
            m += 1
            cur = [2, m, t0]
        elif a == 8:
            m += 1
            cur = [1, m]
        elif a == 9:
            tag = next_tag
            next_tag += 1
            cur = [2, cur[1], tid_of(text_of(fmt, tag, rate), True, tag, rate)]
        elif a == 10:
            tag = next_tag
            next_tag += 1
            m += 1
            cur = [2, m, tid_of(text_of(fmt, tag, rate, 1), True, tag, rate)]
        elif a in (11, 12):
            # ONE edit that both changes / removes the refresh rate and adds an appender that cannot be built
            rate = (RATES[(RATES.index(rate) + 1) % len(RATES)] if rate is not None else RATES[1]) if a == 11 else None
            tag = next_tag
            next_tag += 1
            m += 1
            cur = [2, m, tid_of(text_of(fmt, tag, rate, 1), True, tag, rate)]
        elif a == 13:
            # a different version whose mtime is OLDER than the one the reloader last saw
            tag = next_tag
            next_tag += 1
            old_m = (cur[1] - 1) if (cur[0] != 0 and cur[1] >= 1) else None
            if old_m is None:
                m += 1
                old_m = m
            cur = [2, old_m, tid_of(text_of(fmt, tag, rate), True, tag, rate)]
        steps.append(list(cur))
    return [kind, fmt, texts, [1, t0], steps, list(actions)] + ([link] if kind == 6 else [])


LIVE = [[3, 0], [4, 0], [6, 0], [5, 0], [2, 0], [8, 0], [0, 3, 7], [3, 4, 3, 0], [0, 6, 0, 7], [3, 3, 0, 2],
        [4, 4, 7, 0], [5, 3, 0]]


def facade_pool():
    return [
        [1, ["a", "b"], [3, ["a"]], [["x", 3, 1, ["b"]]]],
        [2, ["a", "b"], [3, ["a"]], [["x", 5, 1, ["b"]]]],                      # same root, child more verbose
        [3, ["a", "b"], [3, ["a"]], [["x", 1, 1, []], ["x::y", 5, 0, ["b"]]]],  # same root, deep child verbose
        [4, ["a", "b"], [1, ["a"]], [["x", 1, 1, ["b"]]]],
        [5, ["a"], [5, ["a"]], []],
        [6, ["a"], [0, ["a"]], [["q", 4, 1, ["a"]]]],                           # root off, one child on
        [7, ["a", "b", "c"], [3, ["a"]], [["x", 3, 1, ["b"]], ["q", 5, 0, ["c", "a"]]]],
    ]


FACADE_PROBES = [[t, l] for t in PROBE_T for l in (1, 2, 3, 4, 5)]


def facade_cases(rng, tier):
    pool = facade_pool()
    out = []
    for i in range(len(pool)):
        for j in range(len(pool)):
            if i != j:
                out.append([5, pool, [i, j], FACADE_PROBES])
    for _ in range(8 if tier == "quick" else 60):
        out.append([5, pool, [rng.below(len(pool)) for _ in range(rng.range(3, 6))], FACADE_PROBES])
    return out


def cases(rng, tier):
    out = []
    out += facade_cases(rng, tier)
    out += reentrant_cases()
    # the same scenarios with appender 0 FAILING after its work and a recording error handler on the initial logger
    out += [c + [1] for c in reentrant_cases()[::3]] + [c + [1] for c in position_cases()[::4]]
    out += position_cases()
    out += drop_cases()
    for _ in range(1500 if tier == "quick" else 20000):
        out.append(random_sched(rng))
    for n in range(3 if tier == "quick" else 12):
        out.append(stress_case(rng, tier, n))
    for n in range(2 if tier == "quick" else 8):
        out.append(stress_levels_case(rng, tier, 100 + n))
    depth = 4 if tier == "quick" else 6
    for acts in itertools.product(range(8), repeat=depth):
        out.append(build_history(0, acts))
    for acts in itertools.product([0, 11, 12, 13, 3, 4], repeat=3):
        if any(a >= 11 for a in acts):
            out.append(build_history(len(out) % 3, list(acts)))
    for _ in range(600 if tier == "quick" else 20000):
        acts = [rng.choice([0, 0, 1, 2, 3, 4, 5, 6, 7, 8, 8, 9, 9, 10, 11, 12, 13, 13]) for _ in range(rng.range(1, 8))]
        out.append(build_history(rng.below(3), acts))
    for acts in LIVE:
        out.append(build_history(0, acts, kind=4))
    # kind 6: the real init_file + the real refresh thread, polled in lock step through the reloader_sleep hook:
    # every history of 3 (quick) edits over the 9 basic actions, all formats in turn, refresh rates that
    # include 0 ms and a day (the thread never really sleeps), half of them with the config path a symbolic link
    # that is re-pointed at every edit
    n6 = 0
    for acts in itertools.product(range(9), repeat=3 if tier == "quick" else 4):
        if tier == "quick" and n6 % 3 and not (3 in acts or 4 in acts or 8 in acts):
            n6 += 1
            continue
        n6 += 1
        # flags: 1 = config path is a re-pointed symbolic link; 2 = the first edit happens DURING init_file (while it
        # builds the components, after it has read the text): init_file pairs the text it read with the modification
        # time of that moment, so the thread's first poll sees the edit
        out.append(build_history(n6 % 3, list(acts), kind=6, RATES=LOCKSTEP_RATES[n6 % len(LOCKSTEP_RATES)],
                                 link=(n6 // 3) % 2 + 2 * ((n6 // 6) % 2) + 4 * ((n6 // 2) % 2)))
    for _ in range(60 if tier == "quick" else 1500):
        acts = [rng.choice([0, 0, 1, 2, 3, 3, 4, 5, 6, 7, 8, 9, 10, 11, 12, 13]) for _ in range(rng.range(4, 9))]
        out.append(build_history(rng.below(3), acts, kind=6, RATES=rng.choice(LOCKSTEP_RATES), link=rng.below(8)))
    for _ in range(6 if tier == "quick" else 40):
        acts = [rng.choice([0, 0, 2, 3, 4, 5, 6, 7, 8]) for _ in range(rng.range(2, 4))]
        out.append(build_history(rng.below(3), acts, kind=4))
    # kind 7: flush passes during which configurations are installed - by the appender being flushed (re-entrant) or
    # by another thread before that appender's flush() returns; every (n, position, kind, m) for small n, m, then
    # passes with several installs
    for n in range(0, 5):
        out.append([7, 50, n, []])
        for pos in range(n):
            for kind in (0, 1):
                for m in (0, 1, 3, 6):
                    out.append([7, 50, n, [[pos, kind, 60 + pos, m]]])
    for _ in range(40 if tier == "quick" else 600):
        n = rng.range(2, 6)
        poss = rng.shuffle(list(range(n)))[:rng.range(2, min(n, 4))]
        out.append([7, 50, n, [[p, rng.below(2), 60 + j, rng.below(7)] for j, p in enumerate(sorted(poss))]])
    # kind 6, long outages: the file is missing / unreadable for 255 .. 700 polls in a row, then a valid version
    # appears: the thread has kept polling all the time and applies it (any count of consecutive failures narrower
    # than the outage shows)
    for n, fill in ((255, [4]), (256, [8]), (257, [4, 8]), (300, [4])) if tier == "quick" else ((255, [4]), (256, [8]), (257, [4, 8]), (300, [4]), (700, [8, 4, 4])):
        acts = [fill[i % len(fill)] for i in range(n)] + [0, 1]
        out.append(build_history(n % 3, acts, kind=6, RATES=LOCKSTEP_RATES[n % len(LOCKSTEP_RATES)], link=n % 2))
    return out


# ----------------------------------------------------------------------------- running
def run_impl(ctx, cases, lines):
    vc = ctx["vc"]
    vh = ctx["vh"]
    live = [i for i, c in enumerate(cases) if c[0] in (4, 6)]
    glob = [i for i, c in enumerate(cases) if c[0] == 5]
    rest = [i for i, c in enumerate(cases) if c[0] not in (4, 5, 6)]
    res = [None] * len(cases)
    # independent cases: several harness processes side by side (the stress runs get their own)
    nw = 6
    chunks = [[i for i in rest if cases[i][0] == 1]] + [[] for _ in range(nw)]
    for n, i in enumerate(i for i in rest if cases[i][0] != 1):
        chunks[1 + n % nw].append(i)
    chunks = [ch for ch in chunks if ch]

    def batch(ch):
        return vc.run_lines([vh], [lines[i] for i in ch], timeout_per_batch=2400)

    with ThreadPoolExecutor(max_workers=len(chunks) or 1) as ex:
        for ch, got in zip(chunks, ex.map(batch, chunks)):
            for i, g in zip(ch, got):
                res[i] = g
    hung = [0]   # children that hung so far; after 3 the rest is not started (bounds the run's duration)

    if glob:
        def child(i):
            if hung[0] >= 3:
                return "xskipped"
            try:
                p = subprocess.run([vh, "facade"], input=(lines[i] + "\n").encode(), stdout=subprocess.PIPE,
                                   stderr=subprocess.PIPE, timeout=60, env=vc.ENV)
            except subprocess.TimeoutExpired:
                hung[0] += 1
                return "xhang"
            o = p.stdout.decode("utf-8", "replace").strip().split("\n")
            return o[-1] if o and o[-1] else "xabort"

        with ThreadPoolExecutor(max_workers=8) as ex:
            for i, r in zip(glob, ex.map(child, glob)):
                res[i] = r
    if live:
        # the model says what to wait for (bounded waits only; the comparison is done by the check)
        exp = vc.run_lines([ctx["drv"]], [as_model_line(vc, cases[i], lines[i]) for i in live], timeout_per_batch=300,
                           crash_marker="xmodelcrash")

        def one(j):
            i = live[j]
            if hung[0] >= 3:
                return "xskipped"
            try:
                mv = vc.parse(exp[j])
                # kind 6: (stopped ...) per edit, in the layout of kind 3's (err stopped ...) the child reads
                want = [[p[3], p[4]] for p in mv[1]] if cases[i][0] == 4 else [[0] + list(p) for p in mv[1:]]
            except Exception:
                return "xmodelcrash"
            data = (lines[i] + "\n" + vc.show(want) + "\n").encode()
            try:
                # kind 6, flag 4: the process's stderr cannot be written (/dev/full): reporting a failed poll fails too,
                # which is nobody else's business - the thread keeps polling
                full = cases[i][0] == 6 and len(cases[i]) > 6 and cases[i][6] & 4
                with (open("/dev/full", "wb") if full else open(os.devnull, "wb")) as errf:
                    p = subprocess.run([vh, "live" if cases[i][0] == 4 else "live2"], input=data, stdout=subprocess.PIPE,
                                       stderr=errf, timeout=120, env=vc.ENV)
            except subprocess.TimeoutExpired:
                hung[0] += 1
                return "xhang"
            o = p.stdout.decode("utf-8", "replace").strip().split("\n")
            return o[-1] if o and o[-1] else "xabort"

        with ThreadPoolExecutor(max_workers=8) as ex:
            for j, r in enumerate(ex.map(one, range(len(live)))):
                res[live[j]] = r
    return res


def as_model_line(vc, c, ln):
    if c[0] == 0 and len(c) > 6:
        return vc.show(c[:6])
    return ln


def model_lines(ctx, cases, lines, impl_lines):
    """kind 0 with a failing appender / recording error handler (7th component): the routing model is the same;
    kind 6 (lock-step refresh thread): the model's stepped reloader"""
    vc = ctx["vc"]
    return [as_model_line(vc, c, ln) for c, ln in zip(cases, lines)]


# ----------------------------------------------------------------------------- judging
def handler_oracle(c, impl):
    """kind 0, 7th component set: appender 0 of every configuration fails after its work, the INITIAL logger was built
    with its own error handler.  A failure is reported by the handler of the snapshot that routed the record: every
    delivery to appender 0 under the initial configuration - and no other - shows up as one handler call, also when
    the configuration was replaced (re-entrantly, or by another thread) while the record was in flight."""
    init_tag = c[1][c[2]][0]
    installed = {c[1][r[4]][0] for r in c[3]} | {c[1][op[1]][0] for prog in c[4] for op in prog if op[0] == 1}
    if init_tag in installed:
        return None          # the initial configuration is installed again later: its tag is ambiguous
    want = sorted((e[1], e[2], e[3], e[4]) for e in impl if isinstance(e, list) and e and e[0] == 1 and e[3] == init_tag and e[4] == 0)
    got = sorted((e[1], e[2], e[3], e[4]) for e in impl if isinstance(e, list) and e and e[0] == 5)
    if want != got:
        return ("error handler calls of the initial logger (thread, record, config, appender) %r; the failed deliveries "
                "routed under that logger's configuration are %r" % (got, want))
    return None


def _canon(ev, with_tag):
    recs = {}
    stores = []
    panics = []
    for e in ev:
        if e[0] == 0:
            recs.setdefault((e[1], e[2]), [[], 0])
        elif e[0] == 1:
            recs.setdefault((e[1], e[2]), [[], 0])[0].append((e[3], e[4]))
        elif e[0] == 2:
            recs.setdefault((e[1], e[2]), [[], 0])[1] += 1
        elif e[0] == 3:
            stores.append(e[1])
        elif e[0] == 4:
            panics.append(e[1])
    return ({k: (sorted(v[0]), v[1]) for k, v in recs.items()}, stores, sorted(panics))


def compare(c, impl, model):
    k = c[0]
    if not isinstance(impl, list):
        return "implementation did not produce a result: %r" % (impl,)
    if k == 7:
        if impl != model:
            return ("flush passes over a configuration of %d appenders with installs %r (pos, 0 re-entrant / 1 other thread, "
                    "table, #appenders): flush calls (table, index) of the two passes = %r, one-snapshot passes prescribe %r"
                    % (c[2], c[3], impl, model))
        return None
    if k == 0:
        if len(c) > 6 and c[6] == 1:
            d = handler_oracle(c, impl)
            if d:
                return d
        ri, si, pi = _canon(impl, False)
        rm, sm, pm = _canon(model, True)
        if pi:
            return "thread(s) %r panicked" % (pi,)
        for rid in sorted(set(ri) | set(rm)):
            a, b = ri.get(rid), rm.get(rid)
            if a is None or b is None:
                return "record %r: logged in impl=%r model=%r" % (rid, a is not None, b is not None)
            tags = sorted(set(t for t, _ in a[0]))
            if len(tags) > 1:
                return "record %r was delivered under a MIXTURE of configurations %r: %r" % (rid, tags, a[0])
            if a != b:
                return "record %r: deliveries (tag, appender) %r, one-snapshot routing prescribes %r" % (rid, a[0], b[0])
        if si != sm:
            return "sequence of stored configurations %r, model %r" % (si, sm)
        return None
    if k == 1:
        obs, (late, panics, records, swaps, probes_bad) = impl
        routes = {cfg[0]: cfg[1] for cfg in model}
        if panics:
            return "%d thread panics during the stress run" % panics
        for pi, shapes, idx, cnt in obs:
            if len(shapes) > 1:
                return ("probe %r: %d record(s) delivered under a MIXTURE of configurations %r (appenders %r)"
                        % (c[2][pi], cnt, shapes, idx))
            if len(shapes) == 0:
                if not any(r[pi] == [] for r in routes.values()):
                    return "probe %r: %d record(s) delivered to nobody; every configuration routes it somewhere" % (
                        c[2][pi], cnt)
            elif routes[shapes[0]][pi] != idx:
                return "probe %r under config %d: delivered to appenders %r, its route is %r (%d records)" % (
                    c[2][pi], shapes[0], idx, routes[shapes[0]][pi], cnt)
        if late:
            return "%d record(s) used a configuration older than one whose set_config had already returned" % late
        if probes_bad:
            return "%d probe record(s) logged right after set_config returned did not use the new configuration" % probes_bad
        if records < c[3][0] * c[3][2]:
            return "stress run logged only %d records" % records
        return None
    if k == 2:
        return None if impl == model else "records logged from the old appenders' Drop during set_config: %r, expected %r" % (impl, model)
    if k == 3:
        if impl[0] != model[0]:
            return "parse table differs: real crate %r, generator claims %r" % (impl[0], model[0])
        for n, (a, b) in enumerate(zip(impl[1], model[1])):
            if a != b:
                return ("poll %d (%s): (err stopped rate active nset) = %r, model %r"
                        % (n + 1, ACTIONS[c[5][n]] if n < len(c[5]) else "?", a, b))
        return None if len(impl[1]) == len(model[1]) else "number of polls differs"
    if k == 6:
        where = "real init_file + refresh thread in lock step%s" % ((", config path a re-pointed symbolic link" if c[6] & 1 else "") + (", first edit made during init_file" if c[6] & 2 else "") + (", stderr unwritable" if c[6] & 4 else ""))
        if not impl or not model:
            return "%s: no observation" % where
        if impl[0] != model[0]:
            return "%s: first sleep (0 interval | 1 = no thread) %r, model (Reloader.init_file / sleeps) %r" % (where, impl[0], model[0])
        for n, (a, b) in enumerate(zip(impl[1:], model[1:])):
            act = ACTIONS[c[5][n]] if n < len(c[5]) else "?"
            if a != b:
                return "%s, poll %d (%s): (stopped, interval asked for, active config, #set_config) = %r, model %r" % (
                    where, n + 1, act, a, b)
        return None if len(impl) == len(model) else "number of polls differs"
    if k == 4:
        want = [[p[3], p[4]] for p in model[1]]
        for n, (a, b) in enumerate(zip(impl, want)):
            if a != b:
                return ("live reloader after edit %d (%s): (active config, #set_config) = %r, model %r"
                        % (n + 1, ACTIONS[c[5][n]] if n < len(c[5]) else "?", a, b))
        return None if len(impl) == len(want) else "number of observations differs"
    if k == 5:
        if len(impl) != len(model):
            return "number of steps differs: impl %d, model %d" % (len(impl), len(model))
        for n, (a, b) in enumerate(zip(impl, model)):
            for (t, l), x, y in zip(c[3], a, b):
                if sorted(x) != sorted(y):
                    return ("after %s of config #%d returned, record (target %r, level %d) logged through log! was "
                            "delivered to (config, appender) %r; the new configuration alone prescribes %r"
                            % ("set_config" if n else "init_config", c[1][c[2][n]][0], t, l, x, y))
        return None
    return "unknown case kind"


def nontrivial(c):
    k = c[0]
    if k == 0:
        return bool(c[3]) or any(op[0] == 1 for p in c[4] for op in p)
    if k in (1, 2):
        return True
    if k == 5:
        return len(c[2]) > 1
    if k == 7:
        return bool(c[3])
    return any(a not in (1,) for a in c[5])


def classify(c):
    k = c[0]
    if k == 0:
        return "sched threads=%d reent=%d" % (len(c[4]), min(len(c[3]), 1))
    if k == 1:
        return "stress"
    if k == 2:
        return "drop-probe"
    if k == 5:
        return "global-facade swaps=%d" % (len(c[2]) - 1)
    if k == 7:
        return "flush-pass installs=%d" % len(c[3])
    return "%s fmt=%s len=%d" % ({3: "reload-step", 6: "reload-lockstep-thread"}.get(k, "reload-live"), ["yaml", "json", "toml"][c[1]], len(c[4]))


def describe(c):
    k = c[0]
    if k == 0:
        return {"kind": "scheduled threads", "initial_config": c[1][c[2]][0],
                "reentrant_swaps(tag,appender,thread,op,newcfg)": c[3], "programs": [
                    [("log %s@%d" % (o[1], o[2])) if o[0] == 0 else ("set_config #%d" % o[1]) for o in p] for p in c[4]],
                "schedule": c[5]}
    if k == 1:
        return {"kind": "stress", "shapes": len(c[1]), "params(loggers,swappers,min_records,swaps,run)": c[3]}
    if k == 2:
        return {"kind": "drop probe", "old": c[2], "new": c[3], "probe": c[4]}
    if k == 7:
        return {"kind": "flush pass, then a second one", "appenders": c[2],
                "installs(position, 0 by the appender itself / 1 by another thread, table, appenders)": c[3]}
    if k == 5:
        return {"kind": "global logger behind the log facade", "config_sequence": [c[1][i][0] for i in c[2]],
                "configs": c[1], "probes": len(c[3])}
    return {"kind": "reloader " + {3: "stepped", 6: "real refresh thread in lock step (reloader_sleep hook)"}.get(k, "live thread"), "format": ["yaml", "json", "toml"][c[1]],
            "edits": [ACTIONS[a] for a in c[5]], "file_states": c[4]}
